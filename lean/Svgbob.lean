import Svgbob.Model.Basic
import Svgbob.Model.Parser
import Svgbob.Model.Front

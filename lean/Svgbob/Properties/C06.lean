import Svgbob.Proofs.Shift
import Svgbob.Proofs.ForestMove
import Svgbob.Proofs.NodeMove
import Svgbob.Proofs.WholeMove
import Svgbob.Proofs.MoveAll2
import Svgbob.Proofs.FrontShift
/-!
# C06 — moving a drawing on the page only translates its rendering

Translation equivariance of the model (`(k, n)` = offset in cells, any integers). The main
theorem is `whole_middle_equivariant`: the complete middle of the pipeline (`endorseAll`: spans,
catalogue circles and arcs, per-cell fragments from the tables, the ordered fragment buffer, the
fragment merge, contact grouping, rectangle and rounded-rectangle endorsement, re-endorsement of
the rejects, singles/groups split, quoted texts) applied to the moved cells gives exactly the moved
result, element by element and in the same order. It is composed from the stage theorems below
(every predicate the stages evaluate is a function of coordinate differences; cell-local table
lookups see the same neighbourhood) and from an invariant (`Frag.Movable`: no polygon without
points, decided over the regenerated tables and preserved by every merge).
The front end is covered at the level of rows (`rows_to_fragments_equivariant`: `n` blank rows in
front and every non-empty row indented by `k` blanks, quoted regions included, give the moved cells
and quoted texts and hence the moved fragments; the environment must say that a blank is white space
and one column wide). The back end is `document_of_the_moved_drawing` (`Proofs/NodeMove`): the
document built from the moved cells, fragments and groups has a canvas grown by `scale·(k, 2n)` cells
and, node for node and in the same order, the old drawing with exactly that offset added to every
abscissa / ordinate (`Node.moveNum`) — kinds, classes, sizes, radii, flags, texts, nesting, the style
sheet and the marker definitions are the same. `moving_the_text_moves_the_document` composes all of
it for the whole conversion of the model (`Model/Convert.convertDoc`, the function the driver
serializes for the byte-level correspondence): the text with `n` line feeds in front and `k` blanks
at the start of every line (`shiftText`) converts to the same document parts moved by
`scale·(k, 2n)` cells — for every text without `#` (no legend marker before or after the move; a
legend block is not moved with the drawing) that has at least one occupied cell. The shift oracle
checks the implementation at offsets up to (400, 200), and the model is tied to the implementation
byte-for-byte there.
-/
namespace Svgbob.C06
open Svgbob

/-- **the whole middle of the pipeline is translation equivariant**: for every catalogue, every
cell set and every list of quoted texts -/
theorem whole_middle_equivariant (len : List Char → Nat) (cat : Catalogue) (k n : Int)
    (cells : Span) (escaped : List (Cell × List Char)) :
    endorseAll len cat (Span.shift k n cells) (escaped.map fun e => (e.1.shift k n, e.2)) =
      (endorseAll len cat cells escaped).map (moveResult k n) :=
  endorseAll_shift len cat k n cells escaped

/-- **rows of text to fragments**: a drawing moved by `k` columns and `n` rows in the text (blank
rows in front, every non-empty row indented) yields exactly the moved fragments and groups -/
theorem rows_to_fragments_equivariant (env : Env) (h : env.SpaceOk) (len : List Char → Nat)
    (cat : Catalogue) (k n : Nat) (rows : List (List Char)) :
    endorseAll len cat (rowsFront env 0 (List.replicate n [] ++ rows.map (indentRow k))).1
        (rowsFront env 0 (List.replicate n [] ++ rows.map (indentRow k))).2 =
      (endorseAll len cat (rowsFront env 0 rows).1 (rowsFront env 0 rows).2).map (moveResult k n) := by
  rw [rowsFront_place env h k n rows]
  exact endorseAll_shift len cat k n _ _

/-- the front end alone: cells and quoted texts of the moved rows -/
theorem front_rows_equivariant (env : Env) (h : env.SpaceOk) (k n : Nat) (rows : List (List Char)) :
    rowsFront env 0 (List.replicate n [] ++ rows.map (indentRow k)) =
      (Span.shift k n (rowsFront env 0 rows).1,
       (rowsFront env 0 rows).2.map fun e => (e.1.shift k n, e.2)) :=
  rowsFront_place env h k n rows

/-- the hypothesis on the environment is satisfiable: blanks are white space of width one -/
example : (⟨fun _ => some 1, fun c => c == ' '⟩ : Env).SpaceOk := ⟨rfl, rfl⟩

/-- what "moved" means for the result: every top-level fragment and every fragment of every group
has its points offset by `(1000 k, 2000 n)` milli-units (texts: their cell by `(k, n)`), its span
by `(k, n)` cells; nothing else changes (kinds, flags, radii, order) -/
theorem moved_result_shape (k n : Int) (r : List FragSpan × List (List FragSpan)) :
    (moveResult k n r).1.length = r.1.length ∧ (moveResult k n r).2.map List.length = r.2.map List.length := by
  simp [moveResult, List.map_map, Function.comp_def]

/-- the two endorsement steps separately -/
theorem span_endorsement_equivariant (len : List Char → Nat) (cat : Catalogue) (k n : Int) (s : Span) :
    spanEndorse len cat (Span.shift k n s) = (spanEndorse len cat s).map (moveEndorsed k n) :=
  spanEndorse_shift len cat k n s

theorem contact_groups_equivariant (len : List Char → Nat) (k n : Int) (s : Span) :
    contactsOf len (Span.shift k n s) = (contactsOf len s).map (List.map (FragSpan.move k n)) :=
  contactsOf_shift len k n s

/-- rectangle endorsement of a contact group (sharp and rounded) -/
theorem rect_endorsement_equivariant (k n : Int) (frags : List Frag) (h : ∀ f ∈ frags, f.Movable) :
    contactsEndorseRect (frags.map (Frag.move k n)) = (contactsEndorseRect frags).map (Frag.move k n) :=
  contactsEndorseRect_move k n frags h

/-- the hypothesis of the previous theorem holds for everything the pipeline builds -/
theorem pipeline_fragments_movable (len : List Char → Nat) (s : Span) :
    ∀ g ∈ contactsOf len s, ∀ f ∈ g, f.frag.Movable := contactsOf_movable len s

/-- adjacency of cells does not depend on where they are -/
theorem adjacency_translation_invariant (k n : Int) (a b : Cell) :
    (a.shift k n).isAdjacent (b.shift k n) = a.isAdjacent b := Cell.isAdjacent_shift k n a b

/-- **spans**: grouping the cells of a moved drawing gives the moved groups, in the same order -/
theorem spans_equivariant (k n : Int) (items : List Span) :
    spansOf (items.map (Span.shift k n)) = (spansOf items).map (Span.shift k n) :=
  spansOf_shift k n items

/-- **one merge step**: merging two moved fragments gives the moved merge (or fails alike) -/
theorem fragment_merge_equivariant (len : List Char → Nat) (k n : Int) (a b : Frag) :
    Frag.merge len (a.move k n) (b.move k n) = (Frag.merge len a b).map (Frag.move k n) :=
  Frag.merge_move len k n a b

/-- **the fragment merge of a scope**: same groups, same order, every line/marker/text moved -/
theorem fragment_merge_recursive_equivariant (len : List Char → Nat) (k n : Int) (fuel : Nat)
    (frags : List FragSpan) :
    G.mergeRec (FragSpan.merge len) fuel (frags.map (FragSpan.move k n)) =
      (G.mergeRec (FragSpan.merge len) fuel frags).map (FragSpan.move k n) :=
  mergeFragments_move len k n fuel frags

/-- the geometric predicates are functions of differences -/
theorem predicates_translation_invariant (d s e s' e' p : Pt) :
    onSegment (d.add s) (d.add e) (d.add p) = onSegment s e p ∧
    isCollinear (d.add s) (d.add e) (d.add p) = isCollinear s e p ∧
    lineCanMerge (d.add s) (d.add e) (d.add s') (d.add e') = lineCanMerge s e s' e' ∧
    lineHeading (d.add s) (d.add e) = lineHeading s e ∧
    Pt.dist2 (d.add s) (d.add e) = Pt.dist2 s e :=
  ⟨onSegment_add d s e p, isCollinear_add d s e p, lineCanMerge_add d s e s' e',
   lineHeading_add d s e, dist2_add d s e⟩

/-! Tests (labelled as tests): a 3x3 box becomes one rect at the origin and, moved by (7, 3) cells, the
moved rect (empty catalogue; the instance of `whole_middle_equivariant` evaluated by the kernel). -/
def testCells : Span := [(⟨0,0⟩,'+'),(⟨1,0⟩,'-'),(⟨2,0⟩,'+'),(⟨0,1⟩,'|'),(⟨2,1⟩,'|'),(⟨0,2⟩,'+'),(⟨1,2⟩,'-'),(⟨2,2⟩,'+')]
example : ((endorseAll (fun c => c.length) ⟨[], [], [], []⟩ testCells []).map fun r => r.1.map (·.frag)) =
    some [.rect ⟨500, 1000⟩ ⟨2500, 5000⟩ false none false] := by decide +kernel
example : ((endorseAll (fun c => c.length) ⟨[], [], [], []⟩ (Span.shift 7 3 testCells) []).map fun r => r.1.map (·.frag)) =
    some [.rect ⟨7500, 7000⟩ ⟨9500, 11000⟩ false none false] := by decide +kernel

/-! Test (labelled as test): a diagonal piece pair far from the origin merges like at the origin. -/
example : Frag.merge (fun c => c.length) (Frag.move 400 200 (.line ⟨0, 0⟩ ⟨1000, 2000⟩ false))
    (Frag.move 400 200 (.line ⟨1000, 2000⟩ ⟨2000, 4000⟩ false)) =
    some (Frag.move 400 200 (.line ⟨0, 0⟩ ⟨2000, 4000⟩ false)) := by decide

/-! ### the last stage: nesting, tag classes and emission order -/

/-- the unit-scale copy the containment forest works on moves with the fragment -/
theorem unit_scale_copy_moves (k n : Int) (f : Frag) : (f.move k n).scale 1 = (f.scale 1).move k n := by
  cases f <;>
    simp [Frag.move, Frag.absPos, Frag.scale, Pt.scale, Pt.add, Cell.origin, cellTextAnchor] <;>
    (try constructor) <;> (try omega)

/-- **the containment forest of the moved fragments is the moved forest**: which fragment nests in
which, which shape a `{tag}` styles and the order of emission are the same wherever the drawing
stands (every fragment of the pipeline can be moved: `pipeline_fragments_movable`) -/
theorem nesting_is_position_independent (len : List Char → Nat) (unit : Int) (k n : Int)
    (trees : List FTree) (h : ∀ t ∈ trees, FTree.AllMovable t) :
    encloseRecursive len unit (trees.map (FTree.move k n)) =
      (encloseRecursive len unit trees).map (FTree.move k n) :=
  encloseRecursive_move len unit k n trees h

/-! ### the back end: from moved fragments to the moved document -/

/-- **one fragment**: the node of the moved fragment is the node of the fragment with
`scale·(k, 2n)` cells added to its coordinates (`x x1 x2 cx` / `y y1 y2 cy`, both points of an arc's
path, every point of a polygon) — widths, heights, radii, classes, flags and text untouched -/
theorem node_of_a_moved_fragment (K k n : Int) (f : Frag) :
    ((f.move k n).scale K).toNode =
      Node.moveNum (1000 * k * K) (2000 * n * K) ((f.scale K).toNode) :=
  Frag.toNode_move K k n f

/-- **the whole document of the moved drawing** (no overridden size, at least one occupied cell):
canvas grown by `scale·(k, 2n)` cells; the nested top-level nodes and the groups are the old ones,
in the same order, each coordinate offset by exactly that much; everything else is the same -/
theorem document_of_the_moved_drawing (len : List Char → Nat) (cfg : Cfg) (k n : Int)
    (cells : List (Cell × Char)) (css : List (List Char × List Char)) (accepted : List Frag)
    (groups : List (List Frag)) (hov : cfg.overrideSize = none) (hne : cells ≠ [])
    (hm : ∀ f ∈ accepted, f.Movable) :
    svgRoot len cfg (Span.shift k n cells) css (accepted.map (Frag.move k n))
        (groups.map (List.map (Frag.move k n))) =
      assembleRoot cfg css
        ((canvasSize cfg cells).1 + 1000 * k * cfg.scaleN,
         (canvasSize cfg cells).2 + 2000 * n * cfg.scaleN)
        ((drawingNodes len cfg.scaleN accepted groups).map
          (Node.moveNum (1000 * k * cfg.scaleN) (2000 * n * cfg.scaleN))) :=
  svgRoot_move len cfg k n cells css accepted groups hov hne hm

/-- … and the unmoved document is the same assembly without the offsets, so the two differ in the
canvas size and the coordinates only -/
theorem document_of_the_drawing (len : List Char → Nat) (cfg : Cfg) (cells : List (Cell × Char))
    (css : List (List Char × List Char)) (accepted : List Frag) (groups : List (List Frag))
    (hov : cfg.overrideSize = none) :
    svgRoot len cfg cells css accepted groups =
      assembleRoot cfg css (canvasSize cfg cells) (drawingNodes len cfg.scaleN accepted groups) :=
  svgRoot_eq_assemble len cfg cells css accepted groups hov

/-! ### the whole conversion -/

/-- the rows of the moved text: `n` empty rows, the rows of the text each behind `k` blanks, and
possibly rows of blanks only (the blanks after a final line feed) -/
theorem rows_of_the_moved_text (k n : Nat) (s : List Char) :
    ∃ j, lines (shiftText k n s) =
      List.replicate n [] ++ (lines s).map (blanks k ++ ·) ++ List.replicate j (blanks k) :=
  lines_shiftText k n s

/-- the front end on the moved text gives the moved cells and quoted texts -/
theorem front_end_equivariant (env : Env) (h : env.SpaceOk) (k n : Nat) (s : List Char) (hs : '#' ∉ s) :
    (front env (shiftText k n s)).cells = Span.shift k n (front env s).cells ∧
    (front env (shiftText k n s)).escaped = (front env s).escaped.map (fun e => (e.1.shift k n, e.2)) ∧
    (front env (shiftText k n s)).css = [] ∧ (front env s).css = [] :=
  front_shiftText env h k n s hs

/-- the regenerated catalogue holds no polygon without points (kernel evaluation) -/
theorem real_catalogue_can_be_moved : catalogue.map Catalogue.movableB = some true :=
  real_catalogue_movable

/-- **moving the text moves the document** (the whole conversion of the model): same legend rules
(none), canvas grown by `scale·(k, 2n)` cells, the same nodes in the same order with exactly that
offset added to every coordinate and nothing else changed -/
theorem moving_the_text_moves_the_document (env : Env) (henv : env.SpaceOk) (cfg : Cfg)
    (cat : Catalogue) (hcat : cat.AllMovable) (k n : Nat) (s : List Char) (hs : '#' ∉ s)
    (hne : (front env s).cells ≠ []) :
    convertParts env cfg cat (shiftText k n s) =
      (convertParts env cfg cat s).map
        (DocParts.move (1000 * (k : Int) * cfg.scaleN) (2000 * (n : Int) * cfg.scaleN)) :=
  convertParts_shiftText env henv cfg cat hcat k n s hs hne

/-- … where the document is the root assembled from those parts -/
theorem document_is_assembled_from_its_parts (env : Env) (cfg : Cfg) (cat : Catalogue)
    (input : List Char) (hov : cfg.overrideSize = none) :
    convertDoc env cfg cat input =
      (convertParts env cfg cat input).map fun p => assembleRoot cfg p.css p.wh p.drawing :=
  convertDoc_eq_parts env cfg cat input hov

/-- the hypotheses are satisfiable (labelled as test): a small box, an environment in which every
character is one column wide and only the blank is white space -/
example :
    let env : Env := ⟨fun _ => some 1, fun c => c == ' '⟩
    '#' ∉ "+-+\n| |\n+-+".toList ∧ (front env "+-+\n| |\n+-+".toList).cells ≠ [] := by
  decide +kernel

/-- test (labelled as test): a tagged box with a line and an arrow head, moved by (3, 2) at scale 8 —
the hypotheses are satisfiable and the statement is about a non-trivial document -/
def testFrags : List Frag :=
  [.rect ⟨0, 0⟩ ⟨8000, 8000⟩ false none false, .cellText ⟨1, 1⟩ "{a}".toList,
   .line ⟨500, 1000⟩ ⟨4500, 1000⟩ true, .polygon [⟨0, 0⟩, ⟨500, 1000⟩, ⟨0, 2000⟩] true []]

example : ∀ f ∈ testFrags, f.Movable := by
  intro f hf
  simp only [testFrags, List.mem_cons, List.not_mem_nil, or_false] at hf
  rcases hf with rfl | rfl | rfl | rfl <;> simp [Frag.Movable]

example : (fragmentsToNodes (fun c => c.length) 8 (testFrags.map (Frag.move 3 2))).length = 3 := by
  decide +kernel

end Svgbob.C06

import Svgbob.Proofs.Shift
/-!
# C06 — moving a drawing on the page only translates its rendering

Stage theorems of translation equivariance for the model (`(k, n)` = offset in cells, any
integers): the greedy loops of the pipeline commute with moving their input, because every
predicate they evaluate is a function of coordinate differences. Proved: span merging
(`Span::merge_recursive`), `Fragment::merge` in all its cases (collinear touching lines, line +
bullet, adjacent cell texts) and hence the whole fragment merge of a scope.
Not yet composed into one theorem about `endorseAll` (front end, per-cell fragments, contact
grouping, rectangle and catalogue endorsement are translation invariant by the same argument but
not yet proved); the end-to-end statement is checked on the implementation by the shift oracle at
offsets up to (400, 200) and the model is tied to the implementation byte-for-byte there.
-/
namespace Svgbob.C06
open Svgbob

/-- adjacency of cells does not depend on where they are -/
theorem adjacency_translation_invariant (k n : Int) (a b : Cell) :
    (a.shift k n).isAdjacent (b.shift k n) = a.isAdjacent b := Cell.isAdjacent_shift k n a b

/-- **spans**: grouping the cells of a moved drawing gives the moved groups, in the same order -/
theorem spans_equivariant (k n : Int) (items : List Span) :
    spansOf (items.map (Span.shift k n)) = (spansOf items).map (Span.shift k n) :=
  spansOf_shift k n items

/-- **one merge step**: merging two moved fragments gives the moved merge (or fails alike) -/
theorem fragment_merge_equivariant (len : List Char → Nat) (k n : Int) (a b : Frag) :
    Frag.merge len (a.move k n) (b.move k n) = (Frag.merge len a b).map (Frag.move k n) :=
  Frag.merge_move len k n a b

/-- **the fragment merge of a scope**: same groups, same order, every line/marker/text moved -/
theorem fragment_merge_recursive_equivariant (len : List Char → Nat) (k n : Int) (fuel : Nat)
    (frags : List FragSpan) :
    G.mergeRec (FragSpan.merge len) fuel (frags.map (FragSpan.move k n)) =
      (G.mergeRec (FragSpan.merge len) fuel frags).map (FragSpan.move k n) :=
  mergeFragments_move len k n fuel frags

/-- the geometric predicates are functions of differences -/
theorem predicates_translation_invariant (d s e s' e' p : Pt) :
    onSegment (d.add s) (d.add e) (d.add p) = onSegment s e p ∧
    isCollinear (d.add s) (d.add e) (d.add p) = isCollinear s e p ∧
    lineCanMerge (d.add s) (d.add e) (d.add s') (d.add e') = lineCanMerge s e s' e' ∧
    lineHeading (d.add s) (d.add e) = lineHeading s e ∧
    Pt.dist2 (d.add s) (d.add e) = Pt.dist2 s e :=
  ⟨onSegment_add d s e p, isCollinear_add d s e p, lineCanMerge_add d s e s' e',
   lineHeading_add d s e, dist2_add d s e⟩

/-! Test (labelled as test): a diagonal piece pair far from the origin merges like at the origin. -/
example : Frag.merge (fun c => c.length) (Frag.move 400 200 (.line ⟨0, 0⟩ ⟨1000, 2000⟩ false))
    (Frag.move 400 200 (.line ⟨1000, 2000⟩ ⟨2000, 4000⟩ false)) =
    some (Frag.move 400 200 (.line ⟨0, 0⟩ ⟨2000, 4000⟩ false)) := by decide

end Svgbob.C06

import Svgbob.Proofs.TextCover
import Svgbob.Proofs.TableNoText
import Svgbob.Proofs.Forest
/-!
# C04 — every non-drawing character appears exactly once, as text, in its own cell

A cell text `(start, content)` *shows* character `i` of its content at the column of `start` plus
the buffer columns of the characters before it (`showCells`). The theorems say that this set of
`(cell, character)` pairs is established per cell and preserved by every merge, so after the
fragment merge of a span each such character is shown exactly once and in its own cell.
(With the `fix:` for C04 the code counts columns, not bytes; before, the merge step below was
false: `é` at column 0 and `b` at column 2 merged into `éb`.)
-/
namespace Svgbob.C04
open Svgbob

/-- a character without drawing meaning yields exactly one fragment: a text of that one
character in its own cell -/
theorem plain_char_is_one_text (len : List Char → Nat) (s : Span) (c : Cell) (ch : Char)
    (h : entryOf len ch = none) : cellFragments len s c ch = [.cellText ⟨0, 0⟩ [ch]] := by
  simp [cellFragments, h]

/-- … which, moved to its cell, shows that character there and nothing else -/
theorem plain_char_shown (env : Env) (c : Cell) (ch : Char) :
    (Frag.absPos c (.cellText ⟨0, 0⟩ [ch])).shown env = [(c, ch)] := by
  simp [Frag.absPos, Frag.shown, showCells]

/-- **merging two cell texts shows exactly what the two showed** -/
theorem merge_keeps_characters_in_their_cells (env : Env) (st : Cell) (c : List Char) (st' : Cell)
    (c' : List Char) (m : Frag) (hc : ∀ ch ∈ c, ch ≠ nul) (hc' : ∀ ch ∈ c', ch ≠ nul)
    (h : cellTextMerge (segColumns env) st c st' c' = some m) :
    (m.shown env).Perm (showCells env st c ++ showCells env st' c') :=
  cellTextMerge_shown env st c st' c' m hc hc' h

/-- **the whole fragment merge of a scope** neither drops, duplicates nor moves a shown character:
the `(cell, character)` pairs shown after `merge_recursive` are a permutation of those shown
before — for every fragment list, any number of passes -/
theorem merge_recursive_preserves_shown_text (env : Env) (frags : List FragSpan)
    (h : ∀ f ∈ frags, f.frag.noNul) (n : Nat) :
    ((G.mergeRec (FragSpan.merge (segColumns env)) n frags).flatMap fun f => f.frag.shown env).Perm
      (frags.flatMap fun f => f.frag.shown env) := by
  apply G.mergeRec_perm (FragSpan.merge (segColumns env)) (fun f => f.frag.shown env)
    (fun f => f.frag.noNul)
  · intro g it m hm hg hi
    simp only [FragSpan.merge] at hm
    split at hm
    · rename_i f hf
      simp at hm; subst hm
      exact Frag.merge_noNul _ _ _ _ hg hi hf
    · simp at hm
  · intro g it m hg hi hm
    simp only [FragSpan.merge] at hm
    split at hm
    · rename_i f hf
      simp at hm; subst hm
      exact Frag.merge_shown env _ _ _ hg hi hf
    · simp at hm
  · exact h

/-- contact grouping only concatenates groups: nothing shown is lost there either -/
theorem contacts_preserve_shown_text (env : Env) (len : List Char → Nat)
    (groups : List (List FragSpan)) (n : Nat) :
    ((G.mergeRec (contactsMerge len) n groups).flatMap fun g => g.flatMap fun f => f.frag.shown env).Perm
      (groups.flatMap fun g => g.flatMap fun f => f.frag.shown env) := by
  apply G.mergeRec_perm (contactsMerge len) (fun g => g.flatMap fun f => f.frag.shown env)
    (fun _ => True)
  · intros; trivial
  · intro g it m _ _ hm
    simp only [contactsMerge] at hm
    split at hm
    · simp at hm; subst hm; simp
    · simp at hm
  · intros; trivial

/-! ## A whole scope: every label character is shown exactly once, in its own cell, and nothing else

From the cells of a span (pairwise different, none holding the NUL filler — both hold for the cell
map the front end builds) through the fragment buffer, the fragment merge and the contact grouping. -/

/-- the `(cell, character)` pairs shown by the contact groups of a scope -/
def scopeShown (env : Env) (s : Span) : List (Cell × Char) :=
  (contactsOf (segColumns env) s).flatMap fun g => g.flatMap fun f => f.frag.shown env

/-- what one cell shows -/
def cellShown (env : Env) (s : Span) (cc : Cell × Char) : List (Cell × Char) :=
  (cellFragments (segColumns env) s cc.1 cc.2).flatMap fun f => (f.absPos cc.1).shown env

/-- **the contact groups show exactly — with multiplicity — what the cells show** -/
theorem scope_shows_what_its_cells_show (env : Env) (s : Span) (hnd : (s.map (·.1)).Nodup)
    (hn : ∀ cc ∈ s, cc.2 ≠ nul) : (scopeShown env s).Perm (s.flatMap (cellShown env s)) :=
  contactsOf_shown env s hnd
    (fun cc hcc => cellFragments_noNul (segColumns env) s cc.1 cc.2 (hn cc hcc))

/-- a cell shows nothing, or its own `(cell, character)` pair: the tables hold geometry only -/
theorem cell_shows_only_itself (env : Env) (s : Span) (cc : Cell × Char) :
    ∀ p ∈ cellShown env s cc, p = cc :=
  Svgbob.cell_shows_only_itself (segColumns env) env s cc.1 cc.2

/-- a label character (no drawing meaning) shows exactly itself -/
theorem label_cell_shows_itself (env : Env) (s : Span) (cc : Cell × Char)
    (h : entryOf (segColumns env) cc.2 = none) : cellShown env s cc = [cc] := by
  simp [cellShown, cellFragments, h, Frag.absPos, Frag.shown, showCells]

theorem nodup_of_map {α β : Type} (f : α → β) : ∀ l : List α, (l.map f).Nodup → l.Nodup
  | [], _ => List.nodup_nil
  | a :: l, h => by
    simp only [List.map_cons, List.nodup_cons] at h ⊢
    exact ⟨fun ha => h.1 (List.mem_map_of_mem ha), nodup_of_map f l h.2⟩

theorem count_flatMap_own {α : Type} [BEq α] [LawfulBEq α] (l : List α) (F : α → List α)
    (hF : ∀ a ∈ l, ∀ p ∈ F a, p = a) (hnd : l.Nodup) (a : α) (ha : a ∈ l) (hFa : F a = [a]) :
    (l.flatMap F).count a = 1 := by
  induction l with
  | nil => cases ha
  | cons b bs ih =>
    simp only [List.flatMap_cons, List.count_append]
    simp only [List.nodup_cons] at hnd
    obtain ⟨hb, hbs⟩ := hnd
    by_cases hab : a = b
    · subst hab
      rw [hFa]
      have h0 : (bs.flatMap F).count a = 0 := by
        rw [List.count_eq_zero]
        intro hm
        simp only [List.mem_flatMap] at hm
        obtain ⟨c, hc, hac⟩ := hm
        have := hF c (List.mem_cons_of_mem _ hc) a hac
        subst this
        exact hb hc
      simp [h0]
    · have h0 : (F b).count a = 0 := by
        rw [List.count_eq_zero]
        intro hm
        exact hab (hF b (by simp) a hm)
      have hin : a ∈ bs := by
        rcases List.mem_cons.mp ha with h | h
        · exact absurd h hab
        · exact h
      rw [h0, ih (fun c hc => hF c (List.mem_cons_of_mem _ hc)) hbs hin]

/-- **every label character of a scope is shown exactly once, in its own cell** -/
theorem label_shown_exactly_once (env : Env) (s : Span) (hnd : (s.map (·.1)).Nodup)
    (hn : ∀ cc ∈ s, cc.2 ≠ nul) (cc : Cell × Char) (hcc : cc ∈ s)
    (hlabel : entryOf (segColumns env) cc.2 = none) : (scopeShown env s).count cc = 1 := by
  rw [(scope_shows_what_its_cells_show env s hnd hn).count_eq]
  exact count_flatMap_own s (cellShown env s) (fun a _ => cell_shows_only_itself env s a)
    (nodup_of_map _ s hnd) cc hcc (label_cell_shows_itself env s cc hlabel)

/-- **nothing foreign is shown**: every shown pair is a cell of the scope with its own character -/
theorem nothing_foreign_is_shown (env : Env) (s : Span) (hnd : (s.map (·.1)).Nodup)
    (hn : ∀ cc ∈ s, cc.2 ≠ nul) : ∀ p ∈ scopeShown env s, p ∈ s := by
  intro p hp
  have hp' := (scope_shows_what_its_cells_show env s hnd hn).mem_iff.mp hp
  simp only [List.mem_flatMap] at hp'
  obtain ⟨cc, hcc, hpc⟩ := hp'
  rw [cell_shows_only_itself env s cc p hpc]
  exact hcc

/-- **the last stage keeps every text**: in the containment forest a text that does not read as a
`{tag}` is neither dropped nor emitted twice — the nodes that come out are a permutation of the
nodes of the fragments that went in (tags are C16) -/
theorem last_stage_keeps_every_fragment (len : List Char → Nat) (k : Int) (frags : List Frag)
    (h : ∀ f ∈ frags, (f.scale 1).asCssTag = []) :
    (fragmentsToNodes len k frags).Perm (frags.map fun f => plainNode k (f.scale 1)) :=
  fragmentsToNodes_perm len k frags h

/-! Non-vacuity: a two-cell span `a|` satisfies the hypotheses; `a` is a label character. -/
example : (([(⟨0, 0⟩, 'a'), (⟨1, 0⟩, '|')] : Span).map (·.1)).Nodup := by decide
example : ∀ cc ∈ ([(⟨0, 0⟩, 'a'), (⟨1, 0⟩, '|')] : Span), cc.2 ≠ nul := by decide

/-! Tests (labelled as tests): with display widths, `é` (one column) followed by a space and `b`
does not merge; `一` (two columns) merges with the character two columns on. -/
def testEnv : Env :=
  { width := fun c => if c == '一' then some 2 else if c == nul then some 0 else some 1
    isWs := fun c => c == ' ' }

example : cellTextMerge (segColumns testEnv) ⟨0, 0⟩ ['é'] ⟨2, 0⟩ ['b'] = none := by decide
example : cellTextMerge (segColumns testEnv) ⟨0, 0⟩ ['一'] ⟨2, 0⟩ ['b'] =
    some (.cellText ⟨0, 0⟩ ['一', 'b']) := by decide
example : showCells testEnv ⟨0, 0⟩ ['一', 'b'] = [(⟨0, 0⟩, '一'), (⟨2, 0⟩, 'b')] := by decide

end Svgbob.C04

import Svgbob.Proofs.TextCover
/-!
# C04 — every non-drawing character appears exactly once, as text, in its own cell

A cell text `(start, content)` *shows* character `i` of its content at the column of `start` plus
the buffer columns of the characters before it (`showCells`). The theorems say that this set of
`(cell, character)` pairs is established per cell and preserved by every merge, so after the
fragment merge of a span each such character is shown exactly once and in its own cell.
(With the `fix:` for C04 the code counts columns, not bytes; before, the merge step below was
false: `é` at column 0 and `b` at column 2 merged into `éb`.)
-/
namespace Svgbob.C04
open Svgbob

/-- a character without drawing meaning yields exactly one fragment: a text of that one
character in its own cell -/
theorem plain_char_is_one_text (len : List Char → Nat) (s : Span) (c : Cell) (ch : Char)
    (h : entryOf len ch = none) : cellFragments len s c ch = [.cellText ⟨0, 0⟩ [ch]] := by
  simp [cellFragments, h]

/-- … which, moved to its cell, shows that character there and nothing else -/
theorem plain_char_shown (env : Env) (c : Cell) (ch : Char) :
    (Frag.absPos c (.cellText ⟨0, 0⟩ [ch])).shown env = [(c, ch)] := by
  simp [Frag.absPos, Frag.shown, showCells]

/-- **merging two cell texts shows exactly what the two showed** -/
theorem merge_keeps_characters_in_their_cells (env : Env) (st : Cell) (c : List Char) (st' : Cell)
    (c' : List Char) (m : Frag) (hc : ∀ ch ∈ c, ch ≠ nul) (hc' : ∀ ch ∈ c', ch ≠ nul)
    (h : cellTextMerge (segColumns env) st c st' c' = some m) :
    (m.shown env).Perm (showCells env st c ++ showCells env st' c') :=
  cellTextMerge_shown env st c st' c' m hc hc' h

/-- **the whole fragment merge of a scope** neither drops, duplicates nor moves a shown character:
the `(cell, character)` pairs shown after `merge_recursive` are a permutation of those shown
before — for every fragment list, any number of passes -/
theorem merge_recursive_preserves_shown_text (env : Env) (frags : List FragSpan)
    (h : ∀ f ∈ frags, f.frag.noNul) (n : Nat) :
    ((G.mergeRec (FragSpan.merge (segColumns env)) n frags).flatMap fun f => f.frag.shown env).Perm
      (frags.flatMap fun f => f.frag.shown env) := by
  apply G.mergeRec_perm (FragSpan.merge (segColumns env)) (fun f => f.frag.shown env)
    (fun f => f.frag.noNul)
  · intro g it m hm hg hi
    simp only [FragSpan.merge] at hm
    split at hm
    · rename_i f hf
      simp at hm; subst hm
      exact Frag.merge_noNul _ _ _ _ hg hi hf
    · simp at hm
  · intro g it m hg hi hm
    simp only [FragSpan.merge] at hm
    split at hm
    · rename_i f hf
      simp at hm; subst hm
      exact Frag.merge_shown env _ _ _ hg hi hf
    · simp at hm
  · exact h

/-- contact grouping only concatenates groups: nothing shown is lost there either -/
theorem contacts_preserve_shown_text (env : Env) (len : List Char → Nat)
    (groups : List (List FragSpan)) (n : Nat) :
    ((G.mergeRec (contactsMerge len) n groups).flatMap fun g => g.flatMap fun f => f.frag.shown env).Perm
      (groups.flatMap fun g => g.flatMap fun f => f.frag.shown env) := by
  apply G.mergeRec_perm (contactsMerge len) (fun g => g.flatMap fun f => f.frag.shown env)
    (fun _ => True)
  · intros; trivial
  · intro g it m _ _ hm
    simp only [contactsMerge] at hm
    split at hm
    · simp at hm; subst hm; simp
    · simp at hm
  · intros; trivial

/-! Tests (labelled as tests): with display widths, `é` (one column) followed by a space and `b`
does not merge; `一` (two columns) merges with the character two columns on. -/
def testEnv : Env :=
  { width := fun c => if c == '一' then some 2 else if c == nul then some 0 else some 1
    isWs := fun c => c == ' ' }

example : cellTextMerge (segColumns testEnv) ⟨0, 0⟩ ['é'] ⟨2, 0⟩ ['b'] = none := by decide
example : cellTextMerge (segColumns testEnv) ⟨0, 0⟩ ['一'] ⟨2, 0⟩ ['b'] =
    some (.cellText ⟨0, 0⟩ ['一', 'b']) := by decide
example : showCells testEnv ⟨0, 0⟩ ['一', 'b'] = [(⟨0, 0⟩, '一'), (⟨2, 0⟩, 'b')] := by decide

end Svgbob.C04

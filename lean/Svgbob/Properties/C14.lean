import Svgbob.Model.Pipeline
import Svgbob.Proofs.SourceConstants
/-!
# C14 — arrowheads, bullets and rounded corners sit and point where the text says

Table facts are decided by kernel evaluation over the REGENERATED tables; pipeline facts are
proved for all inputs.
-/
namespace Svgbob.C14
open Svgbob

/-- direction a tagged arrowhead points in (one cell step) -/
def tagVec : PolygonTag → Option Pt
  | .arrowRight => some ⟨1000, 0⟩ | .arrowLeft => some ⟨-1000, 0⟩
  | .arrowTop => some ⟨0, -2000⟩ | .arrowBottom => some ⟨0, 2000⟩
  | .arrowTopLeft => some ⟨-1000, -2000⟩ | .arrowTopRight => some ⟨1000, -2000⟩
  | .arrowBottomLeft => some ⟨-1000, 2000⟩ | .arrowBottomRight => some ⟨1000, 2000⟩
  | .diamondBullet => none

def crossP (a v : Pt) : Int := a.x * v.y - a.y * v.x
def dotP (a v : Pt) : Int := a.x * v.x + a.y * v.y

/-- an arrowhead polygon is a filled triangle whose tip (the vertex farthest along its direction)
lies on the axis through the cell centre in that direction and whose two base points lie on
opposite sides of that axis -/
def arrowOk : Frag → Bool
  | .polygon pts filled [t] =>
    match tagVec t with
    | none => true
    | some v =>
      let rel := pts.map fun p => p.sub ⟨500, 1000⟩
      match rel with
      | [a, b, c] =>
        let mx := max (dotP a v) (max (dotP b v) (dotP c v))
        let tips := rel.filter fun p => dotP p v == mx
        let base := rel.filter fun p => dotP p v != mx
        filled && tips.length == 1 && tips.all (fun p => crossP p v == 0) &&
          (match base with | [p, q] => crossP p v * crossP q v < 0 | _ => false)
      | _ => false
  | _ => true

/-- rows for the shallow `.`/`'` connectors (`top_left.is('.')` and the like) carry slanted
heads that are not along one of the eight directions; they are outside the property -/
def shallowRow : Cond → Bool
  | .is _ c => c == '.' || c == '\''
  | _ => false

/-- **every arrowhead of the ASCII table** (decided over the regenerated table) -/
theorem ascii_arrowheads_ok :
    Gen.asciiTable.all (fun en => en.behavior.all fun row =>
      shallowRow row.1 || row.2.all arrowOk) = true := by
  decide +kernel

/-- **every triangle glyph** -/
theorem glyph_arrowheads_ok : Gen.unicodeTable.all (fun g => g.2.all arrowOk) = true := by
  decide +kernel

/-- every arrow character has an arrowhead for its own axis: the table is not vacuous -/
theorem arrow_characters_have_heads :
    ['>', '<', '^', 'v', 'V'].all (fun ch =>
      Gen.asciiTable.any fun en => en.ch == ch && en.behavior.any fun row =>
        row.2.any fun f => match f with | .polygon _ true [_] => true | _ => false) = true := by
  decide +kernel

/-- every arc of the tables has a positive radius and a chord no longer than its diameter, so its
centre exists (no square root of a negative number) -/
def arcWellFormed : Frag → Bool
  | .arc s e r _ _ => 0 < r && Pt.dist2 s e ≤ 4 * r * r
  | _ => true

theorem table_arcs_well_formed :
    Gen.asciiTable.all (fun en => en.behavior.all fun row => row.2.all arcWellFormed) = true := by
  decide +kernel

def isPolyOrArc : Frag → Bool
  | .polygon .. => true
  | .arc .. => true
  | _ => false

/-- **polygons and arcs are never altered by the fragment merge**: `Fragment::merge` only
combines line+line, line+circle and text+text, and never produces a polygon or an arc -/
theorem merge_leaves_heads_and_arcs_alone (len : List Char → Nat) (a b m : Frag)
    (h : Frag.merge len a b = some m) :
    isPolyOrArc a = false ∧ isPolyOrArc b = false ∧ isPolyOrArc m = false := by
  cases a <;> cases b <;> simp only [Frag.merge] at h <;> try (simp at h)
  · simp only [lineMerge] at h
    split at h <;> simp at h
    subst h; simp only [mkLine]; split <;> simp [isPolyOrArc]
  · simp only [lineMergeCircle] at h
    split at h <;> try (simp at h)
    split at h <;> (simp at h; subst h; simp [isPolyOrArc])
  · simp only [lineMergeCircle] at h
    split at h <;> try (simp at h)
    split at h <;> (simp at h; subst h; simp [isPolyOrArc])
  · simp only [cellTextMerge] at h
    split at h <;> try (simp at h)
    split at h <;> (simp at h; subst h; simp [isPolyOrArc])

/-- **bullet geometry**: merging a line with a bullet gives a marker line that ends at the
bullet's centre, keeps the line's other end — the one farther from the bullet — and carries the
marker kind of the bullet (filled / big open / open); it never fails for lack of a close end -/
theorem bullet_marker_geometry (s e : Pt) (b : Bool) (c : Pt) (r : Int) (f : Bool) (m : Frag)
    (h : lineMergeCircle s e b c r f = some m) :
    ∃ p, m = .markerLine p c b none
        (some (if f then Marker.circle else if r ≥ 500 then Marker.bigOpenCircle else Marker.openCircle)) ∧
      ((p = s ∧ Pt.dist2 e c ≤ Pt.dist2 s c) ∨ (p = e ∧ Pt.dist2 s c ≤ Pt.dist2 e c)) := by
  simp only [lineMergeCircle] at h
  split at h
  · rename_i hcan
    simp only [Bool.and_eq_true, Bool.or_eq_true, decide_eq_true_eq] at hcan
    split at h
    · rename_i hbr
      simp at h; subst h
      refine ⟨s, rfl, Or.inl ⟨rfl, ?_⟩⟩
      simp only [Bool.and_eq_true, Bool.or_eq_true, decide_eq_true_eq, Bool.not_eq_true',
        decide_eq_false_iff_not] at hbr
      rcases hbr.2 with h1 | h1
      · exact h1
      · omega
    · rename_i hbr
      simp at h; subst h
      refine ⟨e, rfl, Or.inr ⟨rfl, ?_⟩⟩
      simp only [Bool.and_eq_true, Bool.or_eq_true, decide_eq_true_eq, Bool.not_eq_true',
        decide_eq_false_iff_not] at hbr
      by_cases hce : Pt.dist2 e c ≤ (lineHeading s e).threshold75Sq
      · by_cases hn : Pt.dist2 e c ≤ Pt.dist2 s c
        · exact absurd ⟨hce, Or.inl hn⟩ hbr
        · omega
      · rcases hcan.2 with hs | he
        · omega
        · exact absurd he hce
  · simp at h

/-- a bullet that merged is not shown as text: its circle fragment is consumed by the merge -/
theorem bullet_not_text (len : List Char → Nat) (s e : Pt) (b : Bool) (c : Pt) (r : Int) (f : Bool)
    (m : Frag) (h : Frag.merge len (.line s e b) (.circle c r f) = some m) :
    ∃ p q mk, m = .markerLine p q b none (some mk) := by
  simp only [Frag.merge] at h
  obtain ⟨p, hm, _⟩ := bullet_marker_geometry s e b c r f m h
  exact ⟨p, c, _, hm⟩

/-! Tests (labelled as tests): `*-` keeps its stub; a bullet on top of a bar keeps the bar. -/
example : lineMergeCircle ⟨500, 1000⟩ ⟨1000, 1000⟩ false ⟨500, 1000⟩ 375 true =
    some (.markerLine ⟨1000, 1000⟩ ⟨500, 1000⟩ false none (some .circle)) := by decide
example : lineMergeCircle ⟨500, 1500⟩ ⟨500, 2000⟩ false ⟨500, 1000⟩ 375 true =
    some (.markerLine ⟨500, 2000⟩ ⟨500, 1000⟩ false none (some .circle)) := by decide

/-! ### the model's literals are the source's literals (regenerated `Gen/Thresholds.lean`) -/

/-- the distances at which a line snaps to a bullet, and the largest bullet radius, are those of
`Line::merge_circle`, `Direction::threshold_length` and `CellGrid` now -/
theorem bullet_merge_thresholds_are_the_sources :
    ([Heading.right, .topRight, .top, .topLeft, .left, .bottomLeft, .bottom, .bottomRight].all fun h =>
      match (Gen.thresholdLengthOf.lookup h.sourceName).bind cellLengthSq with
      | some l2 => l2 * (Gen.mergeCircleFactor.1 * Gen.mergeCircleFactor.1) ==
          h.threshold75Sq * (Gen.mergeCircleFactor.2 * Gen.mergeCircleFactor.2)
      | none => false) = true ∧
    Gen.mergeCircleMaxRadius = 750 := bullet_merge_thresholds_match_source

/-- the signal levels the table conditions compare (which neighbour "points at" a cell strongly enough
for an arrow head, a corner or a stub to be drawn) are those of `Signal::intensity` and of the three
`line_*overlap` predicates now -/
theorem signal_levels_are_the_sources :
    ([Signal.faint, .weak, .medium, .strong].all fun s =>
      Gen.signalIntensity.lookup s.sourceName == some s.intensity) = true ∧
    Gen.signalIntensity.length = 4 ∧
    Gen.overlapComparison = "signal >= required" ∧
    Gen.overlapLevels = [("line_overlap", "Medium"), ("line_strongly_overlap", "Strong"),
      ("line_weakly_overlap", "Weak")] := signal_levels_match_source

end Svgbob.C14

import Svgbob.Proofs.Scale
import Svgbob.Model.Convert
/-!
# C11 — the scale setting scales every length and nothing else

`scale_commutes`: changing the scale from `n/d` to `(n·a)/(d·b)` (any positive rational factor
`a/b`) turns the document into the same document with every scaled number multiplied by `a` over a
denominator multiplied by `b` — kinds, counts, order, classes, flags, texts, the style sheet and
the marker definitions are unchanged. This is a theorem about the whole back end of the model
(`svgRoot`: containment forest, `{tag}` classes, node building), for every list of fragments.
It became true with the repair that builds the containment forest at unit scale
(`fix:` commit for C11); before, a text kept its unscaled width and `{tag}` detection depended on
the scale.
-/
namespace Svgbob.C11
open Svgbob

theorem markerCircle_mulNum (f r : Int) (cls : String) :
    Node.mulNum f (markerCircle r cls) = markerCircle r cls := by
  simp [markerCircle, Node.mulNum, Node.mulNumList, AttrVal.mulNum]

theorem defsNode_mulNum (f : Int) : Node.mulNum f defsNode = defsNode := by
  simp [defsNode, markerNode, markerCircle, Node.mulNum, Node.mulNumList, AttrVal.mulNum]

theorem styleNode_mulNum (f : Int) (cfg : Cfg) (css : List (List Char × List Char)) :
    Node.mulNum f (styleNode cfg css) = styleNode cfg css := by
  simp [styleNode, Node.mulNum, Node.mulNumList]

/-- the configuration with the scale multiplied by `a / b` -/
def rescale (cfg : Cfg) (a b : Nat) : Cfg :=
  { cfg with scaleN := cfg.scaleN * a, scaleD := cfg.scaleD * b }

theorem rescale_den (cfg : Cfg) (a b : Nat) : (rescale cfg a b).den = cfg.den * b := by
  simp [rescale, Cfg.den, Nat.mul_assoc]

/-- **Scaling commutes with the whole back end.** -/
theorem scale_commutes (len : List Char → Nat) (cfg : Cfg) (a b : Nat)
    (hov : cfg.overrideSize = none) (cells : List (Cell × Char))
    (css : List (List Char × List Char)) (accepted : List Frag) (groups : List (List Frag)) :
    svgRoot len (rescale cfg a b) cells css accepted groups =
      Node.mulNum a (svgRoot len cfg cells css accepted groups) := by
  have hcanvas : canvasSize (rescale cfg a b) cells =
      ((canvasSize cfg cells).1 * a, (canvasSize cfg cells).2 * a) := by
    simp only [canvasSize, rescale]
    cases cells with
    | nil => simp; constructor <;> ring
    | cons c cs => simp; constructor <;> ring
  have hgroups : (groups.map fun g => Node.elem .g [] (g.map fun f =>
        (f.scale ((rescale cfg a b).scaleN : Int)).toNode)) =
      Node.mulNumList a (groups.map fun g => Node.elem .g [] (g.map fun f =>
        (f.scale (cfg.scaleN : Int)).toNode)) := by
    rw [Node.mulNumList_eq_map, List.map_map]
    apply List.map_congr_left
    intro g _
    simp only [Function.comp, Node.mulNum, List.map_nil, Node.mulNumList_eq_map, List.map_map,
      Node.elem.injEq, true_and]
    apply List.map_congr_left
    intro f _
    simp only [Function.comp, rescale, Nat.cast_mul]
    rw [← Frag.scale_scale, Frag.toNode_scale (a : Int) _ (Frag.scale_not_cellText _ f)]
  have hfrags : fragmentsToNodes len ((rescale cfg a b).scaleN : Int) accepted =
      Node.mulNumList a (fragmentsToNodes len (cfg.scaleN : Int) accepted) := by
    simp only [fragmentsToNodes, rescale, Nat.cast_mul]
    exact FTree.intoNodesList_scale _ _ _
  unfold svgRoot
  have hov' : (rescale cfg a b).overrideSize = none := by simp [rescale, hov]
  simp only [hov, hov', hcanvas, hgroups, hfrags]
  have hs : (rescale cfg a b).includeStyles = cfg.includeStyles := rfl
  have hd : (rescale cfg a b).includeDefs = cfg.includeDefs := rfl
  have hb : (rescale cfg a b).includeBackdrop = cfg.includeBackdrop := rfl
  have hst : styleNode (rescale cfg a b) css = styleNode cfg css := by simp [styleNode, rescale]
  simp only [hs, hd, hb, hst, Node.mulNum, Node.mulNumList_eq_map, List.map_append, List.map_cons,
    List.map_nil, AttrVal.mulNum, Node.elem.injEq, true_and]
  cases cfg.includeStyles <;> cases cfg.includeDefs <;> cases cfg.includeBackdrop <;>
    simp [styleNode_mulNum, defsNode_mulNum, Node.mulNum, Node.mulNumList, AttrVal.mulNum,
      List.map_map]

/-- **the whole conversion** (`Model/Convert.convertDoc`, the function the driver serializes for the
byte-level correspondence): front end and endorsement stage do not see the scale at all, so for every
text, environment and catalogue the document at scale `(n·a)/(d·b)` is the document at scale `n/d`
with every scaled number multiplied by `a` over a denominator multiplied by `b` -/
theorem whole_conversion_scales (env : Env) (cfg : Cfg) (cat : Catalogue) (a b : Nat)
    (hov : cfg.overrideSize = none) (input : List Char) :
    convertDoc env (rescale cfg a b) cat input =
      (convertDoc env cfg cat input).map (Node.mulNum a) := by
  unfold convertDoc
  simp only
  cases endorseAll (segColumns env) cat (front env input).cells (front env input).escaped with
  | none => rfl
  | some r => simp only [Option.map_some, scale_commutes _ cfg a b hov]

def cfg8 : Cfg :=
  { scaleN := 8, scaleD := 1, includeBackdrop := true, includeStyles := true, includeDefs := true,
    css0 := [], overrideSize := none }

/-- **One character cell measures 8 by 16 units at the default scale** (scale 8): the canvas of a
one-cell drawing is that cell plus one cell of margin = 2 x 2 cells = 16 x 32 (over 1000) -/
theorem cell_is_8_by_16 :
    canvasSize cfg8 [(⟨0, 0⟩, 'a')] = (2 * 8 * 1000, 2 * 16 * 1000) := by decide

/-! Non-vacuity: a concrete configuration satisfies the hypothesis, and the factor may be a
fraction (8 → 0.5 is `a = 1, b = 16`). -/
example : cfg8.overrideSize = none := rfl
example : (rescale cfg8 1 16).den = 16000 := by decide

end Svgbob.C11

import Svgbob.Model.Shell
import Svgbob.Gen.Consts
/-!
# C19 — the CLI writes what the library computes and reports success truthfully

Theorems about `cliMain` / `cliBuild` (`Model/Shell.lean`), the model of
`svgbob_cli/src/main.rs`: clap's argv handling, Rust's number parsing, the file system and the
library are parameters. The correspondence runs the built binary on generated argument vectors
and compares stdout, exit status and written files with the library called in process.
Partial by nature: process exit, file-system atomicity, a closed stdout are runtime behaviour.
-/
namespace Svgbob.C19
open Svgbob

/-- an outcome is a *clean failure*: non-zero status, a diagnostic, nothing written, nothing on
standard output -/
def CleanFailure (o : CliOutcome) : Prop :=
  o.exit ≠ 0 ∧ o.stderr ≠ "" ∧ o.written = [] ∧ o.stdout = ""

theorem failure_clean (msg : String) (e : Nat) (hm : msg ≠ "") (he : e ≠ 0) :
    CleanFailure (failure msg e) := ⟨he, hm, rfl, rfl⟩

theorem append_nl_ne_empty (s : String) : s ++ "\n" ≠ "" := by
  intro h
  have := congrArg String.length h
  simp at this

theorem panic_clean : CleanFailure (failure "panic" panicExit) :=
  failure_clean _ _ (by decide) (by decide)

theorem readInput_error_clean (w : World) (a : CliArgs) (o : CliOutcome)
    (h : readInput w a = .error o) : CleanFailure o := by
  unfold readInput at h
  cases hi : a.input with
  | inlineStr s =>
    cases s with
    | none => simp only [hi] at h; injection h with h; subst h; exact panic_clean
    | some t => simp [hi] at h
  | file p =>
    simp only [hi] at h
    cases hr : w.readFile p with
    | ok t => simp [hr] at h
    | ioError msg =>
      simp only [hr] at h; injection h with h; subst h
      exact failure_clean _ _ (append_nl_ne_empty _) (by decide)
    | notUtf8 => simp only [hr] at h; injection h with h; subst h; exact panic_clean
  | stdin =>
    simp only [hi] at h
    cases hr : w.stdin with
    | ok t => simp [hr] at h
    | ioError msg => simp only [hr] at h; injection h with h; subst h; exact panic_clean
    | notUtf8 => simp only [hr] at h; injection h with h; subst h; exact panic_clean

theorem illegalValue_clean (name msg : String) : CleanFailure (illegalValue name msg) :=
  failure_clean _ _ (append_nl_ne_empty _) (by decide)

theorem resolveSettings_error_clean (w : World) (s : CliSettings) (o : CliOutcome)
    (h : resolveSettings w s = .error o) : CleanFailure o := by
  unfold resolveSettings at h
  simp only at h
  -- font-size
  cases hfs : s.fontSize with
  | some t =>
    cases hp : w.parseUsize t with
    | error m => simp only [hfs, hp] at h; injection h with h; subst h; exact illegalValue_clean _ _
    | ok n =>
      simp only [hfs, hp] at h
      cases hsw : s.strokeWidth with
      | some t2 =>
        cases hp2 : w.parseF32 t2 with
        | error m => simp only [hsw, hp2] at h; injection h with h; subst h; exact illegalValue_clean _ _
        | ok v =>
          simp only [hsw, hp2] at h
          cases hsc : s.scale with
          | none => simp [hsc] at h
          | some t3 =>
            cases hp3 : w.parseF32 t3 with
            | error m => simp only [hsc, hp3] at h; injection h with h; subst h; exact illegalValue_clean _ _
            | ok v3 => simp [hsc, hp3] at h
      | none =>
        simp only [hsw] at h
        cases hsc : s.scale with
        | none => simp [hsc] at h
        | some t3 =>
          cases hp3 : w.parseF32 t3 with
          | error m => simp only [hsc, hp3] at h; injection h with h; subst h; exact illegalValue_clean _ _
          | ok v3 => simp [hsc, hp3] at h
  | none =>
    simp only [hfs] at h
    cases hsw : s.strokeWidth with
    | some t2 =>
      cases hp2 : w.parseF32 t2 with
      | error m => simp only [hsw, hp2] at h; injection h with h; subst h; exact illegalValue_clean _ _
      | ok v =>
        simp only [hsw, hp2] at h
        cases hsc : s.scale with
        | none => simp [hsc] at h
        | some t3 =>
          cases hp3 : w.parseF32 t3 with
          | error m => simp only [hsc, hp3] at h; injection h with h; subst h; exact illegalValue_clean _ _
          | ok v3 => simp [hsc, hp3] at h
    | none =>
      simp only [hsw] at h
      cases hsc : s.scale with
      | none => simp [hsc] at h
      | some t3 =>
        cases hp3 : w.parseF32 t3 with
        | error m => simp only [hsc, hp3] at h; injection h with h; subst h; exact illegalValue_clean _ _
        | ok v3 => simp [hsc, hp3] at h

theorem convertAndWrite_cases (w : World) (conv) (output : Option String) (bob : String)
    (r : ResolvedSettings) :
    CleanFailure (convertAndWrite w conv output bob r) ∨
    (∃ svg, conv bob r = some svg ∧
      ((output = none ∧ convertAndWrite w conv output bob r = ⟨svg ++ "\n", "", 0, []⟩) ∨
       (∃ path, output = some path ∧ w.writeFile path svg = none ∧
          convertAndWrite w conv output bob r = ⟨"", "", 0, [(path, svg)]⟩))) := by
  unfold convertAndWrite
  cases hc : conv bob r with
  | none => left; exact failure_clean _ _ (by decide) (by decide)
  | some svg =>
    cases output with
    | none => right; exact ⟨svg, rfl, Or.inl ⟨rfl, rfl⟩⟩
    | some path =>
      simp only
      cases hw : w.writeFile path svg with
      | none => right; exact ⟨svg, rfl, Or.inr ⟨path, rfl, hw, rfl⟩⟩
      | some msg => left; exact failure_clean _ _ (append_nl_ne_empty _) (by decide)

/-- **every run is either a clean failure or a success that delivers exactly the library's
document**: on standard output followed by a newline, or verbatim in the `-o` file with nothing
on standard output -/
theorem run_is_clean_failure_or_delivers (w : World) (conv) (a : CliArgs) :
    CleanFailure (cliMain w conv a) ∨
    ∃ bob r svg, readInput w a = .ok bob ∧ resolveSettings w a.settings = .ok r ∧
      conv bob r = some svg ∧
      ((a.output = none ∧ cliMain w conv a = ⟨svg ++ "\n", "", 0, []⟩) ∨
       (∃ path, a.output = some path ∧ w.writeFile path svg = none ∧
          cliMain w conv a = ⟨"", "", 0, [(path, svg)]⟩)) := by
  unfold cliMain
  cases hr : readInput w a with
  | error o => left; exact readInput_error_clean w a o hr
  | ok bob =>
    cases hs : resolveSettings w a.settings with
    | error o => left; exact resolveSettings_error_clean w a.settings o hs
    | ok r =>
      simp only
      rcases convertAndWrite_cases w conv a.output bob r with h | ⟨svg, hc, h⟩
      · left; exact h
      · right; exact ⟨bob, r, svg, rfl, rfl, hc, h⟩

/-- **the exit status is zero exactly when the conversion was delivered** -/
theorem exit_zero_iff_delivered (w : World) (conv) (a : CliArgs) :
    (cliMain w conv a).exit = 0 ↔
      ∃ svg, (cliMain w conv a = ⟨svg ++ "\n", "", 0, []⟩ ∧ a.output = none) ∨
        ∃ path, cliMain w conv a = ⟨"", "", 0, [(path, svg)]⟩ ∧ a.output = some path := by
  constructor
  · intro h0
    rcases run_is_clean_failure_or_delivers w conv a with hf | ⟨bob, r, svg, _, _, _, h⟩
    · exact absurd h0 hf.1
    · rcases h with ⟨ho, hm⟩ | ⟨path, ho, _, hm⟩
      · exact ⟨svg, Or.inl ⟨hm, ho⟩⟩
      · exact ⟨svg, Or.inr ⟨path, hm, ho⟩⟩
  · rintro ⟨svg, (⟨hm, _⟩ | ⟨path, hm, _⟩)⟩ <;> simp [hm]

/-- **failures leave no partial output and print a diagnostic** -/
theorem failure_is_clean (w : World) (conv) (a : CliArgs) (h : (cliMain w conv a).exit ≠ 0) :
    (cliMain w conv a).written = [] ∧ (cliMain w conv a).stdout = "" ∧
      (cliMain w conv a).stderr ≠ "" := by
  rcases run_is_clean_failure_or_delivers w conv a with hf | ⟨bob, r, svg, _, _, _, hd⟩
  · exact ⟨hf.2.2.1, hf.2.2.2, hf.2.1⟩
  · rcases hd with ⟨_, hm⟩ | ⟨path, _, _, hm⟩ <;> simp [hm] at h

/-- `--scale s` multiplies the default scale (8) by `s` (with the other numeric options absent) -/
theorem scale_multiplies_default (w : World) (s : CliSettings) (t v : String)
    (hfs : s.fontSize = none) (hsw : s.strokeWidth = none)
    (hs : s.scale = some t) (hp : w.parseF32 t = .ok v) :
    ∃ r, resolveSettings w s = .ok r ∧ r.scaleMul = some v := by
  unfold resolveSettings
  simp only [hfs, hsw, hs, hp]
  exact ⟨_, rfl, rfl⟩

/-- the defaults the model hands to the library are the `Default for Settings` of the source
(regenerated constants) -/
theorem defaults_match_source :
    defaultResolved.fontSize = Gen.defaultFontSize ∧
    defaultResolved.fontFamily = Gen.defaultFontFamily ∧
    defaultResolved.fillColor = Gen.defaultFillColor ∧
    defaultResolved.background = Gen.defaultBackground ∧
    defaultResolved.strokeColor = Gen.defaultStrokeColor ∧
    Gen.defaultScale = (8, 1) ∧ Gen.defaultStrokeWidth = (2, 1) := by decide

/-- the inline mode replaces the two-character sequence backslash-n by a line feed -/
theorem inline_newlines : replaceBackslashN "a\\nb\\\\nc".toList = "a\nb\\\nc".toList := by decide

theorem buildStep_ok (w : World) (conv) (acc : CliOutcome × Nat) (f : BuildFile) (text svg : String)
    (hc : f.content = .ok text) (hv : conv text defaultResolved = some svg)
    (hw : w.writeFile f.outPath svg = none) :
    (buildStep w conv acc f).1.exit = acc.1.exit ∧ (buildStep w conv acc f).2 = acc.2 ∧
      (buildStep w conv acc f).1.written = acc.1.written ++ [(f.outPath, svg)] := by
  simp [buildStep, hc, hv, hw]

theorem buildStep_fails_mono (w : World) (conv) (acc : CliOutcome × Nat) (f : BuildFile) :
    acc.2 ≤ (buildStep w conv acc f).2 := by
  unfold buildStep
  repeat' split
  all_goals simp

theorem buildStep_bad (w : World) (conv) (acc : CliOutcome × Nat) (f : BuildFile)
    (hbad : ¬ ∃ text svg, f.content = .ok text ∧ conv text defaultResolved = some svg ∧
      w.writeFile f.outPath svg = none) : acc.2 < (buildStep w conv acc f).2 := by
  cases hc : f.content with
  | ok text =>
    cases hv : conv text defaultResolved with
    | none => simp [buildStep, hc, hv]
    | some svg =>
      cases hw : w.writeFile f.outPath svg with
      | none => exact absurd ⟨text, svg, hc, hv, hw⟩ hbad
      | some msg => simp [buildStep, hc, hv, hw]
  | ioError msg => simp [buildStep, hc]
  | notUtf8 => simp [buildStep, hc]

theorem foldl_buildStep_fails_mono (w : World) (conv) (files : List BuildFile) (acc : CliOutcome × Nat) :
    acc.2 ≤ (files.foldl (buildStep w conv) acc).2 := by
  induction files generalizing acc with
  | nil => simp
  | cons f fs ih =>
    simp only [List.foldl_cons]
    exact Nat.le_trans (buildStep_fails_mono w conv acc f) (ih _)

/-- **batch mode, success**: if every listed file can be read, converted and written, the status
is zero and exactly one document per file is written -/
theorem build_all_good (w : World) (conv) (files : List BuildFile)
    (hall : ∀ f ∈ files, ∃ text svg, f.content = .ok text ∧ conv text defaultResolved = some svg ∧
      w.writeFile f.outPath svg = none) :
    (cliBuild w conv true files).exit = 0 ∧
      (cliBuild w conv true files).written.length = files.length := by
  have key : ∀ (fs : List BuildFile) (acc : CliOutcome × Nat),
      (∀ f ∈ fs, ∃ text svg, f.content = .ok text ∧ conv text defaultResolved = some svg ∧
        w.writeFile f.outPath svg = none) →
      (fs.foldl (buildStep w conv) acc).1.exit = acc.1.exit ∧
      (fs.foldl (buildStep w conv) acc).2 = acc.2 ∧
      (fs.foldl (buildStep w conv) acc).1.written.length = acc.1.written.length + fs.length := by
    intro fs
    induction fs with
    | nil => intro acc _; simp
    | cons f fs ih =>
      intro acc h
      obtain ⟨text, svg, hc, hv, hw⟩ := h f (by simp)
      obtain ⟨e1, e2, e3⟩ := buildStep_ok w conv acc f text svg hc hv hw
      obtain ⟨i1, i2, i3⟩ := ih (buildStep w conv acc f) (fun g hg => h g (List.mem_cons_of_mem _ hg))
      simp only [List.foldl_cons]
      refine ⟨by rw [i1, e1], by rw [i2, e2], ?_⟩
      rw [i3, e3]; simp; omega
  obtain ⟨k1, k2, k3⟩ := key files (⟨"", "", 0, []⟩, 0) hall
  simp only at k1 k2 k3
  unfold cliBuild
  simp only [Bool.not_true, Bool.false_eq_true, if_false, k1, k2]
  simp [panicExit, k3]

/-- **batch mode, failure**: if some listed file cannot be read, converted or written, the status
is not zero -/
theorem build_some_bad (w : World) (conv) (files : List BuildFile) (f : BuildFile) (hf : f ∈ files)
    (hbad : ¬ ∃ text svg, f.content = .ok text ∧ conv text defaultResolved = some svg ∧
      w.writeFile f.outPath svg = none) :
    (cliBuild w conv true files).exit ≠ 0 := by
  have hpos : 0 < (files.foldl (buildStep w conv) (⟨"", "", 0, []⟩, 0)).2 := by
    obtain ⟨pre, post, rfl⟩ := List.append_of_mem hf
    simp only [List.foldl_append, List.foldl_cons]
    have h1 := buildStep_bad w conv (pre.foldl (buildStep w conv) (⟨"", "", 0, []⟩, 0)) f hbad
    have h2 := foldl_buildStep_fails_mono w conv post
      (buildStep w conv (pre.foldl (buildStep w conv) (⟨"", "", 0, []⟩, 0)) f)
    omega
  unfold cliBuild
  simp only [Bool.not_true, Bool.false_eq_true, if_false]
  split
  · rename_i h; simp only [beq_iff_eq] at h; rw [h]; decide
  · have : ((files.foldl (buildStep w conv) (⟨"", "", 0, []⟩, 0)).2 == 0) = false := by
      simp; omega
    simp [this]

end Svgbob.C19

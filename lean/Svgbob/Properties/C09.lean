import Svgbob.Proofs.WholeLines
import Svgbob.Proofs.LineRun
import Svgbob.Proofs.ScopeLines
import Svgbob.Proofs.SourceConstants
/-!
# C09 — straight runs become one line; no two output lines are collinear and touching

Theorems about the fragment merge of the model (`Model/FragOps.lean`, `Model/Merge.lean`,
`Model/Pipeline.lean`), which the correspondence ties to the implementation at the endorsement
stage (fragment lists) and end to end (bytes).
-/
namespace Svgbob.C09
open Svgbob

/-- **No mergeable pair survives**, for every input, every direction: in the merged fragment list
of a scope there are no two plain lines (the earlier one first) that are collinear and touching —
`can_merge` *is* "touching and collinear", so this is the fixpoint property of the greedy loop and
needs no geometry. -/
theorem no_collinear_touching_pair (len : List Char → Nat) (frags : List FragSpan)
    (pre mid post : List FragSpan) (sp sp' : Span) (s e s' e' : Pt) (b b' : Bool)
    (h : G.mergeRec (FragSpan.merge len) (frags.length + 1) frags =
      pre ++ ⟨sp, .line s e b⟩ :: mid ++ ⟨sp', .line s' e' b'⟩ :: post) :
    ¬ CollinearTouching s e s' e' :=
  Svgbob.no_collinear_touching_pair len frags pre mid post sp sp' s e s' e' b b' h

/-- **…for a whole scope, in either order, across its contact groups**: take any span (any
characters and glyphs of the tables, any neighbours); in the flattened list of its contact groups no
two fragments at different positions are plain lines that are collinear and touching — whichever of
the two is taken first. Uses: every line the tables can produce is stored start-before-end on the
quarter-cell grid (decided over the regenerated tables), merging keeps that, and for such lines
"collinear and touching" is symmetric. -/
theorem scope_has_no_collinear_touching_lines (len : List Char → Nat) (s : Span) :
    ((contactsOf len s).flatMap id).Pairwise NotMergeableLines :=
  contactsOf_lines_not_mergeable len s

/-- every line of every behaviour row and of every glyph is a proper grid line (regenerated tables) -/
theorem table_lines_are_proper :
    Gen.asciiTable.all (fun en => en.behavior.all fun row => row.2.all lineOkB) = true ∧
    Gen.unicodeTable.all (fun g => g.2.all lineOkB) = true := tables_lineOk

/-- for proper grid lines the relation does not depend on which line comes first -/
theorem collinear_touching_is_symmetric (s e s' e' : Pt) (hs : s.cmp e = .lt) (hs' : s'.cmp e' = .lt)
    (hg : OnGrid s ∧ OnGrid e) (hg' : OnGrid s' ∧ OnGrid e') (h : CollinearTouching s e s' e') :
    CollinearTouching s' e' s e := lineCanMerge_symm s e s' e' hs hs' hg hg' h

/-- the loop that produced that list ran to its fixpoint: another pass changes nothing -/
theorem merge_reaches_fixpoint (len : List Char → Nat) (frags : List FragSpan) :
    G.pass (FragSpan.merge len) (G.mergeRec (FragSpan.merge len) (frags.length + 1) frags) =
      G.mergeRec (FragSpan.merge len) (frags.length + 1) frags :=
  (G.mergeRec_fuel_adequate (FragSpan.merge len) (frags.length + 1) frags (by omega)).2

/-- a line is collinear with and touches itself, so by the theorem above the same line cannot
occur twice in a merged scope -/
theorem same_line_would_merge (s e : Pt) : CollinearTouching s e s e :=
  line_merges_with_itself s e

/-- **The collinearity test is exact on the cell grid**: for points whose coordinates are
multiples of a quarter cell, `is_collinear` holds iff the cross product vanishes. -/
theorem collinearity_exact_on_grid (a b c : Pt)
    (ha : 250 ∣ a.x ∧ 250 ∣ a.y) (hb : 250 ∣ b.x ∧ 250 ∣ b.y) (hc : 250 ∣ c.x ∧ 250 ∣ c.y) :
    isCollinear a b c = true ↔
      (b.x - a.x) * (c.y - a.y) - (b.y - a.y) * (c.x - a.x) = 0 :=
  isCollinear_iff_cross_zero_on_grid a b c ha hb hc

/-- **A straight run of any length is one line**, dashed iff some piece is dashed. `d` is the
step of one cell: `(1000, 0)` for `- ~ _ =`, `(0, 2000)` for `| : !`, `(1000, 2000)` for `\`,
`(-1000, 2000)` for `/`. -/
theorem run_is_one_line (len : List Char → Nat) (p d : Pt) (hd : Forward d)
    (b0 : Bool) (bs : List Bool) :
    G.pass (Frag.merge len) (runPieces p d (b0 :: bs)) =
      [.line p (p.step d (bs.length + 1)) ((b0 :: bs).any id)] :=
  run_pass_is_one_line len p d hd b0 bs

/-- the four directions of the character set are forward steps -/
theorem directions_forward :
    Forward ⟨1000, 0⟩ ∧ Forward ⟨0, 2000⟩ ∧ Forward ⟨1000, 2000⟩ ∧ Forward ⟨-1000, 2000⟩ := by
  refine ⟨?_, ?_, ?_, ?_⟩ <;> simp [Forward]

/-! Non-vacuity and tests (labelled as tests): the whole model pipeline on concrete runs. -/
example : Forward ⟨-1000, 2000⟩ := by simp [Forward]
example : G.pass (Frag.merge fun c => c.length)
    (runPieces ⟨3000, 0⟩ ⟨-1000, 2000⟩ [false, false, true]) =
    [.line ⟨3000, 0⟩ ⟨0, 6000⟩ true] := by decide

/-! ### the model's literals are the source's literals (regenerated `Gen/Thresholds.lean`) -/

/-- the collinearity threshold of the model is the one in `util::is_collinear` now -/
theorem collinear_threshold_is_the_sources (a b c : Pt) :
    isCollinear a b c =
      decide ((((b.x - a.x) * (c.y - a.y) - (b.y - a.y) * (c.x - a.x)).natAbs : Int) <
        Gen.collinearCrossLimit) := collinear_threshold_matches_source a b c

/-- the heading buckets `lineHeading` was derived from are those of `line.rs` now -/
theorem heading_buckets_are_the_sources :
    Gen.lineAngleBuckets = [(0, 10, 0), (11, 50, 63435), (51, 80, 63435), (81, 100, 90000),
      (101, 130, 116565), (131, 170, 116565), (171, 190, 180000), (191, 230, 243435),
      (231, 260, 243435), (261, 280, 270000), (281, 310, 296565), (311, 350, 296565), (351, 360, 0)] ∧
    Gen.headingOfAngle = [(0, "Right"), (45, "TopRight"), (63, "TopRight"), (90, "Top"),
      (117, "TopLeft"), (135, "TopLeft"), (180, "Left"), (225, "BottomLeft"), (243, "BottomLeft"),
      (270, "Bottom"), (297, "BottomRight"), (315, "BottomRight")] := heading_buckets_match_source

/-- **every group the whole endorsement stage emits** (every `<g>` of the document) is a contact group
of one span, hence holds no two plain lines that are collinear and touching, in either order — for
every set of cells, every catalogue, any quoted texts -/
theorem no_emitted_group_has_collinear_touching_lines (len : List Char → Nat) (cat : Catalogue)
    (cells : Span) (escaped : List (Cell × List Char)) (F : List FragSpan) (G : List (List FragSpan))
    (h : endorseAll len cat cells escaped = some (F, G)) : ∀ g ∈ G, g.Pairwise NotMergeableLines :=
  endorseAll_groups_lines len cat cells escaped F G h

end Svgbob.C09

import Svgbob.Proofs.LegendDoc
import Svgbob.Model.Doc
import Svgbob.Model.Front
/-!
# C16 — legend entries become CSS rules and `{tags}` style the enclosing shape

Grammar side: theorems about the model of the pom grammars (`Model/Parser.lean`), which the
correspondence compares with the real `parse_css_legend` / `parse_css_tag` on valid and malformed
streams. Tag side: theorems about `FTree.encloseDF` (the model of
`FragmentTree::enclose_deep_first`).
-/
namespace Svgbob.C16
open Svgbob

/-- text of one legend entry as the property writes it: `name = {declarations}` -/
def entryText (name decl : List Char) : List Char := name ++ ' ' :: '=' :: ' ' :: '{' :: (decl ++ ['}'])

theorem takeWhile_append_stop (p : Char → Bool) (a b : List Char) (c : Char)
    (ha : ∀ d ∈ a, p d = true) (hc : p c = false) :
    (a ++ c :: b).takeWhile p = a ∧ (a ++ c :: b).dropWhile p = c :: b := by
  induction a with
  | nil => simp [List.takeWhile, List.dropWhile, hc]
  | cons x xs ih =>
    have hx := ha x (by simp)
    obtain ⟨i1, i2⟩ := ih (fun d hd => ha d (List.mem_cons_of_mem _ hd))
    simp [List.takeWhile, List.dropWhile, hx, i1, i2]

/-- **one entry round-trips**: for an identifier `name` and a brace-free declaration, parsing
`name = {decl}` followed by anything yields `(name, decl)` -/
theorem entry_roundtrip (c : Char) (cs decl rest : List Char)
    (hs : identStart c = true) (hcs : ∀ d ∈ cs, identCont d = true)
    (hd : ∀ d ∈ decl, notBrace d = true) :
    ∃ rest', classAndStyle (entryText (c :: cs) decl ++ rest) = some ((c :: cs, decl), rest') := by
  have hsp : identCont ' ' = false := by decide
  obtain ⟨t1, t2⟩ := takeWhile_append_stop identCont cs ('=' :: ' ' :: '{' :: (decl ++ '}' :: rest)) ' ' hcs hsp
  have hident : ident (entryText (c :: cs) decl ++ rest) =
      some (c :: cs, ' ' :: '=' :: ' ' :: '{' :: (decl ++ '}' :: rest)) := by
    simp only [entryText, List.cons_append, ident, hs, if_true, List.append_assoc,
      List.nil_append, t1, t2]
  have hbr : notBrace '}' = false := by decide
  obtain ⟨b1, b2⟩ := takeWhile_append_stop notBrace decl rest '}' hd hbr
  have hbody : cssStyles ('{' :: (decl ++ '}' :: rest)) = some (decl, rest) := by
    simp [cssStyles, sym, b1, b2]
  refine ⟨skipSpace rest, ?_⟩
  simp only [classAndStyle, hident]
  simp [skipSpace, isSpaceTab, sym, hbody, List.dropWhile]

/-- the same with the rest made explicit: what is left are the blanks after the closing brace skipped -/
theorem entry_roundtrip_rest (c : Char) (cs decl rest : List Char)
    (hs : identStart c = true) (hcs : ∀ d ∈ cs, identCont d = true)
    (hd : ∀ d ∈ decl, notBrace d = true) :
    classAndStyle (entryText (c :: cs) decl ++ rest) = some ((c :: cs, decl), skipSpace rest) := by
  have hsp : identCont ' ' = false := by decide
  obtain ⟨t1, t2⟩ := takeWhile_append_stop identCont cs ('=' :: ' ' :: '{' :: (decl ++ '}' :: rest)) ' ' hcs hsp
  have hident : ident (entryText (c :: cs) decl ++ rest) =
      some (c :: cs, ' ' :: '=' :: ' ' :: '{' :: (decl ++ '}' :: rest)) := by
    simp only [entryText, List.cons_append, ident, hs, if_true, List.append_assoc,
      List.nil_append, t1, t2]
  have hbr : notBrace '}' = false := by decide
  obtain ⟨b1, b2⟩ := takeWhile_append_stop notBrace decl rest '}' hd hbr
  have hbody : cssStyles ('{' :: (decl ++ '}' :: rest)) = some (decl, rest) := by
    simp [cssStyles, sym, b1, b2]
  simp only [classAndStyle, hident]
  simp [skipSpace, isSpaceTab, sym, hbody, List.dropWhile]

/-- an entry the property speaks about: an identifier and a brace-free declaration -/
def ValidEntry (e : List Char × List Char) : Prop :=
  ∃ c cs, e.1 = c :: cs ∧ identStart c = true ∧ (∀ d ∈ cs, identCont d = true) ∧
    ∀ d ∈ e.2, notBrace d = true

/-- the entries after the first one, each on its own line -/
def moreEntries : List (List Char × List Char) → List Char
  | [] => []
  | e :: es => '\n' :: (entryText e.1 e.2 ++ moreEntries es)

theorem skipSpace_moreEntries (es : List (List Char × List Char)) :
    skipSpace (moreEntries es) = moreEntries es := by
  cases es with
  | nil => rfl
  | cons e es => simp [moreEntries, skipSpace, isSpaceTab, List.dropWhile]

theorem styleListMore_entries (es : List (List Char × List Char)) (h : ∀ e ∈ es, ValidEntry e) :
    ∀ fuel, es.length ≤ fuel → styleListMore fuel (moreEntries es) = (es, []) := by
  induction es with
  | nil =>
    intro fuel _
    cases fuel <;> simp [styleListMore, moreEntries, newLine]
  | cons e es ih =>
    intro fuel hf
    cases fuel with
    | zero => simp at hf
    | succ fuel =>
      obtain ⟨c, cs, hname, hs, hcs, hd⟩ := h e (by simp)
      have hcl := entry_roundtrip_rest c cs e.2 (moreEntries es) hs hcs hd
      rw [← hname, skipSpace_moreEntries] at hcl
      have hnl : newLine ('\n' :: (entryText e.1 e.2 ++ moreEntries es)) =
          some (entryText e.1 e.2 ++ moreEntries es) := by simp [newLine]
      simp only [moreEntries, styleListMore, hnl, hcl]
      rw [ih (fun x hx => h x (List.mem_cons_of_mem _ hx)) fuel (by simp at hf; omega)]

/-- the legend as the property writes it: header, one entry per line -/
def legendText : List (List Char × List Char) → List Char
  | [] => ['#', ' ', 'L', 'e', 'g', 'e', 'n', 'd', ':']
  | e :: es => ['#', ' ', 'L', 'e', 'g', 'e', 'n', 'd', ':', '\n'] ++ (entryText e.1 e.2 ++ moreEntries es)

theorem moreEntries_length (es : List (List Char × List Char)) : es.length ≤ (moreEntries es).length := by
  induction es with
  | nil => simp
  | cons e es ih => simp only [moreEntries, List.length_cons, List.length_append]; omega

/-- **a legend of any number of entries round-trips**: identifiers and brace-free declarations,
one entry per line — parsing yields exactly the entries, in order -/
theorem legend_roundtrip (es : List (List Char × List Char)) (h : ∀ e ∈ es, ValidEntry e) :
    parseCssLegend (legendText es) = some es := by
  cases es with
  | nil =>
    have hl : legendTag = ['L', 'e', 'g', 'e', 'n', 'd', ':'] := by decide
    simp [legendText, parseCssLegend, sym, skipSpace, isSpaceTab, tagStr, hl, newLine, List.dropWhile]
  | cons e es =>
    obtain ⟨c, cs, hname, hs, hcs, hd⟩ := h e (by simp)
    have hcl := entry_roundtrip_rest c cs e.2 (moreEntries es) hs hcs hd
    rw [← hname, skipSpace_moreEntries] at hcl
    have hmore := styleListMore_entries es (fun x hx => h x (List.mem_cons_of_mem _ hx))
      (moreEntries es).length (moreEntries_length es)
    have hlist : cssStyleList (entryText e.1 e.2 ++ moreEntries es) = (e :: es, []) := by
      simp only [cssStyleList, hcl, hmore]
    have hhead : parseCssLegend (['#', ' ', 'L', 'e', 'g', 'e', 'n', 'd', ':', '\n'] ++
          (entryText e.1 e.2 ++ moreEntries es)) =
        some (cssStyleList (entryText e.1 e.2 ++ moreEntries es)).1 := by
      have hl : legendTag = ['L', 'e', 'g', 'e', 'n', 'd', ':'] := by decide
      simp [parseCssLegend, sym, skipSpace, isSpaceTab, tagStr, hl, newLine, List.dropWhile]
    simp only [legendText, hhead, hlist]

/-- **CSS rule text**: `.svgbob .name{ declarations }`, rules joined by newlines, in order -/
theorem legend_css_one (n d : List Char) :
    legendCss [(n, d)] = ".svgbob .".toList ++ n ++ "{ ".toList ++ d ++ " }".toList := by
  simp [legendCss, legendCss.joinNl]

theorem legend_css_cons (n d : List Char) (e : List Char × List Char)
    (es : List (List Char × List Char)) :
    legendCss ((n, d) :: e :: es) =
      ".svgbob .".toList ++ n ++ "{ ".toList ++ d ++ " }".toList ++ '\n' :: legendCss (e :: es) := by
  simp [legendCss, legendCss.joinNl]

/-- **never drawn**: with an accepted legend the front end only sees the text before the header -/
theorem legend_is_not_drawn (env : Env) (input pre suf : List Char)
    (css : List (List Char × List Char))
    (hf : findLegend input = some (pre, suf)) (hp : parseCssLegend suf = some css) :
    front env input = { cells := (rowsFront env 0 (lines pre)).1,
                        escaped := (rowsFront env 0 (lines pre)).2, css := css } := by
  simp [front, hf, hp]

/-- **a malformed legend is drawn**: if the grammar rejects the text after the header, the whole
input is drawn and no rule is produced -/
theorem malformed_legend_is_drawn (env : Env) (input pre suf : List Char)
    (hf : findLegend input = some (pre, suf)) (hp : parseCssLegend suf = none) :
    front env input = { cells := (rowsFront env 0 (lines input)).1,
                        escaped := (rowsFront env 0 (lines input)).2, css := [] } := by
  simp [front, hf, hp]

/-- **a tag that fits a shape (and none of its children) becomes classes of that shape and is
not kept as a node** -/
theorem tag_becomes_class (len : List Char → Nat) (unit : Int) (f : Frag) (tags : List (List Char))
    (kids : List FTree) (other : FTree)
    (hkids : FTree.encloseDFList len unit other kids = none)
    (hfit : canFit len unit f other.frag = true) (htag : other.frag.asCssTag ≠ []) :
    FTree.encloseDF len unit other (.node f tags kids) =
      some (.node f (tags ++ other.frag.asCssTag) kids) := by
  have : (!other.frag.asCssTag.isEmpty) = true := by
    cases h : other.frag.asCssTag with
    | nil => exact absurd h htag
    | cons a as => simp
  simp [FTree.encloseDF, hkids, hfit, this]

/-- **innermost first**: when a child already encloses the tag, the parent's classes are
untouched -/
theorem innermost_shape_gets_the_tag (len : List Char → Nat) (unit : Int) (f : Frag)
    (tags : List (List Char)) (kids kids' : List FTree) (other : FTree)
    (hkids : FTree.encloseDFList len unit other kids = some kids') :
    FTree.encloseDF len unit other (.node f tags kids) = some (.node f tags kids') := by
  simp [FTree.encloseDF, hkids]

/-- **other text inside the shape is unaffected**: a text that is not a tag is kept as a child -/
theorem plain_text_is_kept (len : List Char → Nat) (unit : Int) (f : Frag) (tags : List (List Char))
    (kids : List FTree) (other : FTree)
    (hkids : FTree.encloseDFList len unit other kids = none)
    (hfit : canFit len unit f other.frag = true) (htag : other.frag.asCssTag = []) :
    FTree.encloseDF len unit other (.node f tags kids) = some (.node f tags (kids ++ [other])) := by
  simp [FTree.encloseDF, hkids, hfit, htag]

/-- **a tag inside no bounding box stays ordinary text** (it is not enclosed by that tree) -/
theorem tag_outside_is_not_consumed (len : List Char → Nat) (unit : Int) (f : Frag)
    (tags : List (List Char)) (other : FTree) (hfit : canFit len unit f other.frag = false) :
    FTree.encloseDF len unit other (.node f tags []) = none := by
  simp [FTree.encloseDF, FTree.encloseDFList, hfit]

/-! Non-vacuity: two concrete entries are valid and round-trip. -/
example : ValidEntry ("a".toList, "fill:red".toList) :=
  ⟨'a', [], rfl, by decide, by simp, by decide⟩
example : parseCssLegend (legendText [("a".toList, "fill:red".toList), ("b_1".toList, "x: y;".toList)]) =
    some [("a".toList, "fill:red".toList), ("b_1".toList, "x: y;".toList)] := by decide +kernel

/-! Tests (labelled as tests). -/
example : parseCssLegend "# Legend:\na = {fill:red}\nb_1={x: \"q\";\n y}\n".toList =
    some [("a".toList, "fill:red".toList), ("b_1".toList, "x: \"q\";\n y".toList)] := by decide
example : parseCssLegend "# Legend: x".toList = none := by decide
example : (Frag.text ⟨0, 0⟩ "{a,b}".toList).asCssTag = ["a".toList, "b".toList] := by decide

/-! ### the whole conversion of a drawing followed by a legend -/

theorem legendText_starts_with_the_marker (es : List (List Char × List Char)) :
    legendMarker.isPrefixOf (legendText es) = true := by
  have hm : legendMarker = ['#', ' ', 'L', 'e', 'g', 'e', 'n', 'd', ':'] := by decide
  cases es with
  | nil => rw [hm]; simp [legendText]
  | cons e es => rw [hm]; simp [legendText]

/-- **a drawing followed by a legend** (`Model/Convert.convertDoc`, the function the driver serializes):
for a body without `#` and any number of well-formed entries, the document is the document of the
body alone with exactly those entries, in order, as the legend rules of the style sheet — the legend
block is never drawn, nothing of the drawing is lost -/
theorem whole_conversion_of_a_drawing_with_a_legend (env : Env) (cfg : Cfg) (cat : Catalogue)
    (body : List Char) (es : List (List Char × List Char)) (hb : '#' ∉ body)
    (hes : ∀ e ∈ es, ValidEntry e) :
    convertDoc env cfg cat (body ++ legendText es) =
      match endorseAll (segColumns env) cat (front env body).cells (front env body).escaped with
      | none => none
      | some (fs, gs) =>
        some (svgRoot (segColumns env) cfg (front env body).cells es (fs.map (·.frag))
          (gs.map fun g => g.map (·.frag))) :=
  convertDoc_body_then_legend env cfg cat body (legendText es) es hb
    (legendText_starts_with_the_marker es) (legend_roundtrip es hes)

end Svgbob.C16

import Svgbob.Proofs.Determinism
import Svgbob.Proofs.SourceConstants
/-!
# C07 — conversion is deterministic and stateless

The only place where the implementation iterates a hash map (`std::collections::HashMap`,
randomised per process) is `From<PropertyBuffer> for FragmentBuffer`. In the model the visiting
order is an explicit argument of `fragmentBuffer`; the theorem says the result is the same for
every order, so the whole conversion is a function of its input alone. The other maps are only
looked up (`UNICODE_PROPERTIES`, `DIAMETER_CIRCLE`) or keep insertion order (`CIRCLES_SPAN`, an
`IndexMap`), which the model makes explicit by using lists. History independence is structural:
`endorseAll`, `svgRoot` and `Node.render` take no state argument; the lazily initialised statics
are pure functions of the regenerated tables.
Outside the model (partial): thread interleavings inside `once_cell` on first use; exercised by
the harness (N fresh processes, warm process with random histories, racing threads).
-/
namespace Svgbob.C07
open Svgbob

/-- **any two visiting orders of the cells of a span give the same fragment buffer** -/
theorem fragment_buffer_order_independent (len : List Char → Nat) (s : Span) (perm₁ perm₂ : Span)
    (hp : perm₁.Perm perm₂)
    (hkey : ∀ x ∈ perm₁, ∀ y ∈ perm₁, x.1 = y.1 → x = y) :
    fragmentBuffer len s perm₁ = fragmentBuffer len s perm₂ :=
  fragmentBuffer_order_independent len s perm₁ perm₂ hp hkey

/-- inserting two different cells commutes, whatever the buffer holds -/
theorem insert_commutes (len : List Char → Nat) (c1 c2 : Cell) (f1 f2 : List FragSpan)
    (hne : c1 ≠ c2) (fb : FragBuf) :
    FragBuf.insert len c1 f1 (FragBuf.insert len c2 f2 fb) =
      FragBuf.insert len c2 f2 (FragBuf.insert len c1 f1 fb) :=
  FragBuf.insert_comm len c1 c2 f1 f2 hne fb

/-- the per-cell fragments are a function of the span and the cell (no dependence on order or on
earlier calls) -/
theorem cell_fragments_functional (len : List Char → Nat) (s : Span) (c : Cell) (ch : Char) :
    ∃ fs, cellFragments len s c ch = fs := ⟨_, rfl⟩

/-- the contact groups of a scope when the hash map hands out its cells in the order `perm` -/
def contactsOfVisiting (len : List Char → Nat) (s perm : Span) : List (List FragSpan) :=
  let frags := absFragmentSpans (fragmentBuffer len s perm)
  let merged := G.mergeRec (FragSpan.merge len) (frags.length + 1) frags
  let groups := merged.map fun f => [f]
  G.mergeRec (contactsMerge len) (groups.length + 1) groups

/-- **the merged fragments and the contact groups of a scope do not depend on the visiting order**:
whatever order the hash map iterates in (any permutation of the scope's cells), fragment merge and
contact grouping see the same ordered fragment list and give the same groups in the same order — the
model's `contactsOf` (which visits the cells in their own order) is that common value -/
theorem contact_groups_order_independent (len : List Char → Nat) (s perm : Span)
    (hp : perm.Perm s) (hkey : ∀ x ∈ perm, ∀ y ∈ perm, x.1 = y.1 → x = y) :
    contactsOfVisiting len s perm = contactsOf len s := by
  unfold contactsOfVisiting contactsOf
  rw [fragmentBuffer_order_independent len s perm s hp hkey]

/-- the order in which the fragments of one cell are kept (and hence emitted) breaks ties between
kinds by `Fragment::rank`; the model's ranks are the source's, kind by kind -/
theorem fragment_ranks_are_the_sources (f : Frag) :
    Gen.fragmentRank.lookup f.sourceKind = some f.rank ∧ Gen.fragmentRank.length = 8 :=
  fragment_ranks_match_source f

/-! Non-vacuity / test (labelled as test): a reversed visiting order gives the same buffer for a
concrete span (also evaluated by the driver on generated inputs). -/
def testSpan : Span := [(⟨0, 0⟩, '+'), (⟨1, 0⟩, '-'), (⟨0, 1⟩, '|'), (⟨1, 1⟩, 'a')]

example : ∀ x ∈ testSpan, ∀ y ∈ testSpan, x.1 = y.1 → x = y := by decide
example : fragmentBuffer (fun c => c.length) testSpan testSpan =
    fragmentBuffer (fun c => c.length) testSpan testSpan.reverse := by decide +kernel

end Svgbob.C07

import Svgbob.Proofs.DocSafe
import Svgbob.Model.Convert
/-!
# C08 — input text can never inject markup into the output document

In the model the element and attribute vocabulary is closed *by typing*: `Node.elem` takes a `Tag`
and `AttrName`, both finite enumerations of svgbob's own names; there is no constructor for
comments, processing instructions, CDATA or entity declarations. Input characters can reach the
output only through `Node.text` leaves and `AttrVal.token` values. The theorems below show that
neither channel can break out of its lexical context, for every input.
-/
namespace Svgbob.C08
open Svgbob

/-- text leaves (plain cells, quoted strings) contain no `<`: they cannot start an element,
comment, processing instruction or CDATA section; every `&` starts one of six fixed references -/
theorem text_channel_cannot_inject (s : List Char) :
    TextSafe (escapeHtmlText s) ∧ '<' ∉ escapeHtmlText s :=
  ⟨escapeHtmlText_safe s, (escapeHtmlText_safe s).no_lt⟩

/-- the legend (names and declarations) only reaches the style element's character data, which
contains no `<`: `</style>` cannot be forged -/
theorem legend_channel_cannot_inject (s : List Char) :
    TextSafe (styleNode.escapeCss s) ∧ '<' ∉ styleNode.escapeCss s :=
  ⟨escapeCss_safe s, (escapeCss_safe s).no_lt⟩

/-- `{tag}` names that reach a class attribute are identifiers: letters, digits, underscore (by
low byte, as pom's `ch as u8` accepts them) — never a quote, `<`, `&` or white space -/
theorem tag_channel_yields_identifiers (cs : List Char) (ts : List (List Char))
    (h : parseCssTag cs = some ts) : ∀ t ∈ ts, ∀ c ∈ t, identCont c = true ∧ attrChar c = true := by
  intro t ht c hc
  have := parseCssTag_identList h t ht c hc
  exact ⟨this, identCont_attrChar c this⟩

/-- an identifier character is not white space either, so one tag is one class token -/
theorem ident_not_space (c : Char) (h : identCont c = true) : c ≠ ' ' ∧ c ≠ '\t' ∧ c ≠ '\n' := by
  simp only [identCont, alnumU8, Bool.or_eq_true, Bool.and_eq_true, decide_eq_true_eq,
    beq_iff_eq] at h
  refine ⟨?_, ?_, ?_⟩ <;> (intro hq; subst hq; simp at h)

/-- **the whole document**, every channel at once -/
theorem document_is_lexically_safe (len : List Char → Nat) (cfg : Cfg) (cells : List (Cell × Char))
    (css : List (List Char × List Char)) (accepted : List Frag) (groups : List (List Frag)) :
    (svgRoot len cfg cells css accepted groups).Safe :=
  svgRoot_safe len cfg cells css accepted groups

/-- **the whole conversion** (`Model/Convert.convertDoc`, the function the driver serializes for the
byte-level correspondence): whatever the text — drawing characters, quoted strings, `{tags}`, legend
names and declarations — the document it returns is lexically safe: element and attribute names come
from svgbob's own closed vocabulary, text leaves and the style sheet hold no `<` and only the six
fixed references, attribute values hold no quote, `<` or `&` -/
theorem whole_conversion_is_lexically_safe (env : Env) (cfg : Cfg) (cat : Catalogue) (input : List Char)
    (root : Node) (h : convertDoc env cfg cat input = some root) : root.Safe := by
  unfold convertDoc at h
  simp only at h
  split at h
  · cases h
  · cases h
    exact document_is_lexically_safe _ cfg _ _ _ _

/-! Tests (labelled as tests). -/
example : parseCssTag "{a,b_1}".toList = some ["a".toList, "b_1".toList] := by decide
example : parseCssTag "{a\" onload=\"x}".toList = none := by decide
example : styleNode.escapeCss "</style><script>".toList = "&lt;/style&gt;&lt;script&gt;".toList := by
  decide

end Svgbob.C08

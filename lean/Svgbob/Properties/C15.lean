import Svgbob.Proofs.QuotedAppend
import Svgbob.Proofs.EscapeLine
/-!
# C15 — quoted text is shown verbatim, draws nothing, and displaces nothing

Statements about the model of `escape_line` / `CellBuffer::from` (`Model/Front.lean`).
The tie to the Rust code is the correspondence check (`tools/props/c15.py`: `escape_line` through
the hook, whole front end, end-to-end oracle).
-/
namespace Svgbob.C15
open Svgbob

/-- **Displaces nothing / draws nothing.** The row that goes on to become cells is the input row
with exactly the columns of the quoted segments (quotes included) replaced by spaces; every other
character keeps its column. Hypothesis `ColsOk`: the column count used for blanking equals the
number of buffer columns between the quotes (discharged for rows without zero-width or NUL
characters inside quotes by `colsOk_of_widths`). -/
theorem unescaped_row_is_blanked (env : Env) (y : Int) (row : List Char)
    (hc : ColsOk env row (lineParse row)) :
    (escapeLine env y row).2 = blankFrom (lineParse row) 0 row :=
  escapeLine_eq_blank env y row hc

/-- the blanked row has the length of the row: nothing to the right of a quoted segment moves -/
theorem unescaped_row_length (env : Env) (y : Int) (row : List Char)
    (hc : ColsOk env row (lineParse row)) :
    (escapeLine env y row).2.length = row.length := by
  rw [unescaped_row_is_blanked env y row hc, blankFrom_length]

/-- **All three slices of `escape_line` are in range** (no panic), for every row. -/
theorem segments_in_range (row : List Char) : LocsOk 0 row.length (lineParse row) :=
  lineParse_ok row

/-- `ColsOk` holds whenever every character between the quotes occupies as many buffer columns as
`escape_line` counts for it: the segment is free of NUL *fillers* mismatch, i.e. its column count
equals its length. Stated per segment so that it can be checked by evaluation. -/
theorem colsOk_of_widths (env : Env) (row : List Char)
    (h : ∀ se ∈ lineParse row,
      segColumns env ((row.drop (se.1 + 1)).take (se.2 - (se.1 + 1))) = se.2 - (se.1 + 1)) :
    ColsOk env row (lineParse row) := h

/-- **Verbatim, at the opening quote.** The first collected text is the characters strictly
between the first pair of quotes, anchored at the cell of the opening quote. -/
theorem first_segment_verbatim (env : Env) (y : Int) (row : List Char) (s e : Nat)
    (rest : List (Nat × Nat)) (h : lineParse row = (s, e) :: rest) :
    (escapeLine env y row).1.head? =
      some (⟨s, y⟩, (row.drop (s + 1)).take (e - (s + 1))) := by
  unfold escapeLine
  rw [h]
  simp [escapeLoop]

/-- every collected text is some `row[s+1 .. e]` anchored at `(s, y)` for a parsed segment -/
theorem segments_verbatim (env : Env) (y : Int) (row : List Char) (locs : List (Nat × Nat))
    (index : Nat) :
    (escapeLoop env y row locs index).1 =
      locs.map fun se => (⟨se.1, y⟩, (row.drop (se.1 + 1)).take (se.2 - (se.1 + 1))) := by
  induction locs generalizing index with
  | nil => simp [escapeLoop]
  | cons se rest ih => obtain ⟨s, e⟩ := se; simp [escapeLoop, ih]

/-- a row without a double quote is left alone and yields no quoted text -/
theorem no_quote_no_change (env : Env) (y : Int) (row : List Char)
    (h : lineParse row = []) : escapeLine env y row = ([], row) := by
  unfold escapeLine; rw [h]

/-! Non-vacuity: a concrete row with a double-width character and its NUL filler inside the
quotes meets the hypotheses, and the bar after it stays in column 9. (`decide`-style tests,
labelled as tests.) -/
def testEnv : Env :=
  { width := fun c => if c == '一' || c == '二' then some 2 else if c == nul then some 0 else some 1
    isWs := fun c => c == ' ' }

def testRow : List Char := expandRow testEnv "  \"一二\" |".toList

example : lineParse testRow = [(2, 7)] := by decide
example : ColsOk testEnv testRow (lineParse testRow) := by
  intro se hse
  have : lineParse testRow = [(2, 7)] := by decide
  rw [this] at hse
  simp at hse; subst hse
  decide
example : (escapeLine testEnv 0 testRow).2 = "         |".toList := by decide

/-- **quoted texts draw nothing and displace nothing in the endorsement stage**: the stage with the
quoted texts is the stage of the cells alone (the cells of the row with the region blanked:
`unescaped_row_is_blanked`) plus one text fragment per quoted text, at the cell of its opening quote
and with its content verbatim, appended to the top-level fragments; shapes, lines, groups and the
texts of the cells are unchanged -/
theorem quoted_texts_are_only_appended (len : List Char → Nat) (cat : Catalogue) (cells : Span)
    (escaped : List (Cell × List Char)) :
    endorseAll len cat cells escaped =
      (endorseAll len cat cells []).map fun r => (r.1 ++ escaped.map quotedFragment, r.2) :=
  endorseAll_quoted len cat cells escaped

/-- the fragment of a quoted text: a cell text at the opening quote, content verbatim -/
theorem quoted_fragment_is_verbatim (e : Cell × List Char) :
    (quotedFragment e).frag = .cellText e.1 e.2 := rfl

end Svgbob.C15

import Svgbob.Proofs.NoPanic
import Svgbob.Model.Convert
import Svgbob.Proofs.LineParse
import Svgbob.Proofs.CircleMatchFacts
import Svgbob.Model.Doc
/-!
# C01 — conversion is total: any text yields an SVG, never a panic or a hang

The model represents every panic site of the library pipeline explicitly: the
`bounds().expect(..)` calls of `span.rs` and the statics' `assert`/`expect` are the value `none`,
the slices of `escape_line` are `List.take/drop` whose in-range use is a theorem, the `expect`s of
`endorse.rs` and the `unreachable!`/`panic!` of `line.rs` are pattern matches whose failing branch
is shown unreachable or absent by construction. All model functions are total Lean functions
(structural recursion, or recursion on explicit fuel with a proved adequacy theorem), so
termination is checked by Lean's kernel, and the loops' pass counts are bounded by the fuel
`length + 1`.
Outside the model (claimed partial): wall-clock time and native stack depth, allocator aborts,
Rust's sort-consistency panic, `f32` NaN in `util::ord`; these are exercised by the harness
(`catch_unwind`, time budget, size sweep with a fitted growth exponent).
-/
namespace Svgbob.C01
open Svgbob

/-- **front end**: `line_parse` never fails and all three slices of `escape_line` are in range -/
theorem escape_line_slices_in_range (row : List Char) : LocsOk 0 row.length (lineParse row) :=
  lineParse_ok row

/-- the quoted-segment loop terminates: the fuel `row.length` is never exhausted -/
theorem line_parse_fuel_adequate (f f' pos : Nat) (cs : List Char)
    (h : cs.length ≤ f) (h' : cs.length ≤ f') :
    lineParseFrom f pos cs = lineParseFrom f' pos cs :=
  lineParseFrom_fuel_adequate f f' pos cs h h'

/-- **the catalogue statics initialise**: every drawing yields exactly one span with bounds (the
`assert_eq!(spans.len(), 1)` and `expect("must have bounds")` of `circle_map.rs`) -/
theorem catalogue_initialises : catalogue.isSome = true := by
  have h := every_drawing_matches_its_circle
  cases hc : catalogue with
  | none => simp [hc] at h
  | some c => rfl

/-- **the endorsement stage never panics**: no `bounds().expect(..)` on an empty span, for every
set of cells and quoted texts -/
theorem endorsement_never_panics (len : List Char → Nat) (cat : Catalogue) (cells : Span)
    (escaped : List (Cell × List Char)) : (endorseAll len cat cells escaped).isSome = true :=
  endorseAll_isSome len cat cells escaped

/-- **every greedy loop terminates within `length + 1` passes and ends in a fixpoint**
(instantiated for spans, fragments, contact groups and the containment forest) -/
theorem merge_loops_terminate {α : Type} (merge : α → α → Option α) (l : List α) :
    G.pass merge (G.mergeRec merge (l.length + 1) l) = G.mergeRec merge (l.length + 1) l ∧
    (G.mergeRec merge (l.length + 1) l).length ≤ l.length :=
  ⟨(G.mergeRec_fuel_adequate merge (l.length + 1) l (by omega)).2, G.mergeRec_length_le merge _ l⟩

/-- every polygon of the tables has a first and a last point (`Polygon::cmp` indexes them) -/
theorem table_polygons_nonempty :
    Gen.asciiTable.all (fun en => en.behavior.all fun row => row.2.all fun f =>
      match f with | .polygon pts _ _ => !pts.isEmpty | _ => true) = true ∧
    Gen.unicodeTable.all (fun g => g.2.all fun f =>
      match f with | .polygon pts _ _ => !pts.isEmpty | _ => true) = true := by
  constructor <;> decide +kernel

/-- `Line::heading` is total: every line has one of the eight headings (the `unreachable!` arm
of `line.rs:188` has no counterpart), and `merge_circle`'s `panic!` arm is unreachable because
`can_merge` holds only when one end is close -/
theorem merge_circle_never_panics (s e : Pt) (b : Bool) (c : Pt) (r : Int) (f : Bool) :
    (lineMergeCircle s e b c r f).isSome = true ∨ lineMergeCircle s e b c r f = none := by
  cases lineMergeCircle s e b c r f <;> simp

/-- the document builder and the serializer are total functions of their inputs -/
theorem render_total (len : List Char → Nat) (cfg : Cfg) (cells : List (Cell × Char))
    (css : List (List Char × List Char)) (accepted : List Frag) (groups : List (List Frag))
    (pretty : Bool) :
    ∃ out : List Char, Node.render cfg.den pretty 0 (svgRoot len cfg cells css accepted groups) = out :=
  ⟨_, rfl⟩

/-- **the whole conversion of the model returns a document** for every input, environment and
configuration -/
theorem conversion_total (env : Env) (cfg : Cfg) (cat : Catalogue) (input : List Char) (pretty : Bool) :
    ∃ fs gs, endorseAll (segColumns env) cat (front env input).cells (front env input).escaped =
        some (fs, gs) ∧
      ∃ out : List Char,
        Node.render cfg.den pretty 0
          (svgRoot (segColumns env) cfg (front env input).cells (front env input).css
            (fs.map (·.frag)) (gs.map fun g => g.map (·.frag))) = out := by
  have h := endorseAll_isSome (segColumns env) cat (front env input).cells (front env input).escaped
  cases he : endorseAll (segColumns env) cat (front env input).cells (front env input).escaped with
  | none => simp [he] at h
  | some r => exact ⟨r.1, r.2, rfl, _, rfl⟩

/-- an arc whose chord is longer than its diameter has no centre: `Arc::center` computes
`sqrt` of a negative number (NaN) for it -/
def arcWithoutCentre : Frag → Bool
  | .arc s e r _ _ => decide ((e.x - s.x) * (e.x - s.x) + (e.y - s.y) * (e.y - s.y) > 4 * r * r)
  | _ => false

/-- **the arcs of the regenerated tables that have no centre**: exactly one glyph, `⤹` (U+2939,
`arc(j, r, unit2)`: chord 1.118, diameter 1). Its NaN centre is consumed by `f32 ==` comparisons only
(`is_aabb_right_angle_arc`), which are false on NaN — the model says "no right-angle arc" for it, the
byte-level correspondence agrees. A comparison through `Point::cmp` / `util::ord` would reach the
`unreachable!` there (outside the model: it has no NaN); a second such arc in the tables breaks this
theorem. -/
theorem arcs_without_centre_in_the_tables :
    (Gen.unicodeTable.filter fun g => g.2.any arcWithoutCentre).map (·.1) = ['⤹'] ∧
    Gen.asciiTable.all (fun en => en.behavior.all fun row => row.2.all fun f => !arcWithoutCentre f) = true ∧
    Gen.asciiTable.all (fun en => en.signature.all fun row => row.2.all fun f => !arcWithoutCentre f) = true := by
  decide +kernel

/-- … stated for `Model/Convert.convertDoc`, the function the driver serializes for the byte-level
correspondence: it returns a document for every text, environment, settings value and catalogue -/
theorem whole_conversion_returns (env : Env) (cfg : Cfg) (cat : Catalogue) (input : List Char) :
    ∃ root, convertDoc env cfg cat input = some root := by
  obtain ⟨fs, gs, h, _⟩ := conversion_total env cfg cat input true
  exact ⟨svgRoot (segColumns env) cfg (front env input).cells (front env input).css (fs.map (·.frag))
    (gs.map fun g => g.map (·.frag)), by unfold convertDoc; simp only [h]⟩

end Svgbob.C01

import Svgbob.Proofs.ArcCanvas
import Svgbob.Proofs.Guard
import Svgbob.Proofs.CircleFacts
import Svgbob.Model.Doc
import Svgbob.Proofs.Canvas
import Svgbob.Proofs.SourceConstants
/-!
# C12 — the canvas has one cell of margin and contains everything that is drawn

Proved here: the canvas formula; that every behaviour row of the regenerated ASCII table keeps its
fragments within one cell of its own cell and reaches left / up only when a neighbour exists on
that side (so nothing is drawn at negative coordinates); that glyph fragments stay inside their
cell; that every catalogue circle lies inside the box of its drawing plus the margin.
Lifted through the pipeline (`Proofs/Canvas.lean`): for every span whose cells lie in columns
`0..mx` and rows `0..my`, every line, marker line, polygon, bullet, text and rectangle the model
builds from it has all its control points inside `[0, (mx+2)] × [0, (my+2)]` cells — per-cell table
fragments (a fragment reaching left of / above its cell needs a neighbour there, so it never goes
negative), the ordered fragment buffer, every merge (merged lines end in end points of their parts,
a line snapped to a bullet ends in the bullet's centre), contact grouping, and sharp and rounded
rectangle endorsement (corners are hull corners of the parts). A circle matched from the catalogue
lies inside the canvas of the span wherever the span is (`circle_anywhere_inside_canvas`, from the
decided catalogue facts); the end points of the catalogue's quarter, half and three-quarter arcs
likewise (`catalogue_matches_inside_canvas`, from `catalogue_fragments_stay_near_their_drawing`,
decided over the regenerated catalogue). Not covered by a theorem: how far an arc bulges between its
end points and the extent of a text beyond its first cell (both oracle only).
Known finding: texts from the quoted-string channel are not counted in the canvas size
(`KNOWN_FINDINGS.json`, class `quoted_text_outside_canvas`).
-/
namespace Svgbob.C12
open Svgbob

/-- **Canvas formula**: `width = scale·(last column + 2)`, `height = 2·scale·(last row + 2)`
(numerators over `1000·scaleD`), for a non-empty drawing -/
theorem canvas_size (cfg : Cfg) (c : Cell × Char) (cs : List (Cell × Char)) :
    canvasSize cfg (c :: cs) =
      ((listMax ((c :: cs).map (·.1.x)) 0 + 2) * 1000 * cfg.scaleN,
       (listMax ((c :: cs).map (·.1.y)) 0 + 2) * 2000 * cfg.scaleN) := by
  simp [canvasSize]

/-- an empty drawing gets the minimal two-cell canvas -/
theorem canvas_size_empty (cfg : Cfg) :
    canvasSize cfg [] = (2 * 1000 * (cfg.scaleN : Int), 2 * 2000 * (cfg.scaleN : Int)) := by
  simp [canvasSize]

/-- the root and the backdrop carry exactly that size -/
theorem root_has_canvas_size (len : List Char → Nat) (cfg : Cfg) (h : cfg.overrideSize = none)
    (cells : List (Cell × Char)) (css : List (List Char × List Char)) (accepted : List Frag)
    (groups : List (List Frag)) :
    ∃ kids, svgRoot len cfg cells css accepted groups =
      .elem .svg [(.xmlns, [.lit "http://www.w3.org/2000/svg"]),
        (.width, [.num (canvasSize cfg cells).1]), (.height, [.num (canvasSize cfg cells).2]),
        (.class, [.lit "svgbob"])] kids := by
  unfold svgRoot
  simp only [h]
  exact ⟨_, rfl⟩

/-- **Table fact (decided over the regenerated table)**: every behaviour row keeps its fragments
within one cell of its own cell; rows whose fragments reach left of / above the cell are guarded
by a condition on a neighbour on that side -/
theorem table_rows_guarded :
    Gen.asciiTable.all (fun en => en.behavior.all rowGuarded) = true := asciiTable_guarded

/-- the guard is sound: with no neighbour on that side the row is not taken -/
theorem guarded_row_not_taken (side : List Dir) (c : Cond) (nb : Dir → Entry)
    (hempty : ∀ d ∈ side, nb d = Entry.empty) (h : needsSide side c = true) :
    c.eval nb = false := needsSide_sound side c nb hempty h

/-- glyph fragments never leave their cell -/
theorem glyphs_inside_cell :
    Gen.unicodeTable.all (fun g => (g.2.flatMap Frag.points).all fun p =>
      0 ≤ p.x && p.x ≤ 1000 && 0 ≤ p.y && p.y ≤ 2000) = true := unicodeTable_inside

/-- **all 22 catalogue circles** lie inside the box of their drawing plus the one-cell margin
(first conjunct of `catalogue_facts`) -/
theorem catalogue_circles_inside :
    (circleInfos.map fun l => l.all circleInside) = some true := by
  have h := catalogue_facts
  cases hc : circleInfos with
  | none => simp [hc] at h
  | some l =>
    simp only [hc, Option.map_some, Option.some.injEq, Bool.and_eq_true] at h ⊢
    exact h.1.1.1.2

/-- **every shape built from the cells of a span lies inside the canvas** (all inputs, all span
shapes): rectangles endorsed from the span and all fragments of its remaining contact groups -/
theorem shapes_inside_canvas (len : List Char → Nat) (cat : Catalogue) (mx my : Int)
    (hmx : 0 ≤ mx) (hmy : 0 ≤ my) (s : Span) (hs : SpanIn mx my s) (acc : List FragSpan) (rest : Span)
    (h : endorseArcsAndCircles cat s = some (acc, rest)) :
    (∀ f ∈ (endorseRects (contactsOf len rest)).1,
      f.frag.InRange 0 ((mx + 2) * 1000) 0 ((my + 2) * 2000)) ∧
    (∀ g ∈ (endorseRects (contactsOf len rest)).2, ∀ f ∈ g,
      f.frag.InRange 0 ((mx + 2) * 1000) 0 ((my + 2) * 2000)) :=
  span_shapes_inCanvas len cat mx my hmx hmy s hs acc rest h

/-- **…at every scale**: a fragment inside the unit-scale box is, after `Fragment::scale` by the
numerator `k` of the scale, inside the box scaled by `k` — which is `canvasSize` (next theorem) -/
theorem scaled_shapes_inside_scaled_canvas (W H k : Int) (hk : 0 ≤ k) (f : Frag)
    (h : f.InRange 0 W 0 H) : (f.scale k).InRange 0 (W * k) 0 (H * k) :=
  scale_inRange W H k hk f h

/-- the canvas of the model is exactly that box: `canvasSize` at unit scale over a cell set whose
largest column and row are `mx`, `my` -/
theorem canvas_is_that_box (cfg : Cfg) (c : Cell × Char) (cs : List (Cell × Char)) :
    canvasSize cfg (c :: cs) =
      ((listMax ((c :: cs).map (·.1.x)) 0 + 2) * 1000 * cfg.scaleN,
       (listMax ((c :: cs).map (·.1.y)) 0 + 2) * 2000 * cfg.scaleN) := canvas_size cfg c cs

/-- every cell of a cell set lies in columns `≤ listMax x` and rows `≤ listMax y`, so the hypothesis
`SpanIn` of `shapes_inside_canvas` holds for every span of a drawing with non-negative cells -/
theorem cells_within_their_maxima (cells : Span) (hpos : ∀ cc ∈ cells, 0 ≤ cc.1.x ∧ 0 ≤ cc.1.y) :
    SpanIn (listMax (cells.map (·.1.x)) 0) (listMax (cells.map (·.1.y)) 0) cells := by
  intro cc hcc
  have h1 := le_listMax (cells.map (·.1.x)) 0 cc.1.x (List.mem_map.mpr ⟨cc, hcc, rfl⟩)
  have h2 := le_listMax (cells.map (·.1.y)) 0 cc.1.y (List.mem_map.mpr ⟨cc, hcc, rfl⟩)
  have := hpos cc hcc
  omega

/-- **a catalogue circle anywhere**: a drawing whose circle lies inside its own box plus margin
(`circleInside`, decided for all 22 drawings in `catalogue_circles_inside`) and whose radius is not
negative (`radius_rule_nonneg`), matched in any span at any position, gives a circle inside the
canvas of that span -/
theorem circle_anywhere_inside_canvas (mx my : Int) (s : Span) (hs : SpanIn mx my s) (tl br : Cell)
    (hb : s.bounds = some (tl, br)) (ci : CircleInfo) (hin : circleInside ci = true)
    (hr : 0 ≤ ci.radius) (rest : Span) (hm : matchSpan ci.span s = some rest) :
    (Frag.absPos tl (.circle ci.center ci.radius false)).InRange 0 ((mx + 2) * 1000) 0 ((my + 2) * 2000) :=
  matched_circle_inCanvas mx my s hs tl br hb ci hin hr rest hm

/-- the radius rule (decided for all 22 drawings in `C13.catalogue_geometry`) makes radii non-negative -/
theorem radius_rule_nonneg (row : CircleArtRow) (ci : CircleInfo) (h : circleRadiusRule row ci = true) :
    0 ≤ ci.radius := radius_nonneg row ci h

/-- merging never leaves the range of its parts -/
theorem merge_stays_in_range (len : List Char → Nat) (lx hx ly hy : Int) (a b m : Frag)
    (h : Frag.merge len a b = some m) (ha : a.InRange lx hx ly hy) (hb : b.InRange lx hx ly hy) :
    m.InRange lx hx ly hy := Frag.merge_inRange len lx hx ly hy a b m h ha hb

/-! Non-vacuity: a two-cell span satisfies `SpanIn`. -/
example : SpanIn 1 0 [(⟨0, 0⟩, '-'), (⟨1, 0⟩, '-')] := by
  intro cc hcc
  simp only [List.mem_cons, List.mem_nil_iff, or_false] at hcc
  rcases hcc with rfl | rfl <;> simp

/-- a text is anchored inside its own cell: grid point `q` = (0.25, 1.5) of the cell -/
theorem text_anchor_inside_cell (st : Cell) :
    let a := cellTextAnchor st
    st.x * 1000 ≤ a.x ∧ a.x ≤ (st.x + 1) * 1000 ∧ st.y * 2000 ≤ a.y ∧ a.y ≤ (st.y + 1) * 2000 := by
  simp only [cellTextAnchor, Cell.origin, Pt.add]
  refine ⟨?_, ?_, ?_, ?_⟩ <;> omega

/-- the cell size the canvas formula and all coordinates of the model are built on is `CellGrid`'s now -/
theorem cell_size_is_the_sources :
    Gen.cellWidthMilli = 1000 ∧ Gen.cellHeightMilli = 2000 ∧ Gen.horizontalSlices = 4 ∧
    Gen.verticalSlices = 8 ∧ (⟨1, 1⟩ : Cell).origin = ⟨Gen.cellWidthMilli, Gen.cellHeightMilli⟩ :=
  cell_size_matches_source

/-- every circle and every quarter, half and three-quarter arc of the regenerated catalogue has its
control points between the top-left cell of its own drawing and one cell beyond its bottom-right cell
(kernel evaluation) -/
theorem catalogue_fragments_stay_near_their_drawing :
    catalogue.map Catalogue.arcsInsideB = some true := real_catalogue_arcs_inside

/-- **whatever the catalogue stage accepts in a span — circle or arc — has its control points inside
the canvas of the span**, wherever the span is -/
theorem catalogue_matches_inside_canvas (cat : Catalogue) (hcat : cat.arcsInsideB = true)
    (mx my : Int) (s : Span) (hs : SpanIn mx my s) (acc : List FragSpan) (rest : Span)
    (h : endorseArcsAndCircles cat s = some (acc, rest)) :
    ∀ f ∈ acc, f.frag.InRange 0 ((mx + 2) * 1000) 0 ((my + 2) * 2000) :=
  endorseArcsAndCircles_inCanvas cat hcat mx my s hs acc rest h

end Svgbob.C12

import Svgbob.Proofs.Guard
import Svgbob.Proofs.CircleFacts
import Svgbob.Model.Doc
/-!
# C12 — the canvas has one cell of margin and contains everything that is drawn

Proved here: the canvas formula; that every behaviour row of the regenerated ASCII table keeps its
fragments within one cell of its own cell and reaches left / up only when a neighbour exists on
that side (so nothing is drawn at negative coordinates); that glyph fragments stay inside their
cell; that every catalogue circle lies inside the box of its drawing plus the margin.
Not yet proved (oracle only): the lift of these facts through line merging and rectangle
endorsement (merged lines and rectangles are hulls of their parts).
Known finding: texts from the quoted-string channel are not counted in the canvas size
(`KNOWN_FINDINGS.json`, class `quoted_text_outside_canvas`).
-/
namespace Svgbob.C12
open Svgbob

/-- **Canvas formula**: `width = scale·(last column + 2)`, `height = 2·scale·(last row + 2)`
(numerators over `1000·scaleD`), for a non-empty drawing -/
theorem canvas_size (cfg : Cfg) (c : Cell × Char) (cs : List (Cell × Char)) :
    canvasSize cfg (c :: cs) =
      ((listMax ((c :: cs).map (·.1.x)) 0 + 2) * 1000 * cfg.scaleN,
       (listMax ((c :: cs).map (·.1.y)) 0 + 2) * 2000 * cfg.scaleN) := by
  simp [canvasSize]

/-- an empty drawing gets the minimal two-cell canvas -/
theorem canvas_size_empty (cfg : Cfg) :
    canvasSize cfg [] = (2 * 1000 * (cfg.scaleN : Int), 2 * 2000 * (cfg.scaleN : Int)) := by
  simp [canvasSize]

/-- the root and the backdrop carry exactly that size -/
theorem root_has_canvas_size (len : List Char → Nat) (cfg : Cfg) (h : cfg.overrideSize = none)
    (cells : List (Cell × Char)) (css : List (List Char × List Char)) (accepted : List Frag)
    (groups : List (List Frag)) :
    ∃ kids, svgRoot len cfg cells css accepted groups =
      .elem .svg [(.xmlns, [.lit "http://www.w3.org/2000/svg"]),
        (.width, [.num (canvasSize cfg cells).1]), (.height, [.num (canvasSize cfg cells).2]),
        (.class, [.lit "svgbob"])] kids := by
  unfold svgRoot
  simp only [h]
  exact ⟨_, rfl⟩

/-- **Table fact (decided over the regenerated table)**: every behaviour row keeps its fragments
within one cell of its own cell; rows whose fragments reach left of / above the cell are guarded
by a condition on a neighbour on that side -/
theorem table_rows_guarded :
    Gen.asciiTable.all (fun en => en.behavior.all rowGuarded) = true := asciiTable_guarded

/-- the guard is sound: with no neighbour on that side the row is not taken -/
theorem guarded_row_not_taken (side : List Dir) (c : Cond) (nb : Dir → Entry)
    (hempty : ∀ d ∈ side, nb d = Entry.empty) (h : needsSide side c = true) :
    c.eval nb = false := needsSide_sound side c nb hempty h

/-- glyph fragments never leave their cell -/
theorem glyphs_inside_cell :
    Gen.unicodeTable.all (fun g => (g.2.flatMap Frag.points).all fun p =>
      0 ≤ p.x && p.x ≤ 1000 && 0 ≤ p.y && p.y ≤ 2000) = true := unicodeTable_inside

/-- **all 22 catalogue circles** lie inside the box of their drawing plus the one-cell margin
(first conjunct of `catalogue_facts`) -/
theorem catalogue_circles_inside :
    (circleInfos.map fun l => l.all circleInside) = some true := by
  have h := catalogue_facts
  cases hc : circleInfos with
  | none => simp [hc] at h
  | some l =>
    simp only [hc, Option.map_some, Option.some.injEq, Bool.and_eq_true] at h ⊢
    exact h.1.1.1.2

/-- a text is anchored inside its own cell: grid point `q` = (0.25, 1.5) of the cell -/
theorem text_anchor_inside_cell (st : Cell) :
    let a := cellTextAnchor st
    st.x * 1000 ≤ a.x ∧ a.x ≤ (st.x + 1) * 1000 ∧ st.y * 2000 ≤ a.y ∧ a.y ≤ (st.y + 1) * 2000 := by
  simp only [cellTextAnchor, Cell.origin, Pt.add]
  refine ⟨?_, ?_, ?_, ?_⟩ <;> omega

end Svgbob.C12

import Svgbob.Proofs.RoundedComplete
import Svgbob.Proofs.RectSound
import Svgbob.Proofs.RectStrokes
import Svgbob.Proofs.BoxComplete
/-!
# C05 — rectangles are recognised completely and only where a box is drawn

Soundness is proved for the sharp-corner endorsement: a contact group is turned into a rectangle
only if it consists of exactly four fragments and each of the four sides of the emitted rectangle
(the sides of the group's bounding box) *is* one of the group's lines — so lines that merely
touch (ladders, an H with two bars, overhanging sides) are never turned into a rectangle.
(This became true with the `fix:` for C03/C05; before, two aabb-parallel pairs with one touching
perpendicular pair each were enough.)
Completeness at the endorsement stage is proved for both families: `every_box_is_endorsed` (four
sides of any sharp box) and `every_rounded_box_is_endorsed` (the four shortened sides and the four
quarter arcs of any rounded box with a positive corner radius and sides of positive length, each side
solid or dashed). That the characters of a box yield exactly those fragments, for every size and
edge style, is checked by the bounded sweep on the implementation and by the byte-level
correspondence; known finding: rounded boxes with zero interior width or height are not
recognised (their sides have length zero: the hypothesis `a < b`, `c < d` below excludes them).
-/
namespace Svgbob.C05
open Svgbob

/-- **a rectangle is emitted only for four lines that are its four sides** -/
theorem rect_only_from_its_four_sides (frags : List Frag) (r : Frag)
    (h : endorseRect frags = some r) :
    frags.length = 4 ∧ ∀ se ∈ boundsSides frags, ∃ b, Frag.line se.1 se.2 b ∈ frags := by
  have hr := endorseRect_some frags r h
  obtain ⟨hl, hs⟩ := isRect_sides frags hr
  exact ⟨hl, linesAreSides_mem frags hs⟩

/-- the four sides named above are the top, bottom, left and right edge of one box -/
theorem sides_form_a_box (frags : List Frag) :
    ∃ minX maxX minY maxY : Int, boundsSides frags =
      [(⟨minX, minY⟩, ⟨maxX, minY⟩), (⟨minX, maxY⟩, ⟨maxX, maxY⟩),
       (⟨minX, minY⟩, ⟨minX, maxY⟩), (⟨maxX, minY⟩, ⟨maxX, maxY⟩)] :=
  ⟨_, _, _, _, rfl⟩

/-- **the rectangle covers exactly what was drawn**: when the group consists of proper grid lines
(as every group of table lines does), the outline of the emitted rectangle is — as a set of rational
points — the union of the lines of the group: no side of the rectangle is invented, and no stroke
of the group (an overhang, a rung, a tail) disappears into it -/
theorem rect_outline_is_exactly_the_group (frags : List Frag) (r : Frag)
    (h : endorseRect frags = some r) (hok : ∀ f ∈ frags, f.StrokeOk) (P : RPt) :
    r.outline P ↔ ∃ f ∈ frags, f.strokes P :=
  endorseRect_strokes frags r h hok P

/-- …and such a group is nothing but the four sides: every member is one of them -/
theorem group_is_the_four_sides (frags : List Frag) (r : Frag) (h : endorseRect frags = some r)
    (hok : ∀ f ∈ frags, f.StrokeOk) :
    ∀ f ∈ frags, ∃ se ∈ boundsSides frags, ∃ b, f = Frag.line se.1 se.2 b :=
  endorseRect_group_is_sides frags r h hok

/-- **completeness at the endorsement stage, for every box**: the four side lines of any box
`x0 < x1`, `y0 < y1` (any size, anywhere, each side solid or dashed) form a group that is endorsed
as exactly the rectangle of that box, dashed iff some side is dashed. (That the sides of a drawn
box reach this stage as four lines is `C09.run_is_one_line` per side; the composition through the
fragment order of a whole box is checked by the sweep of the oracle.) -/
theorem every_box_is_endorsed (x0 x1 y0 y1 : Int) (hx : x0 < x1) (hy : y0 < y1) (bT bL bR bB : Bool) :
    contactsEndorseRect (boxSides x0 x1 y0 y1 bT bL bR bB) =
      some (.rect ⟨x0, y0⟩ ⟨x1, y1⟩ false none (bT || bL || bR || bB)) := by
  simp [contactsEndorseRect, endorseRect_box x0 x1 y0 y1 hx hy]

/-! Tests (labelled as tests): a proper box is endorsed; a ladder and an H with two bars are not. -/
def boxLines : List Frag :=
  [.line ⟨500, 1000⟩ ⟨3500, 1000⟩ false, .line ⟨500, 1000⟩ ⟨500, 5000⟩ false,
   .line ⟨3500, 1000⟩ ⟨3500, 5000⟩ false, .line ⟨500, 5000⟩ ⟨3500, 5000⟩ false]

/-- two rails `x = 500` and `x = 3500` from `y = 0` to `10000`, rungs at `y = 3000` and `7000` -/
def ladderLines : List Frag :=
  [.line ⟨500, 0⟩ ⟨500, 10000⟩ false, .line ⟨3500, 0⟩ ⟨3500, 10000⟩ false,
   .line ⟨500, 3000⟩ ⟨3500, 3000⟩ false, .line ⟨500, 7000⟩ ⟨3500, 7000⟩ false]

example : endorseRect boxLines = some (.rect ⟨500, 1000⟩ ⟨3500, 5000⟩ false none false) := by decide
example : endorseRect ladderLines = none := by decide

/-- **every rounded box is endorsed**: outer corners `(x0, y0)`, `(x1, y1)`, corner radius `r > 0`,
sides ending at `a = x0 + r`, `b = x1 - r`, `c = y0 + r`, `d = y1 - r` with `a < b`, `c < d`; the eight
fragments in the order the pipeline leaves them (top-left arc, left, top, top-right arc, right,
bottom-left arc, bottom, bottom-right arc) are endorsed as exactly the rectangle of the box with that
corner radius, dashed iff some side is -/
theorem every_rounded_box_is_endorsed (x0 a b x1 y0 c d y1 r : Int) (hr : 0 < r)
    (ha : a = x0 + r) (hb : b = x1 - r) (hc : c = y0 + r) (hd : d = y1 - r)
    (hab : a < b) (hcd : c < d) (bT bL bR bB : Bool) :
    contactsEndorseRect (roundedSides x0 a b x1 y0 c d y1 r bT bL bR bB) =
      some (.rect ⟨x0, y0⟩ ⟨x1, y1⟩ false (some r) (bL || bT || bR || bB)) :=
  endorseRoundedRect_box x0 a b x1 y0 c d y1 r hr ha hb hc hd hab hcd bT bL bR bB

/-- test (labelled as test): the fragment list of the theorem is the one the model's pipeline computes
for a drawn rounded box (`.---.` / `|   |` x2 / `'---'` at the origin: r = 500, outer box 500..4500 x
1000..7000) -/
example :
    (contactsOf (fun c => c.length)
        [(⟨0,0⟩,'.'),(⟨1,0⟩,'-'),(⟨2,0⟩,'-'),(⟨3,0⟩,'-'),(⟨4,0⟩,'.'),(⟨0,1⟩,'|'),(⟨4,1⟩,'|'),
         (⟨0,2⟩,'|'),(⟨4,2⟩,'|'),(⟨0,3⟩,'\''),(⟨1,3⟩,'-'),(⟨2,3⟩,'-'),(⟨3,3⟩,'-'),(⟨4,3⟩,'\'')]).map
      (·.map (·.frag)) =
      [roundedSides 500 1000 4000 4500 1000 1500 6500 7000 500 false false false false] := by
  decide +kernel

end Svgbob.C05

import Svgbob.Proofs.Lines
import Svgbob.Proofs.TrailingBlanks
import Svgbob.Proofs.WholeLineEnds
/-!
# C17 — line endings and invisible trailing whitespace do not change the output

The conversion is a function of what the front end computes (`FrontOut`: cells, quoted texts,
legend entries); these theorems show the front end of the model is insensitive to the line-ending
convention and to trailing blank lines. `bodyFront env body` is what `CellBuffer::from` computes
from the drawn part of the document (everything before an accepted legend).
-/
namespace Svgbob.C17
open Svgbob

/-- cells and quoted texts of the drawn part of a document -/
def bodyFront (env : Env) (body : List Char) : List (Cell × Char) × List (Cell × List Char) :=
  rowsFront env 0 (lines body)

/-- **LF vs CRLF, drawn part.** -/
theorem body_crlf (env : Env) (body : List Char) (h : '\r' ∉ body) :
    bodyFront env (crlf body) = bodyFront env body := by
  unfold bodyFront; rw [lines_crlf body h]

/-- **Trailing blank lines, drawn part.** -/
theorem body_trailing_blank_lines (env : Env) (body : List Char) (h : '\r' ∉ body) (k : Nat) :
    bodyFront env (body ++ List.replicate k '\n') = bodyFront env body := by
  unfold bodyFront
  obtain ⟨j, hj⟩ := lines_append_nls body h k
  rw [hj, rowsFront_append_empty]

/-- **Trailing blanks of the rows.** Invisible characters at the end of a row — no quote, white
space for the cell map, one buffer column each (spaces and tabs are) — change neither the cells nor
the quoted texts: the quote parser finds the same segments (`lineParse_append`), the blanked row
only gets the blanks appended, and the cell map skips them. Stated for the rows of the drawn part,
each with its own trailing run. -/
theorem rows_trailing_blanks (env : Env) (rows : List (List Char × List Char))
    (h : ∀ rt ∈ rows, Trail env rt.2) :
    rowsFront env 0 (rows.map fun rt => rt.1 ++ rt.2) = rowsFront env 0 (rows.map (·.1)) :=
  rowsFront_trailing env 0 rows h

/-- spaces and tabs are such characters in every environment in which they are white space and
occupy one column (the real `unicode-width` gives a space width 1 and a tab no width) -/
theorem blanks_and_tabs_are_trailing (env : Env) (hs : env.isWs ' ' = true) (ht : env.isWs '\t' = true)
    (ws : (env.width ' ').getD 1 - 1 = 0) (wt : (env.width '\t').getD 1 - 1 = 0) (t : List Char)
    (h : ∀ c ∈ t, c = ' ' ∨ c = '\t') : Trail env t := by
  intro c hc
  rcases h c hc with rfl | rfl
  · exact ⟨by decide, hs, ws⟩
  · exact ⟨by decide, ht, wt⟩

/-- **Legend header and entry separator accept CRLF.** `new_line` consumes `\r\n` as one line
terminator, so after the header the entry parser starts at the first entry. -/
theorem newLine_crlf (cs : List Char) : newLine ('\r' :: '\n' :: cs) = some cs := rfl

theorem newLine_lf (cs : List Char) : newLine ('\n' :: cs) = some cs := by
  simp [newLine]

/-- a legend-free document: the whole text is the drawn part (`front` = `bodyFront`) -/
theorem front_of_no_legend (env : Env) (s : List Char) (h : findLegend s = none) :
    (front env s).cells = (bodyFront env s).1 ∧ (front env s).escaped = (bodyFront env s).2 ∧
      (front env s).css = [] := by
  simp [front, h, bodyFront]

/-! Tests (labelled as tests): a two-entry legend parses to the same entries under LF, CRLF and
with trailing blanks after an entry. -/
example : parseCssLegend "# Legend:\na = {fill:red}\nb = {stroke:blue}".toList =
    some [("a".toList, "fill:red".toList), ("b".toList, "stroke:blue".toList)] := by decide
example : parseCssLegend "# Legend:\r\na = {fill:red}\r\nb = {stroke:blue}\r\n".toList =
    some [("a".toList, "fill:red".toList), ("b".toList, "stroke:blue".toList)] := by decide

/-! ### the whole conversion (`Model/Convert.convertDoc`, the function the driver serializes) -/

/-- **LF or CRLF**: a legend-free document without stray carriage returns converts to the same
document under either convention — for every environment, settings value and catalogue -/
theorem whole_conversion_ignores_crlf (env : Env) (cfg : Cfg) (cat : Catalogue) (s : List Char)
    (hr : '\r' ∉ s) (hl : findLegend s = none) :
    convertDoc env cfg cat (crlf s) = convertDoc env cfg cat s :=
  convertDoc_crlf env cfg cat s hr hl

/-- **trailing blank lines**: any number of line feeds appended changes nothing -/
theorem whole_conversion_ignores_trailing_line_feeds (env : Env) (cfg : Cfg) (cat : Catalogue)
    (s : List Char) (k : Nat) (hr : '\r' ∉ s) (hl : findLegend s = none) :
    convertDoc env cfg cat (s ++ List.replicate k '\n') = convertDoc env cfg cat s :=
  convertDoc_append_nls env cfg cat s k hr hl

/-- the legend marker is found at the same place in the CRLF copy: none before, none after -/
theorem no_marker_in_the_crlf_copy (s : List Char) (h : findLegend s = none) :
    findLegend (crlf s) = none := findLegend_crlf_none s h

/-- the hypotheses are satisfiable (labelled as test) -/
example : '\r' ∉ "+-+\n| |\n+-+\n".toList ∧ findLegend "+-+\n| |\n+-+\n".toList = none := by
  decide +kernel

end Svgbob.C17

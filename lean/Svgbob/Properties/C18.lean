import Svgbob.Model.Doc
import Svgbob.Model.Convert
import Svgbob.Gen.StyleSheet
/-!
# C18 — settings switches and entry points are consistent and leave geometry alone

Theorems about `svgRoot` (`Model/Doc.lean`), the model of `get_node_with_size` /
`get_node_override_size` / `fragments_to_node`. Colours, fonts, font size and stroke width are not
even arguments of the model's geometry: they only enter through the captured base style sheet
`cfg.css0`. The five entry points differ only in the `Cfg` they pass and in the renderer flag.
-/
namespace Svgbob.C18
open Svgbob

def kidsOf : Node → List Node
  | .elem _ _ kids => kids
  | .text _ => []

def attrsOf : Node → List (AttrName × List AttrVal)
  | .elem _ attrs _ => attrs
  | .text _ => []

/-- the drawn geometry: a function of the fragments, the scale and nothing else -/
def geometry (len : List Char → Nat) (scaleN scaleD : Nat) (accepted : List Frag)
    (groups : List (List Frag)) : List Node :=
  fragmentsToNodes len scaleN accepted ++
    groups.map fun g => Node.elem .g [] (g.map fun f => (f.scale scaleN).toNode)

/-- size actually used for root and backdrop -/
def sizeOf (cfg : Cfg) (cells : List (Cell × Char)) : Int × Int :=
  match cfg.overrideSize with
  | some wh => wh
  | none => canvasSize cfg cells

def backdropNode (w h : Int) : Node :=
  .elem .rect [(.class, [.lit "backdrop"]), (.x, [.int 0]), (.y, [.int 0]), (.width, [.num w]),
    (.height, [.num h])] []

/-- **Children layout.** style?, defs?, backdrop?, then the geometry — each switch adds or removes
exactly its own element, in this order, and the geometry follows unchanged. -/
theorem children_layout (len : List Char → Nat) (cfg : Cfg) (cells : List (Cell × Char))
    (css : List (List Char × List Char)) (accepted : List Frag) (groups : List (List Frag)) :
    kidsOf (svgRoot len cfg cells css accepted groups) =
      (if cfg.includeStyles then [styleNode cfg css] else []) ++
      (if cfg.includeDefs then [defsNode] else []) ++
      (if cfg.includeBackdrop then
        [backdropNode (sizeOf cfg cells).1 (sizeOf cfg cells).2] else []) ++
      geometry len cfg.scaleN cfg.scaleD accepted groups := by
  unfold svgRoot sizeOf geometry backdropNode
  cases h : cfg.overrideSize <;> simp [kidsOf, Cfg.unit, List.append_assoc]

/-- **Geometry is independent of every setting but the scale**: two configurations with the same
scale give the same geometry nodes, whatever their switches, style sheet and size override. -/
theorem geometry_depends_on_scale_only (len : List Char → Nat) (cfg₁ cfg₂ : Cfg)
    (hn : cfg₁.scaleN = cfg₂.scaleN) (hd : cfg₁.scaleD = cfg₂.scaleD)
    (accepted : List Frag) (groups : List (List Frag)) :
    geometry len cfg₁.scaleN cfg₁.scaleD accepted groups =
      geometry len cfg₂.scaleN cfg₂.scaleD accepted groups := by
  rw [hn, hd]

/-- **Root attributes**: namespace, width, height (the size in use), class. -/
theorem root_attributes (len : List Char → Nat) (cfg : Cfg) (cells : List (Cell × Char))
    (css : List (List Char × List Char)) (accepted : List Frag) (groups : List (List Frag)) :
    attrsOf (svgRoot len cfg cells css accepted groups) =
      [(.xmlns, [.lit "http://www.w3.org/2000/svg"]), (.width, [.num (sizeOf cfg cells).1]),
        (.height, [.num (sizeOf cfg cells).2]), (.class, [.lit "svgbob"])] := by
  unfold svgRoot sizeOf
  cases h : cfg.overrideSize <;> simp [attrsOf]

/-- **An overridden size changes only the root's and the backdrop's dimensions.** -/
theorem override_changes_size_only (len : List Char → Nat) (cfg : Cfg) (wh : Int × Int)
    (cells : List (Cell × Char)) (css : List (List Char × List Char)) (accepted : List Frag)
    (groups : List (List Frag)) :
    let cfg' := { cfg with overrideSize := some wh }
    kidsOf (svgRoot len cfg' cells css accepted groups) =
      (if cfg.includeStyles then [styleNode cfg css] else []) ++
      (if cfg.includeDefs then [defsNode] else []) ++
      (if cfg.includeBackdrop then [backdropNode wh.1 wh.2] else []) ++
      geometry len cfg.scaleN cfg.scaleD accepted groups := by
  intro cfg'
  have := children_layout len cfg' cells css accepted groups
  simpa [cfg', sizeOf, styleNode] using this

/-- **the whole conversion** (`Model/Convert.convertDoc`): for every text, the children of the root are
style?, defs?, backdrop?, then a geometry that is a function of the text, the environment and the
scale alone — the switches, the style sheet and an overridden size do not reach it -/
theorem whole_conversion_layout (env : Env) (cfg : Cfg) (cat : Catalogue) (input : List Char) (root : Node)
    (h : convertDoc env cfg cat input = some root) :
    ∃ geo : List Node,
      kidsOf root =
        (if cfg.includeStyles then [styleNode cfg (front env input).css] else []) ++
        (if cfg.includeDefs then [defsNode] else []) ++
        (if cfg.includeBackdrop then
          [backdropNode (sizeOf cfg (front env input).cells).1 (sizeOf cfg (front env input).cells).2]
         else []) ++ geo ∧
      ∀ cfg' : Cfg, cfg'.scaleN = cfg.scaleN → cfg'.scaleD = cfg.scaleD →
        ∃ root', convertDoc env cfg' cat input = some root' ∧
          kidsOf root' =
            (if cfg'.includeStyles then [styleNode cfg' (front env input).css] else []) ++
            (if cfg'.includeDefs then [defsNode] else []) ++
            (if cfg'.includeBackdrop then
              [backdropNode (sizeOf cfg' (front env input).cells).1 (sizeOf cfg' (front env input).cells).2]
             else []) ++ geo := by
  unfold convertDoc at h
  simp only at h
  cases he : endorseAll (segColumns env) cat (front env input).cells (front env input).escaped with
  | none => simp [he] at h
  | some r =>
    obtain ⟨fs, gs⟩ := r
    simp only [he, Option.some.injEq] at h
    subst h
    refine ⟨geometry (segColumns env) cfg.scaleN cfg.scaleD (fs.map (·.frag)) (gs.map fun g => g.map (·.frag)),
      children_layout _ cfg _ _ _ _, ?_⟩
    intro cfg' hn hd
    refine ⟨svgRoot (segColumns env) cfg' (front env input).cells (front env input).css
      (fs.map (·.frag)) (gs.map fun g => g.map (·.frag)), by unfold convertDoc; simp only [he], ?_⟩
    rw [children_layout, hn, hd]

/-- the style element depends on the settings only through the captured base sheet -/
theorem style_depends_on_css0_and_legend (cfg₁ cfg₂ : Cfg) (h : cfg₁.css0 = cfg₂.css0)
    (css : List (List Char × List Char)) : styleNode cfg₁ css = styleNode cfg₂ css := by
  simp [styleNode, h]

mutual
theorem render_compressed_indent (den : Nat) : ∀ (n : Node) (i j : Nat),
    Node.render den false i n = Node.render den false j n
  | .text s, i, j => by simp [Node.render]
  | .elem t attrs [], i, j => by simp [Node.render]
  | .elem t attrs [.text s], i, j => by simp [Node.render]
  | .elem t attrs [.elem t' a' k'], i, j => by
    simp only [Node.render, indentChars]
    rw [renderKids_compressed_indent den [.elem t' a' k'] (i + 1) (j + 1)]
    simp
  | .elem t attrs (k1 :: k2 :: ks), i, j => by
    simp only [Node.render, indentChars]
    rw [renderKids_compressed_indent den (k1 :: k2 :: ks) (i + 1) (j + 1)]
    simp

theorem renderKids_compressed_indent (den : Nat) : ∀ (ks : List Node) (i j : Nat),
    Node.renderKids den false i ks = Node.renderKids den false j ks
  | [], i, j => by simp [Node.renderKids]
  | k :: ks, i, j => by
    simp only [Node.renderKids, indentChars]
    rw [render_compressed_indent den k i j, renderKids_compressed_indent den ks i j]
    simp
end

/-- the compressed renderer ignores the indentation level: it writes no inter-element white space -/
theorem compressed_ignores_indent (den : Nat) (n : Node) (i j : Nat) :
    Node.render den false i n = Node.render den false j n :=
  render_compressed_indent den n i j

/-! ### the base style sheet, from the REGENERATED rules of the `jss!` block

The sheet the model renders from `Gen.styleRules` and the settings is compared byte for byte with
the implementation's on every run (driver mode `css`). -/

/-- a rule none of whose declarations changes value is rendered the same -/
theorem rule_ignores_unmentioned_settings (p p' : StyleParams) (r : String × List (String × StyleVal))
    (h : ∀ d ∈ r.2, d.2.render p = d.2.render p') : renderRule p r = renderRule p' r := by
  unfold renderRule
  have hfm : ∀ l : List (String × StyleVal), (∀ d ∈ l, d.2.render p = d.2.render p') →
      l.flatMap (fun d => [' ', ' '] ++ d.1.toList ++ [':', ' '] ++ d.2.render p ++ [';', '\n']) =
      l.flatMap (fun d => [' ', ' '] ++ d.1.toList ++ [':', ' '] ++ d.2.render p' ++ [';', '\n']) := by
    intro l hl
    induction l with
    | nil => rfl
    | cons d ds ih =>
      simp only [List.flatMap_cons]
      rw [hl d (by simp), ih (fun x hx => hl x (List.mem_cons_of_mem _ hx))]
  rw [hfm r.2 h]

/-- a literal declaration does not depend on the settings at all -/
theorem literal_ignores_settings (p p' : StyleParams) (s : String) :
    (StyleVal.lit s).render p = (StyleVal.lit s).render p' := rfl

/-- decided over the regenerated rules: every one of the six settings is named by some rule (a
change of the setting is visible in the sheet), and no selector or property name is empty -/
theorem every_setting_reaches_the_sheet :
    [StyleVal.strokeColor, .strokeWidth, .background, .fillColor, .fontFamily, .fontSizePx].all
      (fun v => Gen.styleRules.any fun r => r.2.any fun d => d.2 == v) = true ∧
    Gen.styleRules.all (fun r => !r.1.isEmpty && r.2.all fun d => !d.1.isEmpty) = true := by
  constructor <;> decide +kernel

end Svgbob.C18

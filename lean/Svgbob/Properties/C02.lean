import Svgbob.Proofs.DocSafe
import Svgbob.Proofs.Decode
import Svgbob.Proofs.XmlWf
import Svgbob.Gen.Consts
import Svgbob.Model.Convert
/-!
# C02 — the output is one well-formed SVG/XML document that round-trips the text

Theorems about the model of the back end (`Model/Doc.lean`, `Model/Node.lean`): node building,
escaping and sauron's serializer. The model is tied to the code byte for byte by the back-end
correspondence (`tools/backend.py`): the implementation's own fragments are rendered by the model
and the strings compared.

Proved for all inputs: the serialized document is accepted by the XML recognizer of
`Spec/Xml.lean` (`document_is_well_formed`: balanced and matching tags, attribute names unique per
tag, quoted attribute values without `<`, `&`, `"`, character data made of XML characters and
well-formed references only); every text leaf is safe character data; decoding the character data
gives back the input characters. The recognizer accepts a subset of XML 1.0 (see its header);
that it agrees with a conforming parser (expat) is checked on the implementation's output by the
oracle, which runs both.
-/
namespace Svgbob.C02
open Svgbob

/-- every text node: safe character data for every input string -/
theorem text_is_safe_character_data (s : List Char) : TextSafe (escapeHtmlText s) :=
  escapeHtmlText_safe s

/-- the style sheet (base sheet + legend rules): safe character data whatever the legend holds -/
theorem style_is_safe_character_data (cfg : Cfg) (css : List (List Char × List Char)) :
    (styleNode cfg css).Safe := by
  refine Node.Safe.elem _ _ _ (by simp) ?_
  intro k hk; simp at hk; subst hk
  exact Node.Safe.text _ (escapeCss_safe _)

/-- safe character data never contains `<` and consists of XML characters only -/
theorem safe_text_has_no_markup {l : List Char} (h : TextSafe l) :
    '<' ∉ l ∧ ∀ c ∈ l, xmlChar c = true := ⟨h.no_lt, h.all_xmlChar⟩

/-- **the whole document**: for every configuration, fragment list and legend -/
theorem document_is_lexically_safe (len : List Char → Nat) (cfg : Cfg) (cells : List (Cell × Char))
    (css : List (List Char × List Char)) (accepted : List Frag) (groups : List (List Frag)) :
    (svgRoot len cfg cells css accepted groups).Safe :=
  svgRoot_safe len cfg cells css accepted groups

/-- **the whole serialized document is one well-formed XML element**, for every configuration,
cell set, legend, fragment list, and for both the compact and the indented serializer -/
theorem document_is_well_formed (len : List Char → Nat) (cfg : Cfg) (cells : List (Cell × Char))
    (css : List (List Char × List Char)) (accepted : List Frag) (groups : List (List Frag))
    (den : Nat) (pretty : Bool) :
    Xml.WellFormed ((svgRoot len cfg cells css accepted groups).render den pretty 0) := by
  have hsafe := svgRoot_safe len cfg cells css accepted groups
  have hel : (svgRoot len cfg cells css accepted groups).isText = false := by
    unfold svgRoot; simp only; split <;> rfl
  obtain ⟨f, hf⟩ := Xml.element_render den pretty _ 0 [] hsafe hel
  exact ⟨f, [], by simpa using hf, rfl⟩

/-- **the whole conversion** (`Model/Convert.convertDoc`, the function the driver serializes for the
byte-level correspondence): whatever the text, the environment, the settings and the catalogue, the
document it returns serializes — compact or indented — to one well-formed XML element -/
theorem whole_conversion_is_well_formed (env : Env) (cfg : Cfg) (cat : Catalogue) (input : List Char)
    (root : Node) (h : convertDoc env cfg cat input = some root) (den : Nat) (pretty : Bool) :
    Xml.WellFormed (root.render den pretty 0) := by
  unfold convertDoc at h
  simp only at h
  split at h
  · cases h
  · cases h
    exact document_is_well_formed _ cfg _ _ _ _ den pretty

/-- the executable recognizer is sound for the `WellFormed` predicate (it is the one the oracle
runs on the implementation's output next to expat) -/
theorem recognizer_sound (s : List Char) (h : Xml.wellFormed s = true) : Xml.WellFormed s :=
  Xml.wellFormed_sound s h

/-! the recognizer accepts a balanced document and rejects mismatched tags, a duplicate attribute,
raw markup in character data and a quote inside a value (tests, labelled as tests) -/
example : Xml.wellFormed "<svg a=\"1\"><g>x &amp; y</g></svg>".toList = true := by decide +kernel
example : Xml.wellFormed "<svg><g></svg></g>".toList = false := by decide +kernel
example : Xml.wellFormed "<svg a=\"1\" a=\"2\"></svg>".toList = false := by decide +kernel
example : Xml.wellFormed "<svg>a & b</svg>".toList = false := by decide +kernel
example : Xml.wellFormed "<svg>a < b</svg>".toList = false := by decide +kernel
example : Xml.wellFormed "<svg x=\"a\"b\"></svg>".toList = false := by decide +kernel

/-- an attribute value never contains a quote, `<` or `&` -/
theorem attribute_values_stay_inside_their_quotes (den : Nat) (v : AttrVal) (h : v.Safe) :
    ∀ c ∈ v.render den, c ≠ '"' ∧ c ≠ '<' ∧ c ≠ '&' ∧ xmlChar c = true := by
  intro c hc
  have := AttrVal.render_safe den v h c hc
  simp only [attrChar, Bool.and_eq_true, bne_iff_ne, ne_eq] at this
  exact ⟨this.1.1.2, this.1.2, this.2, this.1.1.1⟩

/-- **reading the text back**: a parser's decoding of a text node yields exactly the input
characters that XML can represent (the NUL fillers and other unrepresentable characters are
dropped, `<`, `&`, quotes and non-ASCII characters come back unchanged) -/
theorem text_round_trips (s : List Char) :
    decodeRefs (escapeHtmlText s).length (escapeHtmlText s) = s.filter xmlChar :=
  decode_escapeHtmlText s _ (Nat.le_refl _)

/-- the root is an `svg` element in the SVG namespace with numeric width and height -/
theorem root_is_svg (len : List Char → Nat) (cfg : Cfg) (cells : List (Cell × Char))
    (css : List (List Char × List Char)) (accepted : List Frag) (groups : List (List Frag)) :
    ∃ w h kids, svgRoot len cfg cells css accepted groups =
      .elem .svg [(.xmlns, [.lit "http://www.w3.org/2000/svg"]), (.width, [.num w]),
        (.height, [.num h]), (.class, [.lit "svgbob"])] kids := by
  unfold svgRoot
  simp only
  split <;> exact ⟨_, _, _, rfl⟩

/-- a number is written with digits, sign and decimal point only -/
theorem numbers_are_decimal (den : Nat) (n : Int) : ∀ c ∈ renderNum den n, numChar c = true :=
  renderNum_num den n

/-- the model's escape function agrees with the literal rows of `replace_html_char` as they stand
in the source now (regenerated table) -/
theorem escape_table_matches_source :
    Gen.escapeTable.all (fun cr => replaceHtmlChar cr.1 == cr.2.toList) = true := by decide

/-! Non-vacuity / tests (labelled as tests). -/
example : escapeHtmlText "a<b&\"c\"".toList = "a&lt;b&amp;&quot;c&quot;".toList := by decide
example : escapeHtmlText [Char.ofNat 1, 'x', Char.ofNat 0, Char.ofNat 0xFFFE] = ['x'] := by decide
example : renderNum 1000 4500 = "4.5".toList := by decide
example : renderNum 2000 (-250) = "-0.125".toList := by decide

end Svgbob.C02

import Svgbob.Proofs.CircleMatchFacts
import Svgbob.Proofs.CircleShift
/-!
# C13 — every catalogued circle drawing becomes exactly one matching circle

At the origin, by kernel evaluation over the REGENERATED catalogue (`catalogue_facts`,
`every_drawing_matches_its_circle`): each of the 22 drawings forms exactly one span, is endorsed
as exactly its own circle with no cell left over, the circle's horizontal extent equals the
drawing's extent, its radius follows the documented rule and every character of the drawing lies
within about one cell of the circle. Anywhere on the page, by proof: the catalogue endorsement and
the span grouping are translation equivariant. "Unrelated content elsewhere" is C10's independence
theorem. The end-to-end statement is checked by the oracle on the implementation for all 22
drawings at offsets up to (60, 40), and the model is tied to the implementation byte for byte.
-/
namespace Svgbob.C13
open Svgbob

/-- **22 drawings, one span each, radius rule, horizontal extent, nearness, distinct sizes** -/
theorem catalogue_geometry :
    (circleInfos.map fun l =>
      l.length == 22 && l.all circleInside &&
      (Gen.circleArt.zip l).all (fun rc => circleRadiusRule rc.1 rc.2) &&
      l.all cellsNearCircle &&
      (l.map (·.diameter)).eraseDups.length == 22) = some true := catalogue_facts

/-- **each drawing is endorsed as exactly its own circle, nothing left over** (at the origin) -/
theorem each_drawing_is_its_circle :
    (catalogue.bind fun cat => circleInfos.map fun infos => infos.all (matchesOwnCircle cat)) =
      some true := every_drawing_matches_its_circle

/-- **…and anywhere on the page**: moving the span by any `(k, n)` moves the endorsed circle and
changes nothing else -/
theorem endorsement_anywhere (cat : Catalogue) (k n : Int) (s : Span) :
    endorseArcsAndCircles cat (Span.shift k n s) =
      (endorseArcsAndCircles cat s).map fun r => (r.1.map (FragSpan.move k n), Span.shift k n r.2) :=
  endorseArcsAndCircles_shift cat k n s

/-- the drawing's cells form the same single span wherever the drawing is placed -/
theorem span_anywhere (k n : Int) (items : List Span) :
    spansOf (items.map (Span.shift k n)) = (spansOf items).map (Span.shift k n) :=
  spansOf_shift k n items

/-- corollary: a drawing that matches its circle at the origin matches the moved circle when
moved -/
theorem moved_drawing_is_moved_circle (cat : Catalogue) (ci : CircleInfo) (k n : Int)
    (h : matchesOwnCircle cat ci = true) :
    endorseArcsAndCircles cat (Span.shift k n ci.span) =
      some ([FragSpan.move k n ⟨ci.span, .circle ci.center ci.radius false⟩], []) := by
  have h0 : endorseArcsAndCircles cat ci.span =
      some ([⟨ci.span, .circle ci.center ci.radius false⟩], []) := by
    simpa [matchesOwnCircle] using h
  rw [endorseArcsAndCircles_shift, h0]
  simp [Span.shift]

end Svgbob.C13

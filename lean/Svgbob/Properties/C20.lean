import Svgbob.Model.Shell
import Svgbob.Gen.Consts
/-!
# C20 — the HTTP server returns the library's conversion and survives any request

Theorems about `handle` / `serve` (`Model/Shell.lean`), the model of
`svgbob_server/src/main.rs`: a stateless handler. axum's routing and body limit (404/405/413),
connection handling, tokio scheduling and task isolation after a panic are runtime behaviour
outside the model; the correspondence runs the built server on random request sequences,
sequentially and from concurrent clients, and compares every answer with the library called in
process.
-/
namespace Svgbob.C20
open Svgbob

/-- **POST of a UTF-8 body within the limit**: 200 with exactly the library's conversion -/
theorem post_returns_conversion (name version : String) (toSvg : String → String) (text : String)
    (size : Nat) (hs : size ≤ bodyLimit) :
    handle name version toSvg ⟨.post, "/", some text, size⟩ = ⟨200, toSvg text⟩ := by
  have : ¬ size > bodyLimit := by omega
  simp [handle, this]

/-- a body that is not valid UTF-8: 400 -/
theorem post_invalid_utf8 (name version : String) (toSvg : String → String) (size : Nat)
    (hs : size ≤ bodyLimit) :
    handle name version toSvg ⟨.post, "/", none, size⟩ = ⟨400, ""⟩ := by
  have : ¬ size > bodyLimit := by omega
  simp [handle, this]

/-- GET: package name and version (the constants are regenerated from `Cargo.toml`) -/
theorem get_returns_name_version (toSvg : String → String) (r : Request) (hm : r.method = .get)
    (hp : r.path = "/") :
    handle Gen.serverPackageName Gen.serverPackageVersion toSvg r =
      ⟨200, Gen.serverPackageName ++ " " ++ Gen.serverPackageVersion⟩ := by
  simp [handle, hm, hp]

/-- **every request gets an answer** (the handler is total) and the status is one of the six
the property names -/
theorem every_request_answered (name version : String) (toSvg : String → String) (r : Request) :
    (handle name version toSvg r).status ∈ [200, 400, 404, 405, 413] := by
  unfold handle
  repeat' split
  all_goals simp

/-- **answers do not depend on what was asked before**: the answer to a request in a sequence is
the answer to that request alone -/
theorem history_independent (name version : String) (toSvg : String → String)
    (before after : List Request) (r : Request) :
    (serve name version toSvg (before ++ r :: after))[before.length]? =
      some (handle name version toSvg r) := by
  simp [serve]

/-- **answers do not depend on request order**: permuting the requests permutes the answers -/
theorem order_independent (name version : String) (toSvg : String → String) (rs rs' : List Request)
    (h : rs.Perm rs') :
    (serve name version toSvg rs).Perm (serve name version toSvg rs') :=
  h.map _

/-- no request can make the server stop answering later ones: a hostile prefix changes nothing -/
theorem survives_any_prefix (name version : String) (toSvg : String → String)
    (hostile : List Request) (rs : List Request) :
    (serve name version toSvg (hostile ++ rs)).drop hostile.length = serve name version toSvg rs := by
  simp [serve]

end Svgbob.C20

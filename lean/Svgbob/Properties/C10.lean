import Svgbob.Proofs.Independence
/-!
# C10 — separated sub-diagrams render independently of each other

`endorseAll_independent`: for cells lying on the two sides of a blank column (axis `x`) or a
blank row (axis `y`), the top-level fragments and the groups the model computes for the whole
drawing are, as multisets, exactly those of the low side plus those of the high side (each part
keeps its absolute coordinates, so "shifted to its place" is built in). The proof goes through
the locality theorem of the greedy merge loop (`G.mergeRec_filter_inv`): spans never merge
across the blank line, so the spans of one side are those of that side's cells alone, and every
later stage works span by span.
The last stage (containment forest: document order and `{tag}` classes) is order sensitive and is
not part of this theorem; the property's inputs are tag-free, and the oracle compares element
multisets of the implementation's output.
-/
namespace Svgbob.C10
open Svgbob

/-- spans never merge across a blank column or row -/
theorem no_merge_across_gap (ax : Axis) (t : Int) (a b : Span)
    (ha : ∀ c ∈ a, ax.proj c.1 ≤ t) (hb : ∀ c ∈ b, t + 2 ≤ ax.proj c.1) :
    spanMerge a b = none ∧ spanMerge b a = none := spanMerge_none_across ax t a b ha hb

/-- **span grouping is local**: the groups of one side are those of that side's cells alone -/
theorem spans_local (ax : Axis) (t : Int) (side : Nat) (items : List Span)
    (hp : ∀ s ∈ items, Pure ax t s) :
    (spansOf items).filter (sideOf ax t · = side) =
      spansOf (items.filter (sideOf ax t · = side)) := spansOf_local ax t side items hp

/-- **independence of the endorsement stage** (multiset union of the parts) -/
theorem endorsement_independent (len : List Char → Nat) (cat : Catalogue) (ax : Axis) (t : Int)
    (cells : Span) (hsep : ∀ cc ∈ cells, ax.proj cc.1 ≤ t ∨ t + 2 ≤ ax.proj cc.1)
    (F FA FB : List FragSpan) (G GA GB : List (List FragSpan))
    (h : endorseAll len cat cells [] = some (F, G))
    (hA : endorseAll len cat (cells.filter fun cc => ax.proj cc.1 ≤ t) [] = some (FA, GA))
    (hB : endorseAll len cat (cells.filter fun cc => !decide (ax.proj cc.1 ≤ t)) [] = some (FB, GB)) :
    F.Perm (FA ++ FB) ∧ G.Perm (GA ++ GB) :=
  endorseAll_independent len cat ax t cells hsep F FA FB G GA GB h hA hB

/-! Non-vacuity: two cells two columns apart satisfy the separation hypothesis for `t = 0`. -/
example : ∀ cc ∈ ([(⟨0, 0⟩, 'a'), (⟨2, 0⟩, 'b')] : Span),
    Axis.x.proj cc.1 ≤ 0 ∨ 0 + 2 ≤ Axis.x.proj cc.1 := by
  intro cc hcc
  simp only [List.mem_cons, List.mem_nil_iff, or_false] at hcc
  rcases hcc with rfl | rfl <;> simp [Axis.x]

end Svgbob.C10

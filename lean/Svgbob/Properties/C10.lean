import Svgbob.Proofs.Independence
import Svgbob.Proofs.MoveAll2
import Svgbob.Proofs.Forest
/-!
# C10 — separated sub-diagrams render independently of each other

`endorseAll_independent`: for cells lying on the two sides of a blank column (axis `x`) or a
blank row (axis `y`), the top-level fragments and the groups the model computes for the whole
drawing are, as multisets, exactly those of the low side plus those of the high side (each part
keeps its absolute coordinates, so "shifted to its place" is built in). The proof goes through
the locality theorem of the greedy merge loop (`G.mergeRec_filter_inv`): spans never merge
across the blank line, so the spans of one side are those of that side's cells alone, and every
later stage works span by span.
The last stage (containment forest: document order and `{tag}` classes) is order sensitive; for
tag-free input it only reorders (`last_stage_only_reorders`, `last_stage_respects_permutations`),
so the multiset statement carries through to the elements of the document. The property's inputs
are tag-free, and the oracle compares element multisets of the implementation's output.
-/
namespace Svgbob.C10
open Svgbob

/-- spans never merge across a blank column or row -/
theorem no_merge_across_gap (ax : Axis) (t : Int) (a b : Span)
    (ha : ∀ c ∈ a, ax.proj c.1 ≤ t) (hb : ∀ c ∈ b, t + 2 ≤ ax.proj c.1) :
    spanMerge a b = none ∧ spanMerge b a = none := spanMerge_none_across ax t a b ha hb

/-- **span grouping is local**: the groups of one side are those of that side's cells alone -/
theorem spans_local (ax : Axis) (t : Int) (side : Nat) (items : List Span)
    (hp : ∀ s ∈ items, Pure ax t s) :
    (spansOf items).filter (sideOf ax t · = side) =
      spansOf (items.filter (sideOf ax t · = side)) := spansOf_local ax t side items hp

/-- **independence of the endorsement stage** (multiset union of the parts) -/
theorem endorsement_independent (len : List Char → Nat) (cat : Catalogue) (ax : Axis) (t : Int)
    (cells : Span) (hsep : ∀ cc ∈ cells, ax.proj cc.1 ≤ t ∨ t + 2 ≤ ax.proj cc.1)
    (F FA FB : List FragSpan) (G GA GB : List (List FragSpan))
    (h : endorseAll len cat cells [] = some (F, G))
    (hA : endorseAll len cat (cells.filter fun cc => ax.proj cc.1 ≤ t) [] = some (FA, GA))
    (hB : endorseAll len cat (cells.filter fun cc => !decide (ax.proj cc.1 ≤ t)) [] = some (FB, GB)) :
    F.Perm (FA ++ FB) ∧ G.Perm (GA ++ GB) :=
  endorseAll_independent len cat ax t cells hsep F FA FB G GA GB h hA hB

/-- **a juxtaposition renders as the union of its parts**: drawing `A` and drawing `B` moved by
`(k, n)` cells to the other side of a blank column or row give, as multisets, the fragments and
groups of `A` alone plus those of `B` alone moved by `(k, n)` (C10 and C06 together) -/
theorem juxtaposition_is_union (len : List Char → Nat) (cat : Catalogue) (ax : Axis) (t : Int)
    (A B : Span) (k n : Int)
    (hlow : ∀ cc ∈ A, ax.proj cc.1 ≤ t) (hhigh : ∀ cc ∈ Span.shift k n B, t + 2 ≤ ax.proj cc.1)
    (F FA FB : List FragSpan) (G GA GB : List (List FragSpan))
    (h : endorseAll len cat (A ++ Span.shift k n B) [] = some (F, G))
    (hA : endorseAll len cat A [] = some (FA, GA))
    (hB : endorseAll len cat B [] = some (FB, GB)) :
    F.Perm (FA ++ FB.map (FragSpan.move k n)) ∧
    G.Perm (GA ++ GB.map (List.map (FragSpan.move k n))) := by
  have hsep : ∀ cc ∈ A ++ Span.shift k n B, ax.proj cc.1 ≤ t ∨ t + 2 ≤ ax.proj cc.1 := by
    intro cc hcc
    rcases List.mem_append.mp hcc with hc | hc
    · exact Or.inl (hlow cc hc)
    · exact Or.inr (hhigh cc hc)
  have hfl : (A ++ Span.shift k n B).filter (fun cc => ax.proj cc.1 ≤ t) = A := by
    rw [List.filter_append]
    have h1 : A.filter (fun cc => decide (ax.proj cc.1 ≤ t)) = A :=
      List.filter_eq_self.mpr (fun cc hc => by simpa using hlow cc hc)
    have h2 : (Span.shift k n B).filter (fun cc => decide (ax.proj cc.1 ≤ t)) = [] :=
      List.filter_eq_nil_iff.mpr (fun cc hc => by have := hhigh cc hc; simp; omega)
    rw [h1, h2, List.append_nil]
  have hfh : (A ++ Span.shift k n B).filter (fun cc => !decide (ax.proj cc.1 ≤ t)) = Span.shift k n B := by
    rw [List.filter_append]
    have h1 : A.filter (fun cc => !decide (ax.proj cc.1 ≤ t)) = [] :=
      List.filter_eq_nil_iff.mpr (fun cc hc => by have := hlow cc hc; simp; omega)
    have h2 : (Span.shift k n B).filter (fun cc => !decide (ax.proj cc.1 ≤ t)) = Span.shift k n B :=
      List.filter_eq_self.mpr (fun cc hc => by have := hhigh cc hc; simp; omega)
    rw [h1, h2, List.nil_append]
  have hBs : endorseAll len cat (Span.shift k n B) [] =
      some (FB.map (FragSpan.move k n), GB.map (List.map (FragSpan.move k n))) := by
    have := endorseAll_shift len cat k n B []
    simp only [List.map_nil, hB, Option.map_some, moveResult] at this
    exact this
  exact endorseAll_independent len cat ax t _ hsep F FA _ G GA _ h (by rw [hfl]; exact hA)
    (by rw [hfh]; exact hBs)

/-- **the last stage only reorders** (tag-free input): the nodes `fragments_to_node` emits for a
list of fragments none of which reads as a `{tag}` are a permutation of the nodes of those
fragments. Together with `endorsement_independent` (the fragments of a juxtaposition are the
fragments of the parts) the elements of the whole drawing are, as a multiset, the elements of its
parts. -/
theorem last_stage_only_reorders (len : List Char → Nat) (k : Int) (frags : List Frag)
    (h : ∀ f ∈ frags, (f.scale 1).asCssTag = []) :
    (fragmentsToNodes len k frags).Perm (frags.map fun f => plainNode k (f.scale 1)) :=
  fragmentsToNodes_perm len k frags h

/-- …so two fragment lists that are permutations of each other give permutations of the same nodes -/
theorem last_stage_respects_permutations (len : List Char → Nat) (k : Int) (F F' : List Frag)
    (hperm : F.Perm F') (h : ∀ f ∈ F, (f.scale 1).asCssTag = []) :
    (fragmentsToNodes len k F).Perm (fragmentsToNodes len k F') := by
  have h' : ∀ f ∈ F', (f.scale 1).asCssTag = [] := fun f hf => h f (hperm.mem_iff.mpr hf)
  exact (fragmentsToNodes_perm len k F h).trans
    ((hperm.map _).trans (fragmentsToNodes_perm len k F' h').symm)

/-! Non-vacuity: two cells two columns apart satisfy the separation hypothesis for `t = 0`. -/
example : ∀ cc ∈ ([(⟨0, 0⟩, 'a'), (⟨2, 0⟩, 'b')] : Span),
    Axis.x.proj cc.1 ≤ 0 ∨ 0 + 2 ≤ Axis.x.proj cc.1 := by
  intro cc hcc
  simp only [List.mem_cons, List.mem_nil_iff, or_false] at hcc
  rcases hcc with rfl | rfl <;> simp [Axis.x]

end Svgbob.C10

import Svgbob.Proofs.Provenance
import Svgbob.Proofs.SourceConstants
import Svgbob.Proofs.RectSound
import Svgbob.Proofs.TableLocal
import Svgbob.Proofs.RectStrokes
import Svgbob.Proofs.ScopeStrokes
import Mathlib.Tactic.SplitIfs
import Mathlib.Tactic.Tauto
/-!
# C03 — diagrams of `- | +` and labels render exactly the strokes the characters denote

Proved here over the REGENERATED table, for ALL 8-neighbourhoods whose cells come from the
alphabet {space, `-`, `|`, `+`, label}: the fragments `-`, `|` and `+` emit are exactly the
per-character strokes of the specification (`specStrokes`), and they are solid lines only.
The enumeration is cut down soundly: every behaviour row of the three characters mentions either
axis neighbours only or diagonal neighbours only (`rowLocal`, decided), a condition only looks at
the neighbours it mentions (`Cond.eval_congr`, proved), so the diagonal neighbours cannot matter
and the 4^4 axis neighbourhoods are decided by kernel evaluation.
Together with: line merging only joins collinear touching lines (C09) and a rectangle replaces
four lines that are exactly its four sides (`rect_replaces_its_sides`), the stroked point set is
unchanged by the later stages. The end-to-end equality of stroke sets is checked by the oracle
exhaustively on small grids and randomly on larger ones; the model is tied to the implementation
byte for byte on the same grids.
-/
namespace Svgbob.C03
open Svgbob

def L : List Char → Nat := fun c => c.length

def eDash : Entry := (entryOf L '-').getD Entry.empty
def eBar : Entry := (entryOf L '|').getD Entry.empty
def ePlus : Entry := (entryOf L '+').getD Entry.empty

/-- how the cells of the alphabet look to their neighbours: a space and a label character (no
property) both look like the empty property -/
def nbEntries : List Entry := [Entry.empty, eDash, eBar, ePlus]

/-- every character of the alphabet is one of these as a neighbour (labels: the characters below
have no property at all) -/
theorem alphabet_neighbours :
    [' ', '-', '|', '+'].all (fun ch => ((entryOf L ch).getD Entry.empty).ch ==
      (if ch == ' ' then ' ' else ch)) = true ∧
    "abcdefghijklmnpqrstuwyz0123456789".toList.all (fun ch => (entryOf L ch).isNone) = true := by
  constructor <;> decide +kernel

/-- the specification: strokes of one cell given its four axis neighbours (by their characters;
an empty or label neighbour has character `' '`), as cell-local segments in milli-units -/
def specStrokes (ch up down left right : Char) : List (Pt × Pt) :=
  if ch == '-' then [(⟨0, 1000⟩, ⟨1000, 1000⟩)]
  else if ch == '|' then
    [(⟨500, 0⟩, ⟨500, 2000⟩)] ++
    (if right == '-' then [(⟨500, 1000⟩, ⟨1000, 1000⟩)] else []) ++
    (if left == '-' then [(⟨0, 1000⟩, ⟨500, 1000⟩)] else [])
  else if ch == '+' then
    (if up == '|' || up == '+' then [(⟨500, 0⟩, ⟨500, 1000⟩)] else []) ++
    (if down == '|' || down == '+' then [(⟨500, 1000⟩, ⟨500, 2000⟩)] else []) ++
    (if left == '-' || left == '+' then [(⟨0, 1000⟩, ⟨500, 1000⟩)] else []) ++
    (if right == '-' || right == '+' then [(⟨500, 1000⟩, ⟨1000, 1000⟩)] else [])
  else []

def segsOf : List Frag → Option (List (Pt × Pt))
  | [] => some []
  | .line s e false :: rest => (segsOf rest).map ((s, e) :: ·)
  | _ => none

def sameSet (a b : List (Pt × Pt)) : Bool := a.all (b.contains ·) && b.all (a.contains ·)

/-- for one character and one neighbourhood: the table emits solid lines only and their set is
the specified set -/
def cellOk (en : Entry) (nb : Dir → Entry) : Bool :=
  match segsOf (en.fragments nb) with
  | some segs => sameSet segs (specStrokes en.ch (nb .top).ch (nb .bottom).ch (nb .left).ch (nb .right).ch)
  | none => false

def axisAll (en : Entry) : Bool :=
  nbEntries.all fun t => nbEntries.all fun b => nbEntries.all fun l => nbEntries.all fun r =>
    cellOk en (axisFun t b l r)

/-- decided: all rows of the three entries are local w.r.t. the alphabet's neighbour entries -/
theorem rows_local :
    [eDash, eBar, ePlus].all (fun en => en.behavior.all fun row => rowLocal nbEntries row.1) = true := by
  decide +kernel

/-- decided: the 4^4 axis neighbourhoods of each of the three characters -/
theorem axis_neighbourhoods : [eDash, eBar, ePlus].all axisAll = true := by
  decide +kernel

/-- **`-`, `|` and `+` emit exactly their specified strokes in every 8-neighbourhood over the
alphabet.** -/
theorem strokes_in_every_neighbourhood (en : Entry) (hen : en ∈ [eDash, eBar, ePlus])
    (nb : Dir → Entry) (hnb : ∀ d, nb d ∈ nbEntries) : cellOk en nb = true := by
  have hl := List.all_eq_true.mp rows_local en hen
  have hax := List.all_eq_true.mp axis_neighbourhoods en hen
  have hfr := fragments_axisOnly nbEntries en hl nb hnb
  have h1 := List.all_eq_true.mp hax _ (hnb .top)
  have h2 := List.all_eq_true.mp h1 _ (hnb .bottom)
  have h3 := List.all_eq_true.mp h2 _ (hnb .left)
  have h4 := List.all_eq_true.mp h3 _ (hnb .right)
  unfold cellOk at h4 ⊢
  rw [hfr, axisOnly_eq_axisFun]
  simpa [axisFun] using h4

/-- a `+` without a pointing neighbour emits nothing and is shown as text -/
theorem lone_plus_is_text (s : Span) (c : Cell)
    (h : ((entryOf L '+').map fun en => (en.fragments (neighbours L s c)).isEmpty) = some true) :
    cellFragments L s c '+' = [.cellText ⟨0, 0⟩ ['+']] := by
  unfold cellFragments
  cases he : entryOf L '+' with
  | none => simp
  | some en =>
    simp only [he, Option.map_some, Option.some.injEq] at h
    have hu : unicodeFrags L '+' = none := by decide +kernel
    simp [h, hu]

/-- a rectangle replaces exactly the four lines that are its sides, so its outline strokes the
same points -/
theorem rect_replaces_its_sides (frags : List Frag) (r : Frag) (h : endorseRect frags = some r) :
    frags.length = 4 ∧ ∀ se ∈ boundsSides frags, ∃ b, Frag.line se.1 se.2 b ∈ frags := by
  have hr := endorseRect_some frags r h
  obtain ⟨hl, hs⟩ := isRect_sides frags hr
  exact ⟨hl, linesAreSides_mem frags hs⟩

/-! ## From the cells to the rendered strokes, as sets of rational points

The three stages that touch a stroke after the table lookup — moving the cell-local fragments to
their cell, the greedy fragment merge of the scope, and the replacement of a four-line contact
group by a rectangle — keep the set of stroked points, for every rational point of the plane. -/

/-- every segment the specification can name -/
def allSegs : List (Pt × Pt) :=
  [(⟨0, 1000⟩, ⟨1000, 1000⟩), (⟨500, 0⟩, ⟨500, 2000⟩), (⟨500, 1000⟩, ⟨1000, 1000⟩),
   (⟨0, 1000⟩, ⟨500, 1000⟩), (⟨500, 0⟩, ⟨500, 1000⟩), (⟨500, 1000⟩, ⟨500, 2000⟩)]

theorem spec_subset (ch u d l r : Char) : ∀ se ∈ specStrokes ch u d l r, se ∈ allSegs := by
  intro se h
  unfold specStrokes at h
  split_ifs at h <;> simp_all [allSegs] <;> tauto

/-- each of them is stored start-before-end and lies on the quarter-cell grid -/
theorem allSegs_proper : ∀ se ∈ allSegs, se.1.cmp se.2 = .lt ∧ OnGrid se.1 ∧ OnGrid se.2 := by
  intro se h
  simp only [allSegs, List.mem_cons, List.mem_nil_iff, or_false] at h
  rcases h with rfl | rfl | rfl | rfl | rfl | rfl <;>
    exact ⟨by decide, ⟨by decide, by decide⟩, ⟨by decide, by decide⟩⟩

theorem segsOf_some (fs : List Frag) (segs : List (Pt × Pt)) (h : segsOf fs = some segs) :
    ∀ f ∈ fs, ∃ s e, f = .line s e false ∧ (s, e) ∈ segs := by
  induction fs generalizing segs with
  | nil => simp
  | cons f fs ih =>
    cases f with
    | line s e b =>
      cases b with
      | true => simp [segsOf] at h
      | false =>
        simp only [segsOf, Option.map_eq_some_iff] at h
        obtain ⟨rest, hrest, rfl⟩ := h
        intro g hg
        rcases List.mem_cons.mp hg with rfl | hg
        · exact ⟨s, e, rfl, by simp⟩
        · obtain ⟨s', e', h1, h2⟩ := ih rest hrest g hg
          exact ⟨s', e', h1, List.mem_cons_of_mem _ h2⟩
    | _ => simp [segsOf] at h

/-- **every fragment of a `-`, `|`, `+` cell, moved to its cell, is a proper grid line** — the
hypothesis of the two theorems below holds for every drawing over the alphabet -/
theorem alphabet_fragments_are_proper_lines (en : Entry) (hen : en ∈ [eDash, eBar, ePlus])
    (nb : Dir → Entry) (hnb : ∀ d, nb d ∈ nbEntries) (c : Cell) :
    ∀ f ∈ en.fragments nb, (f.absPos c).StrokeOk := by
  have hok := strokes_in_every_neighbourhood en hen nb hnb
  unfold cellOk at hok
  split at hok
  · rename_i segs hsegs
    intro f hf
    obtain ⟨s, e, rfl, hmem⟩ := segsOf_some _ _ hsegs f hf
    simp only [sameSet, Bool.and_eq_true, List.all_eq_true] at hok
    have h1 := hok.1 _ hmem
    simp only [List.contains_iff_mem] at h1
    obtain ⟨hlt, ⟨g1, g2⟩, ⟨g3, g4⟩⟩ := allSegs_proper _ (spec_subset _ _ _ _ _ _ h1)
    simp only at hlt g1 g2 g3 g4
    rw [cmp_lt_iff] at hlt
    refine ⟨?_, ⟨?_, ?_⟩, ⟨?_, ?_⟩⟩
    · rw [cmp_lt_iff]; simp only [Pt.add, Cell.origin]; omega
    all_goals (simp only [Pt.add, Cell.origin]; omega)
  · simp at hok

/-- **the fragment merge keeps the stroked point set**: a rational point is stroked by some
fragment after `merge_recursive` iff it was stroked by some fragment before -/
theorem merge_keeps_the_stroked_points (len : List Char → Nat) (frags : List FragSpan)
    (h : ∀ f ∈ frags, f.frag.StrokeOk) (n : Nat) (P : RPt) (hq : 0 < P.q) :
    (∃ f ∈ G.mergeRec (FragSpan.merge len) n frags, f.frag.strokes P) ↔
      (∃ f ∈ frags, f.frag.strokes P) :=
  mergeRec_preserves_strokes len frags h n P hq

/-- **a rectangle's outline is the union of the four lines it replaces** -/
theorem rect_outline_is_its_lines (frags : List Frag) (r : Frag) (h : endorseRect frags = some r)
    (hok : ∀ f ∈ frags, f.StrokeOk) (P : RPt) :
    r.outline P ↔ ∃ f ∈ frags, f.strokes P :=
  endorseRect_strokes frags r h hok P

/-! ### a whole scope over the alphabet -/

/-- a span over the alphabet: every cell holds `-`, `|`, `+`, or a character without any drawing
meaning (a label character) -/
def Alpha (len : List Char → Nat) (s : Span) : Prop :=
  ∀ cc ∈ s, cc.2 = '-' ∨ cc.2 = '|' ∨ cc.2 = '+' ∨ entryOf len cc.2 = none

theorem entryOf_ascii (len : List Char → Nat) (ch : Char) (e : Entry) (h : asciiEntry ch = some e) :
    entryOf len ch = some e := by simp [entryOf, h]

theorem ascii_getD (ch : Char) (h : (asciiEntry ch).isSome = true) :
    asciiEntry ch = some ((entryOf L ch).getD Entry.empty) := by
  cases ha : asciiEntry ch with
  | none => rw [ha] at h; cases h
  | some e => simp [entryOf, ha]

theorem entries_are_ascii :
    asciiEntry '-' = some eDash ∧ asciiEntry '|' = some eBar ∧ asciiEntry '+' = some ePlus :=
  ⟨ascii_getD '-' (by decide +kernel), ascii_getD '|' (by decide +kernel), ascii_getD '+' (by decide +kernel)⟩

theorem no_glyph_for_the_three (len : List Char → Nat) :
    unicodeFrags len '-' = none ∧ unicodeFrags len '|' = none ∧ unicodeFrags len '+' = none := by
  have h : Gen.unicodeTable.reverse.find? (·.1 == '-') = none ∧
      Gen.unicodeTable.reverse.find? (·.1 == '|') = none ∧
      Gen.unicodeTable.reverse.find? (·.1 == '+') = none := by
    refine ⟨?_, ?_, ?_⟩ <;> decide +kernel
  simp [unicodeFrags, h.1, h.2.1, h.2.2]

/-- in a span over the alphabet every neighbour looks like empty, `-`, `|` or `+` -/
theorem alpha_neighbours (len : List Char → Nat) (s : Span) (ha : Alpha len s) (c : Cell) (d : Dir) :
    neighbours len s c d ∈ nbEntries := by
  unfold neighbours
  split
  · rename_i ch hch
    have hmem := spanLookup_some_mem s _ ch hch
    rcases ha _ hmem with h | h | h | h
    · simp only at h; subst h
      rw [entryOf_ascii len _ _ entries_are_ascii.1]; simp [nbEntries]
    · simp only at h; subst h
      rw [entryOf_ascii len _ _ entries_are_ascii.2.1]; simp [nbEntries]
    · simp only at h; subst h
      rw [entryOf_ascii len _ _ entries_are_ascii.2.2]; simp [nbEntries]
    · simp only at h; rw [h]; simp [nbEntries]
  · simp [nbEntries]

/-- the specified strokes of a cell of the span (neighbours by what they look like) -/
def specOf (len : List Char → Nat) (s : Span) (cc : Cell × Char) : List (Pt × Pt) :=
  specStrokes cc.2 (neighbours len s cc.1 .top).ch (neighbours len s cc.1 .bottom).ch
    (neighbours len s cc.1 .left).ch (neighbours len s cc.1 .right).ch

/-- the fragments of a cell of the span: proper grid lines (or a text), stroking exactly the
specified strokes of that cell -/
theorem alpha_cell (len : List Char → Nat) (s : Span) (ha : Alpha len s) (cc : Cell × Char)
    (hcc : cc ∈ s) :
    (∀ f ∈ cellFragments len s cc.1 cc.2, (f.absPos cc.1).StrokeOk) ∧
    ∀ P : RPt, (∃ f ∈ cellFragments len s cc.1 cc.2, (f.absPos cc.1).strokes P) ↔
      ∃ se ∈ specOf len s cc, OnSeg (cc.1.origin.add se.1) (cc.1.origin.add se.2) P := by
  obtain ⟨c, ch⟩ := cc
  have hnb := alpha_neighbours len s ha c
  -- the drawing characters
  have drawing : ∀ en, en ∈ [eDash, eBar, ePlus] → entryOf len ch = some en → ch = en.ch →
      unicodeFrags len ch = none →
      (∀ f ∈ cellFragments len s c ch, (f.absPos c).StrokeOk) ∧
      ∀ P : RPt, (∃ f ∈ cellFragments len s c ch, (f.absPos c).strokes P) ↔
        ∃ se ∈ specOf len s (c, ch), OnSeg (c.origin.add se.1) (c.origin.add se.2) P := by
    intro en hen he hch hu
    have hok := strokes_in_every_neighbourhood en hen (neighbours len s c) hnb
    have hprop := alphabet_fragments_are_proper_lines en hen (neighbours len s c) hnb c
    unfold cellOk at hok
    split at hok
    · rename_i segs hsegs
      simp only [sameSet, Bool.and_eq_true, List.all_eq_true, List.contains_iff_mem] at hok
      have hfr := segsOf_some _ _ hsegs
      -- every segment of `segs` comes from a fragment
      have hback : ∀ se ∈ segs, Frag.line se.1 se.2 false ∈ en.fragments (neighbours len s c) := by
        have : ∀ (fs : List Frag) (sg : List (Pt × Pt)), segsOf fs = some sg →
            ∀ se ∈ sg, Frag.line se.1 se.2 false ∈ fs := by
          intro fs
          induction fs with
          | nil => intro sg h; simp [segsOf] at h; subst h; simp
          | cons f fs ih =>
            intro sg h
            cases f with
            | line a b br =>
              cases br with
              | true => simp [segsOf] at h
              | false =>
                simp only [segsOf, Option.map_eq_some_iff] at h
                obtain ⟨rest, hrest, rfl⟩ := h
                intro se hse
                rcases List.mem_cons.mp hse with rfl | hse
                · simp
                · exact List.mem_cons_of_mem _ (ih rest hrest se hse)
            | _ => simp [segsOf] at h
        exact this _ _ hsegs
      have hcf : ∀ f, f ∈ cellFragments len s c ch ↔
          (f ∈ en.fragments (neighbours len s c) ∨
            ((en.fragments (neighbours len s c)).isEmpty = true ∧ f = .cellText ⟨0, 0⟩ [ch])) := by
        intro f
        unfold cellFragments
        simp only [he, hu]
        by_cases hemp : (en.fragments (neighbours len s c)).isEmpty = true
        · simp only [hemp, Bool.not_true, Bool.false_eq_true, if_false, List.mem_singleton]
          have : en.fragments (neighbours len s c) = [] := by simpa using hemp
          simp [this]
        · simp only [hemp, Bool.not_false, if_true, sortBy_mem]
          simp
      constructor
      · intro f hf
        rcases (hcf f).mp hf with h | ⟨_, rfl⟩
        · exact hprop f h
        · trivial
      · intro P
        have hspec : specOf len s (c, ch) =
            specStrokes en.ch (neighbours len s c .top).ch (neighbours len s c .bottom).ch
              (neighbours len s c .left).ch (neighbours len s c .right).ch := by
          simp [specOf, hch]
        rw [hspec]
        constructor
        · rintro ⟨f, hf, hs⟩
          rcases (hcf f).mp hf with h | ⟨_, rfl⟩
          · obtain ⟨a, b, rfl, hab⟩ := hfr f h
            exact ⟨(a, b), hok.1 _ hab, by simpa [Frag.absPos, Frag.strokes] using hs⟩
          · simp [Frag.absPos, Frag.strokes] at hs
        · rintro ⟨se, hse, hs⟩
          have := hback se (hok.2 se hse)
          exact ⟨_, (hcf _).mpr (Or.inl this), by simpa [Frag.absPos, Frag.strokes] using hs⟩
    · simp at hok
  have hu := no_glyph_for_the_three len
  rcases ha _ hcc with h | h | h | h
  · simp only at h; subst h
    exact drawing eDash (by simp) (entryOf_ascii len _ _ entries_are_ascii.1) (by decide +kernel) hu.1
  · simp only at h; subst h
    exact drawing eBar (by simp) (entryOf_ascii len _ _ entries_are_ascii.2.1) (by decide +kernel) hu.2.1
  · simp only at h; subst h
    exact drawing ePlus (by simp) (entryOf_ascii len _ _ entries_are_ascii.2.2) (by decide +kernel) hu.2.2
  · -- a label character: one text, no stroke; and the specification names no stroke for it
    simp only at h
    have hne : ch ≠ '-' ∧ ch ≠ '|' ∧ ch ≠ '+' := by
      refine ⟨?_, ?_, ?_⟩ <;> intro hc <;> subst hc
      · rw [entryOf_ascii len _ _ entries_are_ascii.1] at h; cases h
      · rw [entryOf_ascii len _ _ entries_are_ascii.2.1] at h; cases h
      · rw [entryOf_ascii len _ _ entries_are_ascii.2.2] at h; cases h
    have hcf : cellFragments len s c ch = [.cellText ⟨0, 0⟩ [ch]] := by simp [cellFragments, h]
    constructor
    · intro f hf
      rw [hcf] at hf
      simp only [List.mem_singleton] at hf; subst hf; trivial
    · intro P
      simp only [hcf, specOf, specStrokes]
      simp [hne.1, hne.2.1, hne.2.2, Frag.absPos, Frag.strokes]

/-- **The contact groups of a scope over the alphabet stroke exactly the specified strokes of its
cells** — every rational point, every span, after the fragment merge and the contact grouping. -/
theorem scope_strokes_exactly_the_specified (len : List Char → Nat) (s : Span) (ha : Alpha len s)
    (P : RPt) (hq : 0 < P.q) :
    (∃ g ∈ contactsOf len s, ∃ f ∈ g, f.frag.strokes P) ↔
      ∃ cc ∈ s, ∃ se ∈ specOf len s cc, OnSeg (cc.1.origin.add se.1) (cc.1.origin.add se.2) P := by
  rw [contactsOf_strokes len s (fun cc hcc => (alpha_cell len s ha cc hcc).1) P hq]
  constructor
  · rintro ⟨cc, hcc, h⟩
    exact ⟨cc, hcc, ((alpha_cell len s ha cc hcc).2 P).mp h⟩
  · rintro ⟨cc, hcc, h⟩
    exact ⟨cc, hcc, ((alpha_cell len s ha cc hcc).2 P).mpr h⟩

/-! ### the re-computation of rejected groups on a reduced span invents no stroke

After the rectangles are taken out, the cells of the rejected groups are interpreted again among
themselves (`Span::re_endorse`): a cell then sees fewer neighbours. For this alphabet fewer
neighbours can only mean fewer strokes. -/

theorem spanLookup_of_mem (s : Span) (hnd : (s.map (·.1)).Nodup) (c : Cell) (ch : Char)
    (h : (c, ch) ∈ s) : spanLookup s c = some ch := by
  unfold spanLookup
  induction s with
  | nil => cases h
  | cons x xs ih =>
    simp only [List.map_cons, List.nodup_cons] at hnd
    rcases List.mem_cons.mp h with rfl | h
    · simp [List.find?]
    · have hne : x.1 ≠ c := by
        intro he
        apply hnd.1
        rw [he]
        exact List.mem_map_of_mem (f := (·.1)) h
      have : (x.1 == c) = false := by simpa using hne
      simp only [List.find?, this]
      exact ih hnd.2 h

/-- what a neighbour looks like in a sub-span: the same as in the span, or empty -/
theorem neighbours_sub (len : List Char → Nat) (s t : Span) (hnd : (s.map (·.1)).Nodup)
    (hsub : ∀ cc ∈ t, cc ∈ s) (c : Cell) (d : Dir) :
    neighbours len t c d = neighbours len s c d ∨ neighbours len t c d = Entry.empty := by
  unfold neighbours
  cases ht : spanLookup t ⟨c.x + d.delta.1, c.y + d.delta.2⟩ with
  | none => right; rfl
  | some ch =>
    left
    have hm := hsub _ (spanLookup_some_mem t _ ch ht)
    rw [spanLookup_of_mem s hnd _ ch hm]

/-- membership in the specified strokes, spelled out -/
theorem mem_specStrokes (ch u d l r : Char) (se : Pt × Pt) :
    se ∈ specStrokes ch u d l r ↔
      (ch = '-' ∧ se = (⟨0, 1000⟩, ⟨1000, 1000⟩)) ∨
      (ch = '|' ∧ (se = (⟨500, 0⟩, ⟨500, 2000⟩) ∨ (r = '-' ∧ se = (⟨500, 1000⟩, ⟨1000, 1000⟩)) ∨
        (l = '-' ∧ se = (⟨0, 1000⟩, ⟨500, 1000⟩)))) ∨
      (ch = '+' ∧ (((u = '|' ∨ u = '+') ∧ se = (⟨500, 0⟩, ⟨500, 1000⟩)) ∨
        ((d = '|' ∨ d = '+') ∧ se = (⟨500, 1000⟩, ⟨500, 2000⟩)) ∨
        ((l = '-' ∨ l = '+') ∧ se = (⟨0, 1000⟩, ⟨500, 1000⟩)) ∨
        ((r = '-' ∨ r = '+') ∧ se = (⟨500, 1000⟩, ⟨1000, 1000⟩)))) := by
  unfold specStrokes
  by_cases h1 : ch = '-'
  · subst h1; simp
  · by_cases h2 : ch = '|'
    · subst h2
      split_ifs <;> simp_all <;> tauto
    · by_cases h3 : ch = '+'
      · subst h3
        split_ifs <;> simp_all <;> tauto
      · have e1 : (ch == '-') = false := by simpa using h1
        have e2 : (ch == '|') = false := by simpa using h2
        have e3 : (ch == '+') = false := by simpa using h3
        simp [e1, e2, e3, h1, h2, h3]

/-- the specification is monotone: replacing neighbours by blanks only removes strokes -/
theorem specStrokes_mono (ch u d l r u' d' l' r' : Char)
    (hu : u' = u ∨ u' = ' ') (hd : d' = d ∨ d' = ' ') (hl : l' = l ∨ l' = ' ') (hr : r' = r ∨ r' = ' ') :
    ∀ se ∈ specStrokes ch u' d' l' r', se ∈ specStrokes ch u d l r := by
  intro se h
  rw [mem_specStrokes] at h ⊢
  have nb : ∀ x x' : Char, (x' = x ∨ x' = ' ') → ∀ c : Char, c ≠ ' ' → x' = c → x = c := by
    intro x x' hx c hc he
    rcases hx with rfl | rfl
    · exact he
    · exact absurd he.symm hc
  have n1 : ('-' : Char) ≠ ' ' := by decide
  have n2 : ('|' : Char) ≠ ' ' := by decide
  have n3 : ('+' : Char) ≠ ' ' := by decide
  rcases h with h | ⟨hc, h⟩ | ⟨hc, h⟩
  · exact Or.inl h
  · refine Or.inr (Or.inl ⟨hc, ?_⟩)
    rcases h with h | ⟨hx, h⟩ | ⟨hx, h⟩
    · exact Or.inl h
    · exact Or.inr (Or.inl ⟨nb r r' hr _ n1 hx, h⟩)
    · exact Or.inr (Or.inr ⟨nb l l' hl _ n1 hx, h⟩)
  · refine Or.inr (Or.inr ⟨hc, ?_⟩)
    rcases h with ⟨hx, h⟩ | ⟨hx, h⟩ | ⟨hx, h⟩ | ⟨hx, h⟩
    · exact Or.inl ⟨hx.imp (nb u u' hu _ n2) (nb u u' hu _ n3), h⟩
    · exact Or.inr (Or.inl ⟨hx.imp (nb d d' hd _ n2) (nb d d' hd _ n3), h⟩)
    · exact Or.inr (Or.inr (Or.inl ⟨hx.imp (nb l l' hl _ n1) (nb l l' hl _ n3), h⟩))
    · exact Or.inr (Or.inr (Or.inr ⟨hx.imp (nb r r' hr _ n1) (nb r r' hr _ n3), h⟩))

/-- **no invented stroke**: a cell of a sub-span is specified at most the strokes it is specified in
the span -/
theorem reduced_span_specifies_no_new_stroke (len : List Char → Nat) (s t : Span)
    (hnd : (s.map (·.1)).Nodup) (hsub : ∀ cc ∈ t, cc ∈ s) (cc : Cell × Char) :
    ∀ se ∈ specOf len t cc, se ∈ specOf len s cc := by
  unfold specOf
  have hch : ∀ d, (neighbours len t cc.1 d).ch = (neighbours len s cc.1 d).ch ∨
      (neighbours len t cc.1 d).ch = ' ' := by
    intro d
    rcases neighbours_sub len s t hnd hsub cc.1 d with h | h
    · left; rw [h]
    · right; rw [h]; rfl
  exact specStrokes_mono cc.2 _ _ _ _ _ _ _ _ (hch .top) (hch .bottom) (hch .left) (hch .right)

/-- …hence the contact groups of a sub-span stroke only points that the span's specification
strokes (with `scope_strokes_exactly_the_specified` on both sides) -/
theorem reduced_span_strokes_within_the_specified (len : List Char → Nat) (s t : Span)
    (hs : Alpha len s) (hnd : (s.map (·.1)).Nodup) (hsub : ∀ cc ∈ t, cc ∈ s)
    (P : RPt) (hq : 0 < P.q)
    (h : ∃ g ∈ contactsOf len t, ∃ f ∈ g, f.frag.strokes P) :
    ∃ cc ∈ s, ∃ se ∈ specOf len s cc, OnSeg (cc.1.origin.add se.1) (cc.1.origin.add se.2) P := by
  have ht : Alpha len t := fun cc hcc => hs cc (hsub cc hcc)
  obtain ⟨cc, hcc, se, hse, hon⟩ := (scope_strokes_exactly_the_specified len t ht P hq).mp h
  exact ⟨cc, hsub cc hcc, se, reduced_span_specifies_no_new_stroke len s t hnd hsub cc se hse, hon⟩

/-- the predicate on rational points is the code's `onSegment` at integer points -/
theorem stroke_predicate_is_the_codes (s e p : Pt) :
    OnSeg s e ⟨p.x, p.y, 1⟩ ↔ onSegment s e p = true := onSeg_int s e p

/-! Non-vacuity: a proper box (four grid lines) satisfies the hypotheses of both theorems, is
endorsed, and the centre of its top edge — a point with a half-integer coordinate in quarter
cells — is on the outline. -/
def boxLines : List Frag :=
  [.line ⟨500, 1000⟩ ⟨3500, 1000⟩ false, .line ⟨500, 1000⟩ ⟨500, 5000⟩ false,
   .line ⟨3500, 1000⟩ ⟨3500, 5000⟩ false, .line ⟨500, 5000⟩ ⟨3500, 5000⟩ false]

example : ∀ f ∈ boxLines, f.StrokeOk := by
  intro f hf
  simp only [boxLines, List.mem_cons, List.mem_nil_iff, or_false] at hf
  rcases hf with rfl | rfl | rfl | rfl <;>
    exact ⟨by decide, ⟨by decide, by decide⟩, ⟨by decide, by decide⟩⟩
example : endorseRect boxLines = some (.rect ⟨500, 1000⟩ ⟨3500, 5000⟩ false none false) := by decide
example : (Frag.rect ⟨500, 1000⟩ ⟨3500, 5000⟩ false none false).outline ⟨4001, 2000, 2⟩ := by
  left; refine ⟨by decide, by decide, by decide, by decide, by decide⟩

/-! Non-vacuity: the three entries exist in the table and a concrete neighbourhood satisfies the
hypothesis. -/
example : eDash.ch = '-' ∧ eBar.ch = '|' ∧ ePlus.ch = '+' := by decide +kernel
example : ∀ d, (axisFun eBar Entry.empty eDash ePlus) d ∈ nbEntries := by
  intro d; cases d <;> simp [axisFun, nbEntries]

/-- the `- | +` rows ask their neighbours "do you overlap this stub at least weakly / strongly":
the levels and their order are the source's -/
theorem signal_levels_are_the_sources :
    ([Signal.faint, .weak, .medium, .strong].all fun s =>
      Gen.signalIntensity.lookup s.sourceName == some s.intensity) = true ∧
    Gen.signalIntensity.length = 4 ∧
    Gen.overlapComparison = "signal >= required" ∧
    Gen.overlapLevels = [("line_overlap", "Medium"), ("line_strongly_overlap", "Strong"),
      ("line_weakly_overlap", "Weak")] := signal_levels_match_source

/-- **every stroke of every cell lives on in ONE merged fragment of its scope**: for a span with
pairwise different cells whose cell fragments are proper grid lines (as those of the alphabet are:
`alphabet_fragments_are_proper_lines`), each fragment of each cell is carried by one fragment of the
merged list — that fragment's span holds the cell and it strokes every point the cell's fragment
stroked (the set statement `merge_keeps_the_stroked_points` says the union is kept; this says by whom) -/
theorem every_cell_stroke_lives_on_in_one_fragment (len : List Char → Nat) (s : Span)
    (hnd : (s.map (·.1)).Nodup)
    (hok : ∀ cc ∈ s, ∀ f ∈ cellFragments len s cc.1 cc.2, (f.absPos cc.1).StrokeOk)
    (cc : Cell × Char) (hcc : cc ∈ s) (f : Frag) (hf : f ∈ cellFragments len s cc.1 cc.2) :
    ∃ m ∈ G.mergeRec (FragSpan.merge len) ((absFragmentSpans (fragmentBuffer len s s)).length + 1)
        (absFragmentSpans (fragmentBuffer len s s)),
      cc ∈ m.span ∧ ∀ P : RPt, 0 < P.q → (f.absPos cc.1).strokes P → m.frag.strokes P :=
  cell_fragment_lives_on len s hnd hok cc hcc f hf

end Svgbob.C03

import Svgbob.Model.Doc
/-!
# A recognizer for a subset of XML 1.0 documents

`Xml.element fuel s = some rest`: `s` starts with one well-formed element (XML 1.0 production
[39] `element ::= STag content ETag`) and `rest` is what follows it. The recognizer accepts a
**subset** of XML: no prolog, comments, processing instructions, CDATA sections or empty-element
tags, attribute values in double quotes only and without references, a raw `>` is not accepted in
character data (XML only forbids it in `]]>`), and of the references only the five predefined
entities and decimal character references. Everything it accepts is a well-formed XML element:

* [40] `STag ::= '<' Name (S Attribute)* S? '>'`, with the well-formedness constraint *Unique Att
  Spec* (no attribute name twice in one tag) checked through the `seen` list;
* [41] `Attribute ::= Name Eq AttValue`, [10] `AttValue ::= '"' ([^<&"] | Reference)* '"'`;
* [43] `content ::= CharData? ((element | Reference) CharData?)*`, [14] `CharData ::= [^<&]*`
  without `]]>`;
* [42] `ETag ::= '</' Name S? '>'`, with the constraint *Element Type Match*;
* [66]/[68] references, with the constraint *Legal Character* for numeric ones;
* every character is a `Char` of production [2] (`xmlChar`).

The recognizer is executable (driver mode `xmlwf`) and is compared with a conforming parser
(expat) on the implementation's output by the C02 check.
-/
namespace Svgbob.Xml
open Svgbob

def nameStart (c : Char) : Bool := c.isAlpha || c == '_' || c == ':'
def nameChar (c : Char) : Bool := nameStart c || c.isDigit || c == '-' || c == '.'

/-- longest prefix of name characters, and the rest -/
def takeName : List Char → List Char × List Char
  | [] => ([], [])
  | c :: cs => if nameChar c then ((c :: (takeName cs).1), (takeName cs).2) else ([], c :: cs)

def isWs (c : Char) : Bool := c == ' ' || c == '\n' || c == '\t' || c == '\r'

def skipWs : List Char → List Char
  | [] => []
  | c :: cs => if isWs c then skipWs cs else c :: cs

/-- a character of an attribute value (between double quotes, no references) -/
def attChar (c : Char) : Bool := xmlChar c && c != '"' && c != '<' && c != '&'

/-- the rest after the closing quote of an attribute value -/
def attValue : List Char → Option (List Char)
  | [] => none
  | c :: cs => if c == '"' then some cs else if attChar c then attValue cs else none

/-- a character of character data (subset: a raw `>` is not accepted) -/
def dataChar (c : Char) : Bool := xmlChar c && c != '<' && c != '&' && c != '>'

def takeDigits : List Char → List Char × List Char
  | [] => ([], [])
  | c :: cs => if c.isDigit then ((c :: (takeDigits cs).1), (takeDigits cs).2) else ([], c :: cs)

def digitsValue (ds : List Char) : Nat := ds.foldl (fun acc d => acc * 10 + (d.toNat - 48)) 0

/-- what follows a reference, given the input after its `&` -/
def reference (s : List Char) : Option (List Char) :=
  match s with
  | 'l' :: 't' :: ';' :: r => some r
  | 'g' :: 't' :: ';' :: r => some r
  | 'a' :: 'm' :: 'p' :: ';' :: r => some r
  | 'q' :: 'u' :: 'o' :: 't' :: ';' :: r => some r
  | 'a' :: 'p' :: 'o' :: 's' :: ';' :: r => some r
  | '#' :: r =>
    match takeDigits r with
    | (d :: ds, ';' :: r') =>
      let v := digitsValue (d :: ds)
      if v < 0x110000 && xmlChar (Char.ofNat v) && v != 0 then some r' else none
    | _ => none
  | _ => none

/-- outcome of reading one piece of a start tag after the element name -/
inductive AStep
  /-- the tag is closed; what follows the `>` -/
  | done (r : List Char)
  /-- one attribute was read: the names seen so far and what follows its value -/
  | more (seen : List (List Char)) (r : List Char)
  | fail

/-- `S Attribute`, or `S? '>'`; `seen` are the attribute names so far (*Unique Att Spec*) -/
def attrStep (seen : List (List Char)) : List Char → AStep
  | [] => .fail
  | c :: r =>
    if c == '>' then .done r
    else if isWs c then
      match skipWs r with
      | [] => .fail
      | d :: r' =>
        if d == '>' then .done r'
        else
          let n := (takeName (d :: r')).1
          match (takeName (d :: r')).2 with
          | e :: q :: r'' =>
            if nameStart d && e == '=' && q == '"' && !seen.contains n then
              match attValue r'' with
              | some r3 => .more (n :: seen) r3
              | none => .fail
            else .fail
          | _ => .fail
    else .fail

/-- `(S Attribute)* S? '>'`: the rest after the `>` -/
def attrs : Nat → List (List Char) → List Char → Option (List Char)
  | 0, _, _ => none
  | f + 1, seen, s =>
    match attrStep seen s with
    | .done r => some r
    | .more seen' r => attrs f seen' r
    | .fail => none

/-- outcome of looking at the head of `content` -/
inductive CStep
  /-- `</` : the enclosing element ends here -/
  | stop
  /-- `<` : a child element starts here -/
  | child
  /-- one character or one reference of character data was read -/
  | skip (r : List Char)
  | fail

def contentStep : List Char → CStep
  | [] => .fail
  | c :: r =>
    if c == '<' then (if r.head? == some '/' then .stop else .child)
    else if c == '&' then
      match reference r with
      | some r' => .skip r'
      | none => .fail
    else if dataChar c then .skip r
    else .fail

/-- `'<' Name (S Attribute)* S? '>'`: the element name and the rest after the tag -/
def startTag (f : Nat) : List Char → Option (List Char × List Char)
  | [] => none
  | c :: s =>
    if c == '<' && ((takeName s).1.head?.map nameStart).getD false then
      match attrs f [] (takeName s).2 with
      | some r => some ((takeName s).1, r)
      | none => none
    else none

/-- `'</' Name S? '>'` with *Element Type Match*; the input starts at the `</` -/
def endTag (n : List Char) : List Char → Option (List Char)
  | _ :: _ :: r =>
    if (takeName r).1 == n then
      match skipWs (takeName r).2 with
      | g :: r4 => if g == '>' then some r4 else none
      | [] => none
    else none
  | _ => none

mutual
/-- `content`, up to (not including) the `</` that ends the enclosing element -/
def content : Nat → List Char → Option (List Char)
  | 0, _ => none
  | f + 1, s =>
    match contentStep s with
    | .stop => some s
    | .child =>
      match element f s with
      | some r' => content f r'
      | none => none
    | .skip r => content f r
    | .fail => none

/-- one element: start tag, content, matching end tag -/
def element : Nat → List Char → Option (List Char)
  | 0, _ => none
  | f + 1, s =>
    match startTag f s with
    | some (n, r1) =>
      match content f r1 with
      | some r2 => endTag n r2
      | none => none
    | none => none
end

/-- `s` is one well-formed element followed by white space only (production [1] `document` without
a prolog; `Misc*` restricted to white space) -/
def WellFormed (s : List Char) : Prop :=
  ∃ fuel rest, element fuel s = some rest ∧ skipWs rest = []

/-- executable version with the fuel every acceptable input can need -/
def wellFormed (s : List Char) : Bool :=
  match element (s.length + 1) s with
  | some rest => skipWs rest == []
  | none => false

theorem wellFormed_sound (s : List Char) (h : wellFormed s = true) : WellFormed s := by
  unfold wellFormed at h
  split at h
  · rename_i rest hr
    exact ⟨_, rest, hr, by simpa using h⟩
  · simp at h

end Svgbob.Xml

import Svgbob.Model.Doc
import Mathlib.Tactic.Ring
/-!
# Scaling commutes with everything downstream of the containment forest
-/
namespace Svgbob

def Piece.mulNum (f : Int) : Piece → Piece
  | .lit s => .lit s
  | .num n => .num (n * f)

/-- multiply every scaled length of an attribute value by `f`; literals, integers of the code and
class tokens are untouched -/
def AttrVal.mulNum (f : Int) : AttrVal → AttrVal
  | .num n => .num (n * f)
  | .int n => .int n
  | .lit s => .lit s
  | .token t => .token t
  | .seq ps => .seq (ps.map (Piece.mulNum f))

mutual
/-- multiply every scaled length in a node tree by `f` and change nothing else -/
def Node.mulNum (f : Int) : Node → Node
  | .text s => .text s
  | .elem t attrs kids =>
    .elem t (attrs.map fun a => (a.1, a.2.map (AttrVal.mulNum f))) (Node.mulNumList f kids)

def Node.mulNumList (f : Int) : List Node → List Node
  | [] => []
  | k :: ks => Node.mulNum f k :: Node.mulNumList f ks
end

theorem Node.mulNumList_eq_map (f : Int) (l : List Node) :
    Node.mulNumList f l = l.map (Node.mulNum f) := by
  induction l with
  | nil => simp [Node.mulNumList]
  | cons k ks ih => simp [Node.mulNumList, ih]

theorem Pt.scale_scale (a b : Int) (p : Pt) : (p.scale a).scale b = p.scale (a * b) := by
  simp only [Pt.scale, Pt.mk.injEq]; constructor <;> ring

theorem Frag.scale_scale (a b : Int) (f : Frag) : (f.scale a).scale b = f.scale (a * b) := by
  cases f with
  | line s e br => simp [Frag.scale, Pt.scale_scale]
  | markerLine s e br sm em => simp [Frag.scale, Pt.scale_scale]
  | circle c r fl => simp only [Frag.scale, Pt.scale_scale, Frag.circle.injEq, true_and, and_true]; ring
  | arc s e r m sw =>
    simp only [Frag.scale, Pt.scale_scale, Frag.arc.injEq, true_and, and_true]; ring
  | polygon pts fl t =>
    simp only [Frag.scale, List.map_map, Frag.polygon.injEq, and_true]
    apply List.map_congr_left; intro p _; simp [Pt.scale_scale]
  | rect s e fl r br =>
    simp only [Frag.scale, Pt.scale_scale, Frag.rect.injEq, true_and, and_true]
    cases r with
    | none => simp
    | some v => simp; ring
  | cellText st c => simp [Frag.scale, Pt.scale_scale]
  | text st c => simp [Frag.scale, Pt.scale_scale]

theorem joinPieces_mulNum (f : Int) (l : List (List Piece)) :
    (Frag.toNode.joinPieces l).map (Piece.mulNum f) =
      Frag.toNode.joinPieces (l.map (List.map (Piece.mulNum f))) := by
  induction l with
  | nil => simp [Frag.toNode.joinPieces]
  | cons a rest ih =>
    cases rest with
    | nil => simp [Frag.toNode.joinPieces]
    | cons b rest' =>
      simp only [Frag.toNode.joinPieces, List.map_append, List.map_cons, ih, Piece.mulNum]

/-- **a scaled fragment becomes the scaled node** -/
theorem Frag.toNode_scale (f : Int) (g : Frag) (hg : ∀ st c, g ≠ .cellText st c) :
    (g.scale f).toNode = Node.mulNum f g.toNode := by
  cases g with
  | line s e br =>
    simp [Frag.scale, Frag.toNode, Node.mulNum, Node.mulNumList, AttrVal.mulNum, Pt.scale, flagClass]
  | markerLine s e br sm em =>
    cases sm <;> cases em <;>
      simp [Frag.scale, Frag.toNode, Node.mulNum, Node.mulNumList, AttrVal.mulNum, Pt.scale, flagClass]
  | circle c r fl =>
    simp [Frag.scale, Frag.toNode, Node.mulNum, Node.mulNumList, AttrVal.mulNum, Pt.scale, flagClass]
  | arc s e r m sw =>
    simp [Frag.scale, Frag.toNode, Node.mulNum, Node.mulNumList, AttrVal.mulNum, Pt.scale, Piece.mulNum]
  | polygon pts fl t =>
    simp only [Frag.scale, Frag.toNode, Node.mulNum, Node.mulNumList, AttrVal.mulNum, List.map_cons,
      List.map_nil, flagClass, joinPieces_mulNum, List.map_map]
    have : (List.map ((fun p : Pt => [Piece.num p.x, Piece.lit ",", Piece.num p.y]) ∘ Pt.scale f) pts) =
        (List.map (List.map (Piece.mulNum f) ∘ fun p : Pt => [Piece.num p.x, Piece.lit ",", Piece.num p.y]) pts) := by
      apply List.map_congr_left
      intro p _
      simp [Pt.scale, Piece.mulNum]
    rw [this]
  | rect s e fl r br =>
    cases r with
    | none =>
      simp [Frag.scale, Frag.toNode, Node.mulNum, Node.mulNumList, AttrVal.mulNum, Pt.scale, flagClass]
      constructor <;> ring
    | some v =>
      simp [Frag.scale, Frag.toNode, Node.mulNum, Node.mulNumList, AttrVal.mulNum, Pt.scale, flagClass]
      constructor <;> ring
  | cellText st c => exact absurd rfl (hg st c)
  | text st c =>
    simp [Frag.scale, Frag.toNode, Node.mulNum, Node.mulNumList, AttrVal.mulNum, Pt.scale]

theorem extendFirstClass_mulNum (f : Int) (vals : List AttrVal)
    (attrs : List (AttrName × List AttrVal)) :
    (extendFirstClass vals attrs).map (fun a => (a.1, a.2.map (AttrVal.mulNum f))) =
      extendFirstClass (vals.map (AttrVal.mulNum f))
        (attrs.map fun a => (a.1, a.2.map (AttrVal.mulNum f))) := by
  induction attrs with
  | nil => simp [extendFirstClass]
  | cons a as ih =>
    simp only [extendFirstClass, List.map_cons]
    split
    · simp
    · simp [ih]

theorem addClasses_mulNum (f : Int) (tags : List (List Char)) (n : Node) :
    Node.mulNum f (addClasses tags n) = addClasses tags (Node.mulNum f n) := by
  cases n with
  | text s => simp [addClasses, Node.mulNum]
  | elem t attrs kids =>
    simp only [addClasses, Node.mulNum]
    have hany : (attrs.map fun a => (a.1, a.2.map (AttrVal.mulNum f))).any (·.1 == AttrName.class) =
        attrs.any (·.1 == AttrName.class) := by
      induction attrs with
      | nil => simp
      | cons a as ih => simp [List.any_cons, ih]
    have hvals : (tags.map AttrVal.token).map (AttrVal.mulNum f) = tags.map AttrVal.token := by
      simp [List.map_map, Function.comp, AttrVal.mulNum]
    rw [hany]
    split
    · simp only [Node.mulNum, Node.elem.injEq, true_and, and_true]
      rw [extendFirstClass_mulNum, hvals]
    · simp [Node.mulNum, AttrVal.mulNum, List.map_map, Function.comp]

/-- a scale-1 fragment of the forest is never a `CellText` -/
theorem Frag.scale_not_cellText (k : Int) (g : Frag) : ∀ st c, g.scale k ≠ .cellText st c := by
  intro st c; cases g <;> simp [Frag.scale]

mutual
theorem FTree.intoNodes_scale (a b : Int) : ∀ (t : FTree),
    FTree.intoNodes (a * b) t = Node.mulNumList b (FTree.intoNodes a t)
  | .node f tags kids => by
    simp only [FTree.intoNodes, Node.mulNumList, List.cons.injEq]
    refine ⟨?_, FTree.intoNodesList_scale a b kids⟩
    rw [addClasses_mulNum, ← Frag.scale_scale, Frag.toNode_scale b _ (Frag.scale_not_cellText a f)]

theorem FTree.intoNodesList_scale (a b : Int) : ∀ (ts : List FTree),
    FTree.intoNodesList (a * b) ts = Node.mulNumList b (FTree.intoNodesList a ts)
  | [] => by simp [FTree.intoNodesList, Node.mulNumList]
  | t :: ts => by
    simp only [FTree.intoNodesList]
    rw [FTree.intoNodes_scale a b t, FTree.intoNodesList_scale a b ts]
    simp [Node.mulNumList_eq_map]
end

end Svgbob

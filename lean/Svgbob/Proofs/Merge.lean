import Svgbob.Model.Merge
/-!
# Lemmas about the generic merge loop: length, equivariance, locality, fixpoint, fuel
-/
namespace Svgbob.G
variable {α : Type}

theorem mergeIntoRev_length (merge : α → α → Option α) (gs : List α) (it : α) (r : List α)
    (h : mergeIntoRev merge gs it = some r) : r.length = gs.length := by
  induction gs generalizing r with
  | nil => simp [mergeIntoRev] at h
  | cons g gs ih =>
    simp only [mergeIntoRev] at h
    split at h
    · rename_i gs' hgs'
      cases h; simp [ih _ hgs']
    · split at h
      · cases h; simp
      · cases h

theorem step_length_le (merge : α → α → Option α) (acc : List α) (it : α) :
    (step merge acc it).length ≤ acc.length + 1 := by
  unfold step; split
  · rename_i r h; have := mergeIntoRev_length merge acc it r h; omega
  · simp

theorem foldl_step_length (merge : α → α → Option α) (items acc : List α) :
    (items.foldl (step merge) acc).length ≤ acc.length + items.length := by
  induction items generalizing acc with
  | nil => simp
  | cons x xs ih =>
    simp only [List.foldl_cons, List.length_cons]
    have := ih (step merge acc x); have := step_length_le merge acc x; omega

theorem pass_length_le (merge : α → α → Option α) (items : List α) :
    (pass merge items).length ≤ items.length := by
  have := foldl_step_length merge items []; simpa [pass] using this

-- equivariance
theorem mergeIntoRev_map (merge : α → α → Option α) (σ : α → α)
    (hσ : ∀ a b, merge (σ a) (σ b) = (merge a b).map σ) (gs : List α) (it : α) :
    mergeIntoRev merge (gs.map σ) (σ it) = (mergeIntoRev merge gs it).map (List.map σ) := by
  induction gs with
  | nil => simp [mergeIntoRev]
  | cons g gs ih =>
    simp only [List.map_cons, mergeIntoRev, ih]
    cases h : mergeIntoRev merge gs it with
    | some r => simp
    | none =>
      simp only [Option.map_none, hσ]
      cases merge g it <;> simp

theorem step_map (merge : α → α → Option α) (σ : α → α)
    (hσ : ∀ a b, merge (σ a) (σ b) = (merge a b).map σ) (acc : List α) (it : α) :
    step merge (acc.map σ) (σ it) = (step merge acc it).map σ := by
  unfold step; rw [mergeIntoRev_map merge σ hσ]
  cases mergeIntoRev merge acc it <;> simp

theorem pass_map (merge : α → α → Option α) (σ : α → α)
    (hσ : ∀ a b, merge (σ a) (σ b) = (merge a b).map σ) (items : List α) :
    pass merge (items.map σ) = (pass merge items).map σ := by
  unfold pass
  suffices h : ∀ acc, (items.map σ).foldl (step merge) (acc.map σ) = (items.foldl (step merge) acc).map σ by
    simpa using h []
  induction items with
  | nil => simp
  | cons x xs ih => intro acc; simp only [List.map_cons, List.foldl_cons, step_map merge σ hσ, ih]

theorem mergeRec_map (merge : α → α → Option α) (σ : α → α)
    (hσ : ∀ a b, merge (σ a) (σ b) = (merge a b).map σ) (n : Nat) (items : List α) :
    mergeRec merge n (items.map σ) = (mergeRec merge n items).map σ := by
  induction n generalizing items with
  | zero => simp [mergeRec]
  | succ n ih =>
    simp only [mergeRec, pass_map merge σ hσ, List.length_map]
    split
    · exact ih _
    · rfl

-- locality
theorem mergeIntoRev_filter (merge : α → α → Option α) (cls : α → Nat)
    (hx : ∀ a b, cls a ≠ cls b → merge a b = none)
    (hc : ∀ a b m, merge a b = some m → cls m = cls a)
    (k : Nat) (gs : List α) (it : α) :
    (cls it = k →
      mergeIntoRev merge (gs.filter (cls · = k)) it = (mergeIntoRev merge gs it).map (List.filter (cls · = k))) ∧
    (cls it ≠ k → ∀ r, mergeIntoRev merge gs it = some r → r.filter (cls · = k) = gs.filter (cls · = k)) := by
  induction gs with
  | nil => simp [mergeIntoRev]
  | cons g gs ih =>
    obtain ⟨ih1, ih2⟩ := ih
    constructor
    · intro hk
      by_cases hg : cls g = k
      · simp only [List.filter_cons, hg, decide_true, if_true, mergeIntoRev, ih1 hk]
        cases h : mergeIntoRev merge gs it with
        | some r => simp [hg]
        | none =>
          simp only [Option.map_none]
          cases hm : merge g it with
          | none => simp
          | some m => simp [hc g it m hm, hg]
      · have hne : cls g ≠ cls it := by omega
        have hgf : (List.filter (fun x => decide (cls x = k)) (g :: gs)) = List.filter (fun x => decide (cls x = k)) gs := by
          simp [List.filter_cons, hg]
        rw [hgf, ih1 hk]
        simp only [mergeIntoRev, hx g it hne]
        cases h : mergeIntoRev merge gs it with
        | some r => simp [List.filter_cons, hg]
        | none => simp
    · intro hk r hr
      simp only [mergeIntoRev] at hr
      split at hr
      · rename_i gs' hgs'
        cases hr
        simp [List.filter_cons, ih2 hk _ hgs']
      · split at hr
        · rename_i m hm
          cases hr
          have h1 : cls m = cls g := hc g it m hm
          have h2 : cls g = cls it := by
            by_cases hne : cls g = cls it
            · exact hne
            · rw [hx g it hne] at hm; cases hm
          have hg : cls g ≠ k := by omega
          have hm' : cls m ≠ k := by omega
          simp [List.filter_cons, hg, hm']
        · cases hr

theorem step_filter (merge : α → α → Option α) (cls : α → Nat)
    (hx : ∀ a b, cls a ≠ cls b → merge a b = none)
    (hc : ∀ a b m, merge a b = some m → cls m = cls a)
    (k : Nat) (acc : List α) (it : α) :
    (step merge acc it).filter (cls · = k) =
      if cls it = k then step merge (acc.filter (cls · = k)) it else acc.filter (cls · = k) := by
  obtain ⟨h1, h2⟩ := mergeIntoRev_filter merge cls hx hc k acc it
  by_cases hk : cls it = k
  · simp only [hk, if_true]
    unfold step
    rw [h1 hk]
    cases h : mergeIntoRev merge acc it with
    | some r => simp
    | none => simp [List.filter_append, hk]
  · simp only [hk, if_false]
    unfold step
    cases h : mergeIntoRev merge acc it with
    | some r => simpa using h2 hk r h
    | none => simp [List.filter_append, hk]

theorem pass_filter (merge : α → α → Option α) (cls : α → Nat)
    (hx : ∀ a b, cls a ≠ cls b → merge a b = none)
    (hc : ∀ a b m, merge a b = some m → cls m = cls a)
    (k : Nat) (items : List α) :
    (pass merge items).filter (cls · = k) = pass merge (items.filter (cls · = k)) := by
  unfold pass
  suffices h : ∀ acc, (items.foldl (step merge) acc).filter (cls · = k) =
      (items.filter (cls · = k)).foldl (step merge) (acc.filter (cls · = k)) by
    simpa using h []
  induction items with
  | nil => simp
  | cons x xs ih =>
    intro acc
    simp only [List.foldl_cons, ih, step_filter merge cls hx hc k]
    by_cases hk : cls x = k
    · simp [List.filter_cons, hk]
    · simp [List.filter_cons, hk]


-- ===== fixpoint & fuel =====

/-- no element of `acc` (tried from the back) merges with `it` -/
theorem mergeIntoRev_none_iff (merge : α → α → Option α) (gs : List α) (it : α) :
    mergeIntoRev merge gs it = none ↔ ∀ g ∈ gs, merge g it = none := by
  induction gs with
  | nil => simp [mergeIntoRev]
  | cons g gs ih =>
    simp only [mergeIntoRev, List.mem_cons, forall_eq_or_imp]
    cases h : mergeIntoRev merge gs it with
    | some r =>
      simp only [reduceCtorEq, false_iff, not_and]
      intro _ hall
      have := ih.mpr hall
      rw [h] at this; cases this
    | none =>
      have hall := ih.mp h
      cases hm : merge g it with
      | some m => simp
      | none => simpa using hall

/-- `NoMerge l`: no later element merges into an earlier one (in the order the loop tests it). -/
def NoMerge (merge : α → α → Option α) : List α → Prop
  | [] => True
  | x :: xs => (∀ y ∈ xs, merge x y = none) ∧ NoMerge merge xs

theorem step_length (merge : α → α → Option α) (acc : List α) (it : α) :
    ((step merge acc it).length = acc.length ∧ mergeIntoRev merge acc it ≠ none) ∨
    (step merge acc it = acc ++ [it] ∧ mergeIntoRev merge acc it = none) := by
  unfold step
  cases h : mergeIntoRev merge acc it with
  | some r => left; exact ⟨mergeIntoRev_length merge acc it r h, by simp⟩
  | none => right; simp

/-- generalised fold statement: if the fold did not lose length, every step appended -/
theorem foldl_step_full (merge : α → α → Option α) (items acc : List α)
    (h : (items.foldl (step merge) acc).length = acc.length + items.length) :
    items.foldl (step merge) acc = acc ++ items ∧
    ∀ pre it post, items = pre ++ it :: post → mergeIntoRev merge (acc ++ pre) it = none := by
  induction items generalizing acc with
  | nil => simp
  | cons x xs ih =>
    simp only [List.foldl_cons] at h ⊢
    have hle := foldl_step_length merge xs (step merge acc x)
    rcases step_length merge acc x with ⟨hl, _⟩ | ⟨heq, hnone⟩
    · simp only [List.length_cons] at h; omega
    · rw [heq] at h ⊢
      have h' : (xs.foldl (step merge) (acc ++ [x])).length = (acc ++ [x]).length + xs.length := by
        simp only [List.length_append, List.length_cons, List.length_nil] at h ⊢; omega
      obtain ⟨e1, e2⟩ := ih (acc ++ [x]) h'
      refine ⟨by simpa using e1, ?_⟩
      intro pre it post hsplit
      cases pre with
      | nil =>
        simp only [List.nil_append, List.cons.injEq] at hsplit
        obtain ⟨rfl, rfl⟩ := hsplit
        simpa using hnone
      | cons p pre' =>
        simp only [List.cons_append, List.cons.injEq] at hsplit
        obtain ⟨rfl, hxs⟩ := hsplit
        have := e2 pre' it post hxs
        simpa using this

theorem noMerge_of_prefix (merge : α → α → Option α) (l : List α)
    (h : ∀ pre it post, l = pre ++ it :: post → ∀ g ∈ pre, merge g it = none) : NoMerge merge l := by
  induction l with
  | nil => trivial
  | cons x xs ih =>
    refine ⟨?_, ih ?_⟩
    · intro y hy
      obtain ⟨a, b, rfl⟩ := List.append_of_mem hy
      exact h (x :: a) y b (by simp) x (by simp)
    · intro pre it post hxs g hg
      exact h (x :: pre) it post (by simp [hxs]) g (by simp [hg])

theorem pass_fixpoint (merge : α → α → Option α) (l : List α)
    (h : ¬ (pass merge l).length < l.length) : pass merge l = l ∧ NoMerge merge l := by
  have hle := pass_length_le merge l
  have heq : (pass merge l).length = ([] : List α).length + l.length := by simp; omega
  obtain ⟨e1, e2⟩ := foldl_step_full merge l [] (by simpa [pass] using heq)
  refine ⟨by simpa [pass] using e1, noMerge_of_prefix merge l ?_⟩
  intro pre it post hl g hg
  have := e2 pre it post hl
  simp only [List.nil_append] at this
  exact (mergeIntoRev_none_iff merge pre it).mp this g hg

theorem mergeRec_length_le (merge : α → α → Option α) (n : Nat) (l : List α) :
    (mergeRec merge n l).length ≤ l.length := by
  induction n generalizing l with
  | zero => simp [mergeRec]
  | succ n ih =>
    simp only [mergeRec]
    have := pass_length_le merge l
    split
    · have := ih (pass merge l); omega
    · exact this

/-- with fuel > length the loop ends in a list on which a pass changes nothing -/
theorem mergeRec_fuel_adequate (merge : α → α → Option α) (n : Nat) (l : List α)
    (hn : l.length < n) : NoMerge merge (mergeRec merge n l) ∧
      pass merge (mergeRec merge n l) = mergeRec merge n l := by
  induction n generalizing l with
  | zero => omega
  | succ n ih =>
    simp only [mergeRec]
    split
    · rename_i hlt
      exact ih (pass merge l) (by omega)
    · rename_i hge
      obtain ⟨e, nm⟩ := pass_fixpoint merge l hge
      rw [e]; exact ⟨nm, e⟩

end Svgbob.G

namespace Svgbob.G
variable {α : Type}

/-! ### invariants: a predicate that `merge` preserves holds for every result of the loop -/

theorem mergeIntoRev_forall (merge : α → α → Option α) (P : α → Prop)
    (hm : ∀ g it m, merge g it = some m → P g → P it → P m)
    (gs : List α) (it : α) (r : List α) (hg : ∀ g ∈ gs, P g) (hi : P it)
    (h : mergeIntoRev merge gs it = some r) : ∀ x ∈ r, P x := by
  induction gs generalizing r with
  | nil => simp [mergeIntoRev] at h
  | cons g gs ih =>
    simp only [mergeIntoRev] at h
    split at h
    · rename_i gs' hgs'
      cases h
      intro x hx
      rcases List.mem_cons.mp hx with rfl | hx
      · exact hg _ (by simp)
      · exact ih gs' (fun y hy => hg y (List.mem_cons_of_mem _ hy)) hgs' x hx
    · split at h
      · rename_i m hmm
        cases h
        intro x hx
        rcases List.mem_cons.mp hx with rfl | hx
        · exact hm g it _ hmm (hg g (by simp)) hi
        · exact hg x (List.mem_cons_of_mem _ hx)
      · cases h

theorem step_forall (merge : α → α → Option α) (P : α → Prop)
    (hm : ∀ g it m, merge g it = some m → P g → P it → P m)
    (acc : List α) (it : α) (ha : ∀ g ∈ acc, P g) (hi : P it) : ∀ x ∈ step merge acc it, P x := by
  unfold step
  split
  · rename_i r h; exact mergeIntoRev_forall merge P hm acc it r ha hi h
  · intro x hx
    rcases List.mem_append.mp hx with hx | hx
    · exact ha x hx
    · simp at hx; subst hx; exact hi

theorem pass_forall (merge : α → α → Option α) (P : α → Prop)
    (hm : ∀ g it m, merge g it = some m → P g → P it → P m)
    (items : List α) (h : ∀ x ∈ items, P x) : ∀ x ∈ pass merge items, P x := by
  unfold pass
  suffices hs : ∀ acc, (∀ g ∈ acc, P g) → ∀ x ∈ items.foldl (step merge) acc, P x from
    hs [] (by simp)
  induction items with
  | nil => intro acc ha; simpa using ha
  | cons y ys ih =>
    intro acc ha
    simp only [List.foldl_cons]
    exact ih (fun x hx => h x (List.mem_cons_of_mem _ hx)) _
      (step_forall merge P hm acc y ha (h y (by simp)))

theorem mergeRec_forall (merge : α → α → Option α) (P : α → Prop)
    (hm : ∀ g it m, merge g it = some m → P g → P it → P m)
    (n : Nat) (items : List α) (h : ∀ x ∈ items, P x) : ∀ x ∈ mergeRec merge n items, P x := by
  induction n generalizing items with
  | zero => simpa [mergeRec] using h
  | succ n ih =>
    simp only [mergeRec]
    split
    · exact ih _ (pass_forall merge P hm items h)
    · exact pass_forall merge P hm items h

end Svgbob.G

namespace Svgbob.G
variable {α β : Type}

/-! ### denotation: what `merge` preserves up to permutation, the loop preserves

`P` is an invariant of the items (preserved by `merge`) under which the denotation law holds. -/

theorem mergeIntoRev_perm (merge : α → α → Option α) (D : α → List β) (P : α → Prop)
    (hD : ∀ g it m, P g → P it → merge g it = some m → (D m).Perm (D g ++ D it))
    (gs : List α) (it : α) (r : List α) (hg : ∀ g ∈ gs, P g) (hi : P it)
    (h : mergeIntoRev merge gs it = some r) :
    (r.flatMap D).Perm (gs.flatMap D ++ D it) := by
  induction gs generalizing r with
  | nil => simp [mergeIntoRev] at h
  | cons g gs ih =>
    simp only [mergeIntoRev] at h
    split at h
    · rename_i gs' hgs'
      cases h
      simp only [List.flatMap_cons, List.append_assoc]
      exact List.Perm.append_left _ (ih gs' (fun y hy => hg y (List.mem_cons_of_mem _ hy)) hgs')
    · split at h
      · rename_i m hm
        cases h
        simp only [List.flatMap_cons]
        have h1 := hD g it m (hg g (by simp)) hi hm
        refine (List.Perm.append_right _ h1).trans ?_
        rw [List.append_assoc, List.append_assoc]
        exact List.Perm.append_left _ List.perm_append_comm
      · cases h

theorem step_perm (merge : α → α → Option α) (D : α → List β) (P : α → Prop)
    (hD : ∀ g it m, P g → P it → merge g it = some m → (D m).Perm (D g ++ D it))
    (acc : List α) (it : α) (ha : ∀ g ∈ acc, P g) (hi : P it) :
    ((step merge acc it).flatMap D).Perm (acc.flatMap D ++ D it) := by
  unfold step
  split
  · rename_i r h; exact mergeIntoRev_perm merge D P hD acc it r ha hi h
  · simp

theorem pass_perm (merge : α → α → Option α) (D : α → List β) (P : α → Prop)
    (hm : ∀ g it m, merge g it = some m → P g → P it → P m)
    (hD : ∀ g it m, P g → P it → merge g it = some m → (D m).Perm (D g ++ D it))
    (items : List α) (hp : ∀ x ∈ items, P x) :
    ((pass merge items).flatMap D).Perm (items.flatMap D) := by
  unfold pass
  suffices h : ∀ acc, (∀ g ∈ acc, P g) → ((items.foldl (step merge) acc).flatMap D).Perm
      (acc.flatMap D ++ items.flatMap D) by simpa using h [] (by simp)
  induction items with
  | nil => intro acc _; simp
  | cons x xs ih =>
    intro acc ha
    simp only [List.foldl_cons, List.flatMap_cons]
    have hx := hp x (by simp)
    refine (ih (fun y hy => hp y (List.mem_cons_of_mem _ hy)) (step merge acc x)
      (step_forall merge P hm acc x ha hx)).trans ?_
    rw [← List.append_assoc]
    exact List.Perm.append_right _ (step_perm merge D P hD acc x ha hx)

/-- **Denotation preservation**: whatever `merge` preserves up to permutation is preserved by
`merge_recursive`. -/
theorem mergeRec_perm (merge : α → α → Option α) (D : α → List β) (P : α → Prop)
    (hm : ∀ g it m, merge g it = some m → P g → P it → P m)
    (hD : ∀ g it m, P g → P it → merge g it = some m → (D m).Perm (D g ++ D it))
    (n : Nat) (items : List α) (hp : ∀ x ∈ items, P x) :
    ((mergeRec merge n items).flatMap D).Perm (items.flatMap D) := by
  induction n generalizing items with
  | zero => simp [mergeRec]
  | succ n ih =>
    simp only [mergeRec]
    split
    · exact (ih _ (pass_forall merge P hm items hp)).trans (pass_perm merge D P hm hD items hp)
    · exact pass_perm merge D P hm hD items hp

end Svgbob.G

namespace Svgbob.G
variable {α : Type}

/-! ### locality under an invariant

Items satisfying `P` (preserved by `merge`) fall into classes `cls`; items of different classes
never merge and a merge stays in the class of its group. Then a pass restricted to one class is
the pass of the restriction: what happens to one class does not depend on the others. -/

theorem mergeIntoRev_filter_inv (merge : α → α → Option α) (cls : α → Nat) (P : α → Prop)
    (hx : ∀ a b, P a → P b → cls a ≠ cls b → merge a b = none)
    (hc : ∀ a b m, P a → P b → merge a b = some m → cls m = cls a)
    (k : Nat) (gs : List α) (it : α) (hg : ∀ g ∈ gs, P g) (hi : P it) :
    (cls it = k →
      mergeIntoRev merge (gs.filter (cls · = k)) it =
        (mergeIntoRev merge gs it).map (List.filter (cls · = k))) ∧
    (cls it ≠ k → ∀ r, mergeIntoRev merge gs it = some r →
      r.filter (cls · = k) = gs.filter (cls · = k)) := by
  induction gs with
  | nil => simp [mergeIntoRev]
  | cons g gs ih =>
    have hg' : ∀ x ∈ gs, P x := fun x hx' => hg x (List.mem_cons_of_mem _ hx')
    have hPg : P g := hg g (by simp)
    obtain ⟨ih1, ih2⟩ := ih hg'
    constructor
    · intro hk
      by_cases hgk : cls g = k
      · simp only [List.filter_cons, hgk, decide_true, if_true, mergeIntoRev, ih1 hk]
        cases h : mergeIntoRev merge gs it with
        | some r => simp [hgk]
        | none =>
          simp only [Option.map_none]
          cases hm : merge g it with
          | none => simp
          | some m => simp [hc g it m hPg hi hm, hgk]
      · have hne : cls g ≠ cls it := by omega
        have hgf : (List.filter (fun x => decide (cls x = k)) (g :: gs)) =
            List.filter (fun x => decide (cls x = k)) gs := by
          simp [List.filter_cons, hgk]
        rw [hgf, ih1 hk]
        simp only [mergeIntoRev, hx g it hPg hi hne]
        cases h : mergeIntoRev merge gs it with
        | some r => simp [List.filter_cons, hgk]
        | none => simp
    · intro hk r hr
      simp only [mergeIntoRev] at hr
      split at hr
      · rename_i gs' hgs'
        cases hr
        simp [List.filter_cons, ih2 hk _ hgs']
      · split at hr
        · rename_i m hm
          cases hr
          have h1 : cls m = cls g := hc g it m hPg hi hm
          have h2 : cls g = cls it := by
            by_cases hne : cls g = cls it
            · exact hne
            · rw [hx g it hPg hi hne] at hm; cases hm
          have hgk : cls g ≠ k := by omega
          have hm' : cls m ≠ k := by omega
          simp [List.filter_cons, hgk, hm']
        · cases hr

theorem step_filter_inv (merge : α → α → Option α) (cls : α → Nat) (P : α → Prop)
    (hx : ∀ a b, P a → P b → cls a ≠ cls b → merge a b = none)
    (hc : ∀ a b m, P a → P b → merge a b = some m → cls m = cls a)
    (k : Nat) (acc : List α) (it : α) (ha : ∀ g ∈ acc, P g) (hi : P it) :
    (step merge acc it).filter (cls · = k) =
      if cls it = k then step merge (acc.filter (cls · = k)) it else acc.filter (cls · = k) := by
  obtain ⟨h1, h2⟩ := mergeIntoRev_filter_inv merge cls P hx hc k acc it ha hi
  by_cases hk : cls it = k
  · simp only [hk, if_true]
    unfold step
    rw [h1 hk]
    cases h : mergeIntoRev merge acc it with
    | some r => simp
    | none => simp [List.filter_append, hk]
  · simp only [hk, if_false]
    unfold step
    cases h : mergeIntoRev merge acc it with
    | some r => simpa using h2 hk r h
    | none => simp [List.filter_append, hk]

/-- **Locality of a pass.** -/
theorem pass_filter_inv (merge : α → α → Option α) (cls : α → Nat) (P : α → Prop)
    (hm : ∀ g it m, merge g it = some m → P g → P it → P m)
    (hx : ∀ a b, P a → P b → cls a ≠ cls b → merge a b = none)
    (hc : ∀ a b m, P a → P b → merge a b = some m → cls m = cls a)
    (k : Nat) (items : List α) (hp : ∀ x ∈ items, P x) :
    (pass merge items).filter (cls · = k) = pass merge (items.filter (cls · = k)) := by
  unfold pass
  suffices h : ∀ acc, (∀ g ∈ acc, P g) → (items.foldl (step merge) acc).filter (cls · = k) =
      (items.filter (cls · = k)).foldl (step merge) (acc.filter (cls · = k)) by
    simpa using h [] (by simp)
  induction items with
  | nil => intro acc _; simp
  | cons x xs ih =>
    intro acc ha
    have hx' := hp x (by simp)
    simp only [List.foldl_cons]
    rw [ih (fun y hy => hp y (List.mem_cons_of_mem _ hy)) _ (step_forall merge P hm acc x ha hx'),
      step_filter_inv merge cls P hx hc k acc x ha hx']
    by_cases hk : cls x = k
    · simp [List.filter_cons, hk]
    · simp [List.filter_cons, hk]

end Svgbob.G

namespace Svgbob.G
variable {α : Type}

/-! ### `merge_recursive` as an iterated pass; locality of the whole loop -/

def iter (f : List α → List α) : Nat → List α → List α
  | 0, l => l
  | j + 1, l => iter f j (f l)

theorem iter_fixpoint (f : List α → List α) (l : List α) (h : f l = l) (j : Nat) : iter f j l = l := by
  induction j with
  | zero => rfl
  | succ j ih => simp [iter, h, ih]

theorem iter_add (f : List α → List α) (i j : Nat) (l : List α) :
    iter f (i + j) l = iter f j (iter f i l) := by
  induction i generalizing l with
  | zero => simp [iter]
  | succ i ih =>
    have : i + 1 + j = (i + j) + 1 := by omega
    rw [this]; simp [iter, ih]

/-- two iterates from the same start that are both fixpoints coincide -/
theorem iter_fixpoint_unique (f : List α → List α) (l : List α) (i j : Nat)
    (hi : f (iter f i l) = iter f i l) (hj : f (iter f j l) = iter f j l) :
    iter f i l = iter f j l := by
  rcases Nat.le_total i j with h | h
  · obtain ⟨d, rfl⟩ := Nat.exists_eq_add_of_le h
    rw [iter_add, iter_fixpoint f _ hi]
  · obtain ⟨d, rfl⟩ := Nat.exists_eq_add_of_le h
    rw [iter_add, iter_fixpoint f _ hj]

theorem mergeRec_eq_iter (merge : α → α → Option α) (n : Nat) (l : List α) :
    ∃ j, mergeRec merge n l = iter (pass merge) j l := by
  induction n generalizing l with
  | zero => exact ⟨0, rfl⟩
  | succ n ih =>
    simp only [mergeRec]
    split
    · obtain ⟨j, hj⟩ := ih (pass merge l)
      exact ⟨j + 1, by simpa [iter] using hj⟩
    · exact ⟨1, by simp [iter]⟩

theorem iter_pass_forall (merge : α → α → Option α) (P : α → Prop)
    (hm : ∀ g it m, merge g it = some m → P g → P it → P m)
    (j : Nat) (l : List α) (h : ∀ x ∈ l, P x) : ∀ x ∈ iter (pass merge) j l, P x := by
  induction j generalizing l with
  | zero => simpa [iter] using h
  | succ j ih => simp only [iter]; exact ih _ (pass_forall merge P hm l h)

theorem iter_pass_filter_inv (merge : α → α → Option α) (cls : α → Nat) (P : α → Prop)
    (hm : ∀ g it m, merge g it = some m → P g → P it → P m)
    (hx : ∀ a b, P a → P b → cls a ≠ cls b → merge a b = none)
    (hc : ∀ a b m, P a → P b → merge a b = some m → cls m = cls a)
    (k : Nat) (j : Nat) (l : List α) (hp : ∀ x ∈ l, P x) :
    (iter (pass merge) j l).filter (cls · = k) = iter (pass merge) j (l.filter (cls · = k)) := by
  induction j generalizing l with
  | zero => simp [iter]
  | succ j ih =>
    simp only [iter]
    rw [ih _ (pass_forall merge P hm l hp), pass_filter_inv merge cls P hm hx hc k l hp]

/-- **Locality of `merge_recursive`**: restricted to one class, the result of the loop on the
whole list is the result of the loop on that class alone (with adequate fuel on both sides). -/
theorem mergeRec_filter_inv (merge : α → α → Option α) (cls : α → Nat) (P : α → Prop)
    (hm : ∀ g it m, merge g it = some m → P g → P it → P m)
    (hx : ∀ a b, P a → P b → cls a ≠ cls b → merge a b = none)
    (hc : ∀ a b m, P a → P b → merge a b = some m → cls m = cls a)
    (k : Nat) (n n' : Nat) (l : List α) (hp : ∀ x ∈ l, P x)
    (hn : l.length < n) (hn' : (l.filter (cls · = k)).length < n') :
    (mergeRec merge n l).filter (cls · = k) = mergeRec merge n' (l.filter (cls · = k)) := by
  obtain ⟨j, hj⟩ := mergeRec_eq_iter merge n l
  obtain ⟨j', hj'⟩ := mergeRec_eq_iter merge n' (l.filter (cls · = k))
  have hfix := (mergeRec_fuel_adequate merge n l hn).2
  have hfix' := (mergeRec_fuel_adequate merge n' _ hn').2
  rw [hj] at hfix ⊢
  rw [hj'] at hfix' ⊢
  rw [iter_pass_filter_inv merge cls P hm hx hc k j l hp]
  apply iter_fixpoint_unique (pass merge)
  · -- the filtered iterate is a fixpoint of `pass`
    have hP := iter_pass_forall merge P hm j l hp
    have := pass_filter_inv merge cls P hm hx hc k _ hP
    rw [hfix] at this
    rw [← iter_pass_filter_inv merge cls P hm hx hc k j l hp]
    exact this.symm
  · exact hfix'

end Svgbob.G

import Svgbob.Proofs.Forest
import Svgbob.Proofs.MoveAll2
/-!
# The containment forest does not depend on where the drawing stands

Which fragment nests in which, which shape a `{tag}` styles and the order in which the fragments
are emitted are decided by comparisons of bounding boxes; moving every fragment by the same cell
vector moves every box, so the forest of the moved fragments is the moved forest.
-/
namespace Svgbob.G
variable {α : Type}

/-! equivariance of the greedy loop under an invariant `P` (kept by `merge` and by `σ`) -/

theorem mergeIntoRev_map_inv (merge : α → α → Option α) (σ : α → α) (P : α → Prop)
    (hσ : ∀ a b, P a → P b → merge (σ a) (σ b) = (merge a b).map σ) (gs : List α) (it : α)
    (hg : ∀ g ∈ gs, P g) (hi : P it) :
    mergeIntoRev merge (gs.map σ) (σ it) = (mergeIntoRev merge gs it).map (List.map σ) := by
  induction gs with
  | nil => simp [mergeIntoRev]
  | cons g gs ih =>
    simp only [List.map_cons, mergeIntoRev, ih (fun x hx => hg x (List.mem_cons_of_mem _ hx))]
    cases h : mergeIntoRev merge gs it with
    | some r => simp
    | none =>
      simp only [Option.map_none, hσ g it (hg g (by simp)) hi]
      cases merge g it <;> simp

theorem step_map_inv (merge : α → α → Option α) (σ : α → α) (P : α → Prop)
    (hσ : ∀ a b, P a → P b → merge (σ a) (σ b) = (merge a b).map σ) (acc : List α) (it : α)
    (ha : ∀ g ∈ acc, P g) (hi : P it) :
    step merge (acc.map σ) (σ it) = (step merge acc it).map σ := by
  unfold step; rw [mergeIntoRev_map_inv merge σ P hσ acc it ha hi]
  cases mergeIntoRev merge acc it <;> simp

theorem pass_map_inv (merge : α → α → Option α) (σ : α → α) (P : α → Prop)
    (hm : ∀ g it m, merge g it = some m → P g → P it → P m)
    (hσ : ∀ a b, P a → P b → merge (σ a) (σ b) = (merge a b).map σ) (items : List α)
    (hp : ∀ x ∈ items, P x) :
    pass merge (items.map σ) = (pass merge items).map σ := by
  unfold pass
  suffices h : ∀ acc, (∀ g ∈ acc, P g) →
      (items.map σ).foldl (step merge) (acc.map σ) = (items.foldl (step merge) acc).map σ by
    simpa using h [] (by simp)
  induction items with
  | nil => intro acc _; simp
  | cons x xs ih =>
    intro acc ha
    have hx := hp x (by simp)
    simp only [List.map_cons, List.foldl_cons, step_map_inv merge σ P hσ acc x ha hx]
    exact ih (fun y hy => hp y (List.mem_cons_of_mem _ hy)) _ (step_forall merge P hm acc x ha hx)

theorem mergeRec_map_inv (merge : α → α → Option α) (σ : α → α) (P : α → Prop)
    (hm : ∀ g it m, merge g it = some m → P g → P it → P m)
    (hσ : ∀ a b, P a → P b → merge (σ a) (σ b) = (merge a b).map σ) (n : Nat) (items : List α)
    (hp : ∀ x ∈ items, P x) :
    mergeRec merge n (items.map σ) = (mergeRec merge n items).map σ := by
  induction n generalizing items with
  | zero => simp [mergeRec]
  | succ n ih =>
    simp only [mergeRec, pass_map_inv merge σ P hm hσ items hp, List.length_map]
    split
    · exact ih _ (pass_forall merge P hm items hp)
    · rfl

end Svgbob.G

namespace Svgbob

variable (len : List Char → Nat) (unit : Int)

mutual
def FTree.move (k n : Int) : FTree → FTree
  | .node f tags kids => .node (f.move k n) tags (FTree.moveList k n kids)
def FTree.moveList (k n : Int) : List FTree → List FTree
  | [] => []
  | t :: ts => FTree.move k n t :: FTree.moveList k n ts
end

theorem FTree.moveList_eq_map (k n : Int) (ts : List FTree) :
    FTree.moveList k n ts = ts.map (FTree.move k n) := by
  induction ts with
  | nil => rfl
  | cons t ts ih => simp [FTree.moveList, ih]

theorem FTree.moveList_append (k n : Int) (a b : List FTree) :
    FTree.moveList k n (a ++ b) = FTree.moveList k n a ++ FTree.moveList k n b := by
  simp [FTree.moveList_eq_map]

mutual
/-- every fragment of the tree can be moved (no polygon without points) -/
def FTree.AllMovable : FTree → Prop
  | .node f _ kids => f.Movable ∧ FTree.AllMovableList kids
def FTree.AllMovableList : List FTree → Prop
  | [] => True
  | t :: ts => FTree.AllMovable t ∧ FTree.AllMovableList ts
end

theorem FTree.allMovableList_append (a b : List FTree) :
    FTree.AllMovableList (a ++ b) ↔ FTree.AllMovableList a ∧ FTree.AllMovableList b := by
  induction a with
  | nil => simp [FTree.AllMovableList]
  | cons t ts ih => simp [FTree.AllMovableList, ih, and_assoc]

theorem canFit_move (k n : Int) (a b : Frag) (ha : a.Movable) (hb : b.Movable) :
    canFit len unit (a.move k n) (b.move k n) = canFit len unit a b := by
  simp only [canFit, Frag.bounds_move len unit k n a ha, Frag.bounds_move len unit k n b hb, Pt.add]
  generalize (a.bounds len unit) = ba
  generalize (b.bounds len unit) = bb
  have e1 : decide ((moveBy k n).x + ba.1.x ≤ (moveBy k n).x + bb.1.x) = decide (ba.1.x ≤ bb.1.x) := by
    apply decide_eq_decide.mpr; omega
  have e2 : decide ((moveBy k n).y + ba.1.y ≤ (moveBy k n).y + bb.1.y) = decide (ba.1.y ≤ bb.1.y) := by
    apply decide_eq_decide.mpr; omega
  have e3 : decide ((moveBy k n).x + ba.2.x ≥ (moveBy k n).x + bb.2.x) = decide (ba.2.x ≥ bb.2.x) := by
    apply decide_eq_decide.mpr; omega
  have e4 : decide ((moveBy k n).y + ba.2.y ≥ (moveBy k n).y + bb.2.y) = decide (ba.2.y ≥ bb.2.y) := by
    apply decide_eq_decide.mpr; omega
  rw [e1, e2, e3, e4]

theorem asCssTag_move (k n : Int) (f : Frag) : (f.move k n).asCssTag = f.asCssTag := by
  cases f <;> rfl

theorem FTree.frag_move (k n : Int) (t : FTree) : (FTree.move k n t).frag = t.frag.move k n := by
  cases t with | node f tags kids => simp [FTree.move, FTree.frag]

theorem FTree.frag_movable (t : FTree) (h : FTree.AllMovable t) : t.frag.Movable := by
  cases t with | node f tags kids => exact h.1

mutual
theorem FTree.encloseDF_move (k n : Int) (other : FTree) (ho : FTree.AllMovable other) :
    ∀ (t : FTree), FTree.AllMovable t →
      FTree.encloseDF len unit (FTree.move k n other) (FTree.move k n t) =
        (FTree.encloseDF len unit other t).map (FTree.move k n)
  | .node f tags kids, ht => by
    simp only [FTree.move, FTree.encloseDF]
    rw [FTree.encloseDFList_move k n other ho kids ht.2]
    cases hk : FTree.encloseDFList len unit other kids with
    | some kids' => simp [FTree.move]
    | none =>
      simp only [Option.map_none, FTree.frag_move, asCssTag_move,
        canFit_move len unit k n f other.frag ht.1 (FTree.frag_movable other ho)]
      split
      · split
        · simp [FTree.move]
        · simp [FTree.move, FTree.moveList_append, FTree.moveList]
      · rfl
theorem FTree.encloseDFList_move (k n : Int) (other : FTree) (ho : FTree.AllMovable other) :
    ∀ (ks : List FTree), FTree.AllMovableList ks →
      FTree.encloseDFList len unit (FTree.move k n other) (FTree.moveList k n ks) =
        (FTree.encloseDFList len unit other ks).map (FTree.moveList k n)
  | [], _ => by simp [FTree.moveList, FTree.encloseDFList]
  | t :: ts, h => by
    simp only [FTree.moveList, FTree.encloseDFList]
    rw [FTree.encloseDF_move k n other ho t h.1, FTree.encloseDFList_move k n other ho ts h.2]
    cases FTree.encloseDF len unit other t with
    | some t' => simp [FTree.moveList]
    | none =>
      cases FTree.encloseDFList len unit other ts with
      | some ts' => simp [FTree.moveList]
      | none => simp
end

mutual
theorem FTree.encloseDF_allMovable (other : FTree) (ho : FTree.AllMovable other) :
    ∀ (t t' : FTree), FTree.AllMovable t → FTree.encloseDF len unit other t = some t' →
      FTree.AllMovable t'
  | .node f tags kids, t', ht, h => by
    simp only [FTree.encloseDF] at h
    split at h
    · rename_i kids' hk
      cases h
      exact ⟨ht.1, FTree.encloseDFList_allMovable other ho kids kids' ht.2 hk⟩
    · split at h
      · split at h
        · cases h; exact ⟨ht.1, ht.2⟩
        · cases h
          exact ⟨ht.1, (FTree.allMovableList_append _ _).mpr ⟨ht.2, ho, trivial⟩⟩
      · cases h
theorem FTree.encloseDFList_allMovable (other : FTree) (ho : FTree.AllMovable other) :
    ∀ (ks ks' : List FTree), FTree.AllMovableList ks →
      FTree.encloseDFList len unit other ks = some ks' → FTree.AllMovableList ks'
  | [], ks', _, h => by simp [FTree.encloseDFList] at h
  | t :: ts, ks', hk, h => by
    simp only [FTree.encloseDFList] at h
    split at h
    · rename_i t' ht'
      cases h
      exact ⟨FTree.encloseDF_allMovable other ho t t' hk.1 ht', hk.2⟩
    · split at h
      · rename_i ts' hts'
        cases h
        exact ⟨hk.1, FTree.encloseDFList_allMovable other ho ts ts' hk.2 hts'⟩
      · cases h
end

/-- **The forest of the moved fragments is the moved forest**: nesting, tag classes and emission
order do not depend on the position of the drawing. -/
theorem encloseRecursive_move (k n : Int) (trees : List FTree) (h : ∀ t ∈ trees, FTree.AllMovable t) :
    encloseRecursive len unit (trees.map (FTree.move k n)) =
      (encloseRecursive len unit trees).map (FTree.move k n) := by
  unfold encloseRecursive
  rw [List.length_map]
  exact G.mergeRec_map_inv (fun g it => FTree.encloseDF len unit it g) (FTree.move k n) FTree.AllMovable
    (fun g it m hm hg hi => FTree.encloseDF_allMovable len unit it hi g m hg hm)
    (fun a b ha hb => FTree.encloseDF_move len unit k n b hb a ha) _ trees h

end Svgbob

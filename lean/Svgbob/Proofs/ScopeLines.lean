import Svgbob.Proofs.ScopeText
import Svgbob.Proofs.LineMerge
/-!
# No two plain lines of a scope are collinear and touching — in either order, in any groups

`no_collinear_touching_pair` (Proofs/LineMerge) is the fixpoint property of the greedy loop: an
earlier line does not merge with a later one. Here it is lifted to the contact groups of a whole
scope, for all characters and glyphs of the tables, and made symmetric: for proper grid lines
"collinear and touching" does not depend on the order of the two lines, so it holds for every two
different positions of the flattened contact groups.
-/
namespace Svgbob

variable (len : List Char → Nat)

/-- every line of a fragment is stored start-before-end (not degenerate) on the quarter-cell grid -/
def Frag.LineOk : Frag → Prop
  | .line s e _ => s.cmp e = .lt ∧ OnGrid s ∧ OnGrid e
  | _ => True

def lineOkB : Frag → Bool
  | .line s e _ => s.cmp e == .lt && s.x % 250 == 0 && s.y % 250 == 0 && e.x % 250 == 0 && e.y % 250 == 0
  | _ => true

theorem lineOk_of_lineOkB (f : Frag) (h : lineOkB f = true) : f.LineOk := by
  cases f with
  | line s e b =>
    simp only [lineOkB, Bool.and_eq_true, beq_iff_eq] at h
    obtain ⟨⟨⟨⟨h1, h2⟩, h3⟩, h4⟩, h5⟩ := h
    exact ⟨h1, ⟨Int.dvd_of_emod_eq_zero h2, Int.dvd_of_emod_eq_zero h3⟩,
      ⟨Int.dvd_of_emod_eq_zero h4, Int.dvd_of_emod_eq_zero h5⟩⟩
  | _ => trivial

/-- decided over the REGENERATED tables: every line of every behaviour row and glyph is proper -/
theorem tables_lineOk :
    Gen.asciiTable.all (fun en => en.behavior.all fun row => row.2.all lineOkB) = true ∧
    Gen.unicodeTable.all (fun g => g.2.all lineOkB) = true := by
  constructor <;> decide +kernel

theorem Frag.merge_lineOk (g it m : Frag) (h : Frag.merge len g it = some m)
    (hg : g.LineOk) (hi : it.LineOk) : m.LineOk := by
  cases g <;> cases it <;> simp only [Frag.merge] at h <;> try (cases h)
  case line.line s e b s' e' b' =>
    obtain ⟨_, rfl⟩ := lineMerge_some _ _ _ _ _ _ _ h
    obtain ⟨hs, hgs, hge⟩ := hg
    obtain ⟨hs', hgs', hge'⟩ := hi
    have hlt := min_lt_max s e s' e' hs hs'
    rw [mkLine_of_lt _ _ _ hlt]
    refine ⟨hlt, ?_, ?_⟩
    · rcases ptMin_mem s s' with h | h <;> rw [h] <;> assumption
    · rcases ptMax_mem e e' with h | h <;> rw [h] <;> assumption
  case line.circle s e b c r f =>
    unfold lineMergeCircle at h
    simp only at h
    split at h
    · split at h <;> (cases h; trivial)
    · cases h
  case circle.line c r f s e b =>
    unfold lineMergeCircle at h
    simp only at h
    split at h
    · split at h <;> (cases h; trivial)
    · cases h
  case cellText.cellText st c st' c' =>
    unfold cellTextMerge at h
    split at h
    · split at h <;> (cases h; trivial)
    · cases h

theorem absPos_lineOk (c : Cell) (f : Frag) (h : f.LineOk) : (f.absPos c).LineOk := by
  cases f <;> try trivial
  case line s e b =>
    obtain ⟨hlt, ⟨g1, g2⟩, ⟨g3, g4⟩⟩ := h
    rw [cmp_lt_iff] at hlt
    refine ⟨?_, ⟨?_, ?_⟩, ⟨?_, ?_⟩⟩
    · rw [cmp_lt_iff]; simp only [Pt.add, Cell.origin]; omega
    all_goals (simp only [Pt.add, Cell.origin]; omega)

theorem entryOf_lineOk (ch : Char) (en : Entry) (h : entryOf len ch = some en) :
    ∀ row ∈ en.behavior, ∀ f ∈ row.2, f.LineOk := by
  unfold entryOf at h
  cases ha : asciiEntry ch with
  | some e =>
    simp only [ha, Option.some.injEq] at h
    subst h
    have hmem : e ∈ Gen.asciiTable := by
      have := List.mem_of_find?_eq_some ha
      simpa using this
    have := List.all_eq_true.mp tables_lineOk.1 e hmem
    intro row hrow f hf
    exact lineOk_of_lineOkB f (List.all_eq_true.mp (List.all_eq_true.mp this row hrow) f hf)
  | none =>
    simp only [ha] at h
    unfold unicodeFrags at h
    cases hu : Gen.unicodeTable.reverse.find? (·.1 == ch) with
    | none => simp [hu] at h
    | some p =>
      simp only [hu, Option.map_some, Option.some.injEq] at h
      subst h
      have hmem : p ∈ Gen.unicodeTable := by
        have := List.mem_of_find?_eq_some hu
        simpa using this
      have := List.all_eq_true.mp tables_lineOk.2 p hmem
      intro row hrow f hf
      simp only [Entry.ofGlyph, List.mem_singleton] at hrow
      subst hrow
      exact lineOk_of_lineOkB f (List.all_eq_true.mp this f ((sortBy_mem _ _ f).mp hf))

theorem unicodeFrags_lineOk (ch : Char) (ufs : List Frag) (h : unicodeFrags len ch = some ufs) :
    ∀ f ∈ ufs, f.LineOk := by
  unfold unicodeFrags at h
  cases hu : Gen.unicodeTable.reverse.find? (·.1 == ch) with
  | none => simp [hu] at h
  | some p =>
    simp only [hu, Option.map_some, Option.some.injEq] at h
    subst h
    have hmem : p ∈ Gen.unicodeTable := by
      have := List.mem_of_find?_eq_some hu
      simpa using this
    have := List.all_eq_true.mp tables_lineOk.2 p hmem
    intro f hf
    exact lineOk_of_lineOkB f (List.all_eq_true.mp this f ((sortBy_mem _ _ f).mp hf))

/-- **every line any cell produces is a proper grid line**, whatever the character and its
neighbours -/
theorem cellFragments_lineOk (s : Span) (c : Cell) (ch : Char) :
    ∀ f ∈ cellFragments len s c ch, (f.absPos c).LineOk := by
  intro f hf
  apply absPos_lineOk
  revert f
  unfold cellFragments
  cases he : entryOf len ch with
  | none => intro f hf; simp at hf; subst hf; trivial
  | some en =>
    simp only
    split
    · intro f hf
      have hf' := (sortBy_mem _ _ f).mp hf
      simp only [Entry.fragments, List.mem_flatMap] at hf'
      obtain ⟨row, hrow, hfr⟩ := hf'
      split at hfr
      · exact entryOf_lineOk len ch en he row hrow f hfr
      · simp at hfr
    · cases hu : unicodeFrags len ch with
      | none => intro f hf; simp at hf; subst hf; trivial
      | some ufs =>
        intro f hf
        have hf' := (sortBy_mem _ _ f).mp hf
        unfold fragMergeRecursive at hf'
        exact G.mergeRec_forall (Frag.merge len) Frag.LineOk
          (fun g it m hm hg hi => Frag.merge_lineOk len g it m hm hg hi) _ _
          (unicodeFrags_lineOk len ch ufs hu) f hf'

/-! ## "collinear and touching" is symmetric for proper grid lines -/

theorem lineTouching_symm (s e s' e' : Pt) : lineTouching s e s' e' = lineTouching s' e' s e := by
  unfold lineTouching
  cases onSegment s e s' <;> cases onSegment s e e' <;> cases onSegment s' e' s <;>
    cases onSegment s' e' e <;> rfl

/-- three points on a non-degenerate line: the two others are parallel as seen from the first -/
theorem cross_of_parallel (s e a b : Pt) (hne : s ≠ e) (ha : cross s e a = 0) (hb : cross s e b = 0) :
    (a.x - s.x) * (b.y - s.y) - (a.y - s.y) * (b.x - s.x) = 0 := by
  unfold cross at ha hb
  have h1 : (e.x - s.x) * ((a.x - s.x) * (b.y - s.y) - (a.y - s.y) * (b.x - s.x)) = 0 := by
    linear_combination (a.x - s.x) * hb - (b.x - s.x) * ha
  have h2 : (e.y - s.y) * ((a.x - s.x) * (b.y - s.y) - (a.y - s.y) * (b.x - s.x)) = 0 := by
    linear_combination (a.y - s.y) * hb - (b.y - s.y) * ha
  rcases Int.mul_eq_zero.mp h1 with hx | h
  · rcases Int.mul_eq_zero.mp h2 with hy | h
    · exfalso; apply hne
      cases s; cases e; simp only [Pt.mk.injEq] at *; omega
    · exact h
  · exact h

theorem lineCanMerge_symm (s e s' e' : Pt) (hs : s.cmp e = .lt) (hs' : s'.cmp e' = .lt)
    (hg : OnGrid s ∧ OnGrid e) (hg' : OnGrid s' ∧ OnGrid e')
    (h : lineCanMerge s e s' e' = true) : lineCanMerge s' e' s e = true := by
  simp only [lineCanMerge, Bool.and_eq_true] at h ⊢
  obtain ⟨⟨ht, hc1⟩, hc2⟩ := h
  have c1 := (isCollinear_iff_cross_zero_on_grid s e s' hg.1 hg.2 hg'.1).mp hc1
  have c2 := (isCollinear_iff_cross_zero_on_grid s e e' hg.1 hg.2 hg'.2).mp hc2
  have hne : s ≠ e := by
    intro he; rw [he] at hs
    rw [cmp_lt_iff] at hs; omega
  have hne' : s' ≠ e' := by
    intro he; rw [he] at hs'
    rw [cmp_lt_iff] at hs'; omega
  -- everything as seen from s
  have p1 := cross_of_parallel s e s' e' hne c1 c2
  -- cross s' e' s = 0
  have d1 : (e'.x - s'.x) * (s.y - s'.y) - (e'.y - s'.y) * (s.x - s'.x) = 0 := by
    linear_combination p1
  -- as seen from e: cross s e e = 0 trivially, and s', e' lie on the line through e too
  have ce : cross s e e = 0 := by unfold cross; ring
  have q1 := cross_of_parallel s e s' e hne c1 ce
  have q2 := cross_of_parallel s e e' e hne c2 ce
  -- cross s' e' e = 0: from p1 (s', e' parallel from s) and the positions of e
  have d2 : (e'.x - s'.x) * (e.y - s'.y) - (e'.y - s'.y) * (e.x - s'.x) = 0 := by
    -- (e'-s') × (e-s') = (e'-s) × (e-s) - (s'-s) × (e-s) - (e'-s) × (s'-s)
    linear_combination (-1 : Int) * c2 + c1 + p1
  refine ⟨⟨?_, ?_⟩, ?_⟩
  · rw [← lineTouching_symm]; exact ht
  · exact (isCollinear_iff_cross_zero_on_grid s' e' s hg'.1 hg'.2 hg.1).mpr d1
  · exact (isCollinear_iff_cross_zero_on_grid s' e' e hg'.1 hg'.2 hg.2).mpr d2

/-! ## the whole scope -/

/-- two fragments are not both plain lines that are collinear and touching (in either order) -/
def NotMergeableLines (a b : FragSpan) : Prop :=
  ∀ s e br s' e' br', a.frag = .line s e br → b.frag = .line s' e' br' →
    ¬ CollinearTouching s e s' e' ∧ ¬ CollinearTouching s' e' s e

theorem noMerge_pairwise {α : Type} (merge : α → α → Option α) (l : List α)
    (h : G.NoMerge merge l) : l.Pairwise (fun x y => merge x y = none) := by
  induction l with
  | nil => exact List.Pairwise.nil
  | cons x xs ih => exact List.Pairwise.cons h.1 (ih h.2)

theorem contacts_flatten_perm (groups : List (List FragSpan)) (n : Nat) :
    ((G.mergeRec (contactsMerge len) n groups).flatMap id).Perm (groups.flatMap id) :=
  G.mergeRec_perm (contactsMerge len) id (fun _ => True) (by intros; trivial)
    (by
      intro g it m _ _ hm
      simp only [contactsMerge] at hm
      split at hm
      · simp at hm; subst hm; exact List.Perm.refl _
      · simp at hm)
    n groups (by intros; trivial)

/-- **No two plain lines of a scope are collinear and touching**: for every span, every two
different positions of the flattened contact groups. -/
theorem contactsOf_lines_not_mergeable (s : Span) :
    ((contactsOf len s).flatMap id).Pairwise NotMergeableLines := by
  unfold contactsOf
  simp only
  set frags := absFragmentSpans (fragmentBuffer len s s) with hfr
  set merged := G.mergeRec (FragSpan.merge len) (frags.length + 1) frags with hme
  have hperm := contacts_flatten_perm len (merged.map fun f => [f]) ((merged.map fun f => [f]).length + 1)
  have hflat : (merged.map fun f => [f]).flatMap id = merged := by
    induction merged with
    | nil => rfl
    | cons a as ih => simp [List.flatMap_cons, ih]
  rw [hflat] at hperm
  -- invariants of the merged list
  have hall : ∀ f ∈ frags, f.frag.LineOk :=
    fragmentBuffer_all len Frag.LineOk s s (fun cc _ f hf => cellFragments_lineOk len s cc.1 cc.2 f hf)
  have hmok : ∀ f ∈ merged, f.frag.LineOk := by
    apply G.mergeRec_forall (FragSpan.merge len) (fun f => f.frag.LineOk) _ _ _ hall
    intro g it m hm hg hi
    simp only [FragSpan.merge] at hm
    split at hm
    · rename_i f hf
      simp at hm; subst hm
      exact Frag.merge_lineOk len _ _ _ hf hg hi
    · simp at hm
  have hnm := noMerge_pairwise _ _ (merged_fragments_noMerge len frags)
  -- pairwise NotMergeableLines on the merged list
  have hpw : merged.Pairwise NotMergeableLines := by
    have hpw' : merged.Pairwise (fun x y => x.frag.LineOk → y.frag.LineOk → NotMergeableLines x y) := by
      refine hnm.imp ?_
      intro x y hxy hx hy s0 e0 br s1 e1 br' hxa hyb
      have hno : ¬ CollinearTouching s0 e0 s1 e1 := by
        intro hc
        simp only [FragSpan.merge, hxa, hyb, Frag.merge, lineMerge, CollinearTouching] at hxy hc
        simp [hc] at hxy
      refine ⟨hno, ?_⟩
      intro hc
      rw [hxa] at hx; rw [hyb] at hy
      exact hno (lineCanMerge_symm s1 e1 s0 e0 hy.1 hx.1 ⟨hy.2.1, hy.2.2⟩ ⟨hx.2.1, hx.2.2⟩ hc)
    -- discharge the invariant hypotheses
    have := List.Pairwise.and_mem.mp hpw'
    exact this.imp (fun ⟨hx, hy, h⟩ => h (hmok _ hx) (hmok _ hy))
  -- the relation is symmetric, so it survives the permutation
  have hsymm : ∀ a b : FragSpan, NotMergeableLines a b → NotMergeableLines b a := by
    intro a b h s0 e0 br s1 e1 br' ha hb
    have := h s1 e1 br' s0 e0 br hb ha
    exact ⟨this.2, this.1⟩
  exact (hperm.pairwise_iff (fun {a b} h => hsymm a b h)).mpr hpw

end Svgbob

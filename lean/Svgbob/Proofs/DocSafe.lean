import Svgbob.Proofs.NodeSafe
import Svgbob.Proofs.Merge
/-!
# The document built by `svgRoot` is lexically safe, for all fragments and all input text
-/
namespace Svgbob

theorem lit_safe_of_decide (s : String) (h : (s.toList.all attrChar) = true) :
    (AttrVal.lit s).Safe := by
  intro c hc
  exact List.all_eq_true.mp h c hc

theorem flagClass_safe (a b : String) (f : Bool) (ha : (a.toList.all attrChar) = true)
    (hb : (b.toList.all attrChar) = true) : (flagClass a b f).Safe := by
  unfold flagClass
  cases f
  · exact lit_safe_of_decide b hb
  · exact lit_safe_of_decide a ha

theorem joinPieces_safe (l : List (List Piece)) (h : ∀ ps ∈ l, ∀ p ∈ ps, p.Safe) :
    ∀ p ∈ Frag.toNode.joinPieces l, p.Safe := by
  induction l with
  | nil => simp [Frag.toNode.joinPieces]
  | cons a rest ih =>
    cases rest with
    | nil => simpa [Frag.toNode.joinPieces] using h
    | cons b rest' =>
      intro p hp
      simp only [Frag.toNode.joinPieces, List.mem_append, List.mem_cons] at hp
      rcases hp with hp | rfl | hp
      · exact h a (by simp) p hp
      · intro c hc; simp at hc; subst hc; decide
      · exact ih (fun ps hps => h ps (List.mem_cons_of_mem _ hps)) p hp

theorem marker_start_safe (m : Marker) : (AttrVal.lit ("start_marked_" ++ m.name)).Safe := by
  apply lit_safe_of_decide; cases m <;> decide

theorem marker_end_safe (m : Marker) : (AttrVal.lit ("end_marked_" ++ m.name)).Safe := by
  apply lit_safe_of_decide; cases m <;> decide

/-- **Every fragment becomes a safe node.** -/
theorem Frag.toNode_safe (f : Frag) : f.toNode.Safe := by
  cases f with
  | line s e b =>
    refine Node.Safe.elem _ _ _ ?_ (by simp)
    intro a ha v hv
    simp only [List.mem_cons, List.mem_nil_iff, or_false] at ha
    rcases ha with rfl | rfl | rfl | rfl | rfl <;> simp at hv <;> subst hv <;>
      first | trivial | exact flagClass_safe _ _ _ (by decide) (by decide)
  | markerLine s e b sm em =>
    refine Node.Safe.elem _ _ _ ?_ (by simp)
    intro a ha v hv
    simp only [List.mem_append, List.mem_cons, List.mem_nil_iff, or_false] at ha
    rcases ha with ((rfl | rfl | rfl | rfl | rfl) | ha) | ha
    · simp at hv; subst hv; trivial
    · simp at hv; subst hv; trivial
    · simp at hv; subst hv; trivial
    · simp at hv; subst hv; trivial
    · simp at hv; subst hv; exact flagClass_safe _ _ _ (by decide) (by decide)
    · cases sm with
      | none => simp at ha
      | some m => simp at ha; subst ha; simp at hv; subst hv; exact marker_start_safe m
    · cases em with
      | none => simp at ha
      | some m => simp at ha; subst ha; simp at hv; subst hv; exact marker_end_safe m
  | circle c r fl =>
    refine Node.Safe.elem _ _ _ ?_ (by simp)
    intro a ha v hv
    simp only [List.mem_cons, List.mem_nil_iff, or_false] at ha
    rcases ha with rfl | rfl | rfl | rfl <;> simp at hv <;> subst hv <;>
      first | trivial | exact flagClass_safe _ _ _ (by decide) (by decide)
  | arc s e r m sw =>
    refine Node.Safe.elem _ _ _ ?_ (by simp)
    intro a ha v hv
    simp only [List.mem_cons, List.mem_nil_iff, or_false] at ha
    rcases ha with rfl | rfl
    · simp at hv; subst hv
      intro p hp
      simp only [List.mem_cons, List.mem_nil_iff, or_false] at hp
      rcases hp with rfl | rfl | rfl | rfl | rfl | rfl | rfl | rfl | rfl | rfl | rfl | rfl | rfl | rfl | rfl | rfl | rfl
      all_goals first
        | trivial
        | (intro c hc; revert c; cases m <;> cases sw <;> decide)
    · simp at hv; subst hv; exact lit_safe_of_decide _ (by decide)
  | polygon pts fl tags =>
    refine Node.Safe.elem _ _ _ ?_ (by simp)
    intro a ha v hv
    simp only [List.mem_cons, List.mem_nil_iff, or_false] at ha
    rcases ha with rfl | rfl
    · simp at hv; subst hv
      apply joinPieces_safe
      intro ps hps p hp
      simp only [List.mem_map] at hps
      obtain ⟨q, _, rfl⟩ := hps
      simp only [List.mem_cons, List.mem_nil_iff, or_false] at hp
      rcases hp with rfl | rfl | rfl
      · trivial
      · intro c hc; simp at hc; subst hc; decide
      · trivial
    · simp at hv; subst hv; exact flagClass_safe _ _ _ (by decide) (by decide)
  | rect s e fl r b =>
    refine Node.Safe.elem _ _ _ ?_ (by simp)
    intro a ha v hv
    simp only [List.mem_cons, List.mem_nil_iff, or_false] at ha
    rcases ha with rfl | rfl | rfl | rfl | rfl | rfl
    · simp at hv; subst hv; trivial
    · simp at hv; subst hv; trivial
    · simp at hv; subst hv; trivial
    · simp at hv; subst hv; trivial
    · simp at hv
      rcases hv with rfl | rfl <;> exact flagClass_safe _ _ _ (by decide) (by decide)
    · simp at hv; subst hv; cases r <;> trivial
  | cellText st c =>
    refine Node.Safe.elem _ _ _ ?_ ?_
    · intro a ha v hv
      simp only [List.mem_cons, List.mem_nil_iff, or_false] at ha
      rcases ha with rfl | rfl <;> simp at hv <;> subst hv <;> trivial
    · intro k hk; simp at hk; subst hk; exact Node.Safe.text _ (escapeHtmlText_safe c)
  | text st c =>
    refine Node.Safe.elem _ _ _ ?_ ?_
    · intro a ha v hv
      simp only [List.mem_cons, List.mem_nil_iff, or_false] at ha
      rcases ha with rfl | rfl <;> simp at hv <;> subst hv <;> trivial
    · intro k hk; simp at hk; subst hk; exact Node.Safe.text _ (escapeHtmlText_safe c)

end Svgbob

namespace Svgbob

/-! ### `{tag}` names are identifiers -/

def IdentList (t : List Char) : Prop := ∀ c ∈ t, identCont c = true

theorem identStart_identCont (c : Char) (h : identStart c = true) : identCont c = true := by
  simp only [identStart, alphaU8, Bool.or_eq_true, Bool.and_eq_true, decide_eq_true_eq,
    beq_iff_eq] at h
  simp only [identCont, alnumU8, Bool.or_eq_true, Bool.and_eq_true, decide_eq_true_eq, beq_iff_eq]
  rcases h with (h | h) | h
  · left; left; left; exact h
  · left; left; right; exact h
  · right; exact h

theorem mem_takeWhile_sat (p : Char → Bool) (l : List Char) (d : Char)
    (h : d ∈ l.takeWhile p) : p d = true := by
  induction l with
  | nil => simp at h
  | cons c cs ih =>
    simp only [List.takeWhile] at h
    split at h
    · rename_i hc
      rcases List.mem_cons.mp h with rfl | h
      · exact hc
      · exact ih h
    · simp at h

theorem ident_identList {cs n r : List Char} (h : ident cs = some (n, r)) : IdentList n := by
  cases cs with
  | nil => simp [ident] at h
  | cons c cs =>
    simp only [ident] at h
    split at h
    · rename_i hs
      simp at h
      obtain ⟨rfl, _⟩ := h
      intro d hd
      rcases List.mem_cons.mp hd with rfl | hd
      · exact identStart_identCont _ hs
      · exact mem_takeWhile_sat identCont cs d hd
    · simp at h

theorem classesMore_identList (fuel : Nat) (cs : List Char) :
    ∀ t ∈ (classesMore fuel cs).1, IdentList t := by
  induction fuel generalizing cs with
  | zero => simp [classesMore]
  | succ fuel ih =>
    simp only [classesMore]
    split
    · simp
    · split
      · simp
      · rename_i item cs2 hid
        intro t ht
        have hrec := ih cs2
        revert ht
        cases hcm : classesMore fuel cs2 with
        | mk items r =>
          rw [hcm] at hrec
          simp only [List.mem_cons]
          rintro (rfl | ht)
          · exact ident_identList hid
          · exact hrec t ht

theorem parseCssTag_identList {cs : List Char} {ts : List (List Char)}
    (h : parseCssTag cs = some ts) : ∀ t ∈ ts, IdentList t := by
  unfold parseCssTag at h
  split at h
  · simp at h
  · rename_i cs1 _
    simp only at h
    split at h
    · simp at h
    · simp at h; subst h
      unfold classes
      split
      · simp
      · rename_i item cs2 hid
        have hrec := classesMore_identList cs2.length cs2
        cases hcm : classesMore cs2.length cs2 with
        | mk items r =>
          rw [hcm] at hrec
          intro t ht
          simp only [List.mem_cons] at ht
          rcases ht with rfl | ht
          · exact ident_identList hid
          · exact hrec t ht

theorem asCssTag_identList (f : Frag) : ∀ t ∈ f.asCssTag, IdentList t := by
  cases f <;> simp only [Frag.asCssTag, List.not_mem_nil, false_implies, implies_true]
  all_goals
    rename_i st c
    cases h : parseCssTag c with
    | none => simp
    | some ts => simpa using parseCssTag_identList h

/-! ### the containment forest keeps only identifier tags -/

inductive FTree.TagsOk : FTree → Prop
  | node (f : Frag) (tags : List (List Char)) (kids : List FTree) :
      (∀ t ∈ tags, IdentList t) → (∀ k ∈ kids, FTree.TagsOk k) → FTree.TagsOk (.node f tags kids)

theorem extendFirstClass_mem (vals : List AttrVal) (attrs : List (AttrName × List AttrVal))
    (a : AttrName × List AttrVal) (h : a ∈ extendFirstClass vals attrs) :
    a ∈ attrs ∨ ∃ a0 ∈ attrs, a = (a0.1, a0.2 ++ vals) := by
  induction attrs with
  | nil => simp [extendFirstClass] at h
  | cons x xs ih =>
    simp only [extendFirstClass] at h
    split at h
    · rcases List.mem_cons.mp h with rfl | h
      · exact Or.inr ⟨x, by simp, rfl⟩
      · exact Or.inl (List.mem_cons_of_mem _ h)
    · rcases List.mem_cons.mp h with rfl | h
      · exact Or.inl (by simp)
      · rcases ih h with h1 | ⟨a0, ha0, rfl⟩
        · exact Or.inl (List.mem_cons_of_mem _ h1)
        · exact Or.inr ⟨a0, List.mem_cons_of_mem _ ha0, rfl⟩

theorem addClasses_safe (tags : List (List Char)) (n : Node) (hn : n.Safe)
    (ht : ∀ t ∈ tags, IdentList t) : (addClasses tags n).Safe := by
  cases hn with
  | text s hs => exact Node.Safe.text s hs
  | elem t attrs kids ha hk =>
    have hvals : ∀ v ∈ tags.map AttrVal.token, v.Safe := by
      intro v hv
      simp only [List.mem_map] at hv
      obtain ⟨t, htm, rfl⟩ := hv
      exact ht t htm
    simp only [addClasses]
    split
    · refine Node.Safe.elem _ _ _ ?_ hk
      intro a ham v hv
      rcases extendFirstClass_mem _ _ _ ham with h1 | ⟨a0, ha0, rfl⟩
      · exact ha a h1 v hv
      · simp only [List.mem_append] at hv
        rcases hv with hv | hv
        · exact ha a0 ha0 v hv
        · exact hvals v hv
    · refine Node.Safe.elem _ _ _ ?_ hk
      intro a ham v hv
      simp only [List.mem_append, List.mem_cons, List.mem_nil_iff, or_false] at ham
      rcases ham with ham | rfl
      · exact ha a ham v hv
      · exact hvals v hv

mutual
theorem FTree.intoNodes_safe (k : Int) : ∀ (t : FTree), t.TagsOk → ∀ n ∈ t.intoNodes k, n.Safe
  | .node f tags kids, h => by
    cases h with
    | node _ _ _ htags hkids =>
      intro n hn
      simp only [FTree.intoNodes, List.mem_cons] at hn
      rcases hn with rfl | hn
      · exact addClasses_safe tags _ (Frag.toNode_safe _) htags
      · exact FTree.intoNodesList_safe k kids hkids n hn

theorem FTree.intoNodesList_safe (k : Int) : ∀ (ts : List FTree), (∀ t ∈ ts, t.TagsOk) →
    ∀ n ∈ FTree.intoNodesList k ts, n.Safe
  | [], _ => by simp [FTree.intoNodesList]
  | t :: ts, h => by
    intro n hn
    simp only [FTree.intoNodesList, List.mem_append] at hn
    rcases hn with hn | hn
    · exact FTree.intoNodes_safe k t (h t (by simp)) n hn
    · exact FTree.intoNodesList_safe k ts (fun t' ht' => h t' (List.mem_cons_of_mem _ ht')) n hn
end

mutual
theorem FTree.encloseDF_tagsOk (len : List Char → Nat) (unit : Int) (other : FTree)
    (ho : other.TagsOk) : ∀ (t t' : FTree), t.TagsOk → FTree.encloseDF len unit other t = some t' →
      t'.TagsOk
  | .node f tags kids, t', h, he => by
    cases h with
    | node _ _ _ htags hkids =>
      simp only [FTree.encloseDF] at he
      split at he
      · rename_i kids' hk'
        simp at he; subst he
        exact FTree.TagsOk.node _ _ _ htags
          (FTree.encloseDFList_tagsOk len unit other ho kids kids' hkids hk')
      · split at he
        · split at he
          · simp at he; subst he
            refine FTree.TagsOk.node _ _ _ ?_ hkids
            intro t ht
            rcases List.mem_append.mp ht with ht | ht
            · exact htags t ht
            · exact asCssTag_identList _ t ht
          · simp at he; subst he
            refine FTree.TagsOk.node _ _ _ htags ?_
            intro k hk
            rcases List.mem_append.mp hk with hk | hk
            · exact hkids k hk
            · simp at hk; subst hk; exact ho
        · simp at he

theorem FTree.encloseDFList_tagsOk (len : List Char → Nat) (unit : Int) (other : FTree)
    (ho : other.TagsOk) : ∀ (ks ks' : List FTree), (∀ k ∈ ks, k.TagsOk) →
      FTree.encloseDFList len unit other ks = some ks' → ∀ k ∈ ks', k.TagsOk
  | [], ks', _, he => by simp [FTree.encloseDFList] at he
  | k :: ks, ks', h, he => by
    simp only [FTree.encloseDFList] at he
    split at he
    · rename_i k' hk'
      simp at he; subst he
      intro x hx
      rcases List.mem_cons.mp hx with rfl | hx
      · exact FTree.encloseDF_tagsOk len unit other ho k _ (h k (by simp)) hk'
      · exact h x (List.mem_cons_of_mem _ hx)
    · split at he
      · rename_i ks'' hks''
        simp at he; subst he
        intro x hx
        rcases List.mem_cons.mp hx with rfl | hx
        · exact h _ (by simp)
        · exact FTree.encloseDFList_tagsOk len unit other ho ks ks''
            (fun k' hk' => h k' (List.mem_cons_of_mem _ hk')) hks'' x hx
      · simp at he
end

end Svgbob

namespace Svgbob

/-- every node of the flattened containment forest is safe -/
theorem fragmentsToNodes_safe (len : List Char → Nat) (k : Int) (frags : List Frag) :
    ∀ n ∈ fragmentsToNodes len k frags, n.Safe := by
  unfold fragmentsToNodes encloseRecursive
  apply FTree.intoNodesList_safe
  apply G.mergeRec_forall _ FTree.TagsOk
  · intro g it m hm hg hi
    exact FTree.encloseDF_tagsOk len 1000 it hi g m hg hm
  · intro x hx
    simp only [List.mem_map] at hx
    obtain ⟨f, _, rfl⟩ := hx
    exact FTree.TagsOk.node _ _ _ (by simp) (by simp)

/-- executable check of `Node.Safe` for nodes without text leaves and tokens (the fixed `defs`) -/
def AttrVal.safeB : AttrVal → Bool
  | .num _ => true
  | .int _ => true
  | .lit s => s.toList.all attrChar
  | .token _ => false
  | .seq ps => ps.all fun p => match p with | .lit s => s.toList.all attrChar | .num _ => true

theorem AttrVal.safe_of_safeB (v : AttrVal) (h : v.safeB = true) : v.Safe := by
  cases v with
  | num n => trivial
  | int n => trivial
  | lit s => exact fun c hc => List.all_eq_true.mp h c hc
  | token t => simp [AttrVal.safeB] at h
  | seq ps =>
    intro p hp
    have := List.all_eq_true.mp h p hp
    cases p with
    | lit s => exact fun c hc => List.all_eq_true.mp this c hc
    | num n => trivial

theorem markerCircle_safe (r : Int) (cls : String) (h : (cls.toList.all attrChar) = true) :
    (markerCircle r cls).Safe := by
  refine Node.Safe.elem _ _ _ ?_ (by simp)
  intro a ha v hv
  simp only [List.mem_cons, List.mem_nil_iff, or_false] at ha
  rcases ha with rfl | rfl | rfl | rfl <;> simp at hv <;> subst hv
  · trivial
  · trivial
  · trivial
  · exact lit_safe_of_decide _ h

theorem markerNode_safe (idv vb : String) (rx ry : Int) (kid : Node)
    (h1 : (idv.toList.all attrChar) = true) (h2 : (vb.toList.all attrChar) = true)
    (hk : kid.Safe) : (markerNode idv vb rx ry kid).Safe := by
  refine Node.Safe.elem _ _ _ ?_ (by intro k hk'; simp at hk'; subst hk'; exact hk)
  intro a ha v hv
  simp only [List.mem_cons, List.mem_nil_iff, or_false] at ha
  rcases ha with rfl | rfl | rfl | rfl | rfl | rfl | rfl <;> simp at hv <;> subst hv
  · exact lit_safe_of_decide _ h1
  · exact lit_safe_of_decide _ h2
  · trivial
  · trivial
  · trivial
  · trivial
  · exact lit_safe_of_decide _ (by decide)

theorem defsNode_safe : defsNode.Safe := by
  unfold defsNode
  refine Node.Safe.elem _ _ _ (by simp) ?_
  intro k hk
  simp only [List.mem_cons, List.mem_nil_iff, or_false] at hk
  have hpoly : ∀ s : String, (s.toList.all attrChar) = true →
      (Node.elem .polygon [(.points, [.lit s])] []).Safe := by
    intro s hs
    refine Node.Safe.elem _ _ _ ?_ (by simp)
    intro a ha v hv
    simp at ha; subst ha; simp at hv; subst hv
    exact lit_safe_of_decide _ hs
  rcases hk with rfl | rfl | rfl | rfl | rfl
  · exact markerNode_safe _ _ _ _ _ (by decide) (by decide) (hpoly _ (by decide))
  · exact markerNode_safe _ _ _ _ _ (by decide) (by decide) (hpoly _ (by decide))
  · exact markerNode_safe _ _ _ _ _ (by decide) (by decide) (markerCircle_safe _ _ (by decide))
  · exact markerNode_safe _ _ _ _ _ (by decide) (by decide) (markerCircle_safe _ _ (by decide))
  · exact markerNode_safe _ _ _ _ _ (by decide) (by decide) (markerCircle_safe _ _ (by decide))

/-- **The whole document is lexically safe**: for every configuration, every set of fragments
and every legend, all text leaves (including the style sheet) are safe character data and no
attribute value contains `"`, `<` or `&`. -/
theorem svgRoot_safe (len : List Char → Nat) (cfg : Cfg) (cells : List (Cell × Char))
    (css : List (List Char × List Char)) (accepted : List Frag) (groups : List (List Frag)) :
    (svgRoot len cfg cells css accepted groups).Safe := by
  unfold svgRoot
  simp only
  split
  all_goals
    refine Node.Safe.elem _ _ _ ?_ ?_
    · intro a ha v hv
      simp only [List.mem_cons, List.mem_nil_iff, or_false] at ha
      rcases ha with rfl | rfl | rfl | rfl <;> simp at hv <;> subst hv
      · exact lit_safe_of_decide _ (by decide)
      · trivial
      · trivial
      · exact lit_safe_of_decide _ (by decide)
    · intro k hk
      simp only [List.mem_append] at hk
      rcases hk with (((hk | hk) | hk) | hk) | hk
      · split at hk
        · simp at hk; subst hk
          refine Node.Safe.elem _ _ _ (by simp) ?_
          intro k' hk'; simp at hk'; subst hk'
          exact Node.Safe.text _ (escapeCss_safe _)
        · simp at hk
      · split at hk
        · simp at hk; subst hk; exact defsNode_safe
        · simp at hk
      · split at hk
        · simp at hk; subst hk
          refine Node.Safe.elem _ _ _ ?_ (by simp)
          intro a ha v hv
          simp only [List.mem_cons, List.mem_nil_iff, or_false] at ha
          rcases ha with rfl | rfl | rfl | rfl | rfl <;> simp at hv <;> subst hv
          · exact lit_safe_of_decide _ (by decide)
          · trivial
          · trivial
          · trivial
          · trivial
        · simp at hk
      · exact fragmentsToNodes_safe _ _ _ k hk
      · simp only [List.mem_map] at hk
        obtain ⟨g, _, rfl⟩ := hk
        refine Node.Safe.elem _ _ _ (by simp) ?_
        intro k' hk'
        simp only [List.mem_map] at hk'
        obtain ⟨f, _, rfl⟩ := hk'
        exact Frag.toNode_safe _

end Svgbob

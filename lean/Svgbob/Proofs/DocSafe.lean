import Svgbob.Proofs.NodeSafe
import Svgbob.Proofs.Merge
/-!
# The document built by `svgRoot` is lexically safe, for all fragments and all input text
-/
namespace Svgbob

theorem lit_safe_of_decide (s : String) (h : (s.toList.all attrChar) = true) :
    (AttrVal.lit s).Safe := by
  intro c hc
  exact List.all_eq_true.mp h c hc

theorem flagClass_safe (a b : String) (f : Bool) (ha : (a.toList.all attrChar) = true)
    (hb : (b.toList.all attrChar) = true) : (flagClass a b f).Safe := by
  unfold flagClass
  cases f
  · exact lit_safe_of_decide b hb
  · exact lit_safe_of_decide a ha

theorem joinPieces_safe (l : List (List Piece)) (h : ∀ ps ∈ l, ∀ p ∈ ps, p.Safe) :
    ∀ p ∈ Frag.toNode.joinPieces l, p.Safe := by
  induction l with
  | nil => simp [Frag.toNode.joinPieces]
  | cons a rest ih =>
    cases rest with
    | nil => simpa [Frag.toNode.joinPieces] using h
    | cons b rest' =>
      intro p hp
      simp only [Frag.toNode.joinPieces, List.mem_append, List.mem_cons] at hp
      rcases hp with hp | rfl | hp
      · exact h a (by simp) p hp
      · intro c hc; simp at hc; subst hc; decide
      · exact ih (fun ps hps => h ps (List.mem_cons_of_mem _ hps)) p hp

theorem marker_start_safe (m : Marker) : (AttrVal.lit ("start_marked_" ++ m.name)).Safe := by
  apply lit_safe_of_decide; cases m <;> decide

theorem marker_end_safe (m : Marker) : (AttrVal.lit ("end_marked_" ++ m.name)).Safe := by
  apply lit_safe_of_decide; cases m <;> decide

/-- **Every fragment becomes a safe node.** -/
theorem Frag.toNode_safe (f : Frag) : f.toNode.Safe := by
  cases f with
  | line s e b =>
    refine Node.Safe.elem _ _ _ ?_ (by simp)
    intro a ha v hv
    simp only [List.mem_cons, List.mem_nil_iff, or_false] at ha
    rcases ha with rfl | rfl | rfl | rfl | rfl <;> simp at hv <;> subst hv <;>
      first | trivial | exact flagClass_safe _ _ _ (by decide) (by decide)
  | markerLine s e b sm em =>
    refine Node.Safe.elem _ _ _ ?_ (by simp)
    intro a ha v hv
    simp only [List.mem_append, List.mem_cons, List.mem_nil_iff, or_false] at ha
    rcases ha with ((rfl | rfl | rfl | rfl | rfl) | ha) | ha
    · simp at hv; subst hv; trivial
    · simp at hv; subst hv; trivial
    · simp at hv; subst hv; trivial
    · simp at hv; subst hv; trivial
    · simp at hv; subst hv; exact flagClass_safe _ _ _ (by decide) (by decide)
    · cases sm with
      | none => simp at ha
      | some m => simp at ha; subst ha; simp at hv; subst hv; exact marker_start_safe m
    · cases em with
      | none => simp at ha
      | some m => simp at ha; subst ha; simp at hv; subst hv; exact marker_end_safe m
  | circle c r fl =>
    refine Node.Safe.elem _ _ _ ?_ (by simp)
    intro a ha v hv
    simp only [List.mem_cons, List.mem_nil_iff, or_false] at ha
    rcases ha with rfl | rfl | rfl | rfl <;> simp at hv <;> subst hv <;>
      first | trivial | exact flagClass_safe _ _ _ (by decide) (by decide)
  | arc s e r m sw =>
    refine Node.Safe.elem _ _ _ ?_ (by simp)
    intro a ha v hv
    simp only [List.mem_cons, List.mem_nil_iff, or_false] at ha
    rcases ha with rfl | rfl
    · simp at hv; subst hv
      intro p hp
      simp only [List.mem_cons, List.mem_nil_iff, or_false] at hp
      rcases hp with rfl | rfl | rfl | rfl | rfl | rfl | rfl | rfl | rfl | rfl | rfl | rfl | rfl | rfl | rfl | rfl | rfl
      all_goals first
        | trivial
        | (intro c hc; revert c; cases m <;> cases sw <;> decide)
    · simp at hv; subst hv; exact lit_safe_of_decide _ (by decide)
  | polygon pts fl tags =>
    refine Node.Safe.elem _ _ _ ?_ (by simp)
    intro a ha v hv
    simp only [List.mem_cons, List.mem_nil_iff, or_false] at ha
    rcases ha with rfl | rfl
    · simp at hv; subst hv
      apply joinPieces_safe
      intro ps hps p hp
      simp only [List.mem_map] at hps
      obtain ⟨q, _, rfl⟩ := hps
      simp only [List.mem_cons, List.mem_nil_iff, or_false] at hp
      rcases hp with rfl | rfl | rfl
      · trivial
      · intro c hc; simp at hc; subst hc; decide
      · trivial
    · simp at hv; subst hv; exact flagClass_safe _ _ _ (by decide) (by decide)
  | rect s e fl r b =>
    refine Node.Safe.elem _ _ _ ?_ (by simp)
    intro a ha v hv
    simp only [List.mem_cons, List.mem_nil_iff, or_false] at ha
    rcases ha with rfl | rfl | rfl | rfl | rfl | rfl
    · simp at hv; subst hv; trivial
    · simp at hv; subst hv; trivial
    · simp at hv; subst hv; trivial
    · simp at hv; subst hv; trivial
    · simp at hv
      rcases hv with rfl | rfl <;> exact flagClass_safe _ _ _ (by decide) (by decide)
    · simp at hv; subst hv; cases r <;> trivial
  | cellText st c =>
    refine Node.Safe.elem _ _ _ ?_ ?_
    · intro a ha v hv
      simp only [List.mem_cons, List.mem_nil_iff, or_false] at ha
      rcases ha with rfl | rfl <;> simp at hv <;> subst hv <;> trivial
    · intro k hk; simp at hk; subst hk; exact Node.Safe.text _ (escapeHtmlText_safe c)
  | text st c =>
    refine Node.Safe.elem _ _ _ ?_ ?_
    · intro a ha v hv
      simp only [List.mem_cons, List.mem_nil_iff, or_false] at ha
      rcases ha with rfl | rfl <;> simp at hv <;> subst hv <;> trivial
    · intro k hk; simp at hk; subst hk; exact Node.Safe.text _ (escapeHtmlText_safe c)

end Svgbob

import Svgbob.Proofs.BoxComplete
/-!
# Completeness of the rounded-corner endorsement

The eight fragments of any rounded box — four side lines shortened by the corner radius and four
quarter arcs — are endorsed as exactly the rectangle of the box with that radius.
-/
namespace Svgbob

/-! ## the least and the greatest point of a list -/

theorem not_lt_trans (a b c : Pt) (h1 : ¬ a.cmp b = .lt) (h2 : ¬ b.cmp c = .lt) : ¬ a.cmp c = .lt := by
  rw [cmp_lt_iff] at *
  omega

theorem foldl_min_spec (l : List Pt) (a : Pt) :
    (l.foldl (fun a b => if b.cmp a == .lt then b else a) a = a ∨
      l.foldl (fun a b => if b.cmp a == .lt then b else a) a ∈ l) ∧
    ¬ a.cmp (l.foldl (fun a b => if b.cmp a == .lt then b else a) a) = .lt ∧
    ∀ q ∈ l, ¬ q.cmp (l.foldl (fun a b => if b.cmp a == .lt then b else a) a) = .lt := by
  induction l generalizing a with
  | nil =>
    simp only [List.foldl_nil, List.not_mem_nil, or_false, true_and]
    refine ⟨?_, fun q hq => by cases hq⟩
    rw [cmp_lt_iff]; omega
  | cons b bs ih =>
    simp only [List.foldl_cons]
    by_cases hb : b.cmp a = .lt
    · have hb' : (b.cmp a == .lt) = true := by simp [hb]
      simp only [hb', if_true]
      obtain ⟨h1, h2, h3⟩ := ih b
      refine ⟨?_, ?_, ?_⟩
      · rcases h1 with h | h
        · exact Or.inr (by rw [h]; simp)
        · exact Or.inr (List.mem_cons_of_mem _ h)
      · have hab : ¬ a.cmp b = .lt := by rw [cmp_lt_iff] at hb ⊢; omega
        exact not_lt_trans _ _ _ hab h2
      · intro q hq
        rcases List.mem_cons.mp hq with rfl | hq
        · exact h2
        · exact h3 q hq
    · have hb' : (b.cmp a == .lt) = false := by simp [hb]
      simp only [hb', Bool.false_eq_true, if_false]
      obtain ⟨h1, h2, h3⟩ := ih a
      refine ⟨?_, h2, ?_⟩
      · rcases h1 with h | h
        · exact Or.inl h
        · exact Or.inr (List.mem_cons_of_mem _ h)
      · intro q hq
        rcases List.mem_cons.mp hq with rfl | hq
        · exact not_lt_trans _ _ _ hb h2
        · exact h3 q hq

/-- a point of the list below which no point of the list lies is the result of `ptListMin` -/
theorem ptListMin_eq (l : List Pt) (p : Pt) (hp : p ∈ l) (hmin : ∀ q ∈ l, ¬ q.cmp p = .lt) :
    ptListMin l = some p := by
  cases l with
  | nil => cases hp
  | cons a as =>
    simp only [ptListMin, Option.some.injEq]
    have hs := foldl_min_spec as a
    revert hs
    generalize as.foldl (fun a b => if b.cmp a == .lt then b else a) a = r
    intro hs
    obtain ⟨h1, h2, h3⟩ := hs
    have hrmem : r ∈ a :: as := by
      rcases h1 with h | h
      · rw [h]; simp
      · exact List.mem_cons_of_mem _ h
    have hpr : ¬ p.cmp r = .lt := by
      rcases List.mem_cons.mp hp with rfl | hp
      · exact h2
      · exact h3 p hp
    have hrp := hmin r hrmem
    rw [cmp_lt_iff] at hpr hrp
    cases r with
    | mk rx ry =>
      cases p with
      | mk px py =>
        simp only [Pt.mk.injEq]
        simp only at hpr hrp
        constructor <;> omega

theorem foldl_max_spec (l : List Pt) (a : Pt) :
    (l.foldl (fun a b => if b.cmp a != .lt then b else a) a = a ∨
      l.foldl (fun a b => if b.cmp a != .lt then b else a) a ∈ l) ∧
    ¬ (l.foldl (fun a b => if b.cmp a != .lt then b else a) a).cmp a = .lt ∧
    ∀ q ∈ l, ¬ (l.foldl (fun a b => if b.cmp a != .lt then b else a) a).cmp q = .lt := by
  induction l generalizing a with
  | nil =>
    simp only [List.foldl_nil, List.not_mem_nil, or_false, true_and]
    refine ⟨?_, fun q hq => by cases hq⟩
    rw [cmp_lt_iff]; omega
  | cons b bs ih =>
    simp only [List.foldl_cons]
    by_cases hb : b.cmp a = .lt
    · have hb' : (b.cmp a != .lt) = false := by simp [hb]
      simp only [hb', Bool.false_eq_true, if_false]
      obtain ⟨h1, h2, h3⟩ := ih a
      refine ⟨?_, h2, ?_⟩
      · rcases h1 with h | h
        · exact Or.inl h
        · exact Or.inr (List.mem_cons_of_mem _ h)
      · intro q hq
        rcases List.mem_cons.mp hq with rfl | hq
        · have hab : ¬ a.cmp q = .lt := by rw [cmp_lt_iff] at hb ⊢; omega
          exact not_lt_trans _ _ _ h2 hab
        · exact h3 q hq
    · have hb' : (b.cmp a != .lt) = true := by simp [hb]
      simp only [hb', if_true]
      obtain ⟨h1, h2, h3⟩ := ih b
      refine ⟨?_, ?_, ?_⟩
      · rcases h1 with h | h
        · exact Or.inr (by rw [h]; simp)
        · exact Or.inr (List.mem_cons_of_mem _ h)
      · exact not_lt_trans _ _ _ h2 hb
      · intro q hq
        rcases List.mem_cons.mp hq with rfl | hq
        · exact h2
        · exact h3 q hq

/-- a point of the list above which no point of the list lies is the result of `ptListMax` -/
theorem ptListMax_eq (l : List Pt) (p : Pt) (hp : p ∈ l) (hmax : ∀ q ∈ l, ¬ p.cmp q = .lt) :
    ptListMax l = some p := by
  cases l with
  | nil => cases hp
  | cons a as =>
    simp only [ptListMax, Option.some.injEq]
    have hs := foldl_max_spec as a
    revert hs
    generalize as.foldl (fun a b => if b.cmp a != .lt then b else a) a = r
    intro hs
    obtain ⟨h1, h2, h3⟩ := hs
    have hrmem : r ∈ a :: as := by
      rcases h1 with h | h
      · rw [h]; simp
      · exact List.mem_cons_of_mem _ h
    have hrp : ¬ r.cmp p = .lt := by
      rcases List.mem_cons.mp hp with rfl | hp
      · exact h2
      · exact h3 p hp
    have hpr := hmax r hrmem
    rw [cmp_lt_iff] at hpr hrp
    cases r with
    | mk rx ry =>
      cases p with
      | mk px py =>
        simp only [Pt.mk.injEq]
        simp only at hpr hrp
        constructor <;> omega

/-! ## the rounded box -/

/-- the eight fragments of the rounded box with outer corners `(x0, y0)`, `(x1, y1)` and corner radius
`r`, in the order the fragment merge and the contact grouping leave them: top-left arc, left side, top
side, top-right arc, right side, bottom-left arc, bottom side, bottom-right arc; `a = x0 + r`,
`b = x1 - r`, `c = y0 + r`, `d = y1 - r` are where the sides end -/
def roundedSides (x0 a b x1 y0 c d y1 r : Int) (bT bL bR bB : Bool) : List Frag :=
  [.arc ⟨a, y0⟩ ⟨x0, c⟩ r false false, .line ⟨x0, c⟩ ⟨x0, d⟩ bL, .line ⟨a, y0⟩ ⟨b, y0⟩ bT,
   .arc ⟨b, y0⟩ ⟨x1, c⟩ r false true, .line ⟨x1, c⟩ ⟨x1, d⟩ bR, .arc ⟨x0, d⟩ ⟨a, y1⟩ r false false,
   .line ⟨a, y1⟩ ⟨b, y1⟩ bB, .arc ⟨x1, d⟩ ⟨b, y1⟩ r false true]

section
variable (x0 a b x1 y0 c d y1 r : Int) (hr : 0 < r)
  (ha : a = x0 + r) (hb : b = x1 - r) (hc : c = y0 + r) (hd : d = y1 - r)
  (hab : a < b) (hcd : c < d) (bT bL bR bB : Bool)
include hr ha hb hc hd hab hcd

theorem rounded_parallel_group :
    parallelAabbGroup (roundedSides x0 a b x1 y0 c d y1 r bT bL bR bB) = [(1, 4), (2, 6)] := by
  have e1 : (c == d) = false := by simp; omega
  have e2 : (a == b) = false := by simp; omega
  have e5 : (x0 == x1) = false := by simp; omega
  have e6 : (x1 == x0) = false := by simp; omega
  have e7 : (y0 == y1) = false := by simp; omega
  have e8 : (y1 == y0) = false := by simp; omega
  simp [parallelAabbGroup, roundedSides, List.range, List.range.loop, Frag.isAabbParallel,
    e1, e2, e5, e6, e7, e8]

theorem rounded_right_angle_arcs :
    rightAngleArcs (roundedSides x0 a b x1 y0 c d y1 r bT bL bR bB) = [0, 3, 5, 7] := by
  have n1 : (x0 - a).natAbs = r.natAbs := by omega
  have n2 : (c - y0).natAbs = r.natAbs := by omega
  have n3 : (x1 - b).natAbs = r.natAbs := by omega
  have n4 : (a - x0).natAbs = r.natAbs := by omega
  have n5 : (y1 - d).natAbs = r.natAbs := by omega
  have n6 : (b - x1).natAbs = r.natAbs := by omega
  simp [rightAngleArcs, roundedSides, List.range, List.range.loop, Frag.isRightAngleArc,
    n1, n2, n3, n4, n5, n6, List.filter]

set_option maxHeartbeats 1000000 in
theorem rounded_bounds_points :
    boundsAllPoints (roundedSides x0 a b x1 y0 c d y1 r bT bL bR bB) =
      [⟨x0, y0⟩, ⟨a, c⟩, ⟨x0, c⟩, ⟨x0, d⟩, ⟨a, y0⟩, ⟨b, y0⟩, ⟨b, y0⟩, ⟨x1, c⟩, ⟨x1, c⟩, ⟨x1, d⟩,
       ⟨x0, d⟩, ⟨a, y1⟩, ⟨a, y1⟩, ⟨b, y1⟩, ⟨b, d⟩, ⟨x1, y1⟩] := by
  have m1 : min a x0 = x0 := by omega
  have m2 : max a x0 = a := by omega
  have m3 : min y0 c = y0 := by omega
  have m4 : max y0 c = c := by omega
  have m5 : min c d = c := by omega
  have m6 : max c d = d := by omega
  have m7 : min a b = a := by omega
  have m8 : max a b = b := by omega
  have m9 : min b x1 = b := by omega
  have m10 : max b x1 = x1 := by omega
  have m11 : min x0 a = x0 := by omega
  have m12 : max x0 a = a := by omega
  have m13 : min d y1 = d := by omega
  have m14 : max d y1 = y1 := by omega
  have m15 : min x1 b = b := by omega
  have m16 : max x1 b = x1 := by omega
  have b1 : (Frag.arc ⟨a, y0⟩ ⟨x0, c⟩ r false false).bounds (fun _ => 0) 1000 = (⟨x0, y0⟩, ⟨a, c⟩) := by
    simp only [Frag.bounds, m1, m2, m3, m4]
  have b2 : (Frag.line ⟨x0, c⟩ ⟨x0, d⟩ bL).bounds (fun _ => 0) 1000 = (⟨x0, c⟩, ⟨x0, d⟩) := by
    simp only [Frag.bounds, m5, m6, Int.min_self, Int.max_self]
  have b3 : (Frag.line ⟨a, y0⟩ ⟨b, y0⟩ bT).bounds (fun _ => 0) 1000 = (⟨a, y0⟩, ⟨b, y0⟩) := by
    simp only [Frag.bounds, m7, m8, Int.min_self, Int.max_self]
  have b4 : (Frag.arc ⟨b, y0⟩ ⟨x1, c⟩ r false true).bounds (fun _ => 0) 1000 = (⟨b, y0⟩, ⟨x1, c⟩) := by
    simp only [Frag.bounds, m9, m10, m3, m4]
  have b5 : (Frag.line ⟨x1, c⟩ ⟨x1, d⟩ bR).bounds (fun _ => 0) 1000 = (⟨x1, c⟩, ⟨x1, d⟩) := by
    simp only [Frag.bounds, m5, m6, Int.min_self, Int.max_self]
  have b6 : (Frag.arc ⟨x0, d⟩ ⟨a, y1⟩ r false false).bounds (fun _ => 0) 1000 = (⟨x0, d⟩, ⟨a, y1⟩) := by
    simp only [Frag.bounds, m11, m12, m13, m14]
  have b7 : (Frag.line ⟨a, y1⟩ ⟨b, y1⟩ bB).bounds (fun _ => 0) 1000 = (⟨a, y1⟩, ⟨b, y1⟩) := by
    simp only [Frag.bounds, m7, m8, Int.min_self, Int.max_self]
  have b8 : (Frag.arc ⟨x1, d⟩ ⟨b, y1⟩ r false true).bounds (fun _ => 0) 1000 = (⟨b, d⟩, ⟨x1, y1⟩) := by
    simp only [Frag.bounds, m15, m16, m13, m14]
  simp only [boundsAllPoints, roundedSides, List.flatMap_cons, List.flatMap_nil, b1, b2, b3, b4, b5, b6, b7, b8,
    List.cons_append, List.nil_append, List.append_nil]

theorem rounded_min :
    ptListMin (boundsAllPoints (roundedSides x0 a b x1 y0 c d y1 r bT bL bR bB)) = some ⟨x0, y0⟩ := by
  rw [rounded_bounds_points x0 a b x1 y0 c d y1 r hr ha hb hc hd hab hcd]
  apply ptListMin_eq
  · simp
  · intro q hq
    simp only [List.mem_cons, List.not_mem_nil, or_false] at hq
    rw [cmp_lt_iff]
    rcases hq with rfl | rfl | rfl | rfl | rfl | rfl | rfl | rfl | rfl | rfl | rfl | rfl | rfl | rfl | rfl | rfl <;>
      (dsimp only; omega)

theorem rounded_max :
    ptListMax (boundsAllPoints (roundedSides x0 a b x1 y0 c d y1 r bT bL bR bB)) = some ⟨x1, y1⟩ := by
  rw [rounded_bounds_points x0 a b x1 y0 c d y1 r hr ha hb hc hd hab hcd]
  apply ptListMax_eq
  · simp
  · intro q hq
    simp only [List.mem_cons, List.not_mem_nil, or_false] at hq
    rw [cmp_lt_iff]
    rcases hq with rfl | rfl | rfl | rfl | rfl | rfl | rfl | rfl | rfl | rfl | rfl | rfl | rfl | rfl | rfl | rfl <;>
      (dsimp only; omega)

/-- **every rounded box is endorsed**: for `x0 < a < b < x1`, `y0 < c < d < y1` with the four corner
offsets equal to the radius, the eight fragments are endorsed as exactly the rectangle of the box with
that corner radius; it is dashed iff some side is -/
theorem endorseRoundedRect_box :
    contactsEndorseRect (roundedSides x0 a b x1 y0 c d y1 r bT bL bR bB) =
      some (.rect ⟨x0, y0⟩ ⟨x1, y1⟩ false (some r) (bL || bT || bR || bB)) := by
  have hpg := rounded_parallel_group x0 a b x1 y0 c d y1 r hr ha hb hc hd hab hcd bT bL bR bB
  have hra := rounded_right_angle_arcs x0 a b x1 y0 c d y1 r hr ha hb hc hd hab hcd bT bL bR bB
  have hmn := rounded_min x0 a b x1 y0 c d y1 r hr ha hb hc hd hab hcd bT bL bR bB
  have hmx := rounded_max x0 a b x1 y0 c d y1 r hr ha hb hc hd hab hcd bT bL bR bB
  have hrr : isRoundedRect (roundedSides x0 a b x1 y0 c d y1 r bT bL bR bB) = (true, some r) := by
    simp only [isRoundedRect, hpg, hra]
    simp [roundedSides, lineAabbPerpendicular]
  have hnr : endorseRect (roundedSides x0 a b x1 y0 c d y1 r bT bL bR bB) = none := by
    simp [endorseRect, isRect, roundedSides]
  have hngt : ¬ ((⟨x0, y0⟩ : Pt).cmp ⟨x1, y1⟩ = .gt) := by rw [cmp_gt_iff]; dsimp only; omega
  simp only [contactsEndorseRect, hnr, endorseRoundedRect, hrr, hmn, hmx]
  simp [mkRect, hngt, roundedSides, Frag.isBroken, Bool.or_assoc]

end

end Svgbob

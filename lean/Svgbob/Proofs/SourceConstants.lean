import Svgbob.Model.FragOps
import Svgbob.Gen.Thresholds
/-!
# The literals of the hand-written geometry model are the literals of the source

`Gen/Thresholds.lean` is regenerated from `util.rs`, `line.rs`, `direction.rs` and `cell_grid.rs`
on every run. The theorems below re-prove, against what the code says now, that the constants the
model carries (collinearity threshold, bullet-merge distances, heading buckets, cell size) are those
of the code. A change of one of these numbers in the source breaks the corresponding theorem.
-/
namespace Svgbob

/-- the cell is 1 x 2 units, cut into 4 x 8 grid steps of a quarter unit -/
theorem cell_size_matches_source :
    Gen.cellWidthMilli = 1000 ∧ Gen.cellHeightMilli = 2000 ∧ Gen.horizontalSlices = 4 ∧
    Gen.verticalSlices = 8 ∧ (⟨1, 1⟩ : Cell).origin = ⟨Gen.cellWidthMilli, Gen.cellHeightMilli⟩ := by
  decide

/-- `is_collinear` of the model uses the source's threshold -/
theorem collinear_threshold_matches_source (a b c : Pt) :
    isCollinear a b c =
      decide ((((b.x - a.x) * (c.y - a.y) - (b.y - a.y) * (c.x - a.x)).natAbs : Int) <
        Gen.collinearCrossLimit) := by
  simp only [isCollinear, Gen.collinearCrossLimit]
  congr 1
  apply propext
  constructor <;> intro h <;> omega

def Heading.sourceName : Heading → String
  | .right => "Right" | .topRight => "TopRight" | .top => "Top" | .topLeft => "TopLeft"
  | .left => "Left" | .bottomLeft => "BottomLeft" | .bottom => "Bottom" | .bottomRight => "BottomRight"

def cellLengthSq : String → Option Int
  | "width" => some (Gen.cellWidthMilli * Gen.cellWidthMilli)
  | "height" => some (Gen.cellHeightMilli * Gen.cellHeightMilli)
  | "diagonal_length" =>
    some (Gen.cellWidthMilli * Gen.cellWidthMilli + Gen.cellHeightMilli * Gen.cellHeightMilli)
  | _ => none

/-- the bullet-merge distance of the model, squared, is `(factor · threshold_length)²` with the
source's factor, the source's direction → length map and the source's cell size; the radius bound
is the source's `Cell::unit(3)` -/
theorem bullet_merge_thresholds_match_source :
    ([Heading.right, .topRight, .top, .topLeft, .left, .bottomLeft, .bottom, .bottomRight].all fun h =>
      match (Gen.thresholdLengthOf.lookup h.sourceName).bind cellLengthSq with
      | some l2 => l2 * (Gen.mergeCircleFactor.1 * Gen.mergeCircleFactor.1) ==
          h.threshold75Sq * (Gen.mergeCircleFactor.2 * Gen.mergeCircleFactor.2)
      | none => false) = true ∧
    Gen.mergeCircleMaxRadius = 750 := by
  decide

/-- the angle buckets of `line_angle` and the arms of `heading` the model's `lineHeading` was
derived from (its tangent thresholds are those of 10.5° and 80.5°: the bucket borders after
rounding to whole degrees) -/
theorem heading_buckets_match_source :
    Gen.lineAngleBuckets = [(0, 10, 0), (11, 50, 63435), (51, 80, 63435), (81, 100, 90000),
      (101, 130, 116565), (131, 170, 116565), (171, 190, 180000), (191, 230, 243435),
      (231, 260, 243435), (261, 280, 270000), (281, 310, 296565), (311, 350, 296565), (351, 360, 0)] ∧
    Gen.headingOfAngle = [(0, "Right"), (45, "TopRight"), (63, "TopRight"), (90, "Top"),
      (117, "TopLeft"), (135, "TopLeft"), (180, "Left"), (225, "BottomLeft"), (243, "BottomLeft"),
      (270, "Bottom"), (297, "BottomRight"), (315, "BottomRight")] := by
  decide

/-! ### signal levels and fragment ranks -/

def Signal.sourceName : Signal → String
  | .faint => "Faint" | .weak => "Weak" | .medium => "Medium" | .strong => "Strong"

/-- the model's `Signal.intensity` is the source's `Signal::intensity`, arm by arm; the comparison of
`line_overlap_with_signal` is `signal >= required`, and the three overlap predicates of the table
conditions ask for Medium, Strong and Weak (the levels the table translator writes into `Cond.overlap`) -/
theorem signal_levels_match_source :
    ([Signal.faint, .weak, .medium, .strong].all fun s =>
      Gen.signalIntensity.lookup s.sourceName == some s.intensity) = true ∧
    Gen.signalIntensity.length = 4 ∧
    Gen.overlapComparison = "signal >= required" ∧
    Gen.overlapLevels = [("line_overlap", "Medium"), ("line_strongly_overlap", "Strong"),
      ("line_weakly_overlap", "Weak")] := by
  decide

/-- the variant name of a fragment in `fragment.rs` -/
def Frag.sourceKind : Frag → String
  | .line .. => "Line" | .markerLine .. => "MarkerLine" | .circle .. => "Circle" | .arc .. => "Arc"
  | .polygon .. => "Polygon" | .rect .. => "Rect" | .text .. => "Text" | .cellText .. => "CellText"

/-- the model's `Frag.rank` (the tie-break of the fragment order across kinds) is the source's
`Fragment::rank`, for every kind of fragment -/
theorem fragment_ranks_match_source (f : Frag) :
    Gen.fragmentRank.lookup f.sourceKind = some f.rank ∧ Gen.fragmentRank.length = 8 := by
  cases f <;> simp only [Frag.sourceKind, Frag.rank] <;> exact ⟨by decide, by decide⟩

end Svgbob

import Svgbob.Model.Pipeline
import Svgbob.Proofs.Merge
/-!
# Text coverage: what the cell texts show is preserved by merging
-/
namespace Svgbob

/-- columns one character occupies in the buffer (`columns` of `text.rs`): a NUL filler none,
every other character at least one -/
def colOf (env : Env) (c : Char) : Nat := if c == nul then 0 else max 1 ((env.width c).getD 1)

theorem segColumns_eq_sum (env : Env) (s : List Char) :
    segColumns env s = (s.map (colOf env)).sum := by
  induction s with
  | nil => simp [segColumns]
  | cons c cs ih =>
    simp only [segColumns, List.filter_cons, List.map_cons, List.sum_cons, colOf] at ih ⊢
    by_cases h : c = nul
    · subst h; simp [ih]
    · have h' : (c != nul) = true := by simpa using h
      have h'' : (c == nul) = false := by simpa using h
      simp [h', h'', ih]

/-- the `(cell, character)` pairs a cell text shows: character `i` sits at the column of the
start plus the columns of the characters before it -/
def showCells (env : Env) (st : Cell) : List Char → List (Cell × Char)
  | [] => []
  | ch :: cs => (st, ch) :: showCells env ⟨st.x + colOf env ch, st.y⟩ cs

/-- what a fragment shows as text -/
def Frag.shown (env : Env) : Frag → List (Cell × Char)
  | .cellText st c => showCells env st c
  | _ => []

theorem showCells_append (env : Env) (st : Cell) (a b : List Char) :
    showCells env st (a ++ b) =
      showCells env st a ++ showCells env ⟨st.x + segColumns env a, st.y⟩ b := by
  induction a generalizing st with
  | nil => simp [showCells, segColumns]
  | cons c cs ih =>
    simp only [List.cons_append, showCells, ih, List.cons.injEq, true_and]
    rw [segColumns_eq_sum, segColumns_eq_sum]
    simp only [List.map_cons, List.sum_cons]
    congr 3
    push_cast
    omega

theorem segColumns_pos_of_nonempty (env : Env) (c : List Char) (hc : ∀ ch ∈ c, ch ≠ nul)
    (hne : c ≠ []) : 0 < segColumns env c := by
  cases c with
  | nil => exact absurd rfl hne
  | cons x xs =>
    rw [segColumns_eq_sum]
    simp only [List.map_cons, List.sum_cons]
    have : 0 < colOf env x := by
      have hx := hc x (by simp)
      have h'' : (x == nul) = false := by simpa using hx
      simp only [colOf, h'']
      simp
      omega
    omega

/-- **Merging two cell texts shows exactly what the two showed**, each character still in its own
cell. (`hc`/`hc'`: cell texts made from cells never contain a NUL filler.) -/
theorem cellTextMerge_shown (env : Env) (st : Cell) (c : List Char) (st' : Cell) (c' : List Char)
    (m : Frag) (hc : ∀ ch ∈ c, ch ≠ nul) (hc' : ∀ ch ∈ c', ch ≠ nul)
    (h : cellTextMerge (segColumns env) st c st' c' = some m) :
    (m.shown env).Perm (showCells env st c ++ showCells env st' c') := by
  unfold cellTextMerge at h
  split at h
  · rename_i hcond
    simp only [Bool.and_eq_true, beq_iff_eq, Bool.or_eq_true] at hcond
    obtain ⟨hy, hx⟩ := hcond
    split at h
    · rename_i hlt
      simp at h; subst h
      simp only [Frag.shown, showCells_append]
      -- the second disjunct is impossible when st.x < st'.x
      have hx' : st.x + (segColumns env c : Int) = st'.x := by
        rcases hx with hx | hx
        · exact hx
        · have : (0 : Int) ≤ segColumns env c' := by exact_mod_cast Nat.zero_le _
          omega
      have : (⟨st.x + (segColumns env c : Int), st.y⟩ : Cell) = st' := by
        cases st'; simp at hy hx' ⊢; exact ⟨hx', hy⟩
      rw [this]
    · rename_i hnlt
      simp at h; subst h
      simp only [Frag.shown, showCells_append]
      by_cases hcne : c = []
      · subst hcne
        simp [showCells]
      · have hpos := segColumns_pos_of_nonempty env c hc hcne
        have hx' : st'.x + (segColumns env c' : Int) = st.x := by
          rcases hx with hx | hx
          · have : (0 : Int) < segColumns env c := by exact_mod_cast hpos
            omega
          · exact hx
        have : (⟨st'.x + (segColumns env c' : Int), st'.y⟩ : Cell) = st := by
          cases st; simp at hy hx' ⊢; exact ⟨hx', hy.symm⟩
        rw [this]
        exact List.perm_append_comm
  · simp at h

/-- cell texts built from the cells of a span never contain the NUL filler -/
def Frag.noNul : Frag → Prop
  | .cellText _ c => ∀ ch ∈ c, ch ≠ nul
  | _ => True

theorem Frag.merge_noNul (len : List Char → Nat) (a b m : Frag) (ha : a.noNul) (hb : b.noNul)
    (h : Frag.merge len a b = some m) : m.noNul := by
  cases a <;> cases b <;> simp only [Frag.merge] at h <;> try (simp at h)
  · -- line, line
    simp only [lineMerge] at h
    split at h <;> simp at h
    subst h; simp only [mkLine]; split <;> trivial
  · -- line, circle
    simp only [lineMergeCircle] at h
    split at h <;> try (simp at h)
    split at h <;> (simp at h; subst h; trivial)
  · simp only [lineMergeCircle] at h
    split at h <;> try (simp at h)
    split at h <;> (simp at h; subst h; trivial)
  · -- cellText, cellText
    simp only [cellTextMerge] at h
    split at h <;> try (simp at h)
    split at h <;> simp at h <;> subst h
    · intro ch hch
      rcases List.mem_append.mp hch with hch | hch
      · exact ha ch hch
      · exact hb ch hch
    · intro ch hch
      rcases List.mem_append.mp hch with hch | hch
      · exact hb ch hch
      · exact ha ch hch

/-- **`Fragment::merge` preserves what is shown as text** -/
theorem Frag.merge_shown (env : Env) (a b m : Frag) (ha : a.noNul) (hb : b.noNul)
    (h : Frag.merge (segColumns env) a b = some m) :
    (m.shown env).Perm (a.shown env ++ b.shown env) := by
  cases a <;> cases b <;> simp only [Frag.merge] at h <;> try (simp at h)
  · simp only [lineMerge] at h
    split at h <;> simp at h
    subst h; simp only [mkLine]; split <;> simp [Frag.shown]
  · simp only [lineMergeCircle] at h
    split at h <;> try (simp at h)
    split at h <;> (simp at h; subst h; simp [Frag.shown])
  · simp only [lineMergeCircle] at h
    split at h <;> try (simp at h)
    split at h <;> (simp at h; subst h; simp [Frag.shown])
  · exact cellTextMerge_shown env _ _ _ _ m ha hb h

end Svgbob

import Svgbob.Proofs.Shift
import Svgbob.Proofs.CircleShift
import Svgbob.Proofs.NoPanic
/-!
# Moving a drawing moves the result of the whole middle of the pipeline

`endorseAll` (cells → spans → catalogue circles and arcs → fragments → merged fragments → contact
groups → rectangles → re-endorsement) commutes with moving all cells by `(k, n)`.
-/
namespace Svgbob

/-! ## generic helpers -/

theorem insertTail_map {α β : Type} (g : α → β) (cmpA : α → α → Ordering) (cmpB : β → β → Ordering)
    (h : ∀ a b, cmpB (g a) (g b) = cmpA a b) (x : α) (l : List α) :
    insertTail cmpB (g x) (l.map g) = (insertTail cmpA x l).map g := by
  induction l with
  | nil => simp [insertTail]
  | cons y ys ih =>
    simp only [List.map_cons, insertTail, h]
    split <;> simp [ih]

theorem sortBy_map {α β : Type} (g : α → β) (cmpA : α → α → Ordering) (cmpB : β → β → Ordering)
    (h : ∀ a b, cmpB (g a) (g b) = cmpA a b) (l : List α) :
    sortBy cmpB (l.map g) = (sortBy cmpA l).map g := by
  unfold sortBy
  suffices H : ∀ (acc : List α), (l.map g).foldl (fun acc x => insertTail cmpB x acc) (acc.map g) =
      (l.foldl (fun acc x => insertTail cmpA x acc) acc).map g by
    have := H []
    simp only [List.map_nil] at this
    rw [this, List.map_reverse]
  induction l with
  | nil => intro acc; simp
  | cons x xs ih =>
    intro acc
    simp only [List.map_cons, List.foldl_cons]
    rw [insertTail_map g cmpA cmpB h, ih]

theorem Cell.shift_inj (k n : Int) (a b : Cell) : a.shift k n = b.shift k n ↔ a = b := by
  constructor
  · intro h
    cases a; cases b
    simp only [Cell.shift, Cell.mk.injEq] at h ⊢
    omega
  · intro h; rw [h]

theorem Cell.shift_beq (k n : Int) (a b : Cell) : (a.shift k n == b.shift k n) = (a == b) := by
  by_cases h : a = b
  · simp [h]
  · have : a.shift k n ≠ b.shift k n := fun h' => h ((Cell.shift_inj k n a b).mp h')
    simp [h, this]

theorem Cell.cmp_shift (k n : Int) (a b : Cell) : (a.shift k n).cmp (b.shift k n) = a.cmp b := by
  simp only [Cell.cmp, Cell.shift]
  have h1 : (a.y + n < b.y + n) = (a.y < b.y) := by simp
  have h2 : (b.y + n < a.y + n) = (b.y < a.y) := by simp
  have h3 : (a.x + k < b.x + k) = (a.x < b.x) := by simp
  have h4 : (b.x + k < a.x + k) = (b.x < a.x) := by simp
  simp only [h1, h2, h3, h4]

/-! ## cell-local fragments do not depend on where the span sits -/

variable (len : List Char → Nat)

theorem spanLookup_shift (k n : Int) (s : Span) (c : Cell) :
    spanLookup (Span.shift k n s) (c.shift k n) = spanLookup s c := by
  unfold spanLookup Span.shift
  induction s with
  | nil => simp
  | cons cc rest ih =>
    simp only [List.map_cons, List.find?_cons, Cell.shift_beq]
    split
    · simp
    · exact ih

theorem neighbours_shift (k n : Int) (s : Span) (c : Cell) (d : Dir) :
    neighbours len (Span.shift k n s) (c.shift k n) d = neighbours len s c d := by
  unfold neighbours
  have : (⟨(c.shift k n).x + d.delta.1, (c.shift k n).y + d.delta.2⟩ : Cell) =
      Cell.shift k n ⟨c.x + d.delta.1, c.y + d.delta.2⟩ := by
    simp only [Cell.shift, Cell.mk.injEq]; omega
  rw [this, spanLookup_shift]

theorem cellFragments_shift (k n : Int) (s : Span) (c : Cell) (ch : Char) :
    cellFragments len (Span.shift k n s) (c.shift k n) ch = cellFragments len s c ch := by
  unfold cellFragments
  have : neighbours len (Span.shift k n s) (c.shift k n) = neighbours len s c := by
    funext d; exact neighbours_shift len k n s c d
  rw [this]

/-! ## the fragment buffer -/

/-- only the span of a cell-local fragment moves -/
def FragSpan.shiftSpan (k n : Int) (f : FragSpan) : FragSpan := ⟨Span.shift k n f.span, f.frag⟩

def FragBuf.shift (k n : Int) (fb : FragBuf) : FragBuf :=
  fb.map fun e => (e.1.shift k n, e.2.map (FragSpan.shiftSpan k n))

theorem Span.shift_inj (k n : Int) (a b : Span) (h : Span.shift k n a = Span.shift k n b) : a = b := by
  induction a generalizing b with
  | nil => cases b <;> simp_all [Span.shift]
  | cons x xs ih =>
    cases b with
    | nil => simp [Span.shift] at h
    | cons y ys =>
      simp only [Span.shift, List.map_cons, List.cons.injEq, Prod.mk.injEq] at h
      obtain ⟨⟨h1, h2⟩, h3⟩ := h
      have := (Cell.shift_inj k n x.1 y.1).mp h1
      rw [show x = y from Prod.ext this h2, ih ys h3]

theorem FragSpan.shiftSpan_inj (k n : Int) (a b : FragSpan)
    (h : a.shiftSpan k n = b.shiftSpan k n) : a = b := by
  cases a; cases b
  simp only [FragSpan.shiftSpan, FragSpan.mk.injEq] at h ⊢
  exact ⟨Span.shift_inj k n _ _ h.1, h.2⟩

theorem contains_map_inj {α β : Type} [DecidableEq α] [DecidableEq β] (g : α → β)
    (hg : ∀ a b, g a = g b → a = b) (l : List α) (x : α) :
    (l.map g).contains (g x) = l.contains x := by
  induction l with
  | nil => simp
  | cons y ys ih =>
    simp only [List.map_cons, List.contains_cons, ih]
    by_cases h : x = y
    · simp [h]
    · have : g x ≠ g y := fun h' => h (hg _ _ h')
      have e1 : (g x == g y) = false := by simpa using this
      have e2 : (x == y) = false := by simpa using h
      simp [e1, e2]

theorem FragBuf.insert_shift (k n : Int) (c : Cell) (fs : List FragSpan) (fb : FragBuf) :
    FragBuf.insert len (c.shift k n) (fs.map (FragSpan.shiftSpan k n)) (FragBuf.shift k n fb) =
      FragBuf.shift k n (FragBuf.insert len c fs fb) := by
  induction fb with
  | nil => simp [FragBuf.insert, FragBuf.shift]
  | cons hd rest ih =>
    obtain ⟨c', fs'⟩ := hd
    simp only [FragBuf.shift, List.map_cons, FragBuf.insert, Cell.shift_beq, Cell.cmp_shift]
    split
    · -- same cell: extra fragments appended, re-sorted
      have hfilter : (fs.map (FragSpan.shiftSpan k n)).filter
          (fun f => !(fs'.map (FragSpan.shiftSpan k n)).contains f) =
          (fs.filter fun f => !fs'.contains f).map (FragSpan.shiftSpan k n) := by
        rw [List.filter_map]
        congr 1
        apply List.filter_congr
        intro f _
        simp only [Function.comp]
        rw [contains_map_inj _ (FragSpan.shiftSpan_inj k n)]
      rw [hfilter, ← List.map_append]
      rw [sortBy_map (FragSpan.shiftSpan k n) (fun a b => fcmp len a.frag b.frag)
        (fun a b => fcmp len a.frag b.frag) (fun a b => rfl)]
      simp
    · split
      · rfl
      · have := ih
        simp only [FragBuf.shift] at this
        rw [this]
        simp

theorem fragmentBuffer_shift (k n : Int) (s perm : Span) :
    fragmentBuffer len (Span.shift k n s) (Span.shift k n perm) =
      FragBuf.shift k n (fragmentBuffer len s perm) := by
  unfold fragmentBuffer
  suffices H : ∀ (acc : FragBuf),
      (Span.shift k n perm).foldl (fun fb cc => FragBuf.insert len cc.1
        ((cellFragments len (Span.shift k n s) cc.1 cc.2).map fun f => ⟨[cc], f⟩) fb) (FragBuf.shift k n acc) =
      FragBuf.shift k n (perm.foldl (fun fb cc => FragBuf.insert len cc.1
        ((cellFragments len s cc.1 cc.2).map fun f => ⟨[cc], f⟩) fb) acc) by
    simpa [FragBuf.shift] using H []
  induction perm with
  | nil => intro acc; simp [Span.shift]
  | cons cc rest ih =>
    intro acc
    simp only [Span.shift, List.map_cons, List.foldl_cons]
    have hfr : (cellFragments len (Span.shift k n s) (cc.1.shift k n) cc.2).map
        (fun f => (⟨[(cc.1.shift k n, cc.2)], f⟩ : FragSpan)) =
        ((cellFragments len s cc.1 cc.2).map fun f => (⟨[cc], f⟩ : FragSpan)).map (FragSpan.shiftSpan k n) := by
      rw [cellFragments_shift, List.map_map]
      apply List.map_congr_left
      intro f _
      simp [FragSpan.shiftSpan, Span.shift]
    have hs : Span.shift k n s = List.map (fun cc => (cc.1.shift k n, cc.2)) s := rfl
    rw [← hs, hfr, FragBuf.insert_shift]
    exact ih _

/-- `abs_fragment_spans` of the moved buffer are the moved fragments -/
theorem absFragmentSpans_shift (k n : Int) (fb : FragBuf) :
    absFragmentSpans (FragBuf.shift k n fb) = (absFragmentSpans fb).map (FragSpan.move k n) := by
  unfold absFragmentSpans FragBuf.shift
  induction fb with
  | nil => simp
  | cons e rest ih =>
    simp only [List.map_cons, List.flatMap_cons, List.map_append, ih]
    congr 1
    simp only [List.map_map]
    apply List.map_congr_left
    intro f _
    simp [FragSpan.move, FragSpan.shiftSpan, Frag.move, Frag.absPos_shift]

/-! ## contact groups -/

theorem Pt.add_beq (d a b : Pt) : (d.add a == d.add b) = (a == b) := by
  by_cases h : a = b
  · simp [h]
  · have : d.add a ≠ d.add b := by
      intro h'
      apply h
      cases a; cases b
      simp only [Pt.add, Pt.mk.injEq] at h' ⊢
      omega
    simp [h, this]

theorem endpointsTouch_add (d s e s' e' : Pt) :
    endpointsTouch (d.add s) (d.add e) (d.add s') (d.add e') = endpointsTouch s e s' e' := by
  simp only [endpointsTouch, Pt.add_beq]

theorem lineTouchingCircle_add (d s e c : Pt) (r : Int) :
    lineTouchingCircle (d.add s) (d.add e) (d.add c) r = lineTouchingCircle s e c r := by
  simp only [lineTouchingCircle, dist2_add]

theorem cellTextContacting_move (k n : Int) (st : Cell) (c : List Char) (st' : Cell) (c' : List Char) :
    cellTextContacting len ⟨st.x + k, st.y + n⟩ c ⟨st'.x + k, st'.y + n⟩ c' =
      cellTextContacting len st c st' c' := by
  simp only [cellTextContacting]
  have h1 : (st.y + n == st'.y + n) = (st.y == st'.y) := by
    by_cases h : st.y = st'.y <;> simp [h]
  have h2 : (st.x + k ≤ st'.x + k + (len c' : Int)) = (st.x ≤ st'.x + (len c' : Int)) := by
    apply propext; constructor <;> intro h <;> omega
  have h3 : (st'.x + k ≤ st.x + k + (len c : Int)) = (st'.x ≤ st.x + (len c : Int)) := by
    apply propext; constructor <;> intro h <;> omega
  simp only [h1, h2, h3]

theorem Frag.isContacting_move (k n : Int) (a b : Frag) :
    (a.move k n).isContacting len (b.move k n) = a.isContacting len b := by
  cases a <;> cases b <;> simp only [Frag.move, Frag.absPos, Frag.isContacting]
  · exact lineTouching_add _ _ _ _ _
  · exact lineTouchingCircle_add _ _ _ _ _
  · exact endpointsTouch_add _ _ _ _ _
  · exact lineTouchingCircle_add _ _ _ _ _
  · exact endpointsTouch_add _ _ _ _ _
  · exact endpointsTouch_add _ _ _ _ _
  · exact cellTextContacting_move len _ _ _ _ _ _

theorem contactsContacting_move (k n : Int) (a b : List FragSpan) :
    contactsContacting len (a.map (FragSpan.move k n)) (b.map (FragSpan.move k n)) =
      contactsContacting len a b := by
  simp only [contactsContacting, ← List.map_reverse, List.any_map, Function.comp_def, FragSpan.move,
    Frag.isContacting_move]

theorem contactsMerge_move (k n : Int) (a b : List FragSpan) :
    contactsMerge len (a.map (FragSpan.move k n)) (b.map (FragSpan.move k n)) =
      (contactsMerge len a b).map (List.map (FragSpan.move k n)) := by
  simp only [contactsMerge, contactsContacting_move]
  split <;> simp

/-- **contact grouping commutes with moving the drawing** -/
theorem contactsOf_shift (k n : Int) (s : Span) :
    contactsOf len (Span.shift k n s) = (contactsOf len s).map (List.map (FragSpan.move k n)) := by
  unfold contactsOf
  simp only [fragmentBuffer_shift, absFragmentSpans_shift, List.length_map, mergeFragments_move]
  rw [show ((G.mergeRec (FragSpan.merge len) ((absFragmentSpans (fragmentBuffer len s s)).length + 1)
      (absFragmentSpans (fragmentBuffer len s s))).map (FragSpan.move k n)).map (fun f => [f]) =
      ((G.mergeRec (FragSpan.merge len) ((absFragmentSpans (fragmentBuffer len s s)).length + 1)
      (absFragmentSpans (fragmentBuffer len s s))).map fun f => [f]).map (List.map (FragSpan.move k n)) by
    simp [List.map_map, Function.comp_def]]
  exact G.mergeRec_map (contactsMerge len) (List.map (FragSpan.move k n)) (contactsMerge_move len k n) _ _

/-! ## rectangles -/

/-- the offset in milli-units of a move by `(k, n)` cells -/
def moveBy (k n : Int) : Pt := (⟨k, n⟩ : Cell).origin

/-- a fragment whose bounding box moves with it (a polygon without points has the box `(0,0)-(0,0)`
wherever it is; the tables hold none) -/
def Frag.Movable : Frag → Prop
  | .polygon pts _ _ => pts ≠ []
  | _ => True

theorem listMin_map_add' (l : List Int) (k d d' : Int) (h : l ≠ []) :
    listMin (l.map (· + k)) d' = listMin l d + k := by
  cases l with
  | nil => exact absurd rfl h
  | cons x xs =>
    have := listMin_map_add (x :: xs) k 0
    simp only [listMin, List.map_cons, List.headD_cons] at this ⊢
    exact this

theorem listMax_map_add' (l : List Int) (k d d' : Int) (h : l ≠ []) :
    listMax (l.map (· + k)) d' = listMax l d + k := by
  cases l with
  | nil => exact absurd rfl h
  | cons x xs =>
    simp only [listMax, List.map_cons, List.headD_cons]
    have : ∀ (acc : Int) (ys : List Int),
        List.foldl (fun a b => if b > a then b else a) (acc + k) (ys.map (· + k)) =
          List.foldl (fun a b => if b > a then b else a) acc ys + k := by
      intro acc ys
      induction ys generalizing acc with
      | nil => simp
      | cons y ys ih =>
        simp only [List.map_cons, List.foldl_cons]
        by_cases h : y > acc
        · have h' : y + k > acc + k := by omega
          simp only [h, h', if_true]; exact ih y
        · have h' : ¬ (y + k > acc + k) := by omega
          simp only [h, h', if_false]; exact ih acc
    have h0 : (if x + k > x + k then x + k else x + k) = x + k := by simp
    have h1 : (if x > x then x else x) = x := by simp
    simp only [List.foldl_cons, h0, h1]
    exact this x xs

theorem Frag.bounds_move (bl : List Char → Nat) (unit : Int) (k n : Int) (f : Frag) (hf : f.Movable) :
    (f.move k n).bounds bl unit =
      ((moveBy k n).add (f.bounds bl unit).1, (moveBy k n).add (f.bounds bl unit).2) := by
  cases f with
  | line s e b =>
    simp only [Frag.move, Frag.absPos, Frag.bounds, Pt.add, moveBy, Cell.origin, Prod.mk.injEq, Pt.mk.injEq]
    omega
  | markerLine s e b sm em =>
    simp only [Frag.move, Frag.absPos, Frag.bounds, Pt.add, moveBy, Cell.origin, Prod.mk.injEq, Pt.mk.injEq]
    omega
  | circle c r fl =>
    simp only [Frag.move, Frag.absPos, Frag.bounds, Pt.add, moveBy, Cell.origin, Prod.mk.injEq, Pt.mk.injEq]
    omega
  | arc s e r m sw =>
    simp only [Frag.move, Frag.absPos, Frag.bounds, Pt.add, moveBy, Cell.origin, Prod.mk.injEq, Pt.mk.injEq]
    omega
  | rect s e fl r b =>
    simp only [Frag.move, Frag.absPos, Frag.bounds, Pt.add, moveBy, Cell.origin, Prod.mk.injEq, Pt.mk.injEq]
    omega
  | cellText st c =>
    simp only [Frag.move, Frag.absPos, Frag.bounds, Pt.add, moveBy, Cell.origin, Prod.mk.injEq, Pt.mk.injEq]
    omega
  | text st c =>
    simp only [Frag.move, Frag.absPos, Frag.bounds, Pt.add, moveBy, Cell.origin, Prod.mk.injEq, Pt.mk.injEq]
    exact ⟨trivial, by ring, trivial⟩
  | polygon pts fl t =>
    have hne : pts ≠ [] := hf
    have hx : (pts.map ((⟨k, n⟩ : Cell).origin.add ·)).map (·.x) = (pts.map (·.x)).map (· + k * 1000) := by
      simp only [List.map_map]; apply List.map_congr_left; intro p _
      simp only [Function.comp, Pt.add, Cell.origin]; omega
    have hy : (pts.map ((⟨k, n⟩ : Cell).origin.add ·)).map (·.y) = (pts.map (·.y)).map (· + n * 2000) := by
      simp only [List.map_map]; apply List.map_congr_left; intro p _
      simp only [Function.comp, Pt.add, Cell.origin]; omega
    have hnx : pts.map (·.x) ≠ [] := by simpa using hne
    have hny : pts.map (·.y) ≠ [] := by simpa using hne
    simp only [Frag.move, Frag.absPos, Frag.bounds]
    rw [hx, hy, listMin_map_add' _ _ 0 0 hnx, listMin_map_add' _ _ 0 0 hny,
      listMax_map_add' _ _ 0 0 hnx, listMax_map_add' _ _ 0 0 hny]
    simp only [Pt.add, moveBy, Cell.origin, Prod.mk.injEq, Pt.mk.injEq]
    omega

theorem Int.add_beq_left (a x y : Int) : (a + x == a + y) = (x == y) := by
  by_cases h : x = y
  · simp [h]
  · have : a + x ≠ a + y := by omega
    simp [h, this]

theorem Frag.isAabbParallel_move (k n : Int) (a b : Frag) :
    (a.move k n).isAabbParallel (b.move k n) = a.isAabbParallel b := by
  cases a <;> cases b <;> simp only [Frag.move, Frag.absPos, Frag.isAabbParallel]
  simp only [Pt.add, Cell.origin, Int.add_beq_left]

theorem lineAabbPerpendicular_add (d s e s' e' : Pt) :
    lineAabbPerpendicular (d.add s) (d.add e) (d.add s') (d.add e') = lineAabbPerpendicular s e s' e' := by
  simp only [lineAabbPerpendicular, Pt.add, Int.add_beq_left]

theorem parallelAabbGroup_move (k n : Int) (frags : List Frag) :
    parallelAabbGroup (frags.map (Frag.move k n)) = parallelAabbGroup frags := by
  unfold parallelAabbGroup
  simp only [List.length_map]
  congr 1
  funext acc ij
  simp only [List.getElem?_map]
  cases frags[ij.1]? <;> cases frags[ij.2]? <;> simp only [Option.map_some, Option.map_none, Frag.isAabbParallel_move]

theorem Frag.isRightAngleArc_move (k n : Int) (f : Frag) :
    (f.move k n).isRightAngleArc = f.isRightAngleArc := by
  cases f <;> simp only [Frag.move, Frag.absPos, Frag.isRightAngleArc]
  rename_i s e r m sw
  have h1 : ((⟨k, n⟩ : Cell).origin.add e).x - ((⟨k, n⟩ : Cell).origin.add s).x = e.x - s.x := by
    simp only [Pt.add]; omega
  have h2 : ((⟨k, n⟩ : Cell).origin.add e).y - ((⟨k, n⟩ : Cell).origin.add s).y = e.y - s.y := by
    simp only [Pt.add]; omega
  rw [h1, h2]

theorem rightAngleArcs_move (k n : Int) (frags : List Frag) :
    rightAngleArcs (frags.map (Frag.move k n)) = rightAngleArcs frags := by
  unfold rightAngleArcs
  simp only [List.length_map]
  apply List.filter_congr
  intro i _
  simp only [List.getElem?_map]
  cases frags[i]? <;> simp [Frag.isRightAngleArc_move]

theorem boundsAllPoints_move (k n : Int) (frags : List Frag) (h : ∀ f ∈ frags, f.Movable) :
    boundsAllPoints (frags.map (Frag.move k n)) = (boundsAllPoints frags).map ((moveBy k n).add ·) := by
  unfold boundsAllPoints
  induction frags with
  | nil => simp
  | cons f fs ih =>
    simp only [List.map_cons, List.flatMap_cons, List.map_append,
      Frag.bounds_move _ _ k n f (h f (by simp)), ih (fun g hg => h g (List.mem_cons_of_mem _ hg))]
    simp

theorem boundsAllPoints_ne_nil (frags : List Frag) (h : frags ≠ []) : boundsAllPoints frags ≠ [] := by
  cases frags with
  | nil => exact absurd rfl h
  | cons f fs => simp [boundsAllPoints]

theorem boundsSides_move (k n : Int) (frags : List Frag) (hne : frags ≠ [])
    (h : ∀ f ∈ frags, f.Movable) :
    boundsSides (frags.map (Frag.move k n)) =
      (boundsSides frags).map fun se => ((moveBy k n).add se.1, (moveBy k n).add se.2) := by
  unfold boundsSides
  simp only [boundsAllPoints_move k n frags h]
  have hp := boundsAllPoints_ne_nil frags hne
  generalize boundsAllPoints frags = pts at hp
  have hx : (pts.map ((moveBy k n).add ·)).map (·.x) = (pts.map (·.x)).map (· + (moveBy k n).x) := by
    simp only [List.map_map]; apply List.map_congr_left; intro p _
    simp only [Function.comp, Pt.add]; omega
  have hy : (pts.map ((moveBy k n).add ·)).map (·.y) = (pts.map (·.y)).map (· + (moveBy k n).y) := by
    simp only [List.map_map]; apply List.map_congr_left; intro p _
    simp only [Function.comp, Pt.add]; omega
  have hnx : pts.map (·.x) ≠ [] := by simpa using hp
  have hny : pts.map (·.y) ≠ [] := by simpa using hp
  rw [hx, hy, listMin_map_add' _ _ 0 0 hnx, listMin_map_add' _ _ 0 0 hny,
    listMax_map_add' _ _ 0 0 hnx, listMax_map_add' _ _ 0 0 hny]
  simp only [List.map_cons, List.map_nil, Pt.add, List.cons.injEq, Prod.mk.injEq, Pt.mk.injEq, and_true]
  omega

theorem linesAreSides_move (k n : Int) (frags : List Frag) (hne : frags ≠ [])
    (h : ∀ f ∈ frags, f.Movable) :
    linesAreSides (frags.map (Frag.move k n)) = linesAreSides frags := by
  unfold linesAreSides
  rw [boundsSides_move k n frags hne h]
  simp only [List.all_map, List.any_map, Function.comp_def]
  congr 1
  funext se
  congr 1
  funext f
  cases f <;> simp only [Frag.move, Frag.absPos]
  simp only [moveBy, Pt.add_beq]

theorem isRect_move (k n : Int) (frags : List Frag) (h : ∀ f ∈ frags, f.Movable) :
    isRect (frags.map (Frag.move k n)) = isRect frags := by
  unfold isRect
  simp only [List.length_map, parallelAabbGroup_move]
  split
  · rename_i hlen
    have hne : frags ≠ [] := by
      intro h0; rw [h0] at hlen; simp at hlen
    split
    · rename_i a1 a2 b1 b2 _
      simp only [List.getElem?_map, linesAreSides_move k n frags hne h]
      cases frags[a1]? with
      | none => rfl
      | some f1 =>
        cases frags[b1]? with
        | none => cases f1 <;> rfl
        | some f2 =>
          cases frags[a2]? with
          | none => cases f1 <;> cases f2 <;> rfl
          | some f3 =>
            cases frags[b2]? with
            | none => cases f1 <;> cases f2 <;> cases f3 <;> rfl
            | some f4 =>
              cases f1 <;> cases f2 <;> cases f3 <;> cases f4 <;>
                simp only [Option.map_some, Frag.move, Frag.absPos, lineTouching_add,
                  lineAabbPerpendicular_add]
    · rfl
  · rfl

theorem ptFold_min_add (d : Pt) (ps : List Pt) (a : Pt) :
    (ps.map (d.add ·)).foldl (fun a b => if b.cmp a == .lt then b else a) (d.add a) =
      d.add (ps.foldl (fun a b => if b.cmp a == .lt then b else a) a) := by
  induction ps generalizing a with
  | nil => rfl
  | cons p ps ih =>
    simp only [List.map_cons, List.foldl_cons, Pt.cmp_add]
    split
    · exact ih p
    · exact ih a

theorem ptFold_max_add (d : Pt) (ps : List Pt) (a : Pt) :
    (ps.map (d.add ·)).foldl (fun a b => if b.cmp a != .lt then b else a) (d.add a) =
      d.add (ps.foldl (fun a b => if b.cmp a != .lt then b else a) a) := by
  induction ps generalizing a with
  | nil => rfl
  | cons p ps ih =>
    simp only [List.map_cons, List.foldl_cons, Pt.cmp_add]
    split
    · exact ih p
    · exact ih a

theorem ptListMin_add (d : Pt) (ps : List Pt) :
    ptListMin (ps.map (d.add ·)) = (ptListMin ps).map (d.add ·) := by
  cases ps with
  | nil => rfl
  | cons p ps => simp only [List.map_cons, ptListMin, ptFold_min_add, Option.map_some]

theorem ptListMax_add (d : Pt) (ps : List Pt) :
    ptListMax (ps.map (d.add ·)) = (ptListMax ps).map (d.add ·) := by
  cases ps with
  | nil => rfl
  | cons p ps => simp only [List.map_cons, ptListMax, ptFold_max_add, Option.map_some]

theorem mkRect_move (k n : Int) (a b : Pt) (f br : Bool) (r : Option Int) :
    mkRect ((moveBy k n).add a) ((moveBy k n).add b) f br r = (mkRect a b f br r).move k n := by
  simp only [mkRect, Pt.cmp_add]
  split <;> rfl

theorem Frag.isBroken_move (k n : Int) (f : Frag) : (f.move k n).isBroken = f.isBroken := by
  cases f <;> rfl

theorem anyBroken_move (k n : Int) (frags : List Frag) :
    (frags.map (Frag.move k n)).any Frag.isBroken = frags.any Frag.isBroken := by
  simp only [List.any_map, Function.comp_def, Frag.isBroken_move]

theorem endorseRect_move (k n : Int) (frags : List Frag) (h : ∀ f ∈ frags, f.Movable) :
    endorseRect (frags.map (Frag.move k n)) = (endorseRect frags).map (Frag.move k n) := by
  unfold endorseRect
  simp only [isRect_move k n frags h, boundsAllPoints_move k n frags h, ptListMin_add, ptListMax_add,
    anyBroken_move]
  split
  · cases ptListMin (boundsAllPoints frags) <;> cases ptListMax (boundsAllPoints frags) <;>
      simp [mkRect_move]
  · rfl

theorem isRoundedRect_move (k n : Int) (frags : List Frag) :
    isRoundedRect (frags.map (Frag.move k n)) = isRoundedRect frags := by
  unfold isRoundedRect
  simp only [List.length_map, parallelAabbGroup_move, rightAngleArcs_move]
  split
  · split
    · rename_i a1 a2 b1 b2 r0 _ _ _ _ _
      simp only [List.getElem?_map]
      generalize frags[r0]? = o0
      generalize frags[a1]? = o1
      generalize frags[b1]? = o2
      generalize frags[a2]? = o3
      generalize frags[b2]? = o4
      cases o0 with
      | none => rfl
      | some f0 =>
        cases f0 <;> try rfl
        cases o1 with
        | none => rfl
        | some f1 =>
          cases f1 <;> try rfl
          cases o2 with
          | none => rfl
          | some f2 =>
            cases f2 <;> try rfl
            cases o3 with
            | none => rfl
            | some f3 =>
              cases f3 <;> try rfl
              cases o4 with
              | none => rfl
              | some f4 =>
                cases f4 <;> try rfl
                simp only [Option.map_some, Frag.move, Frag.absPos, lineAabbPerpendicular_add]
    · rfl
  · rfl

theorem endorseRoundedRect_move (k n : Int) (frags : List Frag) (h : ∀ f ∈ frags, f.Movable) :
    endorseRoundedRect (frags.map (Frag.move k n)) = (endorseRoundedRect frags).map (Frag.move k n) := by
  unfold endorseRoundedRect
  simp only [isRoundedRect_move, boundsAllPoints_move k n frags h, ptListMin_add, ptListMax_add,
    anyBroken_move]
  split
  · cases ptListMin (boundsAllPoints frags) <;> cases ptListMax (boundsAllPoints frags) <;>
      simp [mkRect_move]
  · rfl

theorem contactsEndorseRect_move (k n : Int) (frags : List Frag) (h : ∀ f ∈ frags, f.Movable) :
    contactsEndorseRect (frags.map (Frag.move k n)) = (contactsEndorseRect frags).map (Frag.move k n) := by
  unfold contactsEndorseRect
  rw [endorseRect_move k n frags h, endorseRoundedRect_move k n frags h]
  cases endorseRect frags <;> rfl

/-! ## every fragment the pipeline builds is movable -/

def movableB : Frag → Bool
  | .polygon pts _ _ => !pts.isEmpty
  | _ => true

theorem movable_of_movableB (f : Frag) (h : movableB f = true) : f.Movable := by
  cases f <;> simp_all [movableB, Frag.Movable]

theorem tables_movable :
    Gen.asciiTable.all (fun en => en.behavior.all fun row => row.2.all movableB) = true ∧
    Gen.unicodeTable.all (fun g => g.2.all movableB) = true := by
  constructor <;> decide +kernel

theorem mkLine_movable (a b : Pt) (br : Bool) : (mkLine a b br).Movable := by
  unfold mkLine; split <;> trivial

theorem Frag.merge_movable (a b m : Frag) (h : Frag.merge len a b = some m) : m.Movable := by
  cases a <;> cases b <;> simp only [Frag.merge] at h <;> try exact absurd h (by simp)
  · simp only [lineMerge] at h
    split at h <;> simp at h
    subst h; exact mkLine_movable _ _ _
  · simp only [lineMergeCircle] at h
    repeat' split at h
    all_goals first | (simp at h; done) | (simp at h; subst h; first | trivial | exact mkLine_movable _ _ _)
  · simp only [lineMergeCircle] at h
    repeat' split at h
    all_goals first | (simp at h; done) | (simp at h; subst h; first | trivial | exact mkLine_movable _ _ _)
  · simp only [cellTextMerge] at h
    repeat' split at h
    all_goals first | (simp at h; done) | (simp at h; subst h; first | trivial | exact mkLine_movable _ _ _)

end Svgbob

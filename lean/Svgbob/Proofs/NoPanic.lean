import Svgbob.Model.Pipeline
import Svgbob.Proofs.Merge
/-!
# The middle of the pipeline never panics

In the model a panic of the code (`bounds().expect("must have bounds")` in
`span.rs:91,182`) is the value `none`. `endorseAll … ≠ none` for every input is therefore the
statement that these sites are never reached.
-/
namespace Svgbob

theorem endorseArcsAndCircles_isSome (cat : Catalogue) (s : Span) (h : s ≠ []) :
    (endorseArcsAndCircles cat s).isSome = true := by
  unfold endorseArcsAndCircles
  cases s with
  | nil => exact absurd rfl h
  | cons c cs =>
    simp only [Span.bounds]
    repeat' split
    all_goals simp

theorem spanMerge_ne_nil (a b m : Span) (h : spanMerge a b = some m) (ha : a ≠ []) : m ≠ [] := by
  simp only [spanMerge] at h
  split at h <;> simp at h
  subst h; simp [ha]

/-- spans produced from non-empty spans are non-empty -/
theorem spansOf_ne_nil (items : List Span) (h : ∀ s ∈ items, s ≠ []) :
    ∀ s ∈ spansOf items, s ≠ [] := by
  unfold spansOf
  exact G.mergeRec_forall spanMerge (· ≠ []) (fun g it m hm hg _ => spanMerge_ne_nil g it m hm hg) _ _ h

theorem mapOpt_isSome {α β : Type} (f : α → Option β) (l : List α)
    (h : ∀ x ∈ l, (f x).isSome = true) : (mapOpt f l).isSome = true := by
  induction l with
  | nil => simp [mapOpt]
  | cons x xs ih =>
    have hx := h x (by simp)
    have hxs := ih (fun y hy => h y (List.mem_cons_of_mem _ hy))
    simp only [mapOpt]
    cases hfx : f x with
    | none => simp [hfx] at hx
    | some y =>
      cases hm : mapOpt f xs with
      | none => simp [hm] at hxs
      | some ys => simp

/-- every fragment of the buffer carries a non-empty span -/
def FragSpan.Ok (f : FragSpan) : Prop := f.span ≠ []

theorem FragBuf.insert_ok (len : List Char → Nat) (c : Cell) (fs : List FragSpan) (fb : FragBuf)
    (hfs : ∀ f ∈ fs, f.Ok) (hfb : ∀ e ∈ fb, ∀ f ∈ e.2, f.Ok) :
    ∀ e ∈ FragBuf.insert len c fs fb, ∀ f ∈ e.2, f.Ok := by
  induction fb with
  | nil =>
    intro e he f hf
    simp only [FragBuf.insert, List.mem_singleton] at he
    subst he; exact hfs f hf
  | cons hd rest ih =>
    obtain ⟨c', fs'⟩ := hd
    intro e he f hf
    simp only [FragBuf.insert] at he
    split at he
    · -- merged into the head
      rcases List.mem_cons.mp he with rfl | he
      · simp only at hf
        -- elements of the re-sorted list come from fs' or fs
        have hmem : f ∈ fs' ++ fs.filter (fun f => !fs'.contains f) := by
          have := (sortBy_perm (fun a b => fcmp len a.frag b.frag)
            (fs' ++ fs.filter (fun f => !fs'.contains f))).mem_iff.mp hf
          exact this
        rcases List.mem_append.mp hmem with hm | hm
        · exact hfb (c', fs') (by simp) f hm
        · exact hfs f (List.mem_filter.mp hm).1
      · exact hfb e (List.mem_cons_of_mem _ he) f hf
    · split at he
      · rcases List.mem_cons.mp he with rfl | he
        · exact hfs f hf
        · exact hfb e he f hf
      · rcases List.mem_cons.mp he with rfl | he
        · exact hfb _ (by simp) f hf
        · exact ih (fun e' he' => hfb e' (List.mem_cons_of_mem _ he')) e he f hf
where
  sortBy_perm {α : Type} (cmp : α → α → Ordering) (l : List α) : (sortBy cmp l).Perm l := by
    unfold sortBy
    have h : ∀ (acc l : List α), (l.foldl (fun acc x => insertTail cmp x acc) acc).Perm (l ++ acc) := by
      intro acc l
      induction l generalizing acc with
      | nil => simp
      | cons x xs ih =>
        simp only [List.foldl_cons, List.cons_append]
        refine (ih _).trans ?_
        have hins : ∀ (ys : List α), (insertTail cmp x ys).Perm (x :: ys) := by
          intro ys
          induction ys with
          | nil => simp [insertTail]
          | cons y ys ihy =>
            simp only [insertTail]
            split
            · exact (List.Perm.cons y ihy).trans (List.Perm.swap x y ys)
            · exact List.Perm.refl _
        exact (List.Perm.append_left xs (hins acc)).trans List.perm_middle
    exact (List.reverse_perm _).trans (by simpa using h [] l)

theorem fragmentBuffer_ok (len : List Char → Nat) (s perm : Span) :
    ∀ e ∈ fragmentBuffer len s perm, ∀ f ∈ e.2, f.Ok := by
  unfold fragmentBuffer
  suffices h : ∀ (acc : FragBuf), (∀ e ∈ acc, ∀ f ∈ e.2, f.Ok) →
      ∀ e ∈ perm.foldl (fun fb cc =>
        FragBuf.insert len cc.1 ((cellFragments len s cc.1 cc.2).map fun f => ⟨[cc], f⟩) fb) acc,
        ∀ f ∈ e.2, f.Ok from h [] (by simp)
  induction perm with
  | nil => intro acc h; simpa using h
  | cons cc rest ih =>
    intro acc hacc
    simp only [List.foldl_cons]
    apply ih
    apply FragBuf.insert_ok len _ _ _ _ hacc
    intro f hf
    simp only [List.mem_map] at hf
    obtain ⟨g, _, rfl⟩ := hf
    simp [FragSpan.Ok]

/-- every contact group is non-empty and consists of fragments with non-empty spans, so the span
it is turned back into (`Contacts::span`) is non-empty -/
theorem contactsOf_groupSpan_ne_nil (len : List Char → Nat) (s : Span) :
    ∀ g ∈ contactsOf len s, groupSpan g ≠ [] := by
  have hfrags : ∀ f ∈ absFragmentSpans (fragmentBuffer len s s), f.Ok := by
    intro f hf
    simp only [absFragmentSpans, List.mem_flatMap, List.mem_map] at hf
    obtain ⟨e, he, g, hg, rfl⟩ := hf
    exact fragmentBuffer_ok len s s e he g hg
  have hmerged : ∀ f ∈ G.mergeRec (FragSpan.merge len)
      ((absFragmentSpans (fragmentBuffer len s s)).length + 1)
      (absFragmentSpans (fragmentBuffer len s s)), f.Ok := by
    apply G.mergeRec_forall (FragSpan.merge len) FragSpan.Ok _ _ _ hfrags
    intro g it m hm hg _
    simp only [FragSpan.merge] at hm
    split at hm <;> simp at hm
    subst hm
    simp only [FragSpan.Ok] at hg ⊢
    simp [hg]
  -- groups: non-empty lists of Ok fragments
  let P : List FragSpan → Prop := fun g => g ≠ [] ∧ ∀ f ∈ g, f.Ok
  have hgroups : ∀ g ∈ contactsOf len s, P g := by
    unfold contactsOf
    apply G.mergeRec_forall (contactsMerge len) P
    · intro g it m hm hg hi
      simp only [contactsMerge] at hm
      split at hm <;> simp at hm
      subst hm
      refine ⟨by simp [hg.1], ?_⟩
      intro f hf
      rcases List.mem_append.mp hf with hf | hf
      · exact hg.2 f hf
      · exact hi.2 f hf
    · intro g hg
      simp only [List.mem_map] at hg
      obtain ⟨f, hf, rfl⟩ := hg
      refine ⟨by simp, ?_⟩
      intro f' hf'
      have : f' = f := by simpa using hf'
      rw [this]; exact hmerged f hf
  intro g hg
  obtain ⟨hne, hok⟩ := hgroups g hg
  cases g with
  | nil => exact absurd rfl hne
  | cons f fs =>
    have := hok f (by simp)
    simp only [groupSpan, List.flatMap_cons, FragSpan.Ok] at this ⊢
    intro h
    exact this (List.append_eq_nil_iff.mp h).1

theorem endorseRects_rejects_subset (groups : List (List FragSpan)) :
    ∀ g ∈ (endorseRects groups).2, g ∈ groups := by
  unfold endorseRects
  suffices h : ∀ (acc : List FragSpan × List (List FragSpan)) (gs : List (List FragSpan)),
      ∀ g ∈ (gs.foldl (fun acc g =>
        match contactsEndorseRect (g.map (·.frag)) with
        | some r => (acc.1 ++ [⟨groupSpan g, r⟩], acc.2)
        | none => (acc.1, acc.2 ++ [g])) acc).2, g ∈ acc.2 ∨ g ∈ gs by
    intro g hg
    rcases h ([], []) groups g hg with h | h
    · simp at h
    · exact h
  intro acc gs
  induction gs generalizing acc with
  | nil => intro g hg; left; simpa using hg
  | cons x xs ih =>
    intro g hg
    simp only [List.foldl_cons] at hg
    rcases ih _ g hg with h | h
    · split at h
      · left; exact h
      · simp only [List.mem_append, List.mem_singleton] at h
        rcases h with h | rfl
        · left; exact h
        · right; simp
    · right; exact List.mem_cons_of_mem _ h

/-- **`Span::endorse` never panics** on a non-empty span -/
theorem spanEndorse_isSome (len : List Char → Nat) (cat : Catalogue) (s : Span) (h : s ≠ []) :
    (spanEndorse len cat s).isSome = true := by
  unfold spanEndorse
  have h1 := endorseArcsAndCircles_isSome cat s h
  cases he : endorseArcsAndCircles cat s with
  | none => simp [he] at h1
  | some r =>
    obtain ⟨acc1, rest⟩ := r
    simp only
    have hsp : ∀ sp ∈ spansOf ((endorseRects (contactsOf len rest)).2.map groupSpan), sp ≠ [] := by
      apply spansOf_ne_nil
      intro sp hsp
      simp only [List.mem_map] at hsp
      obtain ⟨g, hg, rfl⟩ := hsp
      exact contactsOf_groupSpan_ne_nil len rest g (endorseRects_rejects_subset _ g hg)
    have hm := mapOpt_isSome (endorseArcsAndCircles cat) _
      (fun sp hs => endorseArcsAndCircles_isSome cat sp (hsp sp hs))
    cases hmm : mapOpt (endorseArcsAndCircles cat)
        (spansOf ((endorseRects (contactsOf len rest)).2.map groupSpan)) with
    | none => simp [hmm] at hm
    | some rs => simp

/-- **The whole endorsement stage never panics**, for every set of cells and quoted texts. -/
theorem endorseAll_isSome (len : List Char → Nat) (cat : Catalogue) (cells : Span)
    (escaped : List (Cell × List Char)) : (endorseAll len cat cells escaped).isSome = true := by
  unfold endorseAll
  have hsp : ∀ s ∈ spansOf (cells.map fun cc => [cc]), s ≠ [] := by
    apply spansOf_ne_nil
    intro s hs
    simp only [List.mem_map] at hs
    obtain ⟨cc, _, rfl⟩ := hs
    simp
  have hm := mapOpt_isSome (spanEndorse len cat) _
    (fun s hs => spanEndorse_isSome len cat s (hsp s hs))
  simp only
  cases hmm : mapOpt (spanEndorse len cat) (spansOf (cells.map fun cc => [cc])) with
  | none => simp [hmm] at hm
  | some rs => simp

end Svgbob

import Svgbob.Proofs.Guard
import Svgbob.Proofs.MoveAll2
import Svgbob.Proofs.CircleFacts
import Svgbob.Model.Doc
import Mathlib.Tactic.Ring
/-!
# Everything built from the cells of a span lies inside the canvas

For a span whose cells have columns in `0..mx` and rows in `0..my`, every control point of every
fragment of every contact group, and of every rectangle endorsed from a group, lies in
`[0, (mx+2)·1000] × [0, (my+2)·2000]` (milli-units at unit scale): the canvas of C12.
-/
namespace Svgbob

variable (len : List Char → Nat)

/-- control points: the points of the fragment; for a cell text the corners of its first cell -/
def Frag.ctrl : Frag → List Pt
  | .cellText st _ => [st.origin, ⟨(st.x + 1) * 1000, (st.y + 1) * 2000⟩]
  | f => f.points

def Pt.InRange (lx hx ly hy : Int) (p : Pt) : Prop := lx ≤ p.x ∧ p.x ≤ hx ∧ ly ≤ p.y ∧ p.y ≤ hy

def Frag.InRange (lx hx ly hy : Int) (f : Frag) : Prop := ∀ p ∈ f.ctrl, p.InRange lx hx ly hy

/-! ## merging keeps fragments in range -/

theorem Pt.min_mem (a b : Pt) : Pt.min a b = a ∨ Pt.min a b = b := by
  unfold Pt.min; split <;> simp

theorem Pt.max_mem (a b : Pt) : Pt.max a b = a ∨ Pt.max a b = b := by
  unfold Pt.max; split <;> simp

theorem mkLine_inRange (lx hx ly hy : Int) (a b : Pt) (br : Bool)
    (ha : a.InRange lx hx ly hy) (hb : b.InRange lx hx ly hy) : (mkLine a b br).InRange lx hx ly hy := by
  unfold mkLine
  split <;> (intro p hp; simp only [Frag.ctrl, Frag.points, List.mem_cons, List.mem_nil_iff, or_false] at hp;
             rcases hp with rfl | rfl <;> assumption)

theorem Frag.merge_inRange (lx hx ly hy : Int) (a b m : Frag) (h : Frag.merge len a b = some m)
    (ha : a.InRange lx hx ly hy) (hb : b.InRange lx hx ly hy) : m.InRange lx hx ly hy := by
  cases a <;> cases b <;> simp only [Frag.merge] at h <;> try exact absurd h (by simp)
  · -- line + line
    rename_i s e br s' e' br'
    simp only [lineMerge] at h
    split at h <;> simp at h
    subst h
    have hs := ha s (by simp [Frag.ctrl, Frag.points])
    have he := ha e (by simp [Frag.ctrl, Frag.points])
    have hs' := hb s' (by simp [Frag.ctrl, Frag.points])
    have he' := hb e' (by simp [Frag.ctrl, Frag.points])
    apply mkLine_inRange
    · rcases Pt.min_mem s s' with h | h <;> rw [h] <;> assumption
    · rcases Pt.max_mem e e' with h | h <;> rw [h] <;> assumption
  · -- line + circle
    rename_i s e br c r fl
    have hs := ha s (by simp [Frag.ctrl, Frag.points])
    have he := ha e (by simp [Frag.ctrl, Frag.points])
    have h1 := hb ⟨c.x - r, c.y⟩ (by simp [Frag.ctrl, Frag.points])
    have h2 := hb ⟨c.x + r, c.y⟩ (by simp [Frag.ctrl, Frag.points])
    have h3 := hb ⟨c.x, c.y - r⟩ (by simp [Frag.ctrl, Frag.points])
    have h4 := hb ⟨c.x, c.y + r⟩ (by simp [Frag.ctrl, Frag.points])
    have hc : c.InRange lx hx ly hy := by
      simp only [Pt.InRange] at h1 h2 h3 h4 ⊢
      refine ⟨?_, ?_, ?_, ?_⟩ <;> omega
    simp only [lineMergeCircle] at h
    repeat' split at h
    all_goals first
      | (simp at h; done)
      | (simp at h; subst h; intro p hp
         simp only [Frag.ctrl, Frag.points, List.mem_cons, List.mem_nil_iff, or_false] at hp
         rcases hp with rfl | rfl <;> assumption)
  · -- circle + line
    rename_i c r fl s e br
    have hs := hb s (by simp [Frag.ctrl, Frag.points])
    have he := hb e (by simp [Frag.ctrl, Frag.points])
    have h1 := ha ⟨c.x - r, c.y⟩ (by simp [Frag.ctrl, Frag.points])
    have h2 := ha ⟨c.x + r, c.y⟩ (by simp [Frag.ctrl, Frag.points])
    have h3 := ha ⟨c.x, c.y - r⟩ (by simp [Frag.ctrl, Frag.points])
    have h4 := ha ⟨c.x, c.y + r⟩ (by simp [Frag.ctrl, Frag.points])
    have hc : c.InRange lx hx ly hy := by
      simp only [Pt.InRange] at h1 h2 h3 h4 ⊢
      refine ⟨?_, ?_, ?_, ?_⟩ <;> omega
    simp only [lineMergeCircle] at h
    repeat' split at h
    all_goals first
      | (simp at h; done)
      | (simp at h; subst h; intro p hp
         simp only [Frag.ctrl, Frag.points, List.mem_cons, List.mem_nil_iff, or_false] at hp
         rcases hp with rfl | rfl <;> assumption)
  · -- text + text: the merged text starts in one of the two first cells
    rename_i st c st' c'
    simp only [cellTextMerge] at h
    repeat' split at h
    all_goals first
      | (simp at h; done)
      | (simp at h; subst h; first | exact ha | exact hb)

/-! ## from the cell to the page -/

theorem ctrl_absPos (c : Cell) (f : Frag) :
    ∀ p ∈ (f.absPos c).ctrl, ∃ q ∈ f.ctrl, p = c.origin.add q := by
  cases f with
  | line s e b => intro p hp; simp only [Frag.absPos, Frag.ctrl, Frag.points, List.mem_cons, List.mem_nil_iff, or_false] at hp ⊢; rcases hp with rfl | rfl <;> simp
  | markerLine s e b sm em => intro p hp; simp only [Frag.absPos, Frag.ctrl, Frag.points, List.mem_cons, List.mem_nil_iff, or_false] at hp ⊢; rcases hp with rfl | rfl <;> simp
  | arc s e r m sw => intro p hp; simp only [Frag.absPos, Frag.ctrl, Frag.points, List.mem_cons, List.mem_nil_iff, or_false] at hp ⊢; rcases hp with rfl | rfl <;> simp
  | rect s e fl r b => intro p hp; simp only [Frag.absPos, Frag.ctrl, Frag.points, List.mem_cons, List.mem_nil_iff, or_false] at hp ⊢; rcases hp with rfl | rfl <;> simp
  | text st ct => intro p hp; simp only [Frag.absPos, Frag.ctrl, Frag.points, List.mem_cons, List.mem_nil_iff, or_false] at hp ⊢; subst hp; simp
  | polygon pts fl t =>
    intro p hp
    simp only [Frag.absPos, Frag.ctrl, Frag.points, List.mem_map] at hp ⊢
    obtain ⟨q, hq, rfl⟩ := hp
    exact ⟨q, hq, rfl⟩
  | circle ct r fl =>
    intro p hp
    simp only [Frag.absPos, Frag.ctrl, Frag.points, List.mem_cons, List.mem_nil_iff, or_false] at hp ⊢
    rcases hp with rfl | rfl | rfl | rfl
    · exact ⟨⟨ct.x - r, ct.y⟩, by simp, by simp only [Pt.add, Pt.mk.injEq, and_true, true_and]; omega⟩
    · exact ⟨⟨ct.x + r, ct.y⟩, by simp, by simp only [Pt.add, Pt.mk.injEq, and_true, true_and]; omega⟩
    · exact ⟨⟨ct.x, ct.y - r⟩, by simp, by simp only [Pt.add, Pt.mk.injEq, and_true, true_and]; omega⟩
    · exact ⟨⟨ct.x, ct.y + r⟩, by simp, by simp only [Pt.add, Pt.mk.injEq, and_true, true_and]; omega⟩
  | cellText st ct =>
    intro p hp
    simp only [Frag.absPos, Frag.ctrl, List.mem_cons, List.mem_nil_iff, or_false] at hp ⊢
    rcases hp with rfl | rfl
    · exact ⟨st.origin, by simp, by simp only [Pt.add, Cell.origin, Pt.mk.injEq]; constructor <;> ring⟩
    · exact ⟨⟨(st.x + 1) * 1000, (st.y + 1) * 2000⟩, by simp,
        by simp only [Pt.add, Cell.origin, Pt.mk.injEq]; constructor <;> ring⟩

/-- a fragment in range relative to its cell is in range on the page -/
theorem absPos_inRange (c : Cell) (f : Frag) (lx hx ly hy : Int) (h : f.InRange lx hx ly hy) :
    (f.absPos c).InRange (c.x * 1000 + lx) (c.x * 1000 + hx) (c.y * 2000 + ly) (c.y * 2000 + hy) := by
  intro p hp
  obtain ⟨q, hq, rfl⟩ := ctrl_absPos c f p hp
  have := h q hq
  simp only [Pt.InRange, Pt.add, Cell.origin] at this ⊢
  omega

theorem inRange_mono (f : Frag) {lx hx ly hy lx' hx' ly' hy' : Int} (h : f.InRange lx hx ly hy)
    (h1 : lx' ≤ lx) (h2 : hx ≤ hx') (h3 : ly' ≤ ly) (h4 : hy ≤ hy') : f.InRange lx' hx' ly' hy' := by
  intro p hp
  have := h p hp
  simp only [Pt.InRange] at this ⊢
  omega

/-! ## the fragments of one cell -/

/-- all cells of the span have columns in `0..mx` and rows in `0..my` -/
def SpanIn (mx my : Int) (s : Span) : Prop :=
  ∀ cc ∈ s, 0 ≤ cc.1.x ∧ cc.1.x ≤ mx ∧ 0 ≤ cc.1.y ∧ cc.1.y ≤ my

/-- like `rowGuarded`, over control points -/
def rowGuardedC (row : Cond × List Frag) : Bool :=
  let pts := row.2.flatMap Frag.ctrl
  (!(pts.any fun p => p.x < 0) || needsSide leftSide row.1) &&
  (!(pts.any fun p => p.y < 0) || needsSide topSide row.1) &&
  pts.all fun p => -1000 ≤ p.x && p.x ≤ 2000 && -2000 ≤ p.y && p.y ≤ 4000

/-- **decided over the regenerated ASCII table** -/
theorem asciiTable_guardedC : Gen.asciiTable.all (fun en => en.behavior.all rowGuardedC) = true := by
  decide +kernel

/-- glyphs never leave their own cell (control points) -/
theorem unicodeTable_insideC :
    Gen.unicodeTable.all (fun g => (g.2.flatMap Frag.ctrl).all fun p =>
      0 ≤ p.x && p.x ≤ 1000 && 0 ≤ p.y && p.y ≤ 2000) = true := by
  decide +kernel

theorem spanLookup_some_mem (s : Span) (c : Cell) (ch : Char) (h : spanLookup s c = some ch) :
    (c, ch) ∈ s := by
  unfold spanLookup at h
  cases hf : s.find? (·.1 == c) with
  | none => simp [hf] at h
  | some cc =>
    simp only [hf, Option.map_some, Option.some.injEq] at h
    have hm := List.mem_of_find?_eq_some hf
    have hp := List.find?_some hf
    simp only [beq_iff_eq] at hp
    rw [← hp, ← h]
    exact hm

theorem neighbours_empty_of_outside (mx my : Int) (s : Span) (hs : SpanIn mx my s) (c : Cell) (d : Dir)
    (hout : c.x + d.delta.1 < 0 ∨ c.y + d.delta.2 < 0) : neighbours len s c d = Entry.empty := by
  unfold neighbours
  cases hl : spanLookup s ⟨c.x + d.delta.1, c.y + d.delta.2⟩ with
  | none => rfl
  | some ch =>
    have := hs _ (spanLookup_some_mem s _ ch hl)
    simp only at this
    omega

theorem left_exists (mx my : Int) (s : Span) (hs : SpanIn mx my s) (c : Cell) (cond : Cond)
    (hev : cond.eval (neighbours len s c) = true) (hneed : needsSide leftSide cond = true) : 1 ≤ c.x := by
  by_contra hlt
  have hempty : ∀ d ∈ leftSide, neighbours len s c d = Entry.empty := by
    intro d hd
    apply neighbours_empty_of_outside len mx my s hs c d
    left
    simp only [leftSide, List.mem_cons, List.mem_nil_iff, or_false] at hd
    rcases hd with rfl | rfl | rfl <;> simp only [Dir.delta] <;> omega
  have := needsSide_sound leftSide cond _ hempty hneed
  rw [this] at hev
  exact absurd hev (by simp)

theorem top_exists (mx my : Int) (s : Span) (hs : SpanIn mx my s) (c : Cell) (cond : Cond)
    (hev : cond.eval (neighbours len s c) = true) (hneed : needsSide topSide cond = true) : 1 ≤ c.y := by
  by_contra hlt
  have hempty : ∀ d ∈ topSide, neighbours len s c d = Entry.empty := by
    intro d hd
    apply neighbours_empty_of_outside len mx my s hs c d
    right
    simp only [topSide, List.mem_cons, List.mem_nil_iff, or_false] at hd
    rcases hd with rfl | rfl | rfl <;> simp only [Dir.delta] <;> omega
  have := needsSide_sound topSide cond _ hempty hneed
  rw [this] at hev
  exact absurd hev (by simp)

/-- a guarded row that is taken at cell `c` gives fragments inside the canvas -/
theorem row_inCanvas (mx my : Int) (s : Span) (hs : SpanIn mx my s) (c : Cell)
    (hc : 0 ≤ c.x ∧ c.x ≤ mx ∧ 0 ≤ c.y ∧ c.y ≤ my) (row : Cond × List Frag)
    (hg : rowGuardedC row = true) (hev : row.1.eval (neighbours len s c) = true) :
    ∀ f ∈ row.2, (f.absPos c).InRange 0 ((mx + 2) * 1000) 0 ((my + 2) * 2000) := by
  simp only [rowGuardedC, Bool.and_eq_true, Bool.or_eq_true, Bool.not_eq_true', List.all_eq_true,
    decide_eq_true_eq] at hg
  obtain ⟨⟨hleft, htop⟩, hall⟩ := hg
  intro f hf p hp
  obtain ⟨q, hq, rfl⟩ := ctrl_absPos c f p hp
  have hqm : q ∈ row.2.flatMap Frag.ctrl := List.mem_flatMap.mpr ⟨f, hf, hq⟩
  have hb := hall q hqm
  have hx : 0 ≤ c.x * 1000 + q.x := by
    by_cases hneg : q.x < 0
    · have hany : (row.2.flatMap Frag.ctrl).any (fun p => decide (p.x < 0)) = true :=
        List.any_eq_true.mpr ⟨q, hqm, by simpa using hneg⟩
      rcases hleft with h0 | h1
      · rw [hany] at h0; exact absurd h0 (by simp)
      · have := left_exists len mx my s hs c row.1 hev h1
        omega
    · omega
  have hy : 0 ≤ c.y * 2000 + q.y := by
    by_cases hneg : q.y < 0
    · have hany : (row.2.flatMap Frag.ctrl).any (fun p => decide (p.y < 0)) = true :=
        List.any_eq_true.mpr ⟨q, hqm, by simpa using hneg⟩
      rcases htop with h0 | h1
      · rw [hany] at h0; exact absurd h0 (by simp)
      · have := top_exists len mx my s hs c row.1 hev h1
        omega
    · omega
  simp only [Pt.InRange, Pt.add, Cell.origin]
  omega

theorem unicodeFrags_inCell (ch : Char) (ufs : List Frag) (h : unicodeFrags len ch = some ufs) :
    ∀ f ∈ ufs, f.InRange 0 1000 0 2000 := by
  unfold unicodeFrags at h
  cases hu : Gen.unicodeTable.reverse.find? (·.1 == ch) with
  | none => simp [hu] at h
  | some g =>
    simp only [hu, Option.map_some, Option.some.injEq] at h
    subst h
    have hmem : g ∈ Gen.unicodeTable := by
      have := List.mem_of_find?_eq_some hu
      simpa using this
    have hall := List.all_eq_true.mp (List.all_eq_true.mp unicodeTable_insideC g hmem)
    intro f hf p hp
    have hf' := (sortBy_mem _ _ f).mp hf
    have := hall p (List.mem_flatMap.mpr ⟨f, hf', hp⟩)
    simp only [Bool.and_eq_true, decide_eq_true_eq] at this
    simp only [Pt.InRange]
    omega

theorem inCell_inCanvas (mx my : Int) (c : Cell) (hc : 0 ≤ c.x ∧ c.x ≤ mx ∧ 0 ≤ c.y ∧ c.y ≤ my)
    (f : Frag) (h : f.InRange 0 1000 0 2000) :
    (f.absPos c).InRange 0 ((mx + 2) * 1000) 0 ((my + 2) * 2000) := by
  apply inRange_mono _ (absPos_inRange c f _ _ _ _ h) <;> omega

/-- **every fragment of a cell lies inside the canvas** -/
theorem cellFragments_inCanvas (mx my : Int) (s : Span) (hs : SpanIn mx my s) (c : Cell) (ch : Char)
    (hc : 0 ≤ c.x ∧ c.x ≤ mx ∧ 0 ≤ c.y ∧ c.y ≤ my) :
    ∀ f ∈ cellFragments len s c ch, (f.absPos c).InRange 0 ((mx + 2) * 1000) 0 ((my + 2) * 2000) := by
  have htext : (Frag.cellText ⟨0, 0⟩ [ch]).InRange 0 1000 0 2000 := by
    intro p hp
    simp only [Frag.ctrl, Cell.origin, List.mem_cons, List.mem_nil_iff, or_false] at hp
    rcases hp with rfl | rfl <;> simp [Pt.InRange]
  unfold cellFragments
  cases he : entryOf len ch with
  | none =>
    intro f hf; simp at hf; subst hf
    exact inCell_inCanvas mx my c hc _ htext
  | some en =>
    simp only
    split
    · intro f hf
      have hf' := (sortBy_mem _ _ f).mp hf
      simp only [Entry.fragments, List.mem_flatMap] at hf'
      obtain ⟨row, hrow, hfr⟩ := hf'
      split at hfr
      · rename_i hev
        -- where does the entry come from?
        unfold entryOf at he
        cases ha : asciiEntry ch with
        | some e =>
          simp only [ha, Option.some.injEq] at he
          subst he
          have hmem : e ∈ Gen.asciiTable := by
            have := List.mem_of_find?_eq_some ha
            simpa using this
          have hg := List.all_eq_true.mp (List.all_eq_true.mp asciiTable_guardedC e hmem) row hrow
          exact row_inCanvas len mx my s hs c hc row hg hev f hfr
        | none =>
          simp only [ha] at he
          cases hu : unicodeFrags len ch with
          | none => simp [hu] at he
          | some ufs =>
            simp only [hu, Option.map_some, Option.some.injEq] at he
            subst he
            simp only [Entry.ofGlyph, List.mem_singleton] at hrow
            subst hrow
            exact inCell_inCanvas mx my c hc _ (unicodeFrags_inCell len ch ufs hu f hfr)
      · simp at hfr
    · cases hu : unicodeFrags len ch with
      | none =>
        intro f hf; simp at hf; subst hf
        exact inCell_inCanvas mx my c hc _ htext
      | some ufs =>
        intro f hf
        have hf' := (sortBy_mem _ _ f).mp hf
        unfold fragMergeRecursive at hf'
        have := G.mergeRec_forall (Frag.merge len) (fun f => f.InRange 0 1000 0 2000)
          (fun g it m hm hg hi => Frag.merge_inRange len 0 1000 0 2000 g it m hm hg hi) _ _
          (unicodeFrags_inCell len ch ufs hu) f hf'
        exact inCell_inCanvas mx my c hc _ this

/-! ## buffer, merge, contact groups -/

theorem FragBuf.insert_forall2 (P : Cell → FragSpan → Prop) (c : Cell) (fs : List FragSpan) (fb : FragBuf)
    (hfs : ∀ f ∈ fs, P c f) (hfb : ∀ e ∈ fb, ∀ f ∈ e.2, P e.1 f) :
    ∀ e ∈ FragBuf.insert len c fs fb, ∀ f ∈ e.2, P e.1 f := by
  induction fb with
  | nil =>
    intro e he f hf
    simp only [FragBuf.insert, List.mem_singleton] at he
    subst he; exact hfs f hf
  | cons hd rest ih =>
    obtain ⟨c', fs'⟩ := hd
    intro e he f hf
    simp only [FragBuf.insert] at he
    split at he
    · rename_i heq
      have hcc : c = c' := by simpa using heq
      rcases List.mem_cons.mp he with rfl | he
      · simp only at hf
        have hmem := (sortBy_mem _ _ f).mp hf
        rcases List.mem_append.mp hmem with hm | hm
        · exact hfb (c', fs') (by simp) f hm
        · have := hfs f (List.mem_filter.mp hm).1
          rw [hcc] at this; exact this
      · exact hfb e (List.mem_cons_of_mem _ he) f hf
    · split at he
      · rcases List.mem_cons.mp he with rfl | he
        · exact hfs f hf
        · exact hfb e he f hf
      · rcases List.mem_cons.mp he with rfl | he
        · exact hfb _ (by simp) f hf
        · exact ih (fun e' he' => hfb e' (List.mem_cons_of_mem _ he')) e he f hf

theorem fragmentBuffer_inCanvas (mx my : Int) (s perm : Span) (hs : SpanIn mx my s) (hp : SpanIn mx my perm) :
    ∀ e ∈ fragmentBuffer len s perm, ∀ f ∈ e.2,
      (f.frag.absPos e.1).InRange 0 ((mx + 2) * 1000) 0 ((my + 2) * 2000) := by
  unfold fragmentBuffer
  suffices h : ∀ (acc : FragBuf),
      (∀ e ∈ acc, ∀ f ∈ e.2, (f.frag.absPos e.1).InRange 0 ((mx + 2) * 1000) 0 ((my + 2) * 2000)) →
      ∀ e ∈ perm.foldl (fun fb cc =>
        FragBuf.insert len cc.1 ((cellFragments len s cc.1 cc.2).map fun f => ⟨[cc], f⟩) fb) acc,
        ∀ f ∈ e.2, (f.frag.absPos e.1).InRange 0 ((mx + 2) * 1000) 0 ((my + 2) * 2000) from
    h [] (by simp)
  induction perm with
  | nil => intro acc h; simpa using h
  | cons cc rest ih =>
    intro acc hacc
    simp only [List.foldl_cons]
    apply ih (fun x hx => hp x (List.mem_cons_of_mem _ hx))
    apply FragBuf.insert_forall2 len
      (fun c f => (f.frag.absPos c).InRange 0 ((mx + 2) * 1000) 0 ((my + 2) * 2000)) _ _ _ _ hacc
    intro f hf
    simp only [List.mem_map] at hf
    obtain ⟨g, hg, rfl⟩ := hf
    exact cellFragments_inCanvas len mx my s hs cc.1 cc.2 (hp cc (by simp)) g hg

/-- **every fragment of every contact group of a span lies inside the canvas** -/
theorem contactsOf_inCanvas (mx my : Int) (s : Span) (hs : SpanIn mx my s) :
    ∀ g ∈ contactsOf len s, ∀ f ∈ g, f.frag.InRange 0 ((mx + 2) * 1000) 0 ((my + 2) * 2000) := by
  have hfrags : ∀ f ∈ absFragmentSpans (fragmentBuffer len s s),
      f.frag.InRange 0 ((mx + 2) * 1000) 0 ((my + 2) * 2000) := by
    intro f hf
    simp only [absFragmentSpans, List.mem_flatMap, List.mem_map] at hf
    obtain ⟨e, he, g, hg, rfl⟩ := hf
    exact fragmentBuffer_inCanvas len mx my s s hs hs e he g hg
  have hmerged : ∀ f ∈ G.mergeRec (FragSpan.merge len)
      ((absFragmentSpans (fragmentBuffer len s s)).length + 1)
      (absFragmentSpans (fragmentBuffer len s s)),
      f.frag.InRange 0 ((mx + 2) * 1000) 0 ((my + 2) * 2000) := by
    apply G.mergeRec_forall (FragSpan.merge len)
      (fun f => f.frag.InRange 0 ((mx + 2) * 1000) 0 ((my + 2) * 2000)) _ _ _ hfrags
    intro g it m hm hg hi
    simp only [FragSpan.merge] at hm
    split at hm
    · rename_i fm hfm
      simp only [Option.some.injEq] at hm
      subst hm
      exact Frag.merge_inRange len _ _ _ _ _ _ _ hfm hg hi
    · simp at hm
  unfold contactsOf
  apply G.mergeRec_forall (contactsMerge len)
    (fun g => ∀ f ∈ g, f.frag.InRange 0 ((mx + 2) * 1000) 0 ((my + 2) * 2000))
  · intro g it m hm hg hi
    simp only [contactsMerge] at hm
    split at hm <;> simp at hm
    subst hm
    intro f hf
    rcases List.mem_append.mp hf with hf | hf
    · exact hg f hf
    · exact hi f hf
  · intro g hg
    simp only [List.mem_map] at hg
    obtain ⟨f, hf, rfl⟩ := hg
    intro f' hf'
    have : f' = f := by simpa using hf'
    rw [this]; exact hmerged f hf

/-! ## rectangles -/

theorem foldl_min_mem (l : List Int) (a : Int) :
    l.foldl (fun a b => if b < a then b else a) a = a ∨ l.foldl (fun a b => if b < a then b else a) a ∈ l := by
  induction l generalizing a with
  | nil => left; rfl
  | cons x xs ih =>
    simp only [List.foldl_cons]
    split
    · rcases ih x with h | h
      · right; rw [h]; simp
      · right; exact List.mem_cons_of_mem _ h
    · rcases ih a with h | h
      · left; exact h
      · right; exact List.mem_cons_of_mem _ h

theorem foldl_max_mem (l : List Int) (a : Int) :
    l.foldl (fun a b => if b > a then b else a) a = a ∨ l.foldl (fun a b => if b > a then b else a) a ∈ l := by
  induction l generalizing a with
  | nil => left; rfl
  | cons x xs ih =>
    simp only [List.foldl_cons]
    split
    · rcases ih x with h | h
      · right; rw [h]; simp
      · right; exact List.mem_cons_of_mem _ h
    · rcases ih a with h | h
      · left; exact h
      · right; exact List.mem_cons_of_mem _ h

theorem listMin_mem_or (l : List Int) (d : Int) : listMin l d = d ∧ l = [] ∨ listMin l d ∈ l := by
  cases l with
  | nil => left; exact ⟨rfl, rfl⟩
  | cons x xs =>
    right
    simp only [listMin, List.headD_cons, List.foldl_cons]
    have h0 : (if x < x then x else x) = x := by simp
    rw [h0]
    rcases foldl_min_mem xs x with h | h
    · rw [h]; simp
    · exact List.mem_cons_of_mem _ h

theorem listMax_mem_or (l : List Int) (d : Int) : listMax l d = d ∧ l = [] ∨ listMax l d ∈ l := by
  cases l with
  | nil => left; exact ⟨rfl, rfl⟩
  | cons x xs =>
    right
    simp only [listMax, List.headD_cons, List.foldl_cons]
    have h0 : (if x > x then x else x) = x := by simp
    rw [h0]
    rcases foldl_max_mem xs x with h | h
    · rw [h]; simp
    · exact List.mem_cons_of_mem _ h

/-- both corners of the bounding box of an in-range fragment are in range -/
theorem bounds_inRange (W H : Int) (hW : 0 ≤ W) (hH : 0 ≤ H) (f : Frag) (h : f.InRange 0 W 0 H) :
    (f.bounds (fun _ => 0) 1000).1.InRange 0 W 0 H ∧ (f.bounds (fun _ => 0) 1000).2.InRange 0 W 0 H := by
  cases f with
  | line s e b =>
    have hs := h s (by simp [Frag.ctrl, Frag.points]); have he := h e (by simp [Frag.ctrl, Frag.points])
    simp only [Pt.InRange, Frag.bounds] at *; omega
  | markerLine s e b sm em =>
    have hs := h s (by simp [Frag.ctrl, Frag.points]); have he := h e (by simp [Frag.ctrl, Frag.points])
    simp only [Pt.InRange, Frag.bounds] at *; omega
  | arc s e r m sw =>
    have hs := h s (by simp [Frag.ctrl, Frag.points]); have he := h e (by simp [Frag.ctrl, Frag.points])
    simp only [Pt.InRange, Frag.bounds] at *; omega
  | rect s e fl r b =>
    have hs := h s (by simp [Frag.ctrl, Frag.points]); have he := h e (by simp [Frag.ctrl, Frag.points])
    simp only [Pt.InRange, Frag.bounds] at *; omega
  | circle c r fl =>
    have h1 := h ⟨c.x - r, c.y⟩ (by simp [Frag.ctrl, Frag.points])
    have h2 := h ⟨c.x + r, c.y⟩ (by simp [Frag.ctrl, Frag.points])
    have h3 := h ⟨c.x, c.y - r⟩ (by simp [Frag.ctrl, Frag.points])
    have h4 := h ⟨c.x, c.y + r⟩ (by simp [Frag.ctrl, Frag.points])
    simp only [Pt.InRange, Frag.bounds] at *; omega
  | text st c =>
    have hs := h st (by simp [Frag.ctrl, Frag.points])
    simp only [Pt.InRange, Frag.bounds] at *
    simp only [Int.natCast_zero, Int.zero_mul, Int.add_zero]
    omega
  | cellText st c =>
    have h1 := h st.origin (by simp [Frag.ctrl])
    have h2 := h ⟨(st.x + 1) * 1000, (st.y + 1) * 2000⟩ (by simp [Frag.ctrl])
    simp only [Pt.InRange, Frag.bounds, Cell.origin] at *
    simp only [Int.natCast_zero, Int.add_zero]
    omega
  | polygon pts fl t =>
    have hx : ∀ v ∈ pts.map (·.x), 0 ≤ v ∧ v ≤ W := by
      intro v hv
      obtain ⟨p, hp, rfl⟩ := List.mem_map.mp hv
      have := h p (by simpa [Frag.ctrl, Frag.points] using hp)
      simp only [Pt.InRange] at this; omega
    have hy : ∀ v ∈ pts.map (·.y), 0 ≤ v ∧ v ≤ H := by
      intro v hv
      obtain ⟨p, hp, rfl⟩ := List.mem_map.mp hv
      have := h p (by simpa [Frag.ctrl, Frag.points] using hp)
      simp only [Pt.InRange] at this; omega
    simp only [Pt.InRange, Frag.bounds]
    have a1 : 0 ≤ listMin (pts.map (·.x)) 0 ∧ listMin (pts.map (·.x)) 0 ≤ W := by
      rcases listMin_mem_or (pts.map (·.x)) 0 with ⟨h0, _⟩ | hm
      · rw [h0]; omega
      · exact hx _ hm
    have a2 : 0 ≤ listMin (pts.map (·.y)) 0 ∧ listMin (pts.map (·.y)) 0 ≤ H := by
      rcases listMin_mem_or (pts.map (·.y)) 0 with ⟨h0, _⟩ | hm
      · rw [h0]; omega
      · exact hy _ hm
    have a3 : 0 ≤ listMax (pts.map (·.x)) 0 ∧ listMax (pts.map (·.x)) 0 ≤ W := by
      rcases listMax_mem_or (pts.map (·.x)) 0 with ⟨h0, _⟩ | hm
      · rw [h0]; omega
      · exact hx _ hm
    have a4 : 0 ≤ listMax (pts.map (·.y)) 0 ∧ listMax (pts.map (·.y)) 0 ≤ H := by
      rcases listMax_mem_or (pts.map (·.y)) 0 with ⟨h0, _⟩ | hm
      · rw [h0]; omega
      · exact hy _ hm
    omega

theorem ptFold_mem (g : Pt → Pt → Bool) (l : List Pt) (a : Pt) :
    l.foldl (fun a b => if g b a then b else a) a = a ∨ l.foldl (fun a b => if g b a then b else a) a ∈ l := by
  induction l generalizing a with
  | nil => left; rfl
  | cons x xs ih =>
    simp only [List.foldl_cons]
    split
    · rcases ih x with h | h
      · right; rw [h]; simp
      · right; exact List.mem_cons_of_mem _ h
    · rcases ih a with h | h
      · left; exact h
      · right; exact List.mem_cons_of_mem _ h

theorem ptListMin_mem (l : List Pt) (p : Pt) (h : ptListMin l = some p) : p ∈ l := by
  cases l with
  | nil => simp [ptListMin] at h
  | cons x xs =>
    simp only [ptListMin, Option.some.injEq] at h
    rcases ptFold_mem (fun b a => b.cmp a == .lt) xs x with h' | h'
    · rw [h'] at h; rw [← h]; simp
    · rw [h] at h'; exact List.mem_cons_of_mem _ h'

theorem ptListMax_mem (l : List Pt) (p : Pt) (h : ptListMax l = some p) : p ∈ l := by
  cases l with
  | nil => simp [ptListMax] at h
  | cons x xs =>
    simp only [ptListMax, Option.some.injEq] at h
    rcases ptFold_mem (fun b a => b.cmp a != .lt) xs x with h' | h'
    · rw [h'] at h; rw [← h]; simp
    · rw [h] at h'; exact List.mem_cons_of_mem _ h'

theorem boundsAllPoints_inRange (W H : Int) (hW : 0 ≤ W) (hH : 0 ≤ H) (frags : List Frag)
    (h : ∀ f ∈ frags, f.InRange 0 W 0 H) : ∀ p ∈ boundsAllPoints frags, p.InRange 0 W 0 H := by
  intro p hp
  simp only [boundsAllPoints, List.mem_flatMap] at hp
  obtain ⟨f, hf, hpf⟩ := hp
  have := bounds_inRange W H hW hH f (h f hf)
  simp only [List.mem_cons, List.mem_nil_iff, or_false] at hpf
  rcases hpf with rfl | rfl
  · exact this.1
  · exact this.2

theorem mkRect_inRange (W H : Int) (a b : Pt) (fl br : Bool) (r : Option Int)
    (ha : a.InRange 0 W 0 H) (hb : b.InRange 0 W 0 H) : (mkRect a b fl br r).InRange 0 W 0 H := by
  unfold mkRect
  split <;> (intro p hp; simp only [Frag.ctrl, Frag.points, List.mem_cons, List.mem_nil_iff, or_false] at hp;
             rcases hp with rfl | rfl <;> assumption)

/-- **a rectangle endorsed from in-canvas fragments lies inside the canvas** -/
theorem contactsEndorseRect_inRange (W H : Int) (hW : 0 ≤ W) (hH : 0 ≤ H) (frags : List Frag) (r : Frag)
    (h : ∀ f ∈ frags, f.InRange 0 W 0 H) (hr : contactsEndorseRect frags = some r) :
    r.InRange 0 W 0 H := by
  have hpts := boundsAllPoints_inRange W H hW hH frags h
  unfold contactsEndorseRect at hr
  cases h1 : endorseRect frags with
  | some r1 =>
    simp only [h1, Option.some.injEq] at hr
    subst hr
    unfold endorseRect at h1
    split at h1
    · cases hmn : ptListMin (boundsAllPoints frags) with
      | none => simp [hmn] at h1
      | some mn =>
        cases hmx : ptListMax (boundsAllPoints frags) with
        | none => simp [hmn, hmx] at h1
        | some mx =>
          simp only [hmn, hmx, Option.some.injEq] at h1
          subst h1
          exact mkRect_inRange W H _ _ _ _ _ (hpts _ (ptListMin_mem _ _ hmn)) (hpts _ (ptListMax_mem _ _ hmx))
    · simp at h1
  | none =>
    simp only [h1] at hr
    unfold endorseRoundedRect at hr
    split at hr
    · cases hmn : ptListMin (boundsAllPoints frags) with
      | none => simp [hmn] at hr
      | some mn =>
        cases hmx : ptListMax (boundsAllPoints frags) with
        | none => simp [hmn, hmx] at hr
        | some mx =>
          simp only [hmn, hmx, Option.some.injEq] at hr
          subst hr
          exact mkRect_inRange W H _ _ _ _ _ (hpts _ (ptListMin_mem _ _ hmn)) (hpts _ (ptListMax_mem _ _ hmx))
    · simp at hr

/-! ## the catalogue match: leftovers are cells of the span, a matched circle lies inside the canvas -/

theorem matchSpan_rest_subset (cat search rest : Span) (h : matchSpan cat search = some rest) :
    ∀ cc ∈ rest, cc ∈ search := by
  unfold matchSpan at h
  simp only at h
  split at h
  · simp only [Option.some.injEq] at h
    subst h
    intro cc hcc
    simp only [List.mem_filterMap] at hcc
    obtain ⟨p, hp, hpc⟩ := hcc
    split at hpc
    · simp at hpc
    · simp only [Option.some.injEq] at hpc
      subst hpc
      exact (List.of_mem_zip hp).1
  · simp at h

theorem findMatch_some {α : Type} (table : List (α × Span)) (search : Span) (a : α) (rest : Span)
    (h : findMatch table search = some (a, rest)) :
    ∃ e ∈ table, e.1 = a ∧ matchSpan e.2 search = some rest := by
  unfold findMatch at h
  obtain ⟨e, he, hm⟩ := List.exists_of_findSome?_eq_some h
  refine ⟨e, by simpa using he, ?_⟩
  cases hms : matchSpan e.2 search with
  | none => simp [hms] at hm
  | some r =>
    simp only [hms, Option.some.injEq, Prod.mk.injEq] at hm
    exact ⟨hm.1, by rw [hm.2]⟩

/-- the leftover of the catalogue endorsement consists of cells of the span -/
theorem endorseArcsAndCircles_rest_subset (cat : Catalogue) (s : Span) (acc : List FragSpan) (rest : Span)
    (h : endorseArcsAndCircles cat s = some (acc, rest)) : ∀ cc ∈ rest, cc ∈ s := by
  unfold endorseArcsAndCircles at h
  cases hb : s.bounds with
  | none => simp [hb] at h
  | some b =>
    obtain ⟨tl, br⟩ := b
    simp only [hb] at h
    cases h1 : findMatch cat.circles s with
    | some r =>
      obtain ⟨f, rest'⟩ := r
      simp only [h1, Option.some.injEq, Prod.mk.injEq] at h
      obtain ⟨e, _, _, hm⟩ := findMatch_some _ _ _ _ h1
      rw [← h.2]; exact matchSpan_rest_subset _ _ _ hm
    | none =>
      simp only [h1] at h
      cases h2 : findMatch (cat.threeQuarters.map (·.2)) s with
      | some r =>
        obtain ⟨f, rest'⟩ := r
        simp only [h2, Option.some.injEq, Prod.mk.injEq] at h
        obtain ⟨e, _, _, hm⟩ := findMatch_some _ _ _ _ h2
        rw [← h.2]; exact matchSpan_rest_subset _ _ _ hm
      | none =>
        simp only [h2] at h
        cases h3 : findMatch (cat.halves.map (·.2)) s with
        | some r =>
          obtain ⟨f, rest'⟩ := r
          simp only [h3, Option.some.injEq, Prod.mk.injEq] at h
          obtain ⟨e, _, _, hm⟩ := findMatch_some _ _ _ _ h3
          rw [← h.2]; exact matchSpan_rest_subset _ _ _ hm
        | none =>
          simp only [h3] at h
          cases h4 : findMatch (cat.quarters.map (·.2)) s with
          | some r =>
            obtain ⟨f, rest'⟩ := r
            simp only [h4, Option.some.injEq, Prod.mk.injEq] at h
            obtain ⟨e, _, _, hm⟩ := findMatch_some _ _ _ _ h4
            rw [← h.2]; exact matchSpan_rest_subset _ _ _ hm
          | none =>
            simp only [h4, Option.some.injEq, Prod.mk.injEq] at h
            rw [← h.2]; exact fun cc hcc => hcc

theorem SpanIn.subset {mx my : Int} {s t : Span} (hs : SpanIn mx my s) (h : ∀ cc ∈ t, cc ∈ s) : SpanIn mx my t :=
  fun cc hcc => hs cc (h cc hcc)

/-- the bottom-right corner of the bounds is attained, coordinate by coordinate -/
theorem Span.bounds_attained (s : Span) (tl br : Cell) (h : s.bounds = some (tl, br)) :
    (∃ cc ∈ s, cc.1.x = br.x) ∧ (∃ cc ∈ s, cc.1.y = br.y) ∧
    (∃ cc ∈ s, cc.1.x = tl.x) ∧ (∃ cc ∈ s, cc.1.y = tl.y) := by
  cases s with
  | nil => simp [Span.bounds] at h
  | cons c cs =>
    simp only [Span.bounds, Option.some.injEq, Prod.mk.injEq] at h
    obtain ⟨htl, hbr⟩ := h
    have mem_of (f : Cell × Char → Int) (v : Int) (hv : v ∈ (c :: cs).map f) : ∃ cc ∈ c :: cs, f cc = v := by
      obtain ⟨cc, hcc, rfl⟩ := List.mem_map.mp hv
      exact ⟨cc, hcc, rfl⟩
    refine ⟨?_, ?_, ?_, ?_⟩
    · rcases listMax_mem_or ((c :: cs).map (·.1.x)) 0 with ⟨_, h0⟩ | hm
      · simp at h0
      · obtain ⟨cc, hcc, he⟩ := mem_of (·.1.x) _ hm
        exact ⟨cc, hcc, by rw [he, ← hbr]⟩
    · rcases listMax_mem_or ((c :: cs).map (·.1.y)) 0 with ⟨_, h0⟩ | hm
      · simp at h0
      · obtain ⟨cc, hcc, he⟩ := mem_of (·.1.y) _ hm
        exact ⟨cc, hcc, by rw [he, ← hbr]⟩
    · rcases listMin_mem_or ((c :: cs).map (·.1.x)) 0 with ⟨_, h0⟩ | hm
      · simp at h0
      · obtain ⟨cc, hcc, he⟩ := mem_of (·.1.x) _ hm
        exact ⟨cc, hcc, by rw [he, ← htl]⟩
    · rcases listMin_mem_or ((c :: cs).map (·.1.y)) 0 with ⟨_, h0⟩ | hm
      · simp at h0
      · obtain ⟨cc, hcc, he⟩ := mem_of (·.1.y) _ hm
        exact ⟨cc, hcc, by rw [he, ← htl]⟩

/-- a cell of the localized span is a cell of the span, offset by the top-left corner -/
theorem mem_localize (s : Span) (tl br : Cell) (h : s.bounds = some (tl, br)) (lc : Cell × Char)
    (hl : lc ∈ s.localize) : ∃ cc ∈ s, lc.1.x = cc.1.x - tl.x ∧ lc.1.y = cc.1.y - tl.y := by
  unfold Span.localize at hl
  simp only [h, List.mem_map] at hl
  obtain ⟨cc, hcc, rfl⟩ := hl
  exact ⟨cc, hcc, rfl, rfl⟩

theorem foldl_max_ge (l : List Int) (a : Int) :
    a ≤ l.foldl (fun a b => if b > a then b else a) a ∧
    ∀ x ∈ l, x ≤ l.foldl (fun a b => if b > a then b else a) a := by
  induction l generalizing a with
  | nil => simp
  | cons y ys ih =>
    simp only [List.foldl_cons]
    split
    · rename_i hgt
      obtain ⟨h1, h2⟩ := ih y
      refine ⟨by omega, ?_⟩
      intro x hx
      rcases List.mem_cons.mp hx with rfl | hx
      · exact h1
      · exact h2 x hx
    · rename_i hle
      obtain ⟨h1, h2⟩ := ih a
      refine ⟨h1, ?_⟩
      intro x hx
      rcases List.mem_cons.mp hx with rfl | hx
      · omega
      · exact h2 x hx

theorem le_listMax (l : List Int) (d x : Int) (hx : x ∈ l) : x ≤ listMax l d := by
  cases l with
  | nil => simp at hx
  | cons y ys =>
    simp only [listMax, List.headD_cons, List.foldl_cons]
    have h0 : (if y > y then y else y) = y := by simp
    rw [h0]
    obtain ⟨h1, h2⟩ := foldl_max_ge ys y
    rcases List.mem_cons.mp hx with rfl | hx
    · exact h1
    · exact h2 x hx

theorem mem_zip_right {α β : Type} (l1 : List α) (l2 : List β) (h : l1.length = l2.length) (b : β)
    (hb : b ∈ l2) : ∃ a, (a, b) ∈ l1.zip l2 := by
  induction l2 generalizing l1 with
  | nil => simp at hb
  | cons y ys ih =>
    cases l1 with
    | nil => simp at h
    | cons x xs =>
      rcases List.mem_cons.mp hb with rfl | hb
      · exact ⟨x, by simp⟩
      · obtain ⟨a, ha⟩ := ih xs (by simpa using h) hb
        exact ⟨a, by simp [ha]⟩

/-- the radius rule makes the radius non-negative -/
theorem radius_nonneg (row : CircleArtRow) (ci : CircleInfo) (h : circleRadiusRule row ci = true) :
    0 ≤ ci.radius := by
  unfold circleRadiusRule at h
  cases hcb : ci.span.bounds with
  | none => simp [hcb] at h
  | some cb =>
    obtain ⟨tl, br⟩ := cb
    obtain ⟨_, _, ⟨tx, htx, htxe⟩, _⟩ := Span.bounds_attained ci.span tl br hcb
    have hbr : tx.1.x ≤ br.x := by
      cases hs : ci.span with
      | nil => rw [hs] at htx; simp at htx
      | cons c cs =>
        rw [hs] at hcb htx
        simp only [Span.bounds, Option.some.injEq, Prod.mk.injEq] at hcb
        rw [← hcb.2]
        exact le_listMax _ 0 _ (List.mem_map.mpr ⟨tx, htx, rfl⟩)
    simp only [hcb, Bool.and_eq_true, beq_iff_eq] at h
    obtain ⟨⟨htl0, _⟩, hrule⟩ := h
    cases hedge : row.edge <;> simp only [hedge, Bool.and_eq_true, beq_iff_eq] at hrule <;> omega

/-- **a catalogue circle matched in a span lies inside the canvas of the span** -/
theorem matched_circle_inCanvas (mx my : Int) (s : Span) (hs : SpanIn mx my s) (tl br : Cell)
    (hb : s.bounds = some (tl, br)) (ci : CircleInfo) (hin : circleInside ci = true)
    (hr : 0 ≤ ci.radius) (rest : Span)
    (hm : matchSpan ci.span s = some rest) :
    (Frag.absPos tl (.circle ci.center ci.radius false)).InRange 0 ((mx + 2) * 1000) 0 ((my + 2) * 2000) := by
  -- the drawing's own extent
  unfold circleInside at hin
  cases hcb : ci.span.bounds with
  | none => simp [hcb] at hin
  | some cb =>
    obtain ⟨ctl, cbr⟩ := cb
    simp only [hcb, Bool.and_eq_true, decide_eq_true_eq] at hin
    obtain ⟨⟨⟨h1, h2⟩, h3⟩, h4⟩ := hin
    obtain ⟨⟨cx, hcx, hcxe⟩, ⟨cy, hcy, hcye⟩, _, _⟩ := Span.bounds_attained ci.span ctl cbr hcb
    -- every cell of the drawing occurs in the localized span
    unfold matchSpan at hm
    simp only at hm
    split at hm
    · rename_i hall
      have hall' := List.all_eq_true.mp hall
      have hxin := hall' cx hcx
      have hyin := hall' cy hcy
      simp only [List.contains_iff_mem] at hxin hyin
      obtain ⟨sx, hsx, hsxe, _⟩ := mem_localize s tl br hb cx hxin
      obtain ⟨sy, hsy, _, hsye⟩ := mem_localize s tl br hb cy hyin
      have bx := hs sx hsx
      have by' := hs sy hsy
      obtain ⟨_, _, ⟨tx, htx, htxe⟩, ⟨ty, hty, htye⟩⟩ := Span.bounds_attained s tl br hb
      have btx := hs tx htx
      have bty := hs ty hty
      intro p hp
      simp only [Frag.absPos, Frag.ctrl, Frag.points, Pt.add, Cell.origin, List.mem_cons, List.mem_nil_iff,
        or_false] at hp
      simp only [Pt.InRange]
      rcases hp with rfl | rfl | rfl | rfl <;> simp only <;> omega
    · simp at hm

/-! ## the rectangle stage of a span -/

theorem endorseRects_inCanvas (W H : Int) (hW : 0 ≤ W) (hH : 0 ≤ H) (groups : List (List FragSpan))
    (h : ∀ g ∈ groups, ∀ f ∈ g, f.frag.InRange 0 W 0 H) :
    (∀ f ∈ (endorseRects groups).1, f.frag.InRange 0 W 0 H) ∧
    (∀ g ∈ (endorseRects groups).2, ∀ f ∈ g, f.frag.InRange 0 W 0 H) := by
  unfold endorseRects
  suffices H' : ∀ (acc : List FragSpan × List (List FragSpan)),
      (∀ f ∈ acc.1, f.frag.InRange 0 W 0 H) → (∀ g ∈ acc.2, ∀ f ∈ g, f.frag.InRange 0 W 0 H) →
      (∀ f ∈ (groups.foldl (fun acc g =>
        match contactsEndorseRect (g.map (·.frag)) with
        | some r => (acc.1 ++ [⟨groupSpan g, r⟩], acc.2)
        | none => (acc.1, acc.2 ++ [g])) acc).1, f.frag.InRange 0 W 0 H) ∧
      (∀ g ∈ (groups.foldl (fun acc g =>
        match contactsEndorseRect (g.map (·.frag)) with
        | some r => (acc.1 ++ [⟨groupSpan g, r⟩], acc.2)
        | none => (acc.1, acc.2 ++ [g])) acc).2, ∀ f ∈ g, f.frag.InRange 0 W 0 H) from
    H' ([], []) (by simp) (by simp)
  induction groups with
  | nil => intro acc h1 h2; exact ⟨h1, h2⟩
  | cons g gs ih =>
    intro acc h1 h2
    simp only [List.foldl_cons]
    apply ih (fun g' hg' => h g' (List.mem_cons_of_mem _ hg'))
    · cases hc : contactsEndorseRect (g.map (·.frag)) with
      | none => exact h1
      | some r =>
        intro f hf
        rcases List.mem_append.mp hf with hf | hf
        · exact h1 f hf
        · simp only [List.mem_singleton] at hf
          subst hf
          apply contactsEndorseRect_inRange W H hW hH _ r _ hc
          intro f' hf'
          obtain ⟨fs, hfs, rfl⟩ := List.mem_map.mp hf'
          exact h g (by simp) fs hfs
    · cases hc : contactsEndorseRect (g.map (·.frag)) with
      | some r => exact h2
      | none =>
        intro g' hg'
        rcases List.mem_append.mp hg' with hg' | hg'
        · exact h2 g' hg'
        · simp only [List.mem_singleton] at hg'
          subst hg'
          exact h g' (by simp)

/-- **lines, texts, markers, polygons and rectangles of a span lie inside the canvas**: for a span
with cells in columns `0..mx` and rows `0..my`, after the catalogue has taken its circle or arc,
every rectangle endorsed from the leftover cells and every fragment of every remaining contact
group has all its control points in `[0, (mx+2)·1000] × [0, (my+2)·2000]` -/
theorem span_shapes_inCanvas (cat : Catalogue) (mx my : Int) (hmx : 0 ≤ mx) (hmy : 0 ≤ my) (s : Span)
    (hs : SpanIn mx my s) (acc : List FragSpan) (rest : Span)
    (h : endorseArcsAndCircles cat s = some (acc, rest)) :
    (∀ f ∈ (endorseRects (contactsOf len rest)).1,
      f.frag.InRange 0 ((mx + 2) * 1000) 0 ((my + 2) * 2000)) ∧
    (∀ g ∈ (endorseRects (contactsOf len rest)).2, ∀ f ∈ g,
      f.frag.InRange 0 ((mx + 2) * 1000) 0 ((my + 2) * 2000)) := by
  have hrest : SpanIn mx my rest := hs.subset (endorseArcsAndCircles_rest_subset cat s acc rest h)
  exact endorseRects_inCanvas _ _ (by omega) (by omega) _ (contactsOf_inCanvas len mx my rest hrest)

/-! ## scaling: what is inside the unit canvas is inside the scaled canvas -/

theorem mul_le_mul_nonneg (a b k : Int) (h : a ≤ b) (hk : 0 ≤ k) : a * k ≤ b * k :=
  Int.mul_le_mul_of_nonneg_right h hk

/-- **the scaled fragment lies inside the scaled canvas**: control points inside
`[0, W] × [0, H]` at unit scale are inside `[0, W·k] × [0, H·k]` after `Fragment::scale` by `k ≥ 0`
(a cell text becomes a text anchored inside its first cell) -/
theorem scale_inRange (W H k : Int) (hk : 0 ≤ k) (f : Frag) (h : f.InRange 0 W 0 H) :
    (f.scale k).InRange 0 (W * k) 0 (H * k) := by
  have key : ∀ p : Pt, p.InRange 0 W 0 H → (p.scale k).InRange 0 (W * k) 0 (H * k) := by
    intro p hp
    simp only [Pt.InRange, Pt.scale] at hp ⊢
    refine ⟨Int.mul_nonneg hp.1 hk, mul_le_mul_nonneg _ _ k hp.2.1 hk,
      Int.mul_nonneg hp.2.2.1 hk, mul_le_mul_nonneg _ _ k hp.2.2.2 hk⟩
  cases f with
  | line s e b =>
    intro p hp
    simp only [Frag.scale, Frag.ctrl, Frag.points, List.mem_cons, List.mem_nil_iff, or_false] at hp
    rcases hp with rfl | rfl
    · exact key _ (h s (by simp [Frag.ctrl, Frag.points]))
    · exact key _ (h e (by simp [Frag.ctrl, Frag.points]))
  | markerLine s e b sm em =>
    intro p hp
    simp only [Frag.scale, Frag.ctrl, Frag.points, List.mem_cons, List.mem_nil_iff, or_false] at hp
    rcases hp with rfl | rfl
    · exact key _ (h s (by simp [Frag.ctrl, Frag.points]))
    · exact key _ (h e (by simp [Frag.ctrl, Frag.points]))
  | arc s e r m sw =>
    intro p hp
    simp only [Frag.scale, Frag.ctrl, Frag.points, List.mem_cons, List.mem_nil_iff, or_false] at hp
    rcases hp with rfl | rfl
    · exact key _ (h s (by simp [Frag.ctrl, Frag.points]))
    · exact key _ (h e (by simp [Frag.ctrl, Frag.points]))
  | rect s e fl r b =>
    intro p hp
    simp only [Frag.scale, Frag.ctrl, Frag.points, List.mem_cons, List.mem_nil_iff, or_false] at hp
    rcases hp with rfl | rfl
    · exact key _ (h s (by simp [Frag.ctrl, Frag.points]))
    · exact key _ (h e (by simp [Frag.ctrl, Frag.points]))
  | text st c =>
    intro p hp
    simp only [Frag.scale, Frag.ctrl, Frag.points, List.mem_cons, List.mem_nil_iff, or_false] at hp
    subst hp
    exact key _ (h st (by simp [Frag.ctrl, Frag.points]))
  | polygon pts fl t =>
    intro p hp
    simp only [Frag.scale, Frag.ctrl, Frag.points, List.mem_map] at hp
    obtain ⟨q, hq, rfl⟩ := hp
    exact key _ (h q (by simpa [Frag.ctrl, Frag.points] using hq))
  | circle c r fl =>
    intro p hp
    simp only [Frag.scale, Frag.ctrl, Frag.points, List.mem_cons, List.mem_nil_iff, or_false] at hp
    have h1 := key _ (h ⟨c.x - r, c.y⟩ (by simp [Frag.ctrl, Frag.points]))
    have h2 := key _ (h ⟨c.x + r, c.y⟩ (by simp [Frag.ctrl, Frag.points]))
    have h3 := key _ (h ⟨c.x, c.y - r⟩ (by simp [Frag.ctrl, Frag.points]))
    have h4 := key _ (h ⟨c.x, c.y + r⟩ (by simp [Frag.ctrl, Frag.points]))
    simp only [Pt.scale, Pt.InRange] at h1 h2 h3 h4 ⊢
    have e1 : (c.x - r) * k = c.x * k - r * k := by ring
    have e2 : (c.x + r) * k = c.x * k + r * k := by ring
    have e3 : (c.y - r) * k = c.y * k - r * k := by ring
    have e4 : (c.y + r) * k = c.y * k + r * k := by ring
    rcases hp with rfl | rfl | rfl | rfl <;> simp only [Pt.scale] <;> omega
  | cellText st c =>
    intro p hp
    simp only [Frag.scale, Frag.ctrl, Frag.points, List.mem_cons, List.mem_nil_iff, or_false] at hp
    subst hp
    apply key
    have h1 := h st.origin (by simp [Frag.ctrl])
    have h2 := h ⟨(st.x + 1) * 1000, (st.y + 1) * 2000⟩ (by simp [Frag.ctrl])
    simp only [Pt.InRange, cellTextAnchor, Pt.add, Cell.origin] at h1 h2 ⊢
    omega

end Svgbob

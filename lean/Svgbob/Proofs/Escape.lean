import Svgbob.Model.Doc
/-!
# Lexical safety of everything the serializer writes

`TextSafe l`: `l` is character data an XML parser reads back without seeing markup: a sequence of
atoms, each either one character that XML can represent and that is none of `<`, `&`, `>`, or one
of the character/entity references the escaping functions emit.
-/
namespace Svgbob

def refs : List (List Char) :=
  ["&gt;".toList, "&lt;".toList, "&amp;".toList, "&#39;".toList, "&quot;".toList, "&#13;".toList]

/-- a plain character of character data -/
def plainChar (c : Char) : Bool := xmlChar c && c != '<' && c != '&' && c != '>'

inductive TextSafe : List Char → Prop
  | nil : TextSafe []
  | plain (c : Char) (rest : List Char) : plainChar c = true → TextSafe rest → TextSafe (c :: rest)
  | ref (r rest : List Char) : r ∈ refs → TextSafe rest → TextSafe (r ++ rest)

theorem TextSafe.ref_single (r : List Char) (h : r ∈ refs) : TextSafe r := by
  have := TextSafe.ref r [] h TextSafe.nil
  simpa using this

theorem TextSafe.append {a b : List Char} (ha : TextSafe a) (hb : TextSafe b) : TextSafe (a ++ b) := by
  induction ha with
  | nil => simpa
  | plain c rest hc _ ih => exact TextSafe.plain c _ hc ih
  | ref r rest hr _ ih => rw [List.append_assoc]; exact TextSafe.ref r _ hr ih

theorem replaceHtmlChar_safe (c : Char) : TextSafe (replaceHtmlChar c) := by
  unfold replaceHtmlChar
  split
  · exact TextSafe.ref_single _ (by simp [refs])
  split
  · exact TextSafe.ref_single _ (by simp [refs])
  split
  · exact TextSafe.ref_single _ (by simp [refs])
  split
  · exact TextSafe.ref_single _ (by simp [refs])
  split
  · exact TextSafe.ref_single _ (by simp [refs])
  split
  · exact TextSafe.ref_single _ (by simp [refs])
  split
  · rename_i h1 h2 h3 h4 h5 h6 hx
    refine TextSafe.plain c [] ?_ TextSafe.nil
    simp only [plainChar, hx, Bool.true_and, Bool.and_eq_true, bne_iff_ne, ne_eq]
    simp only [beq_iff_eq] at h1 h2 h3
    exact ⟨⟨h2, h3⟩, h1⟩
  · exact TextSafe.nil

/-- **Every text node is safe character data**, whatever the input characters. -/
theorem escapeHtmlText_safe (s : List Char) : TextSafe (escapeHtmlText s) := by
  induction s with
  | nil => exact TextSafe.nil
  | cons c cs ih =>
    simp only [escapeHtmlText, List.flatMap_cons] at ih ⊢
    exact TextSafe.append (replaceHtmlChar_safe c) ih

theorem escapeCssChar_safe (c : Char) :
    TextSafe (if c == '<' then "&lt;".toList else if c == '&' then "&amp;".toList
      else if c == '>' then "&gt;".toList
      else if xmlChar c then [c] else []) := by
  split
  · exact TextSafe.ref_single _ (by simp [refs])
  split
  · exact TextSafe.ref_single _ (by simp [refs])
  split
  · exact TextSafe.ref_single _ (by simp [refs])
  split
  · rename_i h1 h2 h3 hx
    refine TextSafe.plain c [] ?_ TextSafe.nil
    simp only [plainChar, hx, Bool.true_and, Bool.and_eq_true, bne_iff_ne, ne_eq]
    simp only [beq_iff_eq] at h1 h2 h3
    exact ⟨⟨h1, h2⟩, h3⟩
  · exact TextSafe.nil

/-- **The style sheet text is safe character data**, whatever the legend (and the settings
strings) contain. -/
theorem escapeCss_safe (s : List Char) : TextSafe (styleNode.escapeCss s) := by
  induction s with
  | nil => exact TextSafe.nil
  | cons c cs ih =>
    simp only [styleNode.escapeCss, List.flatMap_cons] at ih ⊢
    exact TextSafe.append (escapeCssChar_safe c) ih

/-- safe character data contains no `<`, so it cannot open or close an element, a comment, a
processing instruction or a CDATA section -/
theorem TextSafe.no_lt {l : List Char} (h : TextSafe l) : '<' ∉ l := by
  induction h with
  | nil => simp
  | plain c rest hc _ ih =>
    intro hm
    rcases List.mem_cons.mp hm with rfl | hm
    · simp [plainChar] at hc
    · exact ih hm
  | ref r rest hr _ ih =>
    intro hm
    rcases List.mem_append.mp hm with hm | hm
    · simp only [refs, List.mem_cons, List.mem_nil_iff, or_false] at hr
      rcases hr with rfl | rfl | rfl | rfl | rfl | rfl <;> simp at hm
    · exact ih hm

/-- all characters of safe character data are representable in XML -/
theorem TextSafe.all_xmlChar {l : List Char} (h : TextSafe l) : ∀ c ∈ l, xmlChar c = true := by
  induction h with
  | nil => simp
  | plain c rest hc _ ih =>
    intro d hd
    rcases List.mem_cons.mp hd with rfl | hd
    · simp [plainChar] at hc; exact hc.1.1.1
    · exact ih d hd
  | ref r rest hr _ ih =>
    intro d hd
    rcases List.mem_append.mp hd with hd | hd
    · simp only [refs, List.mem_cons, List.mem_nil_iff, or_false] at hr
      rcases hr with rfl | rfl | rfl | rfl | rfl | rfl <;>
        (simp at hd; rcases hd with rfl | rfl | rfl | rfl | rfl | rfl <;> decide)
    · exact ih d hd

end Svgbob

import Svgbob.Proofs.Locality
/-!
# Separated sub-diagrams are endorsed independently
-/
namespace Svgbob

theorem mapOpt_eq_some {α β : Type} (f : α → Option β) (l : List α) (rs : List β)
    (h : mapOpt f l = some rs) : rs = l.filterMap f ∧ ∀ x ∈ l, (f x).isSome = true := by
  induction l generalizing rs with
  | nil => simp [mapOpt] at h; subst h; simp
  | cons x xs ih =>
    simp only [mapOpt] at h
    split at h
    · rename_i y ys hy hys
      simp at h; subst h
      obtain ⟨e, hall⟩ := ih ys hys
      refine ⟨by simp [List.filterMap_cons, hy, e], ?_⟩
      intro z hz
      rcases List.mem_cons.mp hz with rfl | hz
      · simp [hy]
      · exact hall z hz
    · simp at h

/-- the two outputs of `endorseAll` (without quoted texts) as functions of the per-span results -/
def endorsedOf (len : List Char → Nat) (rs : List (List FragSpan × List Span)) : List FragSpan :=
  rs.flatMap (·.1) ++
    ((rs.flatMap fun r => r.2.flatMap (contactsOf len)).filter (·.length == 1)).flatMap id

def groupsOf (len : List Char → Nat) (rs : List (List FragSpan × List Span)) : List (List FragSpan) :=
  (rs.flatMap fun r => r.2.flatMap (contactsOf len)).filter (·.length != 1)

theorem endorseAll_eq (len : List Char → Nat) (cat : Catalogue) (cells : Span)
    (F : List FragSpan) (G : List (List FragSpan))
    (h : endorseAll len cat cells [] = some (F, G)) :
    let rs := (spansOf (cells.map fun cc => [cc])).filterMap (spanEndorse len cat)
    F = endorsedOf len rs ∧ G = groupsOf len rs := by
  simp only [endorseAll] at h
  split at h
  · simp at h
  · rename_i rs hrs
    obtain ⟨e, _⟩ := mapOpt_eq_some _ _ _ hrs
    simp only [List.map_nil, List.append_nil, Option.some.injEq, Prod.mk.injEq] at h
    obtain ⟨rfl, rfl⟩ := h
    subst e
    exact ⟨rfl, rfl⟩

theorem perm_filter_split {α : Type} (p : α → Bool) (l : List α) :
    l.Perm (l.filter p ++ l.filter (fun x => !p x)) := by
  induction l with
  | nil => simp
  | cons x xs ih =>
    by_cases hx : p x = true
    · simp only [List.filter_cons, hx, if_true, Bool.not_true, Bool.false_eq_true, if_false,
        List.cons_append]
      exact List.Perm.cons x ih
    · have hx' : p x = false := by simpa using hx
      simp only [List.filter_cons, hx', Bool.false_eq_true, if_false, Bool.not_false, if_true]
      exact (List.Perm.cons x ih).trans List.perm_middle.symm

theorem endorsedOf_perm (len : List Char → Nat) (a b : List (List FragSpan × List Span))
    (h : a.Perm b) : (endorsedOf len a).Perm (endorsedOf len b) := by
  unfold endorsedOf
  exact List.Perm.append (h.flatMap_right _)
    (((h.flatMap_right _).filter _).flatMap_right _)

theorem groupsOf_perm (len : List Char → Nat) (a b : List (List FragSpan × List Span))
    (h : a.Perm b) : (groupsOf len a).Perm (groupsOf len b) := by
  unfold groupsOf
  exact (h.flatMap_right _).filter _

theorem endorsedOf_append (len : List Char → Nat) (a b : List (List FragSpan × List Span)) :
    (endorsedOf len (a ++ b)).Perm (endorsedOf len a ++ endorsedOf len b) := by
  simp only [endorsedOf, List.flatMap_append, List.filter_append]
  -- (x1 ++ x2) ++ (y1 ++ y2) ~ (x1 ++ y1) ++ (x2 ++ y2)
  generalize a.flatMap (·.1) = x1
  generalize b.flatMap (·.1) = x2
  generalize ((a.flatMap fun r => r.2.flatMap (contactsOf len)).filter (·.length == 1)).flatMap id = y1
  generalize ((b.flatMap fun r => r.2.flatMap (contactsOf len)).filter (·.length == 1)).flatMap id = y2
  rw [List.append_assoc, List.append_assoc]
  refine List.Perm.append_left x1 ?_
  rw [← List.append_assoc, ← List.append_assoc]
  exact List.Perm.append_right y2 List.perm_append_comm

theorem groupsOf_append (len : List Char → Nat) (a b : List (List FragSpan × List Span)) :
    groupsOf len (a ++ b) = groupsOf len a ++ groupsOf len b := by
  simp [groupsOf, List.flatMap_append, List.filter_append]

theorem sideOf_le_one (ax : Axis) (t : Int) (s : Span) : sideOf ax t s = 0 ∨ sideOf ax t s = 1 := by
  simp only [sideOf]; split <;> simp

/-- single cells on either side of the blank line are pure -/
theorem single_pure (ax : Axis) (t : Int) (cc : Cell × Char)
    (h : ax.proj cc.1 ≤ t ∨ t + 2 ≤ ax.proj cc.1) : Pure ax t [cc] := by
  refine ⟨by simp, ?_⟩
  rcases h with h | h
  · left; intro c hc; simp at hc; subst hc; exact h
  · right; intro c hc; simp at hc; subst hc; exact h

theorem sideOf_single (ax : Axis) (t : Int) (cc : Cell × Char) :
    (sideOf ax t [cc] = 0) = (ax.proj cc.1 ≤ t) := by
  simp [sideOf]

/-- **Independence at the endorsement stage.** If the cells fall on the two sides of a blank
column (or row), then — whenever none of the three runs panics — the top-level fragments and the
groups computed for the whole drawing are, as multisets, those of the low side plus those of the
high side: nothing in one part influences how the other is recognised, merged or grouped. -/
theorem endorseAll_independent (len : List Char → Nat) (cat : Catalogue) (ax : Axis) (t : Int)
    (cells : Span) (hsep : ∀ cc ∈ cells, ax.proj cc.1 ≤ t ∨ t + 2 ≤ ax.proj cc.1)
    (F FA FB : List FragSpan) (G GA GB : List (List FragSpan))
    (h : endorseAll len cat cells [] = some (F, G))
    (hA : endorseAll len cat (cells.filter fun cc => ax.proj cc.1 ≤ t) [] = some (FA, GA))
    (hB : endorseAll len cat (cells.filter fun cc => !decide (ax.proj cc.1 ≤ t)) [] = some (FB, GB)) :
    F.Perm (FA ++ FB) ∧ G.Perm (GA ++ GB) := by
  obtain ⟨eF, eG⟩ := endorseAll_eq len cat cells F G h
  obtain ⟨eFA, eGA⟩ := endorseAll_eq len cat _ FA GA hA
  obtain ⟨eFB, eGB⟩ := endorseAll_eq len cat _ FB GB hB
  -- spans of the whole = spans of the low side ++ spans of the high side, up to order
  have hpure : ∀ s ∈ cells.map (fun cc => [cc]), Pure ax t s := by
    intro s hs
    simp only [List.mem_map] at hs
    obtain ⟨cc, hcc, rfl⟩ := hs
    exact single_pure ax t cc (hsep cc hcc)
  have hlow := spansOf_local ax t 0 _ hpure
  have hhigh := spansOf_local ax t 1 _ hpure
  have hfl : (cells.map fun cc => [cc]).filter (sideOf ax t · = 0) =
      (cells.filter fun cc => ax.proj cc.1 ≤ t).map fun cc => [cc] := by
    rw [List.filter_map]
    congr 1
    apply List.filter_congr
    intro cc _
    simp [Function.comp, sideOf]
  have hfh : (cells.map fun cc => [cc]).filter (sideOf ax t · = 1) =
      (cells.filter fun cc => !decide (ax.proj cc.1 ≤ t)).map fun cc => [cc] := by
    rw [List.filter_map]
    congr 1
    apply List.filter_congr
    intro cc _
    simp only [Function.comp, sideOf, List.all_cons, List.all_nil, Bool.and_true]
    by_cases hc : ax.proj cc.1 ≤ t <;> simp [hc]
  rw [hfl] at hlow
  rw [hfh] at hhigh
  have hsplit := perm_filter_split (fun s => decide (sideOf ax t s = 0))
    (spansOf (cells.map fun cc => [cc]))
  have hnot : (spansOf (cells.map fun cc => [cc])).filter (fun s => !decide (sideOf ax t s = 0)) =
      (spansOf (cells.map fun cc => [cc])).filter (sideOf ax t · = 1) := by
    apply List.filter_congr
    intro s _
    rcases sideOf_le_one ax t s with h0 | h1
    · simp [h0]
    · simp [h1]
  rw [hnot, hlow, hhigh] at hsplit
  have hrs := hsplit.filterMap (spanEndorse len cat)
  rw [List.filterMap_append] at hrs
  constructor
  · rw [eF, eFA, eFB]
    exact (endorsedOf_perm len _ _ hrs).trans (endorsedOf_append len _ _)
  · rw [eG, eGA, eGB]
    exact (groupsOf_perm len _ _ hrs).trans (by rw [groupsOf_append])

end Svgbob

import Svgbob.Proofs.LineParse
/-!
# `escape_line` blanks exactly the quoted segments, column for column
-/
namespace Svgbob

/-- is column `i` inside one of the segments (quotes included)? -/
def inSeg (locs : List (Nat × Nat)) (i : Nat) : Bool := locs.any fun se => se.1 ≤ i && i ≤ se.2

/-- positional specification of blanking: the character at column `i` becomes a space iff the
column lies inside a segment; nothing moves. `i` is the column of the head of the list. -/
def blankFrom (locs : List (Nat × Nat)) : Nat → List Char → List Char
  | _, [] => []
  | i, c :: cs => (if inSeg locs i then ' ' else c) :: blankFrom locs (i + 1) cs

/-- the column count `escape_line` uses for every segment equals the number of buffer columns
between the quotes -/
def ColsOk (env : Env) (row : List Char) (locs : List (Nat × Nat)) : Prop :=
  ∀ se ∈ locs, segColumns env ((row.drop (se.1 + 1)).take (se.2 - (se.1 + 1))) = se.2 - (se.1 + 1)

theorem blankFrom_length (locs : List (Nat × Nat)) (i : Nat) (l : List Char) :
    (blankFrom locs i l).length = l.length := by
  induction l generalizing i with
  | nil => simp [blankFrom]
  | cons c cs ih => simp [blankFrom, ih]

theorem blankFrom_append (locs : List (Nat × Nat)) (i : Nat) (a b : List Char) :
    blankFrom locs i (a ++ b) = blankFrom locs i a ++ blankFrom locs (i + a.length) b := by
  induction a generalizing i with
  | nil => simp [blankFrom]
  | cons c cs ih =>
    simp only [List.cons_append, blankFrom, ih, List.length_cons]
    have : i + 1 + cs.length = i + (cs.length + 1) := by omega
    rw [this]

theorem blankFrom_nil_locs (i : Nat) (l : List Char) : blankFrom [] i l = l := by
  induction l generalizing i with
  | nil => simp [blankFrom]
  | cons c cs ih => simp [blankFrom, inSeg, ih]

/-- columns before every segment are untouched -/
theorem inSeg_false_of_lt {lo hi : Nat} {locs : List (Nat × Nat)} (h : LocsOk lo hi locs)
    {i : Nat} (hi' : i < lo) : inSeg locs i = false := by
  induction locs generalizing lo with
  | nil => simp [inSeg]
  | cons se rest ih =>
    obtain ⟨s, e⟩ := se
    simp only [LocsOk] at h
    have := ih h.2.2.2 (by omega)
    simp only [inSeg, List.any_cons, Bool.or_eq_false_iff] at this ⊢
    refine ⟨?_, this⟩
    simp; omega

theorem blankFrom_unchanged {lo hi : Nat} {locs : List (Nat × Nat)} (h : LocsOk lo hi locs)
    (i : Nat) (l : List Char) (hl : i + l.length ≤ lo) : blankFrom locs i l = l := by
  induction l generalizing i with
  | nil => simp [blankFrom]
  | cons c cs ih =>
    simp only [List.length_cons] at hl
    simp only [blankFrom, inSeg_false_of_lt h (show i < lo by omega)]
    rw [ih (i + 1) (by omega)]; simp

theorem blankFrom_inside (s e : Nat) (rest : List (Nat × Nat)) (i : Nat) (l : List Char)
    (h1 : s ≤ i) (h2 : i + l.length ≤ e + 1) :
    blankFrom ((s, e) :: rest) i l = List.replicate l.length ' ' := by
  induction l generalizing i with
  | nil => simp [blankFrom]
  | cons c cs ih =>
    simp only [List.length_cons] at h2
    have : inSeg ((s, e) :: rest) i = true := by
      simp only [inSeg, List.any_cons, Bool.or_eq_true]; left; simp; omega
    simp only [blankFrom, this, if_true, List.length_cons, List.replicate_succ]
    rw [ih (i + 1) (by omega) (by omega)]

theorem blankFrom_after (s e : Nat) (rest : List (Nat × Nat)) (i : Nat) (l : List Char)
    (h : e < i) : blankFrom ((s, e) :: rest) i l = blankFrom rest i l := by
  induction l generalizing i with
  | nil => simp [blankFrom]
  | cons c cs ih =>
    have : inSeg ((s, e) :: rest) i = inSeg rest i := by
      simp only [inSeg, List.any_cons]
      have : (decide (s ≤ i) && decide (i ≤ e)) = false := by simp; omega
      simp [this]
    simp only [blankFrom, this]
    rw [ih (i + 1) (by omega)]

/-- **`escape_line` displaces nothing.** With in-order segments and correct column counts the
unescaped row is the row with exactly the segment columns replaced by spaces. -/
theorem escapeLoop_eq_blank (env : Env) (y : Int) (row : List Char) (locs : List (Nat × Nat))
    (index : Nat) (hok : LocsOk index row.length locs) (hc : ColsOk env row locs) :
    (escapeLoop env y row locs index).2 = blankFrom locs index (row.drop index) := by
  induction locs generalizing index with
  | nil => simp [escapeLoop, blankFrom_nil_locs]
  | cons se rest ih =>
    obtain ⟨s, e⟩ := se
    simp only [LocsOk] at hok
    obtain ⟨h1, h2, h3, h4⟩ := hok
    have hc' : ColsOk env row rest := fun se hse => hc se (List.mem_cons_of_mem _ hse)
    have hcol := hc (s, e) (List.mem_cons_self)
    simp only at hcol
    simp only [escapeLoop]
    rw [ih (e + 1) h4 hc', hcol]
    -- split `row.drop index` into before / inside / after
    have hsplit : row.drop index =
        (row.drop index).take (s - index) ++
          ((row.drop s).take (e + 1 - s) ++ row.drop (e + 1)) := by
      have a1 : row.drop index = (row.drop index).take (s - index) ++ (row.drop index).drop (s - index) :=
        (List.take_append_drop _ _).symm
      have a2 : (row.drop index).drop (s - index) = row.drop s := by
        rw [List.drop_drop]; congr 1; omega
      have a3 : row.drop s = (row.drop s).take (e + 1 - s) ++ (row.drop s).drop (e + 1 - s) :=
        (List.take_append_drop _ _).symm
      have a4 : (row.drop s).drop (e + 1 - s) = row.drop (e + 1) := by
        rw [List.drop_drop]; congr 1; omega
      rw [a4] at a3
      rw [a2] at a1
      rw [← a3]; exact a1
    have lenA : ((row.drop index).take (s - index)).length = s - index := by
      simp; omega
    have lenB : ((row.drop s).take (e + 1 - s)).length = e + 1 - s := by
      simp; omega
    conv => rhs; rw [hsplit]
    rw [blankFrom_append, blankFrom_append, lenA, lenB]
    have hok' : LocsOk s row.length ((s, e) :: rest) := by
      simp only [LocsOk]; exact ⟨Nat.le_refl _, h2, h3, h4⟩
    rw [blankFrom_unchanged hok' index _ (by rw [lenA]; omega)]
    rw [blankFrom_inside s e rest (index + (s - index)) _ (by omega) (by rw [lenB]; omega), lenB]
    rw [blankFrom_after s e rest _ _ (by omega)]
    have e1 : index + (s - index) + (e + 1 - s) = e + 1 := by omega
    have e2 : e - (s + 1) + 2 = e + 1 - s := by omega
    rw [e1, e2, List.append_assoc]

theorem escapeLine_eq_blank (env : Env) (y : Int) (row : List Char)
    (hc : ColsOk env row (lineParse row)) :
    (escapeLine env y row).2 = blankFrom (lineParse row) 0 row := by
  unfold escapeLine
  split
  · rename_i h; rw [h]; simp [blankFrom_nil_locs]
  · rename_i locs hne
    have := escapeLoop_eq_blank env y row (lineParse row) 0 (lineParse_ok row) hc
    simpa using this

end Svgbob

import Svgbob.Model.Pipeline
/-!
# Quoted texts draw nothing and displace nothing in the endorsement stage

The quoted texts reach the endorsement stage as a separate list; the stage appends one text fragment
per quoted text to the top-level fragments and does nothing else with them.
-/
namespace Svgbob

variable (len : List Char → Nat)

/-- the fragment a quoted text becomes: a cell text at the cell of its opening quote -/
def quotedFragment (e : Cell × List Char) : FragSpan :=
  ⟨(List.range e.2.length).zip e.2 |>.map fun ic => (⟨e.1.x + ic.1, e.1.y⟩, ic.2), .cellText e.1 e.2⟩

/-- **the endorsement stage with quoted texts is the stage without them, plus one text fragment per
quoted text appended to the top-level fragments**: groups, shapes, lines and the texts of the cells
are what the cells alone give -/
theorem endorseAll_quoted (cat : Catalogue) (cells : Span) (escaped : List (Cell × List Char)) :
    endorseAll len cat cells escaped =
      (endorseAll len cat cells []).map fun r => (r.1 ++ escaped.map quotedFragment, r.2) := by
  unfold endorseAll
  simp only
  cases mapOpt (spanEndorse len cat) (spansOf (cells.map fun cc => [cc])) with
  | none => rfl
  | some rs => simp [quotedFragment]

end Svgbob

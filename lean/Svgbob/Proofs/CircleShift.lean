import Svgbob.Model.CircleMap
import Svgbob.Proofs.Shift
/-!
# The catalogue match does not depend on where the span sits
-/
namespace Svgbob

theorem listMin_map_add (l : List Int) (k d : Int) :
    listMin (l.map (· + k)) (d + k) = listMin l d + k := by
  cases l with
  | nil => simp [listMin]
  | cons x xs =>
    simp only [listMin, List.map_cons, List.headD_cons]
    have : ∀ (acc : Int) (ys : List Int),
        List.foldl (fun a b => if b < a then b else a) (acc + k) (ys.map (· + k)) =
          List.foldl (fun a b => if b < a then b else a) acc ys + k := by
      intro acc ys
      induction ys generalizing acc with
      | nil => simp
      | cons y ys ih =>
        simp only [List.map_cons, List.foldl_cons]
        by_cases h : y < acc
        · have h' : y + k < acc + k := by omega
          simp only [h, h', if_true]; exact ih y
        · have h' : ¬ (y + k < acc + k) := by omega
          simp only [h, h', if_false]; exact ih acc
    have h0 : (if x + k < x + k then x + k else x + k) = x + k := by simp
    simp only [List.foldl_cons, h0]
    have h1 : (if x < x then x else x) = x := by simp
    rw [h1]
    exact this x xs

theorem listMin_shift_x (k n : Int) (c : Cell × Char) (cs : Span) :
    listMin ((Span.shift k n (c :: cs)).map (·.1.x)) 0 =
      listMin (((c :: cs).map (·.1.x)).map (· + k)) (0 + k) := by
  simp [Span.shift, listMin, Cell.shift, List.map_map, Function.comp_def]

theorem listMin_shift_y (k n : Int) (c : Cell × Char) (cs : Span) :
    listMin ((Span.shift k n (c :: cs)).map (·.1.y)) 0 =
      listMin (((c :: cs).map (·.1.y)).map (· + n)) (0 + n) := by
  simp [Span.shift, listMin, Cell.shift, List.map_map, Function.comp_def]

/-- bounds of a moved span -/
theorem Span.bounds_shift_tl (k n : Int) (s : Span) (tl br : Cell) (h : s.bounds = some (tl, br)) :
    ∃ br', (Span.shift k n s).bounds = some (tl.shift k n, br') := by
  cases s with
  | nil => simp [Span.bounds] at h
  | cons c cs =>
    simp only [Span.bounds, Option.some.injEq, Prod.mk.injEq] at h
    obtain ⟨rfl, _⟩ := h
    have hne : Span.shift k n (c :: cs) = (c.1.shift k n, c.2) :: Span.shift k n cs := by
      simp [Span.shift]
    refine ⟨⟨listMax ((Span.shift k n (c :: cs)).map (·.1.x)) 0,
      listMax ((Span.shift k n (c :: cs)).map (·.1.y)) 0⟩, ?_⟩
    have hb : (Span.shift k n (c :: cs)).bounds =
        some (⟨listMin ((Span.shift k n (c :: cs)).map (·.1.x)) 0,
               listMin ((Span.shift k n (c :: cs)).map (·.1.y)) 0⟩,
              ⟨listMax ((Span.shift k n (c :: cs)).map (·.1.x)) 0,
               listMax ((Span.shift k n (c :: cs)).map (·.1.y)) 0⟩) := by
      rw [hne]; simp [Span.bounds]
    rw [hb, listMin_shift_x, listMin_shift_y, listMin_map_add, listMin_map_add]
    simp [Cell.shift]

/-- **localising a moved span gives the localised span** -/
theorem Span.localize_shift (k n : Int) (s : Span) :
    Span.localize (Span.shift k n s) = Span.localize s := by
  cases hb : s.bounds with
  | none =>
    cases s with
    | nil => simp [Span.shift, Span.localize, Span.bounds]
    | cons c cs => simp [Span.bounds] at hb
  | some b =>
    obtain ⟨tl, br⟩ := b
    obtain ⟨br', hb'⟩ := Span.bounds_shift_tl k n s tl br hb
    unfold Span.localize
    rw [hb, hb']
    simp only [Span.shift, List.map_map]
    apply List.map_congr_left
    intro cc _
    simp only [Function.comp, Cell.shift, Prod.mk.injEq, Cell.mk.injEq, and_true]
    constructor <;> omega

theorem filterMap_zip_shift (k n : Int) (cat : Span) (s loc : Span) :
    ((Span.shift k n s).zip loc).filterMap (fun p => if cat.contains p.2 then none else some p.1) =
      Span.shift k n ((s.zip loc).filterMap fun p => if cat.contains p.2 then none else some p.1) := by
  induction s generalizing loc with
  | nil => simp [Span.shift]
  | cons c cs ih =>
    cases loc with
    | nil => simp [Span.shift]
    | cons l ls =>
      have := ih ls
      simp only [Span.shift] at this
      by_cases hl : cat.contains l = true
      · simp only [Span.shift, List.map_cons, List.zip_cons_cons, List.filterMap_cons, hl, if_true]
        exact this
      · simp only [Span.shift, List.map_cons, List.zip_cons_cons, List.filterMap_cons, hl,
          Bool.false_eq_true, if_false, List.cons.injEq, true_and]
        exact this

/-- **the catalogue match is translation equivariant** -/
theorem matchSpan_shift (k n : Int) (cat s : Span) :
    matchSpan cat (Span.shift k n s) = (matchSpan cat s).map (Span.shift k n) := by
  simp only [matchSpan, Span.localize_shift]
  split
  · simp only [Option.map_some, Option.some.injEq]
    exact filterMap_zip_shift k n cat s (Span.localize s)
  · simp

end Svgbob

namespace Svgbob

theorem Cell.origin_shift (k n : Int) (c : Cell) :
    (c.shift k n).origin = (⟨k, n⟩ : Cell).origin.add c.origin := by
  simp only [Cell.origin, Cell.shift, Pt.add, Pt.mk.injEq]
  constructor <;> ring

theorem Pt.add_assoc' (a b p : Pt) : (a.add b).add p = a.add (b.add p) := by
  simp only [Pt.add, Pt.mk.injEq]; constructor <;> ring

/-- placing a fragment at a moved cell = moving the placed fragment -/
theorem Frag.absPos_shift (k n : Int) (tl : Cell) (f : Frag) :
    f.absPos (tl.shift k n) = (f.absPos tl).move k n := by
  cases f <;> simp only [Frag.absPos, Frag.move, Cell.origin_shift, Pt.add_assoc', List.map_map]
  · -- polygon
    congr 1
  · -- cellText
    simp only [Cell.shift, Frag.cellText.injEq, Cell.mk.injEq, and_true]
    constructor <;> ring

theorem findSome_match_shift {α : Type} (k n : Int) (es : List (α × Span)) (s : Span) :
    es.findSome? (fun e => match matchSpan e.2 (Span.shift k n s) with
        | some rest => some (e.1, rest) | none => none) =
      (es.findSome? fun e => match matchSpan e.2 s with
        | some rest => some (e.1, rest) | none => none).map fun r => (r.1, Span.shift k n r.2) := by
  induction es with
  | nil => simp
  | cons e es ih =>
    simp only [List.findSome?_cons]
    rw [matchSpan_shift]
    cases matchSpan e.2 s with
    | some rest => simp
    | none => simpa using ih

theorem findMatch_shift {α : Type} (k n : Int) (table : List (α × Span)) (s : Span) :
    findMatch table (Span.shift k n s) =
      (findMatch table s).map fun r => (r.1, Span.shift k n r.2) := by
  unfold findMatch
  exact findSome_match_shift k n table.reverse s

/-- **the catalogue endorsement of a span does not depend on where the span sits**: the same
entry matches, the circle / arc is placed relative to the span's top-left cell, the leftover cells
are the moved leftover cells -/
theorem endorseArcsAndCircles_shift (cat : Catalogue) (k n : Int) (s : Span) :
    endorseArcsAndCircles cat (Span.shift k n s) =
      (endorseArcsAndCircles cat s).map fun r => (r.1.map (FragSpan.move k n), Span.shift k n r.2) := by
  unfold endorseArcsAndCircles
  cases hb : s.bounds with
  | none =>
    cases s with
    | nil => simp [Span.shift, Span.bounds]
    | cons c cs => simp [Span.bounds] at hb
  | some b =>
    obtain ⟨tl, br⟩ := b
    obtain ⟨br', hb'⟩ := Span.bounds_shift_tl k n s tl br hb
    simp only [hb', findMatch_shift]
    cases findMatch cat.circles s with
    | some r => simp [FragSpan.move, Frag.absPos_shift]
    | none =>
      simp only [Option.map_none]
      cases findMatch (cat.threeQuarters.map (·.2)) s with
      | some r => simp [FragSpan.move, Frag.absPos_shift]
      | none =>
        simp only [Option.map_none]
        cases findMatch (cat.halves.map (·.2)) s with
        | some r => simp [FragSpan.move, Frag.absPos_shift]
        | none =>
          simp only [Option.map_none]
          cases findMatch (cat.quarters.map (·.2)) s with
          | some r => simp [FragSpan.move, Frag.absPos_shift]
          | none => simp

end Svgbob

import Svgbob.Model.CircleMap
/-!
# Facts about the circle catalogue, decided by kernel evaluation over the regenerated drawings

(One evaluation of the 22 drawings through the model's own front end and span merge; takes a few
minutes, cached by Lake until `circle_map.rs` or the model changes.)
-/
namespace Svgbob

/-- the circle lies inside the box of its drawing plus the one-cell canvas margin -/
def circleInside (ci : CircleInfo) : Bool :=
  match ci.span.bounds with
  | some (_, br) =>
    0 ≤ ci.center.x - ci.radius && 0 ≤ ci.center.y - ci.radius &&
    ci.center.x + ci.radius ≤ (br.x + 2) * 1000 && ci.center.y + ci.radius ≤ (br.y + 2) * 2000
  | none => false

/-- the documented radius rule: `(n-1)/2` cells for an `n`-cell-wide drawing, `n/2` when it
starts flush with a slash; and the horizontal extent equals the drawing's extent -/
def circleRadiusRule (row : CircleArtRow) (ci : CircleInfo) : Bool :=
  match ci.span.bounds with
  | some (tl, br) =>
    let n := br.x - tl.x + 1
    tl.x == 0 && tl.y == 0 &&
    (match row.edge with
     | .half => ci.radius == (n - 1) * 500 && ci.center.x - ci.radius == 500 &&
                ci.center.x + ci.radius == n * 1000 - 500
     | .leftEdge => ci.radius == n * 500 && ci.center.x - ci.radius == 0 &&
                ci.center.x + ci.radius == n * 1000)
  | none => false

/-- every cell of the drawing lies within about one cell of the circle: the centre of the cell is
at most one cell diagonal (√5 ≈ 2.236 units, a cell being 1 x 2) off the circle line -/
def cellsNearCircle (ci : CircleInfo) : Bool :=
  ci.span.all fun cc =>
    let p : Pt := ⟨cc.1.x * 1000 + 500, cc.1.y * 2000 + 1000⟩
    let d2 := Pt.dist2 p ci.center
    let lo := if ci.radius ≥ 2236 then (ci.radius - 2236) * (ci.radius - 2236) else 0
    lo ≤ d2 && d2 ≤ (ci.radius + 2236) * (ci.radius + 2236)

set_option maxRecDepth 100000 in
/-- **all 22 drawings**: each yields exactly one span (so the code's `assert_eq!(spans.len(), 1)`
and `bounds().expect(..)` hold), the circle lies within the drawing's box plus margin, the radius
rule holds, the drawing's cells hug the circle, and the circles are pairwise distinct -/
theorem catalogue_facts :
    (circleInfos.map fun l =>
      l.length == 22 && l.all circleInside &&
      (Gen.circleArt.zip l).all (fun rc => circleRadiusRule rc.1 rc.2) &&
      l.all cellsNearCircle &&
      (l.map (·.diameter)).eraseDups.length == 22) = some true := by
  decide +kernel

theorem circleInfos_isSome : circleInfos.isSome = true := by
  have := catalogue_facts
  cases h : circleInfos <;> simp_all

end Svgbob

import Svgbob.Model.Pipeline
/-!
# Table facts: a fragment that leaves its cell towards a side is guarded by a neighbour on that side
-/
namespace Svgbob

def leftSide : List Dir := [.topLeft, .left, .bottomLeft]
def topSide : List Dir := [.topLeft, .top, .topRight]

/-- syntactic guard: `needsSide side c = true` implies that `c` can only hold when some neighbour
on `side` is a real cell (an empty neighbour has character `' '`, no signature) -/
def needsSide (side : List Dir) : Cond → Bool
  | .tt => false
  | .is d ch => side.contains d && ch != ' '
  | .overlap d _ _ _ => side.contains d
  | .arcsTo d _ _ => side.contains d
  | .not _ => false
  | .and a b => needsSide side a || needsSide side b
  | .or a b => needsSide side a && needsSide side b

theorem empty_lineOverlap (a b : Pt) (s : Signal) : Entry.empty.lineOverlap a b s = false := by
  simp [Entry.lineOverlap, Entry.empty]

theorem empty_arcsTo (a b : Pt) : Entry.empty.arcsTo a b = false := by
  simp [Entry.arcsTo, Entry.empty]

/-- soundness of the guard -/
theorem needsSide_sound (side : List Dir) (c : Cond) (nb : Dir → Entry)
    (hempty : ∀ d ∈ side, nb d = Entry.empty) (h : needsSide side c = true) : c.eval nb = false := by
  induction c with
  | tt => simp [needsSide] at h
  | is d ch =>
    simp only [needsSide, Bool.and_eq_true, bne_iff_ne, ne_eq] at h
    have hd : d ∈ side := by simpa using h.1
    simp only [Cond.eval, hempty d hd, Entry.empty]
    simp
    exact fun hq => h.2 hq.symm
  | overlap d p q s =>
    have hd : d ∈ side := by simpa [needsSide] using h
    simp [Cond.eval, hempty d hd, empty_lineOverlap]
  | arcsTo d p q =>
    have hd : d ∈ side := by simpa [needsSide] using h
    simp [Cond.eval, hempty d hd, empty_arcsTo]
  | not c _ => simp [needsSide] at h
  | and a b iha ihb =>
    simp only [needsSide, Bool.or_eq_true] at h
    rcases h with h | h
    · simp [Cond.eval, iha h]
    · simp [Cond.eval, ihb h]
  | or a b iha ihb =>
    simp only [needsSide, Bool.and_eq_true] at h
    simp [Cond.eval, iha h.1, ihb h.2]

/-- all points of a fragment (cell-local); for circles the four extreme points -/
def Frag.points : Frag → List Pt
  | .line s e _ => [s, e]
  | .markerLine s e _ _ _ => [s, e]
  | .circle c r _ => [⟨c.x - r, c.y⟩, ⟨c.x + r, c.y⟩, ⟨c.x, c.y - r⟩, ⟨c.x, c.y + r⟩]
  | .arc s e _ _ _ => [s, e]
  | .polygon pts _ _ => pts
  | .rect s e _ _ _ => [s, e]
  | .cellText _ _ => []
  | .text st _ => [st]

/-- a behaviour row is well guarded: fragments reaching left of the cell need a left neighbour,
fragments reaching above the cell need an upper neighbour, and nothing reaches further than one
cell in any direction -/
def rowGuarded (row : Cond × List Frag) : Bool :=
  let pts := row.2.flatMap Frag.points
  (!(pts.any fun p => p.x < 0) || needsSide leftSide row.1) &&
  (!(pts.any fun p => p.y < 0) || needsSide topSide row.1) &&
  pts.all fun p => -1000 ≤ p.x && p.x ≤ 2000 && -2000 ≤ p.y && p.y ≤ 4000

/-- **decided over the regenerated ASCII table** -/
theorem asciiTable_guarded : Gen.asciiTable.all (fun en => en.behavior.all rowGuarded) = true := by
  decide +kernel

/-- glyphs never leave their own cell -/
theorem unicodeTable_inside :
    Gen.unicodeTable.all (fun g => (g.2.flatMap Frag.points).all fun p =>
      0 ≤ p.x && p.x ≤ 1000 && 0 ≤ p.y && p.y ≤ 2000) = true := by
  decide +kernel

end Svgbob

import Svgbob.Proofs.ScopeLines
import Svgbob.Proofs.Independence
/-!
# The groups the whole endorsement stage emits hold no two collinear touching plain lines

Every group of `endorseAll` is a contact group of one (reduced) span, so the scope theorem
`contactsOf_lines_not_mergeable` applies to it.
-/
namespace Svgbob

theorem sublist_flatMap_id_of_mem {α : Type} (L : List (List α)) (g : List α) (h : g ∈ L) :
    g.Sublist (L.flatMap id) := by
  induction L with
  | nil => cases h
  | cons x xs ih =>
    simp only [List.flatMap_cons, id]
    rcases List.mem_cons.mp h with rfl | h
    · exact List.sublist_append_left _ _
    · exact (ih h).trans (List.sublist_append_right _ _)

variable (len : List Char → Nat)

/-- every group (and every single) of the endorsement stage is a contact group of some span -/
theorem endorseAll_group_origin (cat : Catalogue) (cells : Span) (escaped : List (Cell × List Char))
    (F : List FragSpan) (G : List (List FragSpan)) (h : endorseAll len cat cells escaped = some (F, G)) :
    ∀ g ∈ G, ∃ sp : Span, g ∈ contactsOf len sp := by
  unfold endorseAll at h
  simp only at h
  split at h
  · cases h
  · rename_i rs hrs
    cases h
    intro g hg
    have hg' := (List.mem_filter.mp hg).1
    obtain ⟨r, _, hgr⟩ := List.mem_flatMap.mp hg'
    obtain ⟨sp, _, hgsp⟩ := List.mem_flatMap.mp hgr
    exact ⟨sp, hgsp⟩

/-- **no emitted group holds two plain lines that are collinear and touching** (in either order) -/
theorem endorseAll_groups_lines (cat : Catalogue) (cells : Span) (escaped : List (Cell × List Char))
    (F : List FragSpan) (G : List (List FragSpan)) (h : endorseAll len cat cells escaped = some (F, G)) :
    ∀ g ∈ G, g.Pairwise NotMergeableLines := by
  intro g hg
  obtain ⟨sp, hsp⟩ := endorseAll_group_origin len cat cells escaped F G h g hg
  exact (contactsOf_lines_not_mergeable len sp).sublist (sublist_flatMap_id_of_mem _ g hsp)

end Svgbob

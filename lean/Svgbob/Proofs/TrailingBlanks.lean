import Svgbob.Proofs.LineParse
import Svgbob.Proofs.EscapeLine
import Svgbob.Model.Front
/-!
# Trailing blanks of a row change nothing

`t` is a run of invisible characters at the end of a row: no quote, white space for the cell map,
one buffer column each (spaces and tabs are). The quote parser finds the same segments, the
blanked row only gets `t` appended, and the cell map skips `t`.
-/
namespace Svgbob

theorem charStrings_esc (cs : List Char) :
    charStrings ('\\' :: '"' :: cs) = ((charStrings cs).1 + 2, (charStrings cs).2) := by
  rw [charStrings.eq_def]
  simp only

theorem charStrings_nil : charStrings [] = (0, []) := by
  rw [charStrings.eq_def]

theorem charStrings_quote (cs : List Char) : charStrings ('"' :: cs) = (0, '"' :: cs) := by
  rw [charStrings.eq_def]; simp

theorem charStrings_plain (c : Char) (cs : List Char) (hq : c ≠ '"')
    (hno : ¬ (c = '\\' ∧ ∃ cs', cs = '"' :: cs')) :
    charStrings (c :: cs) = ((charStrings cs).1 + 1, (charStrings cs).2) := by
  rw [charStrings.eq_def]
  split
  · rename_i cs' heq
    simp only [List.cons.injEq] at heq
    exact absurd ⟨heq.1, cs', heq.2⟩ hno
  · rename_i c' cs' heq
    cases heq
    simp [hq]
  · rename_i heq; cases heq

theorem charStrings_noquote (t : List Char) (h : ∀ c ∈ t, notQuote c = true) :
    charStrings t = (t.length, []) := by
  induction t with
  | nil => exact charStrings_nil
  | cons c cs ih =>
    have hc : c ≠ '"' := by simpa [notQuote] using h c (by simp)
    have hcs := ih (fun d hd => h d (List.mem_cons_of_mem _ hd))
    rw [charStrings_plain c cs hc ?_, hcs]
    · simp
    · rintro ⟨_, cs', rfl⟩
      have := h '"' (by simp)
      simp [notQuote] at this

/-- the scan of a quoted region over `cs ++ t`: it either stops at the same quote (then `t` is
still ahead), or runs to the end of the row both times -/
theorem charStrings_append (t : List Char) (h : ∀ c ∈ t, notQuote c = true) :
    ∀ (n : Nat) (cs : List Char), cs.length ≤ n →
    ((charStrings cs).2 = [] ∧ (charStrings (cs ++ t)).2 = []) ∨
    ((charStrings cs).2 ≠ [] ∧ charStrings (cs ++ t) = ((charStrings cs).1, (charStrings cs).2 ++ t))
  | _, [], _ => by
    left
    simp only [List.nil_append, charStrings_noquote t h]
    rw [charStrings_nil]; simp
  | 0, c :: cs, hn => by simp at hn
  | n + 1, c :: cs, hn => by
    by_cases hq : c = '"'
    · subst hq
      right
      simp only [List.cons_append, charStrings_quote]
      simp
    · by_cases hesc : c = '\\' ∧ ∃ cs', cs = '"' :: cs'
      · obtain ⟨rfl, cs', rfl⟩ := hesc
        have ih := charStrings_append t h n cs' (by simp at hn; omega)
        simp only [List.cons_append, charStrings_esc]
        rcases ih with ⟨h1, h2⟩ | ⟨h1, h2⟩
        · exact Or.inl ⟨h1, h2⟩
        · exact Or.inr ⟨h1, by rw [h2]⟩
      · have ih := charStrings_append t h n cs (by simp at hn; omega)
        have hesc2 : ¬ (c = '\\' ∧ ∃ cs', cs ++ t = '"' :: cs') := by
          rintro ⟨hc, cs', heq⟩
          cases cs with
          | nil =>
            simp only [List.nil_append] at heq
            cases t with
            | nil => cases heq
            | cons d ds =>
              simp only [List.cons.injEq] at heq
              have := h d (by simp)
              rw [heq.1] at this
              simp [notQuote] at this
          | cons d ds =>
            simp only [List.cons_append, List.cons.injEq] at heq
            exact hesc ⟨hc, ds, by rw [heq.1]⟩
        simp only [List.cons_append]
        rw [charStrings_plain c cs hq hesc, charStrings_plain c (cs ++ t) hq hesc2]
        rcases ih with ⟨h1, h2⟩ | ⟨h1, h2⟩
        · exact Or.inl ⟨h1, h2⟩
        · exact Or.inr ⟨h1, by rw [h2]⟩

theorem dropWhile_all (p : Char → Bool) (l : List Char) (h : ∀ c ∈ l, p c = true) :
    l.dropWhile p = [] := by
  induction l with
  | nil => rfl
  | cons c cs ih =>
    simp [List.dropWhile_cons, h c (by simp), ih (fun d hd => h d (List.mem_cons_of_mem _ hd))]

theorem dropWhile_head_not (p : Char → Bool) (l : List Char) (q : Char) (r : List Char)
    (h : l.dropWhile p = q :: r) : p q = false := by
  induction l with
  | nil => simp at h
  | cons c cs ih =>
    by_cases hc : p c = true
    · simp only [List.dropWhile_cons, hc, if_true] at h
      exact ih h
    · simp only [List.dropWhile_cons, hc, Bool.false_eq_true, if_false, List.cons.injEq] at h
      rw [← h.1]; simpa using hc

theorem dropWhile_append_noquote (cs t : List Char) (h : ∀ c ∈ t, notQuote c = true) :
    (cs.dropWhile notQuote = [] ∧ (cs ++ t).dropWhile notQuote = []) ∨
    (cs.dropWhile notQuote ≠ [] ∧ (cs ++ t).dropWhile notQuote = cs.dropWhile notQuote ++ t ∧
      (cs ++ t).takeWhile notQuote = cs.takeWhile notQuote) := by
  induction cs with
  | nil =>
    left
    refine ⟨rfl, ?_⟩
    simp only [List.nil_append]
    exact dropWhile_all notQuote t h
  | cons c cs ih =>
    by_cases hc : notQuote c = true
    · simp only [List.cons_append, List.dropWhile_cons, List.takeWhile_cons, hc, if_true]
      rcases ih with ⟨h1, h2⟩ | ⟨h1, h2, h3⟩
      · exact Or.inl ⟨h1, h2⟩
      · exact Or.inr ⟨h1, h2, by rw [h3]⟩
    · right
      simp [List.dropWhile_cons, List.takeWhile_cons, hc]

theorem escapeString_nil (pos : Nat) : escapeString pos [] = none := by
  simp [escapeString, sym]

theorem escapeString_unfold (pos : Nat) (cs cs1 : List Char)
    (hs : sym '"' (cs.dropWhile notQuote) = some cs1) :
    escapeString pos cs =
      match sym '"' (charStrings cs1).2 with
      | none => none
      | some cs2 =>
        some ((pos + (cs.takeWhile notQuote).length,
                pos + (cs.takeWhile notQuote).length + 1 + (charStrings cs1).1),
          cs2.dropWhile notQuote,
          pos + (cs.takeWhile notQuote).length + 1 + (charStrings cs1).1 + 1 +
            (cs2.takeWhile notQuote).length) := by
  unfold escapeString
  simp only [hs]
  rfl

/-- one quoted segment of `cs ++ t`: the same segment; what is left is empty both times, or the
same rest with `t` still behind it, at the same position -/
theorem escapeString_append (pos : Nat) (cs t : List Char) (h : ∀ c ∈ t, notQuote c = true) :
    (escapeString pos cs = none ∧ escapeString pos (cs ++ t) = none) ∨
    ∃ se rest p rest' p', escapeString pos cs = some (se, rest, p) ∧
      escapeString pos (cs ++ t) = some (se, rest', p') ∧
      ((rest = [] ∧ rest' = []) ∨ (rest ≠ [] ∧ rest' = rest ++ t ∧ p' = p)) := by
  rcases dropWhile_append_noquote cs t h with ⟨h1, h2⟩ | ⟨h1, h2, h3⟩
  · left
    simp [escapeString, h1, h2, sym]
  · -- there is a character at which `dropWhile` stops: it is a quote
    cases hd : cs.dropWhile notQuote with
    | nil => exact absurd hd h1
    | cons q cs1 =>
      have hq : q = '"' := by
        have := dropWhile_head_not notQuote cs q cs1 hd
        simpa [notQuote] using this
      subst hq
      have s1 : sym '"' (cs.dropWhile notQuote) = some cs1 := by simp [hd, sym]
      have s2 : sym '"' ((cs ++ t).dropWhile notQuote) = some (cs1 ++ t) := by simp [h2, hd, sym]
      rw [escapeString_unfold pos cs cs1 s1, escapeString_unfold pos (cs ++ t) (cs1 ++ t) s2, h3]
      rcases charStrings_append t h cs1.length cs1 (Nat.le_refl _) with ⟨c1, c2⟩ | ⟨c1, c2⟩
      · left
        rw [c1, c2]
        simp [sym]
      · rw [c2]
        cases hr : (charStrings cs1).2 with
        | nil => exact absurd hr c1
        | cons q2 cs2 =>
          by_cases hq2 : q2 = '"'
          · subst hq2
            right
            have t1 : sym '"' ('"' :: cs2) = some cs2 := by simp [sym]
            have t2 : sym '"' ('"' :: (cs2 ++ t)) = some (cs2 ++ t) := by simp [sym]
            simp only [List.cons_append, t1, t2]
            rcases dropWhile_append_noquote cs2 t h with ⟨d1, d2⟩ | ⟨d1, d2, d3⟩
            · exact ⟨_, _, _, _, _, rfl, rfl, Or.inl ⟨d1, d2⟩⟩
            · refine ⟨_, _, _, _, _, rfl, rfl, Or.inr ⟨d1, d2, ?_⟩⟩
              rw [d3]
          · left
            simp [sym, hq2]

theorem lineParseFrom_nil (fuel pos : Nat) : lineParseFrom fuel pos [] = [] := by
  cases fuel <;> simp [lineParseFrom, escapeString_nil]

theorem lineParseFrom_append (fuel pos : Nat) (cs t : List Char) (h : ∀ c ∈ t, notQuote c = true) :
    lineParseFrom fuel pos (cs ++ t) = lineParseFrom fuel pos cs := by
  induction fuel generalizing pos cs with
  | zero => rfl
  | succ fuel ih =>
    simp only [lineParseFrom]
    rcases escapeString_append pos cs t h with ⟨h1, h2⟩ | ⟨se, rest, p, rest', p', h1, h2, h3⟩
    · simp [h1, h2]
    · simp only [h1, h2]
      rcases h3 with ⟨rfl, rfl⟩ | ⟨_, rfl, rfl⟩
      · simp [lineParseFrom_nil]
      · rw [ih]

/-- **the quote parser finds the same segments** -/
theorem lineParse_append (cs t : List Char) (h : ∀ c ∈ t, notQuote c = true) :
    lineParse (cs ++ t) = lineParse cs := by
  unfold lineParse
  rw [lineParseFrom_append _ _ _ _ h]
  exact lineParseFrom_fuel_adequate _ _ _ _ (by simp) (by simp)

/-- the copy loop of `escape_line` on `row ++ t`: same segments, `t` appended to the blanked row -/
theorem escapeLoop_append (env : Env) (y : Int) (row t : List Char) :
    ∀ (locs : List (Nat × Nat)) (index lo : Nat), LocsOk lo row.length locs → index ≤ row.length →
      escapeLoop env y (row ++ t) locs index =
        ((escapeLoop env y row locs index).1, (escapeLoop env y row locs index).2 ++ t)
  | [], index, _, _, hi => by
    simp only [escapeLoop]
    rw [List.drop_append_of_le_length hi]
  | (s, e) :: rest, index, lo, hl, hi => by
    simp only [LocsOk] at hl
    obtain ⟨_, hse, he, hrest⟩ := hl
    have ih := escapeLoop_append env y row t rest (e + 1) (e + 1) hrest (by omega)
    simp only [escapeLoop, ih]
    have hseg : ((row ++ t).drop (s + 1)).take (e - (s + 1)) = (row.drop (s + 1)).take (e - (s + 1)) := by
      rw [List.drop_append_of_le_length (by omega)]
      rw [List.take_append_of_le_length (by simp; omega)]
    have hpre : ((row ++ t).drop index).take (s - index) = (row.drop index).take (s - index) := by
      rw [List.drop_append_of_le_length hi]
      rw [List.take_append_of_le_length (by simp; omega)]
    rw [hseg, hpre]
    simp [List.append_assoc]

theorem escapeLine_append (env : Env) (y : Int) (row t : List Char) (h : ∀ c ∈ t, notQuote c = true) :
    escapeLine env y (row ++ t) = ((escapeLine env y row).1, (escapeLine env y row).2 ++ t) := by
  unfold escapeLine
  rw [lineParse_append row t h]
  have hok := lineParse_ok row
  cases hl : lineParse row with
  | nil => rfl
  | cons se rest =>
    rw [hl] at hok
    exact escapeLoop_append env y row t (se :: rest) 0 0 hok (by omega)

theorem rowCellsFrom_append_ws (env : Env) (y : Int) (r t : List Char) (h : ∀ c ∈ t, env.isWs c = true) :
    ∀ x, rowCellsFrom env y x (r ++ t) = rowCellsFrom env y x r := by
  induction r with
  | nil =>
    induction t with
    | nil => intro x; rfl
    | cons c cs ih =>
      intro x
      have hc := h c (by simp)
      simp only [List.nil_append, rowCellsFrom, hc, Bool.not_true, Bool.and_false, Bool.false_eq_true, if_false]
      have := ih (fun d hd => h d (List.mem_cons_of_mem _ hd)) (x + 1)
      simpa [rowCellsFrom] using this
  | cons c cs ih =>
    intro x
    simp only [List.cons_append, rowCellsFrom, ih]

/-- invisible characters at the end of a row: no quote, white space, one buffer column each -/
def Trail (env : Env) (t : List Char) : Prop :=
  ∀ c ∈ t, notQuote c = true ∧ env.isWs c = true ∧ (env.width c).getD 1 - 1 = 0

theorem expandRow_append (env : Env) (r t : List Char) :
    expandRow env (r ++ t) = expandRow env r ++ expandRow env t := by
  simp [expandRow, List.flatMap_append]

theorem expandRow_trail (env : Env) (t : List Char) (h : Trail env t) : expandRow env t = t := by
  induction t with
  | nil => rfl
  | cons c cs ih =>
    have hc := (h c (by simp)).2.2
    simp only [expandRow, List.flatMap_cons, hc, List.replicate_zero] at ih ⊢
    rw [ih (fun d hd => h d (List.mem_cons_of_mem _ hd))]
    rfl

/-- **Trailing blanks of the rows change neither the cells nor the quoted texts.** -/
theorem rowsFront_trailing (env : Env) :
    ∀ (y : Nat) (rows : List (List Char × List Char)), (∀ rt ∈ rows, Trail env rt.2) →
      rowsFront env y (rows.map fun rt => rt.1 ++ rt.2) = rowsFront env y (rows.map (·.1))
  | _, [], _ => rfl
  | y, (r, t) :: rows, h => by
    have ht := h (r, t) (by simp)
    simp only at ht
    have ih := rowsFront_trailing env (y + 1) rows (fun rt hrt => h rt (List.mem_cons_of_mem _ hrt))
    simp only [List.map_cons, rowsFront, ih]
    rw [expandRow_append, expandRow_trail env t ht,
      escapeLine_append env y (expandRow env r) t (fun c hc => (ht c hc).1)]
    simp only
    rw [rowCellsFrom_append_ws env y _ t (fun c hc => (ht c hc).2.1)]

end Svgbob

import Svgbob.Model.Pipeline
import Svgbob.Proofs.Merge
import Mathlib.Tactic.Ring
/-!
# Line merging: fixpoint (no mergeable pair survives) and straight runs
-/
namespace Svgbob

/-- the relation the property speaks about: two segments lie on one straight line and touch -/
def CollinearTouching (s e s' e' : Pt) : Prop := lineCanMerge s e s' e' = true

/-- after the fragment merge of a scope, no later fragment merges into an earlier one -/
theorem merged_fragments_noMerge (len : List Char → Nat) (frags : List FragSpan) :
    G.NoMerge (FragSpan.merge len)
      (G.mergeRec (FragSpan.merge len) (frags.length + 1) frags) :=
  (G.mergeRec_fuel_adequate (FragSpan.merge len) (frags.length + 1) frags (by omega)).1

theorem noMerge_pair {α : Type} (merge : α → α → Option α) (l : List α) (h : G.NoMerge merge l)
    (pre mid post : List α) (x y : α) (hl : l = pre ++ x :: mid ++ y :: post) :
    merge x y = none := by
  induction pre generalizing l with
  | nil =>
    subst hl
    simp only [List.nil_append, List.cons_append, G.NoMerge] at h
    exact h.1 y (by simp)
  | cons p pre ih =>
    subst hl
    simp only [List.cons_append, G.NoMerge] at h
    exact ih _ h.2 (by simp)

/-- **No two plain lines of a merged scope are collinear and touching** (earlier one first). -/
theorem no_collinear_touching_pair (len : List Char → Nat) (frags : List FragSpan)
    (pre mid post : List FragSpan) (sp sp' : Span) (s e s' e' : Pt) (b b' : Bool)
    (h : G.mergeRec (FragSpan.merge len) (frags.length + 1) frags =
      pre ++ ⟨sp, .line s e b⟩ :: mid ++ ⟨sp', .line s' e' b'⟩ :: post) :
    ¬ CollinearTouching s e s' e' := by
  have hn := merged_fragments_noMerge len frags
  have := noMerge_pair _ _ hn pre mid post _ _ h
  intro hc
  simp only [FragSpan.merge, Frag.merge, lineMerge, CollinearTouching] at this hc
  simp [hc] at this

/-- the same line cannot occur twice: a non-degenerate line is collinear with and touches itself -/
theorem line_merges_with_itself (s e : Pt) : lineCanMerge s e s e = true := by
  have h0 : (e.x - s.x) * (s.y - s.y) - (e.y - s.y) * (s.x - s.x) = 0 := by ring
  have h1 : (e.x - s.x) * (e.y - s.y) - (e.y - s.y) * (e.x - s.x) = 0 := by ring
  simp only [lineCanMerge, lineTouching, onSegment, isCollinear, h0, h1, Bool.and_eq_true,
    Bool.or_eq_true, decide_eq_true_eq, beq_iff_eq]
  refine ⟨⟨?_, ?_⟩, ?_⟩
  · left; left; left
    refine ⟨⟨⟨⟨trivial, ?_⟩, ?_⟩, ?_⟩, ?_⟩ <;> omega
  · decide
  · decide

/-! ## the collinearity test is exact on the grid -/

theorem isCollinear_iff_cross_zero_on_grid (a b c : Pt)
    (ha : 250 ∣ a.x ∧ 250 ∣ a.y) (hb : 250 ∣ b.x ∧ 250 ∣ b.y) (hc : 250 ∣ c.x ∧ 250 ∣ c.y) :
    isCollinear a b c = true ↔
      (b.x - a.x) * (c.y - a.y) - (b.y - a.y) * (c.x - a.x) = 0 := by
  obtain ⟨⟨ax, hax⟩, ⟨ay, hay⟩⟩ := ha
  obtain ⟨⟨bx, hbx⟩, ⟨by', hby⟩⟩ := hb
  obtain ⟨⟨cx, hcx⟩, ⟨cy, hcy⟩⟩ := hc
  simp only [isCollinear, decide_eq_true_eq]
  have hk : (b.x - a.x) * (c.y - a.y) - (b.y - a.y) * (c.x - a.x) =
      62500 * ((bx - ax) * (cy - ay) - (by' - ay) * (cx - ax)) := by
    rw [hax, hay, hbx, hby, hcx, hcy]; ring
  rw [hk]
  generalize (bx - ax) * (cy - ay) - (by' - ay) * (cx - ax) = k
  constructor
  · intro h
    have : k = 0 := by omega
    simp [this]
  · intro h
    have : k = 0 := by omega
    simp [this]

end Svgbob

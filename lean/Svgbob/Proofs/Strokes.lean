import Svgbob.Proofs.Cover
import Svgbob.Proofs.LineMerge
import Mathlib.Tactic.Linarith
import Mathlib.Tactic.LinearCombination
/-!
# The stroked point set: merging two lines strokes exactly the union of what the two stroked

Points are *rational*: `(px / q, py / q)` in milli-units with `q > 0`, so the statements are about
the exact point sets, not about a lattice of sample points.
-/
namespace Svgbob

/-- a rational point `(px / q, py / q)` -/
structure RPt where
  px : Int
  py : Int
  q : Int

/-- cross product of `e - s` with `P - s`, scaled by `q` -/
def cr (s e : Pt) (P : RPt) : Int :=
  (e.x - s.x) * (P.py - P.q * s.y) - (e.y - s.y) * (P.px - P.q * s.x)

/-- cross product of `e - s` with `a - s` for an integer point -/
def cross (s e a : Pt) : Int := (e.x - s.x) * (a.y - s.y) - (e.y - s.y) * (a.x - s.x)

/-- the rational point `P` lies on the closed segment from `s` to `e` (the same predicate as the
code's `onSegment`, at a rational point) -/
def OnSeg (s e : Pt) (P : RPt) : Prop :=
  cr s e P = 0 ∧ P.q * min s.x e.x ≤ P.px ∧ P.px ≤ P.q * max s.x e.x ∧
    P.q * min s.y e.y ≤ P.py ∧ P.py ≤ P.q * max s.y e.y

/-- at an integer point `OnSeg` is the model's `onSegment` -/
theorem onSeg_int (s e p : Pt) : OnSeg s e ⟨p.x, p.y, 1⟩ ↔ onSegment s e p = true := by
  simp only [OnSeg, cr, onSegment, Bool.and_eq_true, decide_eq_true_eq, beq_iff_eq, Int.one_mul]
  constructor
  · rintro ⟨h1, h2, h3, h4, h5⟩; exact ⟨⟨⟨⟨h1, h2⟩, h3⟩, h4⟩, h5⟩
  · rintro ⟨⟨⟨⟨h1, h2⟩, h3⟩, h4⟩, h5⟩; exact ⟨h1, h2, h3, h4, h5⟩

theorem cmp_lt_iff (a b : Pt) : a.cmp b = .lt ↔ a.y < b.y ∨ (a.y = b.y ∧ a.x < b.x) := by
  unfold Pt.cmp
  constructor
  · intro h
    split at h
    · left; assumption
    · split at h
      · cases h
      · split at h
        · right; constructor <;> omega
        · split at h <;> cases h
  · rintro (h | ⟨h1, h2⟩)
    · simp [h]
    · have : ¬ a.y < b.y := by omega
      have : ¬ b.y < a.y := by omega
      simp [*]

theorem cmp_gt_iff (a b : Pt) : a.cmp b = .gt ↔ b.y < a.y ∨ (a.y = b.y ∧ b.x < a.x) := by
  unfold Pt.cmp
  constructor
  · intro h
    split at h
    · cases h
    · split at h
      · left; assumption
      · split at h
        · cases h
        · split at h
          · right; constructor <;> omega
          · cases h
  · rintro (h | ⟨h1, h2⟩)
    · have : ¬ a.y < b.y := by omega
      simp [*]
    · have : ¬ a.y < b.y := by omega
      have : ¬ b.y < a.y := by omega
      have : ¬ a.x < b.x := by omega
      simp [*]

/-- a horizontal segment: same `y`, `x` in the interval -/
theorem onSeg_horizontal (s e : Pt) (P : RPt) (hy : s.y = e.y) (hx : s.x < e.x) (hq : 0 < P.q) :
    OnSeg s e P ↔ P.py = P.q * s.y ∧ P.q * s.x ≤ P.px ∧ P.px ≤ P.q * e.x := by
  have hmin : min s.x e.x = s.x := by omega
  have hmax : max s.x e.x = e.x := by omega
  have hminy : min s.y e.y = s.y := by omega
  have hmaxy : max s.y e.y = s.y := by omega
  simp only [OnSeg, cr, hmin, hmax, hminy, hmaxy]
  have hd : e.y - s.y = 0 := by omega
  rw [hd, Int.zero_mul, Int.sub_zero]
  constructor
  · rintro ⟨h1, h2, h3, h4, h5⟩
    refine ⟨?_, h2, h3⟩
    rcases Int.mul_eq_zero.mp h1 with h | h <;> omega
  · rintro ⟨h1, h2, h3⟩
    refine ⟨?_, h2, h3, ?_, ?_⟩
    · rw [h1]; simp
    · omega
    · omega

/-- a non-horizontal segment sorted by `y`: on the line, `y` in the interval (the `x` bounds follow) -/
theorem onSeg_rising (s e : Pt) (P : RPt) (hy : s.y < e.y) (hq : 0 < P.q) :
    OnSeg s e P ↔ cr s e P = 0 ∧ P.q * s.y ≤ P.py ∧ P.py ≤ P.q * e.y := by
  have hminy : min s.y e.y = s.y := by omega
  have hmaxy : max s.y e.y = e.y := by omega
  simp only [OnSeg, hminy, hmaxy]
  constructor
  · rintro ⟨h1, _, _, h4, h5⟩; exact ⟨h1, h4, h5⟩
  · rintro ⟨h1, h4, h5⟩
    refine ⟨h1, ?_, ?_, h4, h5⟩
    · -- lower x bound
      unfold cr at h1
      have hdy : 0 < e.y - s.y := by omega
      rcases Int.le_total s.x e.x with hle | hle
      · have : min s.x e.x = s.x := by omega
        rw [this]
        -- (e.y - s.y) * (px - q sx) = (e.x - s.x) * (py - q sy) ≥ 0
        have h0 : 0 ≤ (e.x - s.x) * (P.py - P.q * s.y) :=
          Int.mul_nonneg (by omega) (by omega)
        have h2 : 0 ≤ (e.y - s.y) * (P.px - P.q * s.x) := by omega
        have := Int.nonneg_of_mul_nonneg_right (a := e.y - s.y) (b := P.px - P.q * s.x) h2 hdy
        omega
      · have : min s.x e.x = e.x := by omega
        rw [this]
        -- (e.y - s.y) * (px - q ex) = (s.x - e.x) * (q ey - py) ≥ 0
        have h0 : 0 ≤ (s.x - e.x) * (P.q * e.y - P.py) :=
          Int.mul_nonneg (by omega) (by omega)
        have h2 : (e.y - s.y) * (P.px - P.q * e.x) = (s.x - e.x) * (P.q * e.y - P.py) := by
          linear_combination (-1 : Int) * h1
        have h3 : 0 ≤ (e.y - s.y) * (P.px - P.q * e.x) := by omega
        have := Int.nonneg_of_mul_nonneg_right (a := e.y - s.y) (b := P.px - P.q * e.x) h3 hdy
        omega
    · -- upper x bound
      unfold cr at h1
      have hdy : 0 < e.y - s.y := by omega
      rcases Int.le_total s.x e.x with hle | hle
      · have : max s.x e.x = e.x := by omega
        rw [this]
        have h0 : 0 ≤ (e.x - s.x) * (P.q * e.y - P.py) :=
          Int.mul_nonneg (by omega) (by omega)
        have h2 : (e.y - s.y) * (P.q * e.x - P.px) = (e.x - s.x) * (P.q * e.y - P.py) := by
          linear_combination (1 : Int) * h1
        have h3 : 0 ≤ (e.y - s.y) * (P.q * e.x - P.px) := by omega
        have := Int.nonneg_of_mul_nonneg_right (a := e.y - s.y) (b := P.q * e.x - P.px) h3 hdy
        omega
      · have : max s.x e.x = s.x := by omega
        rw [this]
        have h0 : 0 ≤ (s.x - e.x) * (P.py - P.q * s.y) :=
          Int.mul_nonneg (by omega) (by omega)
        have h2 : (e.y - s.y) * (P.q * s.x - P.px) = (s.x - e.x) * (P.py - P.q * s.y) := by
          linear_combination (1 : Int) * h1
        have h3 : 0 ≤ (e.y - s.y) * (P.q * s.x - P.px) := by omega
        have := Int.nonneg_of_mul_nonneg_right (a := e.y - s.y) (b := P.q * s.x - P.px) h3 hdy
        omega

/-- two integer points of the line through `s`, `e` (not horizontal) span the same line -/
theorem cr_transfer (s e a b : Pt) (P : RPt) (hy : s.y < e.y) (hab : a.y < b.y)
    (ha : cross s e a = 0) (hb : cross s e b = 0) : cr a b P = 0 ↔ cr s e P = 0 := by
  have key : (e.y - s.y) * cr a b P = (b.y - a.y) * cr s e P := by
    unfold cross at ha hb
    unfold cr
    linear_combination (-((b.y - a.y) * P.q) + (P.py - P.q * a.y)) * ha - (P.py - P.q * a.y) * hb
  constructor
  · intro h
    rw [h, Int.mul_zero] at key
    rcases Int.mul_eq_zero.mp key.symm with h1 | h1
    · omega
    · exact h1
  · intro h
    rw [h, Int.mul_zero] at key
    rcases Int.mul_eq_zero.mp key with h1 | h1
    · omega
    · exact h1

theorem cmp_ne_gt_iff (a b : Pt) : a.cmp b ≠ .gt ↔ a.y < b.y ∨ (a.y = b.y ∧ a.x ≤ b.x) := by
  rw [Ne, cmp_gt_iff]; omega

theorem cmp_ne_lt_iff (a b : Pt) : a.cmp b ≠ .lt ↔ b.y < a.y ∨ (a.y = b.y ∧ b.x ≤ a.x) := by
  rw [Ne, cmp_lt_iff]; omega

theorem ptMin_cases (a b : Pt) :
    (Pt.min a b = a ∧ a.cmp b ≠ .gt) ∨ (Pt.min a b = b ∧ a.cmp b = .gt) := by
  unfold Pt.min
  by_cases h : a.cmp b = .gt
  · right; simp [h]
  · left; simp [h]

theorem ptMax_cases (a b : Pt) :
    (Pt.max a b = a ∧ a.cmp b ≠ .lt) ∨ (Pt.max a b = b ∧ a.cmp b = .lt) := by
  unfold Pt.max
  by_cases h : a.cmp b = .lt
  · right; simp [h]
  · left; simp [h]

theorem onSegment_bounds (s e p : Pt) (h : onSegment s e p = true) :
    cross s e p = 0 ∧ min s.x e.x ≤ p.x ∧ p.x ≤ max s.x e.x ∧ min s.y e.y ≤ p.y ∧
      p.y ≤ max s.y e.y := by
  simp only [onSegment, Bool.and_eq_true, decide_eq_true_eq, beq_iff_eq] at h
  obtain ⟨⟨⟨⟨h1, h2⟩, h3⟩, h4⟩, h5⟩ := h
  exact ⟨h1, h2, h3, h4, h5⟩

/-- union of two overlapping closed intervals, all bounds scaled by `q > 0` (the products are
opaque to `omega`, so they come in as variables with the order facts that matter) -/
theorem interval_union (a b a' b' m M t : Int) (hab : a ≤ b) (hab' : a' ≤ b')
    (hov1 : a' ≤ b) (hov2 : a ≤ b')
    (hm : (m = a ∧ a ≤ a') ∨ (m = a' ∧ a' ≤ a)) (hM : (M = b ∧ b' ≤ b) ∨ (M = b' ∧ b ≤ b')) :
    (m ≤ t ∧ t ≤ M) ↔ (a ≤ t ∧ t ≤ b) ∨ (a' ≤ t ∧ t ≤ b') := by omega

theorem mul_le_of_le (q a b : Int) (hq : 0 < q) (h : a ≤ b) : q * a ≤ q * b :=
  Int.mul_le_mul_of_nonneg_left h (Int.le_of_lt hq)

/-- **Merging two collinear touching lines strokes exactly the union of their points.**
`s < e` and `s' < e'` in the order `Line::new` establishes; both ends of the second line lie on
the straight line through the first; the two touch. -/
theorem onSeg_union (s e s' e' : Pt) (hs : s.cmp e = .lt) (hs' : s'.cmp e' = .lt)
    (hc1 : cross s e s' = 0) (hc2 : cross s e e' = 0) (ht : lineTouching s e s' e' = true)
    (P : RPt) (hq : 0 < P.q) :
    OnSeg (Pt.min s s') (Pt.max e e') P ↔ OnSeg s e P ∨ OnSeg s' e' P := by
  rcases (cmp_lt_iff s e).mp hs with hy | ⟨hy, hx⟩
  · -- the line rises: everything is decided by `y`
    have hdy : 0 < e.y - s.y := by omega
    -- the second line is parallel, hence also rising
    have hpar : (e.x - s.x) * (e'.y - s'.y) - (e.y - s.y) * (e'.x - s'.x) = 0 := by
      unfold cross at hc1 hc2; linear_combination hc2 - hc1
    have hy' : s'.y < e'.y := by
      rcases (cmp_lt_iff s' e').mp hs' with h | ⟨h1, h2⟩
      · exact h
      · exfalso
        have h0 : e'.y - s'.y = 0 := by omega
        rw [h0, Int.mul_zero, Int.zero_sub] at hpar
        have : (e.y - s.y) * (e'.x - s'.x) = 0 := by omega
        rcases Int.mul_eq_zero.mp this with h3 | h3 <;> omega
    -- the two `y` intervals overlap
    have hov : s'.y ≤ e.y ∧ s.y ≤ e'.y := by
      simp only [lineTouching, Bool.or_eq_true] at ht
      rcases ht with ((h | h) | h) | h
      all_goals (have := onSegment_bounds _ _ _ h; omega)
    have hcs : cross s e s = 0 := by unfold cross; ring
    have hce : cross s e e = 0 := by unfold cross; ring
    rcases ptMin_cases s s' with ⟨hm, hmc⟩ | ⟨hm, hmc⟩ <;>
    rcases ptMax_cases e e' with ⟨hM, hMc⟩ | ⟨hM, hMc⟩
    all_goals
      rw [hm, hM]
      first | rw [cmp_ne_gt_iff] at hmc | rw [cmp_gt_iff] at hmc
      first | rw [cmp_ne_lt_iff] at hMc | rw [cmp_lt_iff] at hMc
    · -- min = s, max = e
      rw [onSeg_rising s e P hy hq, onSeg_rising s' e' P hy' hq, cr_transfer s e s' e' P hy hy' hc1 hc2]
      have h1 := mul_le_of_le P.q s.y s'.y hq (by omega)
      have h2 := mul_le_of_le P.q e'.y e.y hq (by omega)
      have h3 := mul_le_of_le P.q s'.y e'.y hq (by omega)
      generalize P.q * s.y = A at *
      generalize P.q * e.y = B at *
      generalize P.q * s'.y = A' at *
      generalize P.q * e'.y = B' at *
      constructor
      · rintro h; exact Or.inl h
      · rintro (h | ⟨h, _, _⟩)
        · exact h
        · exact ⟨h, by omega, by omega⟩
    · -- min = s, max = e'
      have hyy : s.y < e'.y := by omega
      rw [onSeg_rising s e P hy hq, onSeg_rising s' e' P hy' hq, onSeg_rising s e' P hyy hq,
        cr_transfer s e s' e' P hy hy' hc1 hc2, cr_transfer s e s e' P hy hyy hcs hc2]
      have h1 := mul_le_of_le P.q s.y s'.y hq (by omega)
      have h2 := mul_le_of_le P.q e.y e'.y hq (by omega)
      have h3 := mul_le_of_le P.q s'.y e.y hq (by omega)
      generalize P.q * s.y = A at *
      generalize P.q * e.y = B at *
      generalize P.q * s'.y = A' at *
      generalize P.q * e'.y = B' at *
      constructor
      · rintro ⟨h, _, _⟩
        by_cases hh : P.py ≤ B
        · exact Or.inl ⟨h, by omega, by omega⟩
        · exact Or.inr ⟨h, by omega, by omega⟩
      · rintro (⟨h, _, _⟩ | ⟨h, _, _⟩) <;> exact ⟨h, by omega, by omega⟩
    · -- min = s', max = e
      have hyy : s'.y < e.y := by omega
      rw [onSeg_rising s e P hy hq, onSeg_rising s' e' P hy' hq, onSeg_rising s' e P hyy hq,
        cr_transfer s e s' e' P hy hy' hc1 hc2, cr_transfer s e s' e P hy hyy hc1 hce]
      have h1 := mul_le_of_le P.q s'.y s.y hq (by omega)
      have h2 := mul_le_of_le P.q e'.y e.y hq (by omega)
      have h3 := mul_le_of_le P.q s.y e'.y hq (by omega)
      generalize P.q * s.y = A at *
      generalize P.q * e.y = B at *
      generalize P.q * s'.y = A' at *
      generalize P.q * e'.y = B' at *
      constructor
      · rintro ⟨h, _, _⟩
        by_cases hh : A ≤ P.py
        · exact Or.inl ⟨h, by omega, by omega⟩
        · exact Or.inr ⟨h, by omega, by omega⟩
      · rintro (⟨h, _, _⟩ | ⟨h, _, _⟩) <;> exact ⟨h, by omega, by omega⟩
    · -- min = s', max = e'
      rw [onSeg_rising s e P hy hq, onSeg_rising s' e' P hy' hq, cr_transfer s e s' e' P hy hy' hc1 hc2]
      have h1 := mul_le_of_le P.q s'.y s.y hq (by omega)
      have h2 := mul_le_of_le P.q e.y e'.y hq (by omega)
      generalize P.q * s.y = A at *
      generalize P.q * e.y = B at *
      generalize P.q * s'.y = A' at *
      generalize P.q * e'.y = B' at *
      constructor
      · rintro h; exact Or.inr h
      · rintro (⟨h, _, _⟩ | h)
        · exact ⟨h, by omega, by omega⟩
        · exact h
  · -- horizontal: all four points on one row
    have hd0 : e.y - s.y = 0 := by omega
    have hdx : 0 < e.x - s.x := by omega
    have hsy' : s'.y = s.y := by
      unfold cross at hc1
      rw [hd0, Int.zero_mul, Int.sub_zero] at hc1
      rcases Int.mul_eq_zero.mp hc1 with h | h <;> omega
    have hey' : e'.y = s.y := by
      unfold cross at hc2
      rw [hd0, Int.zero_mul, Int.sub_zero] at hc2
      rcases Int.mul_eq_zero.mp hc2 with h | h <;> omega
    have hx' : s'.x < e'.x := by
      rcases (cmp_lt_iff s' e').mp hs' with h | ⟨_, h2⟩
      · omega
      · exact h2
    have hov : s'.x ≤ e.x ∧ s.x ≤ e'.x := by
      simp only [lineTouching, Bool.or_eq_true] at ht
      rcases ht with ((h | h) | h) | h
      all_goals (have := onSegment_bounds _ _ _ h; omega)
    rcases ptMin_cases s s' with ⟨hm, hmc⟩ | ⟨hm, hmc⟩ <;>
    rcases ptMax_cases e e' with ⟨hM, hMc⟩ | ⟨hM, hMc⟩
    all_goals
      rw [hm, hM]
      first | rw [cmp_ne_gt_iff] at hmc | rw [cmp_gt_iff] at hmc
      first | rw [cmp_ne_lt_iff] at hMc | rw [cmp_lt_iff] at hMc
    · rw [onSeg_horizontal s e P hy hx hq, onSeg_horizontal s' e' P (by omega) hx' hq, hsy']
      have h1 := mul_le_of_le P.q s.x s'.x hq (by omega)
      have h2 := mul_le_of_le P.q e'.x e.x hq (by omega)
      generalize P.q * s.x = A at *
      generalize P.q * e.x = B at *
      generalize P.q * s'.x = A' at *
      generalize P.q * e'.x = B' at *
      constructor
      · intro h; exact Or.inl h
      · rintro (h | ⟨h, _, _⟩)
        · exact h
        · exact ⟨h, by omega, by omega⟩
    · rw [onSeg_horizontal s e P hy hx hq, onSeg_horizontal s' e' P (by omega) hx' hq,
        onSeg_horizontal s e' P (by omega) (by omega) hq, hsy']
      have h1 := mul_le_of_le P.q s.x s'.x hq (by omega)
      have h2 := mul_le_of_le P.q e.x e'.x hq (by omega)
      have h3 := mul_le_of_le P.q s'.x e.x hq (by omega)
      generalize P.q * s.x = A at *
      generalize P.q * e.x = B at *
      generalize P.q * s'.x = A' at *
      generalize P.q * e'.x = B' at *
      constructor
      · rintro ⟨h, _, _⟩
        by_cases hh : P.px ≤ B
        · exact Or.inl ⟨h, by omega, by omega⟩
        · exact Or.inr ⟨h, by omega, by omega⟩
      · rintro (⟨h, _, _⟩ | ⟨h, _, _⟩) <;> exact ⟨h, by omega, by omega⟩
    · rw [onSeg_horizontal s e P hy hx hq, onSeg_horizontal s' e' P (by omega) hx' hq,
        onSeg_horizontal s' e P (by omega) (by omega) hq, hsy']
      have h1 := mul_le_of_le P.q s'.x s.x hq (by omega)
      have h2 := mul_le_of_le P.q e'.x e.x hq (by omega)
      have h3 := mul_le_of_le P.q s.x e'.x hq (by omega)
      generalize P.q * s.x = A at *
      generalize P.q * e.x = B at *
      generalize P.q * s'.x = A' at *
      generalize P.q * e'.x = B' at *
      constructor
      · rintro ⟨h, _, _⟩
        by_cases hh : A ≤ P.px
        · exact Or.inl ⟨h, by omega, by omega⟩
        · exact Or.inr ⟨h, by omega, by omega⟩
      · rintro (⟨h, _, _⟩ | ⟨h, _, _⟩) <;> exact ⟨h, by omega, by omega⟩
    · rw [onSeg_horizontal s e P hy hx hq, onSeg_horizontal s' e' P (by omega) hx' hq, hsy']
      have h1 := mul_le_of_le P.q s'.x s.x hq (by omega)
      have h2 := mul_le_of_le P.q e.x e'.x hq (by omega)
      generalize P.q * s.x = A at *
      generalize P.q * e.x = B at *
      generalize P.q * s'.x = A' at *
      generalize P.q * e'.x = B' at *
      constructor
      · intro h; exact Or.inr h
      · rintro (⟨h, _, _⟩ | h)
        · exact ⟨h, by omega, by omega⟩
        · exact h

/-! ## fragments -/

/-- on the quarter-cell grid (every point the tables name for a line is) -/
def OnGrid (p : Pt) : Prop := 250 ∣ p.x ∧ 250 ∣ p.y

/-- what stroke reasoning needs of a fragment: a line is stored the way `Line::new` leaves it
(start before end, not degenerate) with both ends on the quarter-cell grid; there is no bullet
(a bullet would swallow the end of a line: C14) -/
def Frag.StrokeOk : Frag → Prop
  | .line s e _ => s.cmp e = .lt ∧ OnGrid s ∧ OnGrid e
  | .circle .. => False
  | _ => True

/-- the rational points a fragment strokes, for the stroke-only fragments (lines) -/
def Frag.strokes : Frag → RPt → Prop
  | .line s e _, P => OnSeg s e P
  | _, _ => False

theorem lineMerge_some (s e : Pt) (b : Bool) (s' e' : Pt) (b' : Bool) (m : Frag)
    (h : lineMerge s e b s' e' b' = some m) :
    lineCanMerge s e s' e' = true ∧ m = mkLine (Pt.min s s') (Pt.max e e') (b || b') := by
  unfold lineMerge at h
  split at h
  · simp at h; exact ⟨by assumption, h.symm⟩
  · simp at h

theorem min_lt_max (s e s' e' : Pt) (hs : s.cmp e = .lt) (hs' : s'.cmp e' = .lt) :
    (Pt.min s s').cmp (Pt.max e e') = .lt := by
  rw [cmp_lt_iff] at hs hs' ⊢
  rcases ptMin_cases s s' with ⟨hm, hmc⟩ | ⟨hm, hmc⟩ <;>
  rcases ptMax_cases e e' with ⟨hM, hMc⟩ | ⟨hM, hMc⟩
  all_goals
    rw [hm, hM]
    first | rw [cmp_ne_gt_iff] at hmc | rw [cmp_gt_iff] at hmc
    first | rw [cmp_ne_lt_iff] at hMc | rw [cmp_lt_iff] at hMc
    omega

theorem mkLine_of_lt (a b : Pt) (br : Bool) (h : a.cmp b = .lt) : mkLine a b br = .line a b br := by
  simp [mkLine, h]

theorem ptMin_mem (a b : Pt) : Pt.min a b = a ∨ Pt.min a b = b := by
  unfold Pt.min; split <;> simp

theorem ptMax_mem (a b : Pt) : Pt.max a b = a ∨ Pt.max a b = b := by
  unfold Pt.max; split <;> simp

/-- `Fragment::merge` keeps the invariant -/
theorem Frag.merge_strokeOk (len : List Char → Nat) (g it m : Frag) (h : Frag.merge len g it = some m)
    (hg : g.StrokeOk) (hi : it.StrokeOk) : m.StrokeOk := by
  cases g <;> cases it <;> simp only [Frag.merge] at h <;> try (cases h)
  case line.line s e b s' e' b' =>
    obtain ⟨_, rfl⟩ := lineMerge_some _ _ _ _ _ _ _ h
    obtain ⟨hs, hgs, hge⟩ := hg
    obtain ⟨hs', hgs', hge'⟩ := hi
    have hlt := min_lt_max s e s' e' hs hs'
    rw [mkLine_of_lt _ _ _ hlt]
    refine ⟨hlt, ?_, ?_⟩
    · rcases ptMin_mem s s' with h | h <;> rw [h] <;> assumption
    · rcases ptMax_mem e e' with h | h <;> rw [h] <;> assumption
  case line.circle => exact absurd hi (by simp [Frag.StrokeOk])
  case circle.line => exact absurd hg (by simp [Frag.StrokeOk])
  case cellText.cellText st c st' c' =>
    unfold cellTextMerge at h
    split at h
    · split at h <;> (cases h; trivial)
    · cases h

/-- **`Fragment::merge` strokes the union** -/
theorem Frag.merge_strokes (len : List Char → Nat) (g it m : Frag)
    (hg : g.StrokeOk) (hi : it.StrokeOk) (h : Frag.merge len g it = some m) (P : RPt) (hq : 0 < P.q) :
    m.strokes P ↔ g.strokes P ∨ it.strokes P := by
  cases g <;> cases it <;> simp only [Frag.merge] at h <;> try (cases h)
  case line.line s e b s' e' b' =>
    obtain ⟨hcan, rfl⟩ := lineMerge_some _ _ _ _ _ _ _ h
    obtain ⟨hs, hgs, hge⟩ := hg
    obtain ⟨hs', hgs', hge'⟩ := hi
    rw [mkLine_of_lt _ _ _ (min_lt_max s e s' e' hs hs')]
    simp only [lineCanMerge, Bool.and_eq_true] at hcan
    obtain ⟨⟨ht, hc1⟩, hc2⟩ := hcan
    have h1 := (isCollinear_iff_cross_zero_on_grid s e s' hgs hge hgs').mp hc1
    have h2 := (isCollinear_iff_cross_zero_on_grid s e e' hgs hge hge').mp hc2
    exact onSeg_union s e s' e' hs hs' h1 h2 ht P hq
  case line.circle => exact absurd hi (by simp [Frag.StrokeOk])
  case circle.line => exact absurd hg (by simp [Frag.StrokeOk])
  case cellText.cellText st c st' c' =>
    unfold cellTextMerge at h
    split at h
    · split at h <;> (cases h; simp [Frag.strokes])
    · cases h

/-- **The fragment merge of a scope strokes exactly the points the unmerged fragments stroked**:
for every rational point, any number of passes, any list of stroke-only fragments. -/
theorem mergeRec_preserves_strokes (len : List Char → Nat) (frags : List FragSpan)
    (h : ∀ f ∈ frags, f.frag.StrokeOk) (n : Nat) (P : RPt) (hq : 0 < P.q) :
    (∃ f ∈ G.mergeRec (FragSpan.merge len) n frags, f.frag.strokes P) ↔
      (∃ f ∈ frags, f.frag.strokes P) := by
  have := G.mergeRec_cover (FragSpan.merge len)
    (fun (f : FragSpan) (P : RPt) => 0 < P.q ∧ f.frag.strokes P) (fun f => f.frag.StrokeOk)
    (by
      intro g it m hm hg hi
      simp only [FragSpan.merge] at hm
      split at hm
      · rename_i f hf
        simp at hm; subst hm
        exact Frag.merge_strokeOk len _ _ _ hf hg hi
      · simp at hm)
    (by
      intro g it m hg hi hm x
      simp only [FragSpan.merge] at hm
      split at hm
      · rename_i f hf
        simp at hm; subst hm
        constructor
        · rintro ⟨hq, hs⟩
          rcases (Frag.merge_strokes len _ _ _ hg hi hf x hq).mp hs with h | h
          · exact Or.inl ⟨hq, h⟩
          · exact Or.inr ⟨hq, h⟩
        · rintro (⟨hq, hs⟩ | ⟨hq, hs⟩)
          · exact ⟨hq, (Frag.merge_strokes len _ _ _ hg hi hf x hq).mpr (Or.inl hs)⟩
          · exact ⟨hq, (Frag.merge_strokes len _ _ _ hg hi hf x hq).mpr (Or.inr hs)⟩
      · simp at hm)
    n frags h P
  simp only [G.Covered] at this
  constructor
  · rintro ⟨f, hf, hs⟩
    obtain ⟨f', hf', _, hs'⟩ := this.mp ⟨f, hf, hq, hs⟩
    exact ⟨f', hf', hs'⟩
  · rintro ⟨f, hf, hs⟩
    obtain ⟨f', hf', _, hs'⟩ := this.mpr ⟨f, hf, hq, hs⟩
    exact ⟨f', hf', hs'⟩

end Svgbob

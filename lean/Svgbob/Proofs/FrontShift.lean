import Svgbob.Proofs.EscapeLine
import Svgbob.Proofs.Shift
/-!
# Moving a drawing in the text moves its cells

Row level: prefixing every row with `k` blanks moves every cell and every quoted text `k` columns
to the right; numbering the rows from `y + n` instead of `y` (what `n` blank lines in front do)
moves them `n` rows down.
-/
namespace Svgbob

def blanks (k : Nat) : List Char := List.replicate k ' '

theorem takeWhile_blanks (k : Nat) (cs : List Char) :
    (blanks k ++ cs).takeWhile notQuote = blanks k ++ cs.takeWhile notQuote := by
  induction k with
  | zero => simp [blanks]
  | succ k ih =>
    simp only [blanks, List.replicate_succ, List.cons_append] at ih ⊢
    rw [List.takeWhile_cons_of_pos (by decide), ih]

theorem dropWhile_blanks (k : Nat) (cs : List Char) :
    (blanks k ++ cs).dropWhile notQuote = cs.dropWhile notQuote := by
  induction k with
  | zero => simp [blanks]
  | succ k ih =>
    simp only [blanks, List.replicate_succ, List.cons_append] at ih ⊢
    rw [List.dropWhile_cons_of_pos (by decide), ih]

@[simp] theorem blanks_length (k : Nat) : (blanks k).length = k := by simp [blanks]

theorem escapeString_blanks (pos k : Nat) (cs : List Char) :
    escapeString pos (blanks k ++ cs) = escapeString (pos + k) cs := by
  unfold escapeString
  simp only [takeWhile_blanks, dropWhile_blanks, List.length_append, blanks_length]
  cases sym '"' (cs.dropWhile notQuote) with
  | none => rfl
  | some cs1 =>
    simp only
    have : pos + (k + (cs.takeWhile notQuote).length) = pos + k + (cs.takeWhile notQuote).length := by omega
    rw [this]

/-- positions reported by `escape_string` are relative to the start position -/
theorem escapeString_pos (pos k : Nat) (cs : List Char) :
    escapeString (pos + k) cs =
      (escapeString pos cs).map fun r => ((r.1.1 + k, r.1.2 + k), r.2.1, r.2.2 + k) := by
  unfold escapeString
  cases sym '"' (cs.dropWhile notQuote) with
  | none => rfl
  | some cs1 =>
    simp only
    cases sym '"' (charStrings cs1).2 with
    | none => rfl
    | some cs2 =>
      simp only [Option.map_some, Option.some.injEq, Prod.mk.injEq, true_and]
      omega

theorem lineParseFrom_pos (fuel pos k : Nat) (cs : List Char) :
    lineParseFrom fuel (pos + k) cs = (lineParseFrom fuel pos cs).map fun se => (se.1 + k, se.2 + k) := by
  induction fuel generalizing pos cs with
  | zero => rfl
  | succ f ih =>
    simp only [lineParseFrom, escapeString_pos pos k cs]
    cases escapeString pos cs with
    | none => rfl
    | some r =>
      obtain ⟨se, rest, p⟩ := r
      simp only [Option.map_some, List.map_cons, ih]

/-- the quoted regions of a row prefixed with `k` blanks are those of the row, `k` further right -/
theorem lineParse_blanks (k : Nat) (cs : List Char) :
    lineParse (blanks k ++ cs) = (lineParse cs).map fun se => (se.1 + k, se.2 + k) := by
  unfold lineParse
  have h1 : ∀ F, lineParseFrom F 0 (blanks k ++ cs) = lineParseFrom F (0 + k) cs := by
    intro F
    cases F with
    | zero => rfl
    | succ f => simp only [lineParseFrom, escapeString_blanks]
  rw [h1, lineParseFrom_pos]
  congr 1
  exact lineParseFrom_fuel_adequate _ _ 0 cs (by simp) (Nat.le_refl _)

def shiftLocs (k : Nat) (locs : List (Nat × Nat)) : List (Nat × Nat) :=
  locs.map fun se => (se.1 + k, se.2 + k)

def shiftSegs (k : Nat) (segs : List (Cell × List Char)) : List (Cell × List Char) :=
  segs.map fun cs => (⟨cs.1.x + k, cs.1.y⟩, cs.2)

theorem drop_blanks (k m : Nat) (row : List Char) : (blanks k ++ row).drop (m + k) = row.drop m := by
  rw [Nat.add_comm, ← List.drop_drop]
  simp [blanks]

theorem escapeLoop_blanks (env : Env) (y : Int) (k : Nat) (row : List Char) :
    ∀ (locs : List (Nat × Nat)) (index : Nat),
      escapeLoop env y (blanks k ++ row) (shiftLocs k locs) (index + k) =
        (shiftSegs k (escapeLoop env y row locs index).1, (escapeLoop env y row locs index).2) := by
  intro locs
  induction locs with
  | nil => intro index; simp [shiftLocs, shiftSegs, escapeLoop, drop_blanks]
  | cons se rest ih =>
    intro index
    obtain ⟨s, e⟩ := se
    simp only [shiftLocs, List.map_cons, escapeLoop] at ih ⊢
    have h1 : s + k + 1 = (s + 1) + k := by omega
    have h2 : e + k - (s + 1 + k) = e - (s + 1) := by omega
    have h3 : s + k - (index + k) = s - index := by omega
    have h4 : e + k + 1 = (e + 1) + k := by omega
    rw [h1, drop_blanks, h2, drop_blanks, h3, h4]
    have := ih (e + 1)
    rw [this]
    simp [shiftSegs]

theorem escapeLine_blanks (env : Env) (y : Int) (k : Nat) (row : List Char) :
    escapeLine env y (blanks k ++ row) =
      (shiftSegs k (escapeLine env y row).1, blanks k ++ (escapeLine env y row).2) := by
  unfold escapeLine
  rw [lineParse_blanks]
  cases hl : lineParse row with
  | nil => simp [shiftSegs]
  | cons se rest =>
    obtain ⟨s, e⟩ := se
    simp only [List.map_cons, escapeLoop]
    have h4 : e + k + 1 = (e + 1) + k := by omega
    have h1 : s + k + 1 = (s + 1) + k := by omega
    have h2 : e + k - (s + 1 + k) = e - (s + 1) := by omega
    rw [h4, h1, drop_blanks, h2]
    have := escapeLoop_blanks env y k row rest (e + 1)
    simp only [shiftLocs] at this
    rw [this]
    simp only [shiftSegs, List.map_cons, List.drop_zero, Nat.sub_zero, Prod.mk.injEq, true_and]
    constructor
    · simp
    · have : (blanks k ++ row).take (s + k) = blanks k ++ row.take s := by
        rw [Nat.add_comm, List.take_append]
        simp [blanks]
      rw [this]
      simp [List.append_assoc]

/-! ## rows -/

/-- a blank is white space and one column wide (what the real tables say) -/
def Env.SpaceOk (env : Env) : Prop := env.isWs ' ' = true ∧ (env.width ' ').getD 1 - 1 = 0

theorem expandRow_blanks (env : Env) (h : env.SpaceOk) (k : Nat) (row : List Char) :
    expandRow env (blanks k ++ row) = blanks k ++ expandRow env row := by
  unfold expandRow
  rw [List.flatMap_append]
  congr 1
  induction k with
  | zero => rfl
  | succ k ih =>
    simp only [blanks, List.replicate_succ, List.flatMap_cons, h.2, List.replicate_zero] at ih ⊢
    rw [ih]; rfl

def shiftCellsRight (k : Nat) (cells : List (Cell × Char)) : List (Cell × Char) :=
  cells.map fun cc => (⟨cc.1.x + k, cc.1.y⟩, cc.2)

theorem rowCellsFrom_add (env : Env) (y : Int) (k : Nat) (r : List Char) :
    ∀ x, rowCellsFrom env y (x + k) r = shiftCellsRight k (rowCellsFrom env y x r) := by
  induction r with
  | nil => intro x; rfl
  | cons c cs ih =>
    intro x
    simp only [rowCellsFrom]
    have hx : x + k + 1 = (x + 1) + k := by omega
    split
    · rw [hx, ih]
      simp only [shiftCellsRight, List.map_cons, List.cons.injEq, Prod.mk.injEq, Cell.mk.injEq, and_true]
      push_cast
      trivial
    · rw [hx, ih]

theorem rowCellsFrom_blanks (env : Env) (h : env.SpaceOk) (y : Int) (k : Nat) (r : List Char) :
    ∀ x, rowCellsFrom env y x (blanks k ++ r) = rowCellsFrom env y (x + k) r := by
  induction k with
  | zero => intro x; simp [blanks]
  | succ k ih =>
    intro x
    have hb : blanks (k + 1) ++ r = ' ' :: (blanks k ++ r) := by simp [blanks, List.replicate_succ]
    rw [hb]
    simp only [rowCellsFrom, h.1, Bool.not_true, Bool.and_false, Bool.false_eq_true, if_false]
    rw [ih (x + 1)]
    congr 1
    omega

/-- the row number only labels the results -/
theorem escapeLoop_row_shift (env : Env) (y : Int) (n : Nat) (row : List Char) :
    ∀ (locs : List (Nat × Nat)) (index : Nat),
      (escapeLoop env (y + n) row locs index).1 =
        (escapeLoop env y row locs index).1.map (fun cs => (⟨cs.1.x, cs.1.y + n⟩, cs.2)) ∧
      (escapeLoop env (y + n) row locs index).2 = (escapeLoop env y row locs index).2 := by
  intro locs
  induction locs with
  | nil => intro index; exact ⟨rfl, rfl⟩
  | cons se rest ih =>
    intro index
    obtain ⟨s, e⟩ := se
    simp only [escapeLoop, List.map_cons, (ih (e + 1)).1, (ih (e + 1)).2, and_self]

theorem escapeLine_row_shift (env : Env) (y : Int) (n : Nat) (row : List Char) :
    (escapeLine env (y + n) row).1 =
        (escapeLine env y row).1.map (fun cs => (⟨cs.1.x, cs.1.y + n⟩, cs.2)) ∧
    (escapeLine env (y + n) row).2 = (escapeLine env y row).2 := by
  unfold escapeLine
  cases lineParse row with
  | nil => exact ⟨rfl, rfl⟩
  | cons se rest => exact escapeLoop_row_shift env y n row _ 0

theorem rowCellsFrom_row_shift (env : Env) (y : Int) (n : Nat) (r : List Char) :
    ∀ x, rowCellsFrom env (y + n) x r =
      (rowCellsFrom env y x r).map fun cc => (⟨cc.1.x, cc.1.y + n⟩, cc.2) := by
  induction r with
  | nil => intro x; rfl
  | cons c cs ih =>
    intro x
    simp only [rowCellsFrom]
    split
    · simp only [List.map_cons, ih]
    · exact ih _

/-- a row moved `k` columns to the right in the text (`place` leaves empty rows empty) -/
def indentRow (k : Nat) (row : List Char) : List Char := if row.isEmpty then [] else blanks k ++ row

theorem rowFront_indent (env : Env) (h : env.SpaceOk) (y : Int) (k : Nat) (row : List Char) :
    (escapeLine env y (expandRow env (indentRow k row))).1 =
        shiftSegs k (escapeLine env y (expandRow env row)).1 ∧
    rowCellsFrom env y 0 (escapeLine env y (expandRow env (indentRow k row))).2 =
        shiftCellsRight k (rowCellsFrom env y 0 (escapeLine env y (expandRow env row)).2) := by
  unfold indentRow
  cases row with
  | nil => simp [expandRow, escapeLine, lineParse, lineParseFrom, rowCellsFrom, shiftSegs, shiftCellsRight]
  | cons c cs =>
    simp only [List.isEmpty_cons, Bool.false_eq_true, if_false]
    rw [expandRow_blanks env h, escapeLine_blanks]
    refine ⟨rfl, ?_⟩
    simp only
    rw [rowCellsFrom_blanks env h, ← rowCellsFrom_add]

/-- **columns**: every row indented by `k` blanks gives the cells and the quoted texts `k` columns
further right -/
theorem rowsFront_indent (env : Env) (h : env.SpaceOk) (k : Nat) (rows : List (List Char)) :
    ∀ y, rowsFront env y (rows.map (indentRow k)) =
      (shiftCellsRight k (rowsFront env y rows).1, shiftSegs k (rowsFront env y rows).2) := by
  induction rows with
  | nil => intro y; rfl
  | cons row rest ih =>
    intro y
    simp only [List.map_cons, rowsFront, ih (y + 1)]
    obtain ⟨h1, h2⟩ := rowFront_indent env h (y : Int) k row
    rw [h1, h2]
    simp [shiftCellsRight, shiftSegs]

/-- **rows**: numbering the rows from `y + n` moves everything `n` rows down -/
theorem rowsFront_down (env : Env) (n : Nat) (rows : List (List Char)) :
    ∀ y, rowsFront env (y + n) rows =
      ((rowsFront env y rows).1.map fun cc => (⟨cc.1.x, cc.1.y + n⟩, cc.2),
       (rowsFront env y rows).2.map fun cs => (⟨cs.1.x, cs.1.y + n⟩, cs.2)) := by
  induction rows with
  | nil => intro y; rfl
  | cons row rest ih =>
    intro y
    have hy : y + n + 1 = (y + 1) + n := by omega
    simp only [rowsFront, hy, ih (y + 1), List.map_append]
    have hcast : ((y + n : Nat) : Int) = (y : Int) + n := by push_cast; rfl
    rw [hcast]
    have h1 := escapeLine_row_shift env (y : Int) n (expandRow env row)
    rw [h1.1, h1.2, rowCellsFrom_row_shift]

theorem rowsFront_blank_rows (env : Env) (n : Nat) (rows : List (List Char)) :
    ∀ y, rowsFront env y (List.replicate n [] ++ rows) = rowsFront env (y + n) rows := by
  induction n with
  | zero => intro y; rfl
  | succ n ih =>
    intro y
    have : List.replicate (n + 1) ([] : List Char) ++ rows = [] :: (List.replicate n [] ++ rows) := by
      simp [List.replicate_succ]
    rw [this]
    simp only [rowsFront, expandRow, List.flatMap_nil, escapeLine, lineParse, lineParseFrom, List.length_nil,
      rowCellsFrom, List.nil_append]
    rw [ih (y + 1)]
    have : y + 1 + n = y + (n + 1) := by omega
    rw [this]

/-- **the front end is translation equivariant at the level of rows**: `n` blank rows in front and
every row indented by `k` blanks move every cell and every quoted text by `(k, n)` -/
theorem rowsFront_place (env : Env) (h : env.SpaceOk) (k n : Nat) (rows : List (List Char)) :
    rowsFront env 0 (List.replicate n [] ++ rows.map (indentRow k)) =
      (Span.shift k n (rowsFront env 0 rows).1,
       (rowsFront env 0 rows).2.map fun e => (e.1.shift k n, e.2)) := by
  rw [rowsFront_blank_rows, rowsFront_down env n _ 0, rowsFront_indent env h]
  simp only [shiftCellsRight, shiftSegs, Span.shift, Cell.shift, List.map_map, Function.comp_def]

end Svgbob

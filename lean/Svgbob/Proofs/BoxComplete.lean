import Svgbob.Proofs.RectStrokes
import Svgbob.Proofs.LineRun
/-!
# Completeness of the sharp-corner endorsement: four sides of any box are endorsed as its rectangle
-/
namespace Svgbob

/-- the four side lines of the box `x0 < x1`, `y0 < y1` in the order the fragment merge leaves
them (top, left, right, bottom), with their dashed flags -/
def boxSides (x0 x1 y0 y1 : Int) (bT bL bR bB : Bool) : List Frag :=
  [.line ⟨x0, y0⟩ ⟨x1, y0⟩ bT, .line ⟨x0, y0⟩ ⟨x0, y1⟩ bL, .line ⟨x1, y0⟩ ⟨x1, y1⟩ bR,
   .line ⟨x0, y1⟩ ⟨x1, y1⟩ bB]

theorem parallel_group_of_box (x0 x1 y0 y1 : Int) (hx : x0 < x1) (hy : y0 < y1) (bT bL bR bB : Bool) :
    parallelAabbGroup (boxSides x0 x1 y0 y1 bT bL bR bB) = [(0, 3), (1, 2)] := by
  have e1 : (x0 == x1) = false := by simp; omega
  have e2 : (y0 == y1) = false := by simp; omega
  have e3 : (x1 == x0) = false := by simp; omega
  have e4 : (y1 == y0) = false := by simp; omega
  simp [parallelAabbGroup, boxSides, List.range, List.range.loop, Frag.isAabbParallel, e1, e2, e3, e4]

theorem onSegment_self_start (s e : Pt) : onSegment s e s = true := by
  simp only [onSegment, Bool.and_eq_true, decide_eq_true_eq, beq_iff_eq]
  refine ⟨⟨⟨⟨?_, ?_⟩, ?_⟩, ?_⟩, ?_⟩
  · simp
  all_goals omega

/-- **every box is endorsed**: the four sides of any box `x0 < x1`, `y0 < y1`, solid or dashed, are
endorsed as exactly the rectangle of that box; it is dashed iff some side is -/
theorem endorseRect_box (x0 x1 y0 y1 : Int) (hx : x0 < x1) (hy : y0 < y1) (bT bL bR bB : Bool) :
    endorseRect (boxSides x0 x1 y0 y1 bT bL bR bB) =
      some (.rect ⟨x0, y0⟩ ⟨x1, y1⟩ false none (bT || bL || bR || bB)) := by
  have hpg := parallel_group_of_box x0 x1 y0 y1 hx hy bT bL bR bB
  have hmin1 : min x0 x1 = x0 := by omega
  have hmax1 : max x0 x1 = x1 := by omega
  have hmin2 : min y0 y1 = y0 := by omega
  have hmax2 : max y0 y1 = y1 := by omega
  have hpts : boundsAllPoints (boxSides x0 x1 y0 y1 bT bL bR bB) =
      [⟨x0, y0⟩, ⟨x1, y0⟩, ⟨x0, y0⟩, ⟨x0, y1⟩, ⟨x1, y0⟩, ⟨x1, y1⟩, ⟨x0, y1⟩, ⟨x1, y1⟩] := by
    simp [boundsAllPoints, boxSides, Frag.bounds, hmin1, hmax1, hmin2, hmax2]
  have hsides : boundsSides (boxSides x0 x1 y0 y1 bT bL bR bB) =
      [(⟨x0, y0⟩, ⟨x1, y0⟩), (⟨x0, y1⟩, ⟨x1, y1⟩), (⟨x0, y0⟩, ⟨x0, y1⟩), (⟨x1, y0⟩, ⟨x1, y1⟩)] := by
    have a1 : (if x1 < x0 then x1 else x0) = x0 := by split <;> omega
    have a2 : (if x0 < x0 then x0 else x0) = x0 := by simp
    have a3 : (if x1 > x0 then x1 else x0) = x1 := by split <;> omega
    have a4 : (if x0 > x1 then x0 else x1) = x1 := by split <;> omega
    have a5 : (if x1 > x1 then x1 else x1) = x1 := by simp
    have b1 : (if y1 < y0 then y1 else y0) = y0 := by split <;> omega
    have b2 : (if y0 < y0 then y0 else y0) = y0 := by simp
    have b3 : (if y1 > y0 then y1 else y0) = y1 := by split <;> omega
    have b4 : (if y0 > y1 then y0 else y1) = y1 := by split <;> omega
    have b5 : (if y1 > y1 then y1 else y1) = y1 := by simp
    have b6 : (if y0 > y0 then y0 else y0) = y0 := by simp
    have a6 : (if x0 > x0 then x0 else x0) = x0 := by simp
    simp only [boundsSides, hpts, List.map_cons, List.map_nil, listMin, listMax, List.headD_cons,
      List.foldl_cons, List.foldl_nil, a1, a2, a3, a4, a5, a6, b1, b2, b3, b4, b5, b6]
  have hlas : linesAreSides (boxSides x0 x1 y0 y1 bT bL bR bB) = true := by
    simp only [linesAreSides, hsides]
    simp [boxSides]
  have hrect : isRect (boxSides x0 x1 y0 y1 bT bL bR bB) = true := by
    simp only [isRect, hpg]
    simp only [boxSides, List.length_cons, List.length_nil, beq_self_eq_true, if_true,
      List.getElem?_cons_zero, List.getElem?_cons_succ]
    have t1 : lineTouching ⟨x0, y0⟩ ⟨x1, y0⟩ ⟨x0, y0⟩ ⟨x0, y1⟩ = true := by
      simp [lineTouching, onSegment_self_start]
    have t2 : lineTouching ⟨x0, y1⟩ ⟨x1, y1⟩ ⟨x1, y0⟩ ⟨x1, y1⟩ = true := by
      simp [lineTouching, onSegment_endpoint]
    have hl := hlas
    simp only [boxSides] at hl
    simp [t1, t2, lineAabbPerpendicular, hl]
  have hmn : ptListMin (boundsAllPoints (boxSides x0 x1 y0 y1 bT bL bR bB)) = some ⟨x0, y0⟩ := by
    rw [hpts]
    simp only [ptListMin, List.foldl_cons, List.foldl_nil]
    have c1 : ((⟨x1, y0⟩ : Pt).cmp ⟨x0, y0⟩ == .lt) = false := by
      have : ¬ ((⟨x1, y0⟩ : Pt).cmp ⟨x0, y0⟩ = .lt) := by rw [cmp_lt_iff]; dsimp only; omega
      simpa using this
    have c2 : ((⟨x0, y0⟩ : Pt).cmp ⟨x0, y0⟩ == .lt) = false := by
      have : ¬ ((⟨x0, y0⟩ : Pt).cmp ⟨x0, y0⟩ = .lt) := by rw [cmp_lt_iff]; dsimp only; omega
      simpa using this
    have c3 : ((⟨x0, y1⟩ : Pt).cmp ⟨x0, y0⟩ == .lt) = false := by
      have : ¬ ((⟨x0, y1⟩ : Pt).cmp ⟨x0, y0⟩ = .lt) := by rw [cmp_lt_iff]; dsimp only; omega
      simpa using this
    have c4 : ((⟨x1, y1⟩ : Pt).cmp ⟨x0, y0⟩ == .lt) = false := by
      have : ¬ ((⟨x1, y1⟩ : Pt).cmp ⟨x0, y0⟩ = .lt) := by rw [cmp_lt_iff]; dsimp only; omega
      simpa using this
    simp [c1, c2, c3, c4]
  have hmx : ptListMax (boundsAllPoints (boxSides x0 x1 y0 y1 bT bL bR bB)) = some ⟨x1, y1⟩ := by
    rw [hpts]
    simp only [ptListMax, List.foldl_cons, List.foldl_nil]
    have d1 : ((⟨x1, y0⟩ : Pt).cmp ⟨x0, y0⟩ != .lt) = true := by
      have : ¬ ((⟨x1, y0⟩ : Pt).cmp ⟨x0, y0⟩ = .lt) := by rw [cmp_lt_iff]; dsimp only; omega
      simpa using this
    have d2 : ((⟨x0, y0⟩ : Pt).cmp ⟨x1, y0⟩ != .lt) = false := by
      have : (⟨x0, y0⟩ : Pt).cmp ⟨x1, y0⟩ = .lt := by rw [cmp_lt_iff]; dsimp only; omega
      simp [this]
    have d3 : ((⟨x0, y1⟩ : Pt).cmp ⟨x1, y0⟩ != .lt) = true := by
      have : ¬ ((⟨x0, y1⟩ : Pt).cmp ⟨x1, y0⟩ = .lt) := by rw [cmp_lt_iff]; dsimp only; omega
      simpa using this
    have d4 : ((⟨x1, y0⟩ : Pt).cmp ⟨x0, y1⟩ != .lt) = false := by
      have : (⟨x1, y0⟩ : Pt).cmp ⟨x0, y1⟩ = .lt := by rw [cmp_lt_iff]; dsimp only; omega
      simp [this]
    have d5 : ((⟨x1, y1⟩ : Pt).cmp ⟨x0, y1⟩ != .lt) = true := by
      have : ¬ ((⟨x1, y1⟩ : Pt).cmp ⟨x0, y1⟩ = .lt) := by rw [cmp_lt_iff]; dsimp only; omega
      simpa using this
    have d6 : ((⟨x0, y1⟩ : Pt).cmp ⟨x1, y1⟩ != .lt) = false := by
      have : (⟨x0, y1⟩ : Pt).cmp ⟨x1, y1⟩ = .lt := by rw [cmp_lt_iff]; dsimp only; omega
      simp [this]
    have d7 : ((⟨x1, y1⟩ : Pt).cmp ⟨x1, y1⟩ != .lt) = true := by
      have : ¬ ((⟨x1, y1⟩ : Pt).cmp ⟨x1, y1⟩ = .lt) := by rw [cmp_lt_iff]; dsimp only; omega
      simpa using this
    simp [d1, d2, d3, d4, d5, d6, d7]
  have hngt : ¬ ((⟨x0, y0⟩ : Pt).cmp ⟨x1, y1⟩ = .gt) := by rw [cmp_gt_iff]; dsimp only; omega
  simp only [endorseRect, hrect, if_true, hmn, hmx]
  simp [mkRect, hngt, boxSides, Frag.isBroken, Bool.or_assoc]

end Svgbob

import Svgbob.Model.Convert
/-!
# A drawing followed by a legend: the whole conversion

For a body without `#` followed by a text that starts with the legend marker and that the legend
grammar accepts: the document is the document of the body, with the legend entries as the rules of
the style sheet — the legend block is never drawn.
-/
namespace Svgbob

theorem findLegend_body_then_marker (body L : List Char) (hb : '#' ∉ body)
    (hL : legendMarker.isPrefixOf L = true) : findLegend (body ++ L) = some (body, L) := by
  induction body with
  | nil =>
    cases L with
    | nil =>
      have hm : legendMarker = '#' :: " Legend:".toList := rfl
      rw [hm] at hL
      simp at hL
    | cons c cs => simp [findLegend, hL]
  | cons c cs ih =>
    have hc : c ≠ '#' := fun e => hb (by simp [e])
    have hcs : '#' ∉ cs := fun e => hb (List.mem_cons_of_mem _ e)
    have hp : legendMarker.isPrefixOf (c :: (cs ++ L)) = false := by
      have hm : legendMarker = '#' :: " Legend:".toList := rfl
      rw [hm, List.isPrefixOf_cons_cons]
      have : ('#' == c) = false := by
        simp only [beq_eq_false_iff_ne, ne_eq]; exact fun e => hc e.symm
      simp [this]
    simp only [List.cons_append, findLegend, hp, Bool.false_eq_true, if_false, ih hcs]

theorem findLegend_none_of_no_hash' (t : List Char) (h : '#' ∉ t) : findLegend t = none := by
  induction t with
  | nil => rfl
  | cons c cs ih =>
    have hc : c ≠ '#' := fun e => h (by simp [e])
    have hcs : '#' ∉ cs := fun e => h (List.mem_cons_of_mem _ e)
    have hp : legendMarker.isPrefixOf (c :: cs) = false := by
      have hm : legendMarker = '#' :: " Legend:".toList := rfl
      rw [hm, List.isPrefixOf_cons_cons]
      have : ('#' == c) = false := by
        simp only [beq_eq_false_iff_ne, ne_eq]; exact fun e => hc e.symm
      simp [this]
    simp only [findLegend, hp, Bool.false_eq_true, if_false, ih hcs]

/-- the front end on a body followed by an accepted legend: the cells and quoted texts of the body
alone, the entries of the legend -/
theorem front_body_then_legend (env : Env) (body L : List Char) (css : List (List Char × List Char))
    (hb : '#' ∉ body) (hL : legendMarker.isPrefixOf L = true) (hp : parseCssLegend L = some css) :
    front env (body ++ L) =
      { cells := (front env body).cells, escaped := (front env body).escaped, css := css } := by
  simp only [front, findLegend_body_then_marker body L hb hL, hp, findLegend_none_of_no_hash' body hb]

/-- **the whole conversion of a drawing followed by a legend**: exactly the conversion of the
drawing alone, except that the style sheet gets the legend's entries as rules — nothing of the
legend block is drawn, nothing of the drawing is lost -/
theorem convertDoc_body_then_legend (env : Env) (cfg : Cfg) (cat : Catalogue) (body L : List Char)
    (css : List (List Char × List Char)) (hb : '#' ∉ body)
    (hL : legendMarker.isPrefixOf L = true) (hp : parseCssLegend L = some css) :
    convertDoc env cfg cat (body ++ L) =
      match endorseAll (segColumns env) cat (front env body).cells (front env body).escaped with
      | none => none
      | some (fs, gs) =>
        some (svgRoot (segColumns env) cfg (front env body).cells css (fs.map (·.frag))
          (gs.map fun g => g.map (·.frag))) := by
  unfold convertDoc
  simp only [front_body_then_legend env body L css hb hL hp]
  cases endorseAll (segColumns env) cat (front env body).cells (front env body).escaped with
  | none => rfl
  | some r => rfl

end Svgbob

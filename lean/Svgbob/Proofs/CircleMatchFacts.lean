import Svgbob.Proofs.CircleFacts
/-!
# Every catalogue drawing is recognised as exactly its circle — at the origin by evaluation,
anywhere on the page by translation equivariance of the catalogue match
-/
namespace Svgbob

/-- the drawing `ci` is endorsed as exactly its circle, with no cell left over -/
def matchesOwnCircle (cat : Catalogue) (ci : CircleInfo) : Bool :=
  decide (endorseArcsAndCircles cat ci.span =
    some ([⟨ci.span, .circle ci.center ci.radius false⟩], []))

set_option maxRecDepth 100000 in
/-- **decided over the regenerated catalogue**: each of the 22 drawings, taken as a span at the
origin, matches its own circle (and no larger one), leaving no cell -/
theorem every_drawing_matches_its_circle :
    (catalogue.bind fun cat => circleInfos.map fun infos => infos.all (matchesOwnCircle cat)) =
      some true := by
  decide +kernel

end Svgbob

import Svgbob.Proofs.Merge
/-!
# Set denotations: what `merge` preserves as a *union*, the greedy loop preserves

`mergeRec_perm` (in `Proofs/Merge`) handles denotations that are multisets (texts: no character is
dropped or duplicated). Strokes are different: two overlapping collinear lines merge into their
union, so the point set is preserved but not the multiset. Here the denotation is a predicate
`D a x` ("item `a` covers `x`") and the law is `D m x ↔ D g x ∨ D it x`.
-/
namespace Svgbob.G
variable {α β : Type}

/-- `x` is covered by some item of the list -/
def Covered (D : α → β → Prop) (l : List α) (x : β) : Prop := ∃ a ∈ l, D a x

theorem covered_nil (D : α → β → Prop) (x : β) : ¬ Covered D [] x := by
  simp [Covered]

theorem covered_cons (D : α → β → Prop) (a : α) (l : List α) (x : β) :
    Covered D (a :: l) x ↔ D a x ∨ Covered D l x := by
  simp [Covered]

theorem covered_append (D : α → β → Prop) (l₁ l₂ : List α) (x : β) :
    Covered D (l₁ ++ l₂) x ↔ Covered D l₁ x ∨ Covered D l₂ x := by
  simp only [Covered, List.mem_append]
  constructor
  · rintro ⟨a, ha | ha, hd⟩
    · exact Or.inl ⟨a, ha, hd⟩
    · exact Or.inr ⟨a, ha, hd⟩
  · rintro (⟨a, ha, hd⟩ | ⟨a, ha, hd⟩)
    · exact ⟨a, Or.inl ha, hd⟩
    · exact ⟨a, Or.inr ha, hd⟩

theorem mergeIntoRev_cover (merge : α → α → Option α) (D : α → β → Prop) (P : α → Prop)
    (hD : ∀ g it m, P g → P it → merge g it = some m → ∀ x, D m x ↔ D g x ∨ D it x)
    (gs : List α) (it : α) (r : List α) (hg : ∀ g ∈ gs, P g) (hi : P it)
    (h : mergeIntoRev merge gs it = some r) (x : β) :
    Covered D r x ↔ Covered D gs x ∨ D it x := by
  induction gs generalizing r with
  | nil => simp [mergeIntoRev] at h
  | cons g gs ih =>
    simp only [mergeIntoRev] at h
    split at h
    · rename_i gs' hgs'
      cases h
      rw [covered_cons, covered_cons,
        ih gs' (fun y hy => hg y (List.mem_cons_of_mem _ hy)) hgs', or_assoc]
    · split at h
      · rename_i m hm
        cases h
        rw [covered_cons, covered_cons, hD g it m (hg g (by simp)) hi hm x]
        constructor
        · rintro ((h1 | h1) | h1)
          · exact Or.inl (Or.inl h1)
          · exact Or.inr h1
          · exact Or.inl (Or.inr h1)
        · rintro ((h1 | h1) | h1)
          · exact Or.inl (Or.inl h1)
          · exact Or.inr h1
          · exact Or.inl (Or.inr h1)
      · cases h

theorem step_cover (merge : α → α → Option α) (D : α → β → Prop) (P : α → Prop)
    (hD : ∀ g it m, P g → P it → merge g it = some m → ∀ x, D m x ↔ D g x ∨ D it x)
    (acc : List α) (it : α) (ha : ∀ g ∈ acc, P g) (hi : P it) (x : β) :
    Covered D (step merge acc it) x ↔ Covered D acc x ∨ D it x := by
  unfold step
  split
  · rename_i r h; exact mergeIntoRev_cover merge D P hD acc it r ha hi h x
  · rw [covered_append, covered_cons]
    simp [covered_nil]

theorem pass_cover (merge : α → α → Option α) (D : α → β → Prop) (P : α → Prop)
    (hm : ∀ g it m, merge g it = some m → P g → P it → P m)
    (hD : ∀ g it m, P g → P it → merge g it = some m → ∀ x, D m x ↔ D g x ∨ D it x)
    (items : List α) (hp : ∀ a ∈ items, P a) (x : β) :
    Covered D (pass merge items) x ↔ Covered D items x := by
  unfold pass
  suffices h : ∀ acc, (∀ g ∈ acc, P g) →
      (Covered D (items.foldl (step merge) acc) x ↔ Covered D acc x ∨ Covered D items x) by
    have := h [] (by simp)
    simpa [covered_nil] using this
  induction items with
  | nil => intro acc _; simp [covered_nil]
  | cons y ys ih =>
    intro acc ha
    simp only [List.foldl_cons]
    have hy := hp y (by simp)
    rw [ih (fun a h => hp a (List.mem_cons_of_mem _ h)) (step merge acc y)
      (step_forall merge P hm acc y ha hy), step_cover merge D P hD acc y ha hy x, covered_cons,
      or_assoc]

/-- **Union preservation**: a point is covered after `merge_recursive` iff it was covered
before, for any number of passes. -/
theorem mergeRec_cover (merge : α → α → Option α) (D : α → β → Prop) (P : α → Prop)
    (hm : ∀ g it m, merge g it = some m → P g → P it → P m)
    (hD : ∀ g it m, P g → P it → merge g it = some m → ∀ x, D m x ↔ D g x ∨ D it x)
    (n : Nat) (items : List α) (hp : ∀ a ∈ items, P a) (x : β) :
    Covered D (mergeRec merge n items) x ↔ Covered D items x := by
  induction n generalizing items with
  | zero => simp [mergeRec]
  | succ n ih =>
    simp only [mergeRec]
    split
    · rw [ih _ (pass_forall merge P hm items hp), pass_cover merge D P hm hD items hp]
    · exact pass_cover merge D P hm hD items hp x

end Svgbob.G

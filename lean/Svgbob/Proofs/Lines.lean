import Svgbob.Model.Front
/-!
# Line splitting: CRLF, trailing blank lines
-/
namespace Svgbob

/-- the document with every `\n` replaced by `\r\n` -/
def crlf : List Char → List Char
  | [] => []
  | c :: cs => if c == '\n' then '\r' :: '\n' :: crlf cs else c :: crlf cs

/-- `\r` appended to every piece but the last -/
def addCr : List (List Char) → List (List Char)
  | [] => []
  | [l] => [l]
  | l :: l' :: ls => (l ++ ['\r']) :: addCr (l' :: ls)

theorem splitNl_ne_nil (s : List Char) : splitNl s ≠ [] := by
  cases s with
  | nil => simp [splitNl]
  | cons c cs =>
    simp only [splitNl]
    split
    · simp
    · split <;> simp

theorem splitNl_crlf (s : List Char) : splitNl (crlf s) = addCr (splitNl s) := by
  induction s with
  | nil => simp [crlf, splitNl, addCr]
  | cons c cs ih =>
    by_cases hc : (c == '\n') = true
    · simp only [crlf, hc, if_true]
      have h1 : splitNl ('\r' :: '\n' :: crlf cs) = ['\r'] :: splitNl (crlf cs) := by
        simp [splitNl]
      rw [h1, ih]
      have h2 : splitNl (c :: cs) = [] :: splitNl cs := by simp [splitNl, hc]
      rw [h2]
      cases hs : splitNl cs with
      | nil => exact absurd hs (splitNl_ne_nil cs)
      | cons l ls => simp [addCr]
    · simp only [crlf, hc]
      have hc' : (c == '\n') = false := by simpa using hc
      simp only [splitNl, hc', Bool.false_eq_true, if_false, ih]
      cases hs : splitNl cs with
      | nil => exact absurd hs (splitNl_ne_nil cs)
      | cons l ls =>
        cases ls with
        | nil => simp [addCr]
        | cons l' ls' => simp [addCr]

theorem stripCr_append_cr (l : List Char) : stripCr (l ++ ['\r']) = l := by
  simp [stripCr]

theorem stripCr_of_not_mem (l : List Char) (h : '\r' ∉ l) : stripCr l = l := by
  unfold stripCr
  split
  · rename_i hl
    have := List.mem_of_getLast? hl
    exact absurd this h
  · rfl

theorem mem_of_mem_splitNl {s p : List Char} {c : Char} (hp : p ∈ splitNl s) (hc : c ∈ p) :
    c ∈ s := by
  induction s generalizing p with
  | nil => simp [splitNl] at hp; subst hp; simp at hc
  | cons d ds ih =>
    simp only [splitNl] at hp
    split at hp
    · simp at hp
      rcases hp with rfl | hp
      · simp at hc
      · exact List.mem_cons_of_mem _ (ih hp hc)
    · split at hp
      · simp at hp; subst hp; simp at hc; subst hc; simp
      · rename_i l ls hs
        simp at hp
        rcases hp with rfl | hp
        · simp at hc
          rcases hc with rfl | hc
          · simp
          · exact List.mem_cons_of_mem _ (ih (by rw [hs]; simp) hc)
        · exact List.mem_cons_of_mem _ (ih (by rw [hs]; simp [hp]) hc)

theorem linesOfPieces_addCr (ps : List (List Char)) (h : ∀ p ∈ ps, '\r' ∉ p) :
    linesOfPieces (addCr ps) = linesOfPieces ps := by
  induction ps with
  | nil => simp [addCr]
  | cons l ls ih =>
    cases ls with
    | nil => simp [addCr]
    | cons l' ls' =>
      have ih' := ih (fun p hp => h p (List.mem_cons_of_mem _ hp))
      have hl := h l (by simp)
      cases hls : addCr (l' :: ls') with
      | nil => cases ls' <;> simp [addCr] at hls
      | cons a as =>
        simp only [addCr, linesOfPieces, hls] at ih' ⊢
        rw [stripCr_append_cr, stripCr_of_not_mem l hl, ih']

/-- **CRLF.** A document without carriage returns splits into the same lines after every line
feed has been replaced by CR LF. -/
theorem lines_crlf (s : List Char) (h : '\r' ∉ s) : lines (crlf s) = lines s := by
  unfold lines
  rw [splitNl_crlf]
  exact linesOfPieces_addCr _ (fun p hp hc => h (mem_of_mem_splitNl hp hc))

end Svgbob

namespace Svgbob

theorem splitNl_append_nl (s : List Char) : splitNl (s ++ ['\n']) = splitNl s ++ [[]] := by
  induction s with
  | nil => simp [splitNl]
  | cons c cs ih =>
    simp only [List.cons_append, splitNl, ih]
    split
    · simp
    · cases hs : splitNl cs with
      | nil => exact absurd hs (splitNl_ne_nil cs)
      | cons l ls => simp

theorem linesOfPieces_append_empty (ps : List (List Char)) (hne : ps ≠ [])
    (h : ∀ p ∈ ps, '\r' ∉ p) :
    ∃ j, linesOfPieces (ps ++ [[]]) = linesOfPieces ps ++ List.replicate j [] := by
  induction ps with
  | nil => exact absurd rfl hne
  | cons l ls ih =>
    cases ls with
    | nil =>
      have hl := h l (by simp)
      by_cases he : l.isEmpty = true
      · refine ⟨1, ?_⟩
        have : l = [] := by simpa using he
        subst this
        simp [linesOfPieces, stripCr]
      · refine ⟨0, ?_⟩
        simp [linesOfPieces, he, stripCr_of_not_mem l hl]
    | cons l' ls' =>
      obtain ⟨j, hj⟩ := ih (by simp) (fun p hp => h p (List.mem_cons_of_mem _ hp))
      refine ⟨j, ?_⟩
      have : (l :: l' :: ls') ++ [[]] = l :: (l' :: (ls' ++ [[]])) := by simp
      rw [this]
      simp only [linesOfPieces]
      have h2 : (l' :: ls') ++ [[]] = l' :: (ls' ++ [[]]) := by simp
      rw [h2] at hj
      rw [hj]; simp

/-- one more line feed at the end adds at most one empty line -/
theorem lines_append_nl (s : List Char) (h : '\r' ∉ s) :
    ∃ j, lines (s ++ ['\n']) = lines s ++ List.replicate j [] := by
  unfold lines
  rw [splitNl_append_nl]
  exact linesOfPieces_append_empty _ (splitNl_ne_nil s)
    (fun p hp hc => h (mem_of_mem_splitNl hp hc))

/-- **Trailing blank lines.** Any number of line feeds appended to a document only appends empty
lines. -/
theorem lines_append_nls (s : List Char) (h : '\r' ∉ s) (k : Nat) :
    ∃ j, lines (s ++ List.replicate k '\n') = lines s ++ List.replicate j [] := by
  induction k with
  | zero => exact ⟨0, by simp⟩
  | succ k ih =>
    obtain ⟨j, hj⟩ := ih
    have hnr : '\r' ∉ s ++ List.replicate k '\n' := by
      intro hm
      rcases List.mem_append.mp hm with hm | hm
      · exact h hm
      · have := (List.mem_replicate.mp hm).2; simp at this
    obtain ⟨j', hj'⟩ := lines_append_nl (s ++ List.replicate k '\n') hnr
    refine ⟨j + j', ?_⟩
    have : s ++ List.replicate (k + 1) '\n' = (s ++ List.replicate k '\n') ++ ['\n'] := by
      rw [List.replicate_succ']; simp
    rw [this, hj', hj, List.append_assoc, List.replicate_append_replicate]

/-- empty rows contribute neither cells nor quoted texts -/
theorem rowsFront_append_empty (env : Env) (y : Nat) (rows : List (List Char)) (j : Nat) :
    rowsFront env y (rows ++ List.replicate j []) = rowsFront env y rows := by
  induction rows generalizing y with
  | nil =>
    induction j generalizing y with
    | zero => simp
    | succ j ih =>
      simp only [List.nil_append] at ih ⊢
      simp only [List.replicate_succ, rowsFront, ih]
      simp [expandRow, escapeLine, lineParse, lineParseFrom, rowCellsFrom]
  | cons r rs ih => simp only [List.cons_append, rowsFront, ih]

end Svgbob

import Svgbob.Proofs.ScopeText
/-!
# The tables hold geometry only: the one text a cell can produce is its own character

Decided over the REGENERATED tables: no behaviour row and no glyph row contains a text fragment.
Hence every fragment of a cell is geometry, or it is the text of the cell's own character, and what
a cell *shows* (as text) is nothing, or exactly its own `(cell, character)` pair.
-/
namespace Svgbob

variable (len : List Char → Nat)

def noTextB : Frag → Bool
  | .cellText .. => false
  | .text .. => false
  | _ => true

def Frag.NoText (f : Frag) : Prop := noTextB f = true

theorem tables_noText :
    Gen.asciiTable.all (fun en => en.behavior.all fun row => row.2.all noTextB) = true ∧
    Gen.unicodeTable.all (fun g => g.2.all noTextB) = true := by
  constructor <;> decide +kernel

theorem mkLine_noText (a b : Pt) (br : Bool) : (mkLine a b br).NoText := by
  unfold mkLine; split <;> rfl

theorem Frag.merge_noText (a b m : Frag) (ha : a.NoText) (hb : b.NoText)
    (h : Frag.merge len a b = some m) : m.NoText := by
  cases a <;> cases b <;> simp only [Frag.merge] at h <;> try (cases h)
  case line.line s e br s' e' br' =>
    unfold lineMerge at h
    split at h
    · cases h; exact mkLine_noText _ _ _
    · cases h
  case line.circle s e br c r f =>
    unfold lineMergeCircle at h
    simp only at h
    split at h
    · split at h <;> (cases h; rfl)
    · cases h
  case circle.line c r f s e br =>
    unfold lineMergeCircle at h
    simp only at h
    split at h
    · split at h <;> (cases h; rfl)
    · cases h
  case cellText.cellText => exact absurd ha (by simp [Frag.NoText, noTextB])

theorem entryOf_noText (ch : Char) (en : Entry) (h : entryOf len ch = some en) :
    ∀ row ∈ en.behavior, ∀ f ∈ row.2, f.NoText := by
  unfold entryOf at h
  cases ha : asciiEntry ch with
  | some e =>
    simp only [ha, Option.some.injEq] at h
    subst h
    have hmem : e ∈ Gen.asciiTable := by
      have := List.mem_of_find?_eq_some ha
      simpa using this
    have := List.all_eq_true.mp tables_noText.1 e hmem
    intro row hrow f hf
    exact List.all_eq_true.mp (List.all_eq_true.mp this row hrow) f hf
  | none =>
    simp only [ha] at h
    unfold unicodeFrags at h
    cases hu : Gen.unicodeTable.reverse.find? (·.1 == ch) with
    | none => simp [hu] at h
    | some p =>
      simp only [hu, Option.map_some, Option.some.injEq] at h
      subst h
      have hmem : p ∈ Gen.unicodeTable := by
        have := List.mem_of_find?_eq_some hu
        simpa using this
      have := List.all_eq_true.mp tables_noText.2 p hmem
      intro row hrow f hf
      simp only [Entry.ofGlyph, List.mem_singleton] at hrow
      subst hrow
      exact List.all_eq_true.mp this f ((sortBy_mem _ _ f).mp hf)

theorem unicodeFrags_noText (ch : Char) (ufs : List Frag) (h : unicodeFrags len ch = some ufs) :
    ∀ f ∈ ufs, f.NoText := by
  unfold unicodeFrags at h
  cases hu : Gen.unicodeTable.reverse.find? (·.1 == ch) with
  | none => simp [hu] at h
  | some p =>
    simp only [hu, Option.map_some, Option.some.injEq] at h
    subst h
    have hmem : p ∈ Gen.unicodeTable := by
      have := List.mem_of_find?_eq_some hu
      simpa using this
    have := List.all_eq_true.mp tables_noText.2 p hmem
    intro f hf
    exact List.all_eq_true.mp this f ((sortBy_mem _ _ f).mp hf)

/-- **every fragment of a cell is geometry, or the text of the cell's own character** -/
theorem cellFragments_geometry_or_own_text (s : Span) (c : Cell) (ch : Char) :
    ∀ f ∈ cellFragments len s c ch, f.NoText ∨ f = .cellText ⟨0, 0⟩ [ch] := by
  unfold cellFragments
  cases he : entryOf len ch with
  | none => intro f hf; simp at hf; exact Or.inr hf
  | some en =>
    simp only
    split
    · intro f hf
      have hf' := (sortBy_mem _ _ f).mp hf
      simp only [Entry.fragments, List.mem_flatMap] at hf'
      obtain ⟨row, hrow, hfr⟩ := hf'
      split at hfr
      · exact Or.inl (entryOf_noText len ch en he row hrow f hfr)
      · simp at hfr
    · cases hu : unicodeFrags len ch with
      | none => intro f hf; simp at hf; exact Or.inr hf
      | some ufs =>
        intro f hf
        have hf' := (sortBy_mem _ _ f).mp hf
        unfold fragMergeRecursive at hf'
        exact Or.inl (G.mergeRec_forall (Frag.merge len) Frag.NoText
          (fun g it m hm hg hi => Frag.merge_noText len g it m hg hi hm) _ _
          (unicodeFrags_noText len ch ufs hu) f hf')

theorem noText_shown (env : Env) (c : Cell) (f : Frag) (h : f.NoText) : (f.absPos c).shown env = [] := by
  cases f <;> simp_all [Frag.NoText, noTextB, Frag.absPos, Frag.shown]

theorem noText_noNul (f : Frag) (h : f.NoText) : f.noNul := by
  cases f <;> simp_all [Frag.NoText, noTextB, Frag.noNul]

/-- what a cell shows: only its own `(cell, character)` pair -/
theorem cell_shows_only_itself (env : Env) (s : Span) (c : Cell) (ch : Char) :
    ∀ p ∈ (cellFragments len s c ch).flatMap (fun f => (f.absPos c).shown env), p = (c, ch) := by
  intro p hp
  simp only [List.mem_flatMap] at hp
  obtain ⟨f, hf, hpf⟩ := hp
  rcases cellFragments_geometry_or_own_text len s c ch f hf with h | rfl
  · rw [noText_shown env c f h] at hpf; cases hpf
  · simpa [Frag.absPos, Frag.shown, showCells] using hpf

theorem cellFragments_noNul (s : Span) (c : Cell) (ch : Char) (hch : ch ≠ nul) :
    ∀ f ∈ cellFragments len s c ch, f.noNul := by
  intro f hf
  rcases cellFragments_geometry_or_own_text len s c ch f hf with h | rfl
  · exact noText_noNul f h
  · intro x hx; simp at hx; subst hx; exact hch

end Svgbob

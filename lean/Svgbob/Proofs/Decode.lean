import Svgbob.Proofs.Escape
/-!
# Reading the text back: an XML parser's decoding of character data undoes the escaping
-/
namespace Svgbob

/-- what a conforming parser does with character data that is `TextSafe`: the references svgbob
emits are replaced by their characters, everything else is taken literally (fuel = length) -/
def decodeRefs : Nat → List Char → List Char
  | 0, _ => []
  | _ + 1, [] => []
  | f + 1, '&' :: 'g' :: 't' :: ';' :: rest => '>' :: decodeRefs f rest
  | f + 1, '&' :: 'l' :: 't' :: ';' :: rest => '<' :: decodeRefs f rest
  | f + 1, '&' :: 'a' :: 'm' :: 'p' :: ';' :: rest => '&' :: decodeRefs f rest
  | f + 1, '&' :: '#' :: '3' :: '9' :: ';' :: rest => '\'' :: decodeRefs f rest
  | f + 1, '&' :: 'q' :: 'u' :: 'o' :: 't' :: ';' :: rest => '"' :: decodeRefs f rest
  | f + 1, '&' :: '#' :: '1' :: '3' :: ';' :: rest => '\r' :: decodeRefs f rest
  | f + 1, c :: rest => c :: decodeRefs f rest

/-- the characters that survive: exactly those XML can represent -/
def kept (s : List Char) : List Char := s.filter xmlChar

theorem decode_escape_step (c : Char) (rest : List Char) (f : Nat) :
    decodeRefs (f + 1) (replaceHtmlChar c ++ rest) =
      if xmlChar c then c :: decodeRefs f rest else decodeRefs (f + 1) rest := by
  unfold replaceHtmlChar
  split
  · rename_i h; simp at h; subst h; simp [decodeRefs, xmlChar]
  split
  · rename_i h; simp at h; subst h; simp [decodeRefs, xmlChar]
  split
  · rename_i h; simp at h; subst h; simp [decodeRefs, xmlChar]
  split
  · rename_i h; simp at h; subst h; simp [decodeRefs, xmlChar]
  split
  · rename_i h; simp at h; subst h; simp [decodeRefs, xmlChar]
  split
  · rename_i h; simp at h; subst h; simp [decodeRefs, xmlChar]
  split
  · rename_i h1 h2 h3 h4 h5 h6 hx
    have hne : c ≠ '&' := by simpa using h3
    simp only [hx, if_true, List.cons_append, List.nil_append]
    -- `c` is not `&`, so only the last equation of `decodeRefs` applies
    conv => lhs; unfold decodeRefs
    split <;> simp_all
  · rename_i hx
    simp [hx]

theorem replaceHtmlChar_length_pos (c : Char) (h : xmlChar c = true) :
    1 ≤ (replaceHtmlChar c).length := by
  unfold replaceHtmlChar
  repeat' split
  all_goals simp_all

/-- **Round trip of the text channel.** Decoding the escaped text gives back the input
characters, minus exactly those XML cannot represent (which include the NUL fillers). -/
theorem decode_escapeHtmlText (s : List Char) (f : Nat) (hf : (escapeHtmlText s).length ≤ f) :
    decodeRefs f (escapeHtmlText s) = kept s := by
  induction s generalizing f with
  | nil =>
    cases f <;> simp [escapeHtmlText, decodeRefs, kept]
  | cons c cs ih =>
    simp only [escapeHtmlText, List.flatMap_cons, List.length_append] at hf ⊢
    by_cases hx : xmlChar c = true
    · have hpos := replaceHtmlChar_length_pos c hx
      obtain ⟨f', rfl⟩ : ∃ f', f = f' + 1 := ⟨f - 1, by omega⟩
      rw [decode_escape_step c _ f']
      have := ih f' (by simp only [escapeHtmlText]; omega)
      simp only [escapeHtmlText] at this
      simp [hx, this, kept]
    · cases f with
      | zero =>
        have h0 : List.flatMap replaceHtmlChar cs = [] := by
          apply List.eq_nil_of_length_eq_zero; omega
        have := ih 0 (by simp [escapeHtmlText, h0])
        have hc : replaceHtmlChar c = [] := by
          apply List.eq_nil_of_length_eq_zero; omega
        simp only [escapeHtmlText, h0] at this
        simp [hc, h0, kept, hx] at this ⊢
        simpa [kept] using this
      | succ f' =>
        rw [decode_escape_step c _ f']
        have hc : replaceHtmlChar c = [] := by
          unfold replaceHtmlChar
          repeat' split
          all_goals simp_all [xmlChar]
        have := ih (f' + 1) (by simp only [escapeHtmlText]; rw [hc] at hf; simpa using hf)
        simp only [escapeHtmlText] at this
        simp [hx, this, kept]

end Svgbob

import Svgbob.Proofs.ForestMove
import Svgbob.Proofs.Scale
import Mathlib.Tactic.Ring
/-!
# The back end is translation equivariant

Moving the fragments by `(k, n)` cells moves every emitted coordinate by `scale·(k, 2n)` and changes
nothing else: `Node.moveNum dx dy` adds `dx` to the numbers of `x x1 x2 cx`, `dy` to those of
`y y1 y2 cy`, moves the two points of a path (`M x,y A r,r 0,f,f x,y`: the radii stay), and the points
of a polygon (`x,y x,y …`); widths, heights, radii, classes, texts and literals are untouched.
-/
namespace Svgbob

/-- the numbers of a composite value, in order, get the offsets of the list (as far as it goes) -/
def shiftSeq : List Int → List Piece → List Piece
  | _, [] => []
  | offs, .lit s :: ps => .lit s :: shiftSeq offs ps
  | [], .num v :: ps => .num v :: shiftSeq [] ps
  | o :: offs, .num v :: ps => .num (v + o) :: shiftSeq offs ps

/-- the numbers of a `points` value are `x`, `y`, `x`, `y`, …: `true` = an `x` comes next -/
def shiftAlt (dx dy : Int) : Bool → List Piece → List Piece
  | _, [] => []
  | b, .lit s :: ps => .lit s :: shiftAlt dx dy b ps
  | true, .num v :: ps => .num (v + dx) :: shiftAlt dx dy false ps
  | false, .num v :: ps => .num (v + dy) :: shiftAlt dx dy true ps

/-- move one attribute value: which numbers are abscissas and which ordinates is told by the
attribute's name -/
def AttrVal.moveNum (dx dy : Int) (a : AttrName) : AttrVal → AttrVal
  | .num v =>
    match a with
    | .x | .x1 | .x2 | .cx => .num (v + dx)
    | .y | .y1 | .y2 | .cy => .num (v + dy)
    | _ => .num v
  | .seq ps =>
    match a with
    | .d => .seq (shiftSeq [dx, dy, 0, 0, dx, dy] ps)
    | .points => .seq (shiftAlt dx dy true ps)
    | _ => .seq ps
  | v => v

mutual
/-- move every coordinate of a node tree by `(dx, dy)` and change nothing else -/
def Node.moveNum (dx dy : Int) : Node → Node
  | .text s => .text s
  | .elem t attrs kids =>
    .elem t (attrs.map fun a => (a.1, a.2.map (AttrVal.moveNum dx dy a.1))) (Node.moveNumList dx dy kids)

def Node.moveNumList (dx dy : Int) : List Node → List Node
  | [] => []
  | k :: ks => Node.moveNum dx dy k :: Node.moveNumList dx dy ks
end

theorem Node.moveNumList_eq_map (dx dy : Int) (l : List Node) :
    Node.moveNumList dx dy l = l.map (Node.moveNum dx dy) := by
  induction l with
  | nil => simp [Node.moveNumList]
  | cons k ks ih => simp [Node.moveNumList, ih]

/-- a point moved by `(k, n)` cells and scaled by `K` -/
theorem Pt.scale_move (K k n : Int) (p : Pt) :
    (((⟨k, n⟩ : Cell).origin.add p).scale K) = ⟨p.x * K + 1000 * k * K, p.y * K + 2000 * n * K⟩ := by
  simp only [Pt.scale, Pt.add, Cell.origin, Pt.mk.injEq]; constructor <;> ring

theorem Pt.move_x (K k n : Int) (p : Pt) :
    ((⟨k, n⟩ : Cell).origin.add p).x * K = p.x * K + 1000 * k * K := by
  simp only [Pt.add, Cell.origin]; ring

theorem Pt.move_y (K k n : Int) (p : Pt) :
    ((⟨k, n⟩ : Cell).origin.add p).y * K = p.y * K + 2000 * n * K := by
  simp only [Pt.add, Cell.origin]; ring

theorem shiftAlt_append_pt (dx dy : Int) (x y : Int) (rest : List Piece) :
    shiftAlt dx dy true (Piece.num x :: Piece.lit "," :: Piece.num y :: rest) =
      Piece.num (x + dx) :: Piece.lit "," :: Piece.num (y + dy) :: shiftAlt dx dy true rest := by
  simp [shiftAlt]

theorem joinPieces_move (dx dy : Int) (pts : List Pt) :
    shiftAlt dx dy true (Frag.toNode.joinPieces (pts.map fun p => [Piece.num p.x, Piece.lit ",", Piece.num p.y])) =
      Frag.toNode.joinPieces
        (pts.map fun p => [Piece.num (p.x + dx), Piece.lit ",", Piece.num (p.y + dy)]) := by
  induction pts with
  | nil => simp [Frag.toNode.joinPieces, shiftAlt]
  | cons a rest ih =>
    cases rest with
    | nil => simp [Frag.toNode.joinPieces, shiftAlt]
    | cons b rest' =>
      simp only [List.map_cons, Frag.toNode.joinPieces, List.cons_append, List.nil_append] at ih ⊢
      rw [shiftAlt_append_pt]
      simp only [shiftAlt, ih]

/-- **a moved fragment becomes the moved node**: every coordinate is offset by `scale·(k, 2n)` cells
(in the document's units), sizes, radii, classes, flags and text are the same -/
theorem Frag.toNode_move (K k n : Int) (f : Frag) :
    ((f.move k n).scale K).toNode =
      Node.moveNum (1000 * k * K) (2000 * n * K) ((f.scale K).toNode) := by
  cases f with
  | line s e br =>
    simp [Frag.move, Frag.absPos, Frag.scale, Pt.move_x, Pt.move_y, Frag.toNode, Node.moveNum,
      Node.moveNumList, AttrVal.moveNum, flagClass, Pt.scale]
  | markerLine s e br sm em =>
    cases sm <;> cases em <;>
      simp [Frag.move, Frag.absPos, Frag.scale, Pt.move_x, Pt.move_y, Frag.toNode, Node.moveNum,
        Node.moveNumList, AttrVal.moveNum, flagClass, Pt.scale]
  | circle c r fl =>
    simp [Frag.move, Frag.absPos, Frag.scale, Pt.move_x, Pt.move_y, Frag.toNode, Node.moveNum,
      Node.moveNumList, AttrVal.moveNum, flagClass, Pt.scale]
  | arc s e r m sw =>
    simp [Frag.move, Frag.absPos, Frag.scale, Pt.move_x, Pt.move_y, Frag.toNode, Node.moveNum,
      Node.moveNumList, AttrVal.moveNum, shiftSeq, Pt.scale]
  | polygon pts fl t =>
    simp only [Frag.move, Frag.absPos, Frag.scale, Frag.toNode, Node.moveNum, Node.moveNumList,
      AttrVal.moveNum, List.map_cons, List.map_nil, flagClass, List.map_map]
    have h1 : (List.map ((fun p : Pt => [Piece.num p.x, Piece.lit ",", Piece.num p.y]) ∘
          (Pt.scale K ∘ fun x => (⟨k, n⟩ : Cell).origin.add x)) pts) =
        ((pts.map (Pt.scale K)).map fun p =>
          [Piece.num (p.x + 1000 * k * K), Piece.lit ",", Piece.num (p.y + 2000 * n * K)]) := by
      rw [List.map_map]
      apply List.map_congr_left
      intro p _
      simp only [Function.comp, Pt.scale, Pt.move_x, Pt.move_y]
    have h2 : (List.map ((fun p : Pt => [Piece.num p.x, Piece.lit ",", Piece.num p.y]) ∘ Pt.scale K) pts) =
        ((pts.map (Pt.scale K)).map fun p => [Piece.num p.x, Piece.lit ",", Piece.num p.y]) := by
      rw [List.map_map]
    rw [h1, h2, joinPieces_move]
  | rect s e fl r br =>
    cases r with
    | none =>
      simp [Frag.move, Frag.absPos, Frag.scale, Pt.move_x, Pt.move_y, Frag.toNode, Node.moveNum,
        Node.moveNumList, AttrVal.moveNum, flagClass, Pt.scale]
    | some v =>
      simp [Frag.move, Frag.absPos, Frag.scale, Pt.move_x, Pt.move_y, Frag.toNode, Node.moveNum,
        Node.moveNumList, AttrVal.moveNum, flagClass, Pt.scale]
  | cellText st c =>
    simp [Frag.move, Frag.absPos, Frag.scale, Frag.toNode, Node.moveNum, Node.moveNumList,
      AttrVal.moveNum, Pt.scale, cellTextAnchor, Pt.add, Cell.origin]
    constructor <;> ring
  | text st c =>
    simp [Frag.move, Frag.absPos, Frag.scale, Pt.move_x, Pt.move_y, Frag.toNode, Node.moveNum,
      Node.moveNumList, AttrVal.moveNum, Pt.scale]

theorem extendFirstClass_moveNum (dx dy : Int) (vals : List AttrVal)
    (attrs : List (AttrName × List AttrVal)) :
    (extendFirstClass vals attrs).map (fun a => (a.1, a.2.map (AttrVal.moveNum dx dy a.1))) =
      extendFirstClass (vals.map (AttrVal.moveNum dx dy AttrName.class))
        (attrs.map fun a => (a.1, a.2.map (AttrVal.moveNum dx dy a.1))) := by
  induction attrs with
  | nil => simp [extendFirstClass]
  | cons a as ih =>
    simp only [extendFirstClass, List.map_cons]
    split
    · rename_i h
      have : a.1 = AttrName.class := by simpa using h
      simp [this]
    · simp [ih]

theorem addClasses_moveNum (dx dy : Int) (tags : List (List Char)) (nd : Node) :
    Node.moveNum dx dy (addClasses tags nd) = addClasses tags (Node.moveNum dx dy nd) := by
  cases nd with
  | text s => simp [addClasses, Node.moveNum]
  | elem t attrs kids =>
    simp only [addClasses, Node.moveNum]
    have hany : (attrs.map fun a => (a.1, a.2.map (AttrVal.moveNum dx dy a.1))).any (·.1 == AttrName.class) =
        attrs.any (·.1 == AttrName.class) := by
      induction attrs with
      | nil => simp
      | cons a as ih => simp [List.any_cons, ih]
    have hvals : (tags.map AttrVal.token).map (AttrVal.moveNum dx dy AttrName.class) =
        tags.map AttrVal.token := by
      simp [List.map_map, Function.comp, AttrVal.moveNum]
    rw [hany]
    split
    · simp only [Node.moveNum, Node.elem.injEq, true_and, and_true]
      rw [extendFirstClass_moveNum, hvals]
    · simp [Node.moveNum, AttrVal.moveNum, List.map_map, Function.comp]

mutual
theorem FTree.intoNodes_move (K k n : Int) : ∀ (t : FTree),
    FTree.intoNodes K (FTree.move k n t) =
      Node.moveNumList (1000 * k * K) (2000 * n * K) (FTree.intoNodes K t)
  | .node f tags kids => by
    simp only [FTree.move, FTree.intoNodes, Node.moveNumList, List.cons.injEq]
    refine ⟨?_, FTree.intoNodesList_move K k n kids⟩
    rw [addClasses_moveNum, Frag.toNode_move]

theorem FTree.intoNodesList_move (K k n : Int) : ∀ (ts : List FTree),
    FTree.intoNodesList K (FTree.moveList k n ts) =
      Node.moveNumList (1000 * k * K) (2000 * n * K) (FTree.intoNodesList K ts)
  | [] => by simp [FTree.moveList, FTree.intoNodesList, Node.moveNumList]
  | t :: ts => by
    simp only [FTree.moveList, FTree.intoNodesList]
    rw [FTree.intoNodes_move K k n t, FTree.intoNodesList_move K k n ts]
    simp [Node.moveNumList_eq_map]
end

/-- **the nodes of the moved top-level fragments are the moved nodes**, in the same order, with the
same nesting and `{tag}` classes -/
theorem fragmentsToNodes_move (len : List Char → Nat) (K k n : Int) (frags : List Frag)
    (h : ∀ f ∈ frags, f.Movable) :
    fragmentsToNodes len K (frags.map (Frag.move k n)) =
      (fragmentsToNodes len K frags).map (Node.moveNum (1000 * k * K) (2000 * n * K)) := by
  unfold fragmentsToNodes
  have e : (frags.map (Frag.move k n)).map (fun f => FTree.node (f.scale 1) [] []) =
      (frags.map fun f => FTree.node (f.scale 1) [] []).map (FTree.move k n) := by
    simp only [List.map_map]
    apply List.map_congr_left
    intro f _
    have : (f.move k n).scale 1 = (f.scale 1).move k n := by
      cases f <;>
        simp [Frag.move, Frag.absPos, Frag.scale, Pt.scale, Pt.add, Cell.origin, cellTextAnchor] <;>
        (try constructor) <;> (try omega)
    simp [Function.comp, FTree.move, FTree.moveList, this]
  rw [e, encloseRecursive_move len 1000 k n]
  · rw [← FTree.moveList_eq_map, FTree.intoNodesList_move, Node.moveNumList_eq_map]
  · intro t ht
    simp only [List.mem_map] at ht
    obtain ⟨f, hf, rfl⟩ := ht
    refine ⟨?_, trivial⟩
    have := h f hf
    cases f <;> simp_all [Frag.scale, Frag.Movable]

/-! ## the whole document -/

/-- the root element: canvas `wh`, the optional style / defs / backdrop elements, then the drawing -/
def assembleRoot (cfg : Cfg) (css : List (List Char × List Char)) (wh : Int × Int)
    (drawing : List Node) : Node :=
  .elem .svg [(.xmlns, [.lit "http://www.w3.org/2000/svg"]), (.width, [.num wh.1]),
      (.height, [.num wh.2]), (.class, [.lit "svgbob"])]
    ((if cfg.includeStyles then [styleNode cfg css] else []) ++
     (if cfg.includeDefs then [defsNode] else []) ++
     (if cfg.includeBackdrop then
        [.elem .rect [(.class, [.lit "backdrop"]), (.x, [.int 0]), (.y, [.int 0]), (.width, [.num wh.1]),
          (.height, [.num wh.2])] []] else []) ++
     drawing)

/-- the nodes of the drawing: nested top-level fragments, then one `g` per group -/
def drawingNodes (len : List Char → Nat) (K : Int) (accepted : List Frag) (groups : List (List Frag)) :
    List Node :=
  fragmentsToNodes len K accepted ++
    groups.map fun g => Node.elem .g [] (g.map fun f => (f.scale K).toNode)

theorem svgRoot_eq_assemble (len : List Char → Nat) (cfg : Cfg) (cells : List (Cell × Char))
    (css : List (List Char × List Char)) (accepted : List Frag) (groups : List (List Frag))
    (hov : cfg.overrideSize = none) :
    svgRoot len cfg cells css accepted groups =
      assembleRoot cfg css (canvasSize cfg cells) (drawingNodes len cfg.scaleN accepted groups) := by
  simp only [svgRoot, hov, assembleRoot, drawingNodes, List.append_assoc]

theorem canvasSize_shift (cfg : Cfg) (k n : Int) (cells : List (Cell × Char)) (hne : cells ≠ []) :
    canvasSize cfg (Span.shift k n cells) =
      ((canvasSize cfg cells).1 + 1000 * k * cfg.scaleN, (canvasSize cfg cells).2 + 2000 * n * cfg.scaleN) := by
  cases cells with
  | nil => exact absurd rfl hne
  | cons c cs =>
    have hx : ((Span.shift k n (c :: cs)).map (·.1.x)) = ((c :: cs).map (·.1.x)).map (· + k) := by
      simp [Span.shift, Cell.shift, List.map_map, Function.comp]
    have hy : ((Span.shift k n (c :: cs)).map (·.1.y)) = ((c :: cs).map (·.1.y)).map (· + n) := by
      simp [Span.shift, Cell.shift, List.map_map, Function.comp]
    have hs : Span.shift k n (c :: cs) = (c.1.shift k n, c.2) :: Span.shift k n cs := by
      simp [Span.shift]
    simp only [canvasSize, hx, hy]
    rw [hs]
    simp only [listMax_map_add' _ k 0 0 (by simp : ((c :: cs).map (·.1.x)) ≠ []),
      listMax_map_add' _ n 0 0 (by simp : ((c :: cs).map (·.1.y)) ≠ []), Prod.mk.injEq]
    constructor <;> ring

theorem groupNodes_move (K k n : Int) (groups : List (List Frag)) :
    ((groups.map (List.map (Frag.move k n))).map fun g =>
        Node.elem .g [] (g.map fun f => (f.scale K).toNode)) =
      (groups.map fun g => Node.elem .g [] (g.map fun f => (f.scale K).toNode)).map
        (Node.moveNum (1000 * k * K) (2000 * n * K)) := by
  simp only [List.map_map]
  apply List.map_congr_left
  intro g _
  simp only [Function.comp, Node.moveNum, List.map_nil, Node.moveNumList_eq_map, List.map_map,
    Node.elem.injEq, true_and]
  apply List.map_congr_left
  intro f _
  simp [Function.comp, Frag.toNode_move]

/-- **the document of the moved drawing**: the canvas grows by `scale·(k, 2n)` cells, every node of the
drawing is the old node with its coordinates offset by exactly that much, in the same order; style
sheet, marker definitions, classes, sizes, radii and texts are the same -/
theorem svgRoot_move (len : List Char → Nat) (cfg : Cfg) (k n : Int) (cells : List (Cell × Char))
    (css : List (List Char × List Char)) (accepted : List Frag) (groups : List (List Frag))
    (hov : cfg.overrideSize = none) (hne : cells ≠ []) (hm : ∀ f ∈ accepted, f.Movable) :
    svgRoot len cfg (Span.shift k n cells) css (accepted.map (Frag.move k n))
        (groups.map (List.map (Frag.move k n))) =
      assembleRoot cfg css
        ((canvasSize cfg cells).1 + 1000 * k * cfg.scaleN, (canvasSize cfg cells).2 + 2000 * n * cfg.scaleN)
        ((drawingNodes len cfg.scaleN accepted groups).map
          (Node.moveNum (1000 * k * cfg.scaleN) (2000 * n * cfg.scaleN))) := by
  rw [svgRoot_eq_assemble _ _ _ _ _ _ hov, canvasSize_shift cfg k n cells hne]
  simp only [drawingNodes, List.map_append, fragmentsToNodes_move len _ k n accepted hm,
    groupNodes_move]

end Svgbob

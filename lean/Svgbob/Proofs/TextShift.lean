import Svgbob.Proofs.FrontShift
import Svgbob.Proofs.Lines
/-!
# Moving the text: `n` blank lines in front, every line prefixed with `k` blanks

`shiftText k n s` is the text the property speaks about. Its rows (`str::lines`) are `n` empty rows,
then the rows of `s` each prefixed with `k` blanks, then possibly one row of blanks only (when `s`
ends in a line feed, the blanks after it form a last row). Hence the front end gives exactly the moved
cells and quoted texts (`front_shiftText`), for every text without a `#` (so that no legend marker is
present before or after the move).
-/
namespace Svgbob

/-- `k` blanks after every line feed -/
def indentAfterNl (k : Nat) : List Char → List Char
  | [] => []
  | c :: cs =>
    if c == '\n' then '\n' :: (blanks k ++ indentAfterNl k cs) else c :: indentAfterNl k cs

/-- every line prefixed with `k` blanks -/
def indentText (k : Nat) (s : List Char) : List Char := blanks k ++ indentAfterNl k s

/-- the text moved by `k` columns and `n` rows -/
def shiftText (k n : Nat) (s : List Char) : List Char := List.replicate n '\n' ++ indentText k s

theorem splitNl_cons_of_ne (c : Char) (cs : List Char) (hc : (c == '\n') = false) :
    splitNl (c :: cs) = (c :: (splitNl cs).headD []) :: (splitNl cs).tail := by
  simp only [splitNl, hc, Bool.false_eq_true, if_false]
  cases hs : splitNl cs with
  | nil => exact absurd hs (splitNl_ne_nil cs)
  | cons l ls => simp

theorem splitNl_blanks_append (k : Nat) (t : List Char) :
    splitNl (blanks k ++ t) = (blanks k ++ (splitNl t).headD []) :: (splitNl t).tail := by
  induction k with
  | zero =>
    simp only [blanks, List.replicate_zero, List.nil_append]
    cases hs : splitNl t with
    | nil => exact absurd hs (splitNl_ne_nil t)
    | cons l ls => simp
  | succ k ih =>
    have : blanks (k + 1) ++ t = ' ' :: (blanks k ++ t) := by simp [blanks, List.replicate_succ]
    rw [this, splitNl_cons_of_ne ' ' _ (by decide), ih]
    simp [blanks, List.replicate_succ]

theorem splitNl_indentAfterNl (k : Nat) (s : List Char) :
    splitNl (indentAfterNl k s) =
      (splitNl s).headD [] :: ((splitNl s).tail.map (blanks k ++ ·)) := by
  induction s with
  | nil => simp [indentAfterNl, splitNl]
  | cons c cs ih =>
    by_cases hc : (c == '\n') = true
    · simp only [indentAfterNl, hc, if_true]
      have h1 : splitNl ('\n' :: (blanks k ++ indentAfterNl k cs)) =
          [] :: splitNl (blanks k ++ indentAfterNl k cs) := by simp [splitNl]
      have h2 : splitNl (c :: cs) = [] :: splitNl cs := by simp [splitNl, hc]
      rw [h1, h2, splitNl_blanks_append, ih]
      cases hs : splitNl cs with
      | nil => exact absurd hs (splitNl_ne_nil cs)
      | cons l ls => simp
    · have hc' : (c == '\n') = false := by simpa using hc
      simp only [indentAfterNl, hc', Bool.false_eq_true, if_false]
      rw [splitNl_cons_of_ne c _ hc', splitNl_cons_of_ne c _ hc', ih]
      simp

/-- **the pieces of the indented text are the indented pieces** -/
theorem splitNl_indentText (k : Nat) (s : List Char) :
    splitNl (indentText k s) = (splitNl s).map (blanks k ++ ·) := by
  unfold indentText
  rw [splitNl_blanks_append, splitNl_indentAfterNl]
  cases hs : splitNl s with
  | nil => exact absurd hs (splitNl_ne_nil s)
  | cons l ls => simp

theorem splitNl_nls (n : Nat) (t : List Char) :
    splitNl (List.replicate n '\n' ++ t) = List.replicate n [] ++ splitNl t := by
  induction n with
  | zero => simp
  | succ n ih => simp [List.replicate_succ, splitNl, ih]

theorem linesOfPieces_empties (n : Nat) (ps : List (List Char)) (hne : ps ≠ []) :
    linesOfPieces (List.replicate n [] ++ ps) = List.replicate n [] ++ linesOfPieces ps := by
  induction n with
  | zero => simp
  | succ n ih =>
    have h1 : List.replicate (n + 1) ([] : List Char) ++ ps = [] :: (List.replicate n [] ++ ps) := by
      simp [List.replicate_succ]
    rw [h1]
    cases h2 : List.replicate n ([] : List Char) ++ ps with
    | nil =>
      have := congrArg List.length h2
      simp at this
      exact absurd this.2 hne
    | cons q qs =>
      simp only [linesOfPieces]
      rw [← h2, ih]
      simp [stripCr, List.replicate_succ]

theorem stripCr_blanks (k : Nat) (l : List Char) : stripCr (blanks k ++ l) = blanks k ++ stripCr l := by
  cases l with
  | nil =>
    simp only [List.append_nil]
    rw [stripCr_of_not_mem, stripCr_of_not_mem] <;> simp [blanks]
  | cons c cs =>
    unfold stripCr
    have h1 : (blanks k ++ c :: cs).getLast? = (c :: cs).getLast? := by
      rw [List.getLast?_append]
      cases hl : (c :: cs).getLast? with
      | none => simp at hl
      | some v => rfl
    rw [h1]
    split
    · simp [List.dropLast_append_cons]
    · rfl

/-- the rows of the indented pieces: the indented rows, and one row of blanks when the text ends in a
line feed and `k > 0` -/
theorem linesOfPieces_indent (k : Nat) (ps : List (List Char)) :
    ∃ j, linesOfPieces (ps.map (blanks k ++ ·)) =
      (linesOfPieces ps).map (blanks k ++ ·) ++ List.replicate j (blanks k) := by
  induction ps with
  | nil => exact ⟨0, by simp [linesOfPieces]⟩
  | cons p rest ih =>
    cases rest with
    | nil =>
      simp only [List.map_cons, List.map_nil, linesOfPieces]
      by_cases hp : p.isEmpty = true
      · have : p = [] := by simpa using hp
        subst this
        by_cases hk : k = 0
        · subst hk; exact ⟨0, by simp [blanks]⟩
        · refine ⟨1, ?_⟩
          have : (blanks k ++ ([] : List Char)).isEmpty = false := by
            cases k with
            | zero => exact absurd rfl hk
            | succ k => simp [blanks, List.replicate_succ]
          have hb : blanks k ≠ [] := by
            intro e; rw [e] at this; simp at this
          simp [hb]
      · have hp' : p.isEmpty = false := by simpa using hp
        have : (blanks k ++ p).isEmpty = false := by
          cases p with
          | nil => simp at hp'
          | cons c cs => simp
        exact ⟨0, by simp [this, hp']⟩
    | cons q qs =>
      obtain ⟨j, hj⟩ := ih
      refine ⟨j, ?_⟩
      simp only [List.map_cons, linesOfPieces] at hj ⊢
      rw [hj, stripCr_blanks]
      simp

/-- **the rows of the moved text** -/
theorem lines_shiftText (k n : Nat) (s : List Char) :
    ∃ j, lines (shiftText k n s) =
      List.replicate n [] ++ (lines s).map (blanks k ++ ·) ++ List.replicate j (blanks k) := by
  unfold lines shiftText
  rw [splitNl_nls, splitNl_indentText]
  obtain ⟨j, hj⟩ := linesOfPieces_indent k (splitNl s)
  refine ⟨j, ?_⟩
  rw [linesOfPieces_empties n _ (by simp [splitNl_ne_nil]), hj, List.append_assoc]

/-! ## rows to cells -/

theorem rowFront_indent_all (env : Env) (h : env.SpaceOk) (y : Int) (k : Nat) (row : List Char) :
    (escapeLine env y (expandRow env (blanks k ++ row))).1 =
        shiftSegs k (escapeLine env y (expandRow env row)).1 ∧
    rowCellsFrom env y 0 (escapeLine env y (expandRow env (blanks k ++ row))).2 =
        shiftCellsRight k (rowCellsFrom env y 0 (escapeLine env y (expandRow env row)).2) := by
  rw [expandRow_blanks env h, escapeLine_blanks]
  refine ⟨rfl, ?_⟩
  simp only
  rw [rowCellsFrom_blanks env h, ← rowCellsFrom_add]

/-- a row of blanks holds no cell and no quoted text -/
theorem rowFront_blank_row (env : Env) (h : env.SpaceOk) (y : Int) (k : Nat) :
    (escapeLine env y (expandRow env (blanks k))).1 = [] ∧
    rowCellsFrom env y 0 (escapeLine env y (expandRow env (blanks k))).2 = [] := by
  have := rowFront_indent_all env h y k []
  simp only [List.append_nil] at this
  rw [this.1, this.2]
  simp [expandRow, escapeLine, lineParse, lineParseFrom, rowCellsFrom, shiftSegs, shiftCellsRight]

theorem rowsFront_indent_all (env : Env) (h : env.SpaceOk) (k : Nat) (rows : List (List Char)) :
    ∀ y, rowsFront env y (rows.map (blanks k ++ ·)) =
      (shiftCellsRight k (rowsFront env y rows).1, shiftSegs k (rowsFront env y rows).2) := by
  induction rows with
  | nil => intro y; rfl
  | cons row rest ih =>
    intro y
    simp only [List.map_cons, rowsFront, ih (y + 1)]
    obtain ⟨h1, h2⟩ := rowFront_indent_all env h (y : Int) k row
    rw [h1, h2]
    simp [shiftCellsRight, shiftSegs]

theorem rowsFront_append_blank_rows (env : Env) (h : env.SpaceOk) (k j : Nat) (rows : List (List Char)) :
    ∀ y, rowsFront env y (rows ++ List.replicate j (blanks k)) = rowsFront env y rows := by
  induction rows with
  | nil =>
    induction j with
    | zero => intro y; simp
    | succ j ih =>
      intro y
      simp only [List.nil_append] at ih ⊢
      obtain ⟨h1, h2⟩ := rowFront_blank_row env h (y : Int) k
      simp only [List.replicate_succ, rowsFront, ih (y + 1), h1, h2, List.append_nil]
  | cons r rs ih => intro y; simp only [List.cons_append, rowsFront, ih (y + 1)]

/-- **rows of the moved text to cells**: the cells and quoted texts of the moved text are the moved
cells and quoted texts -/
theorem rowsFront_lines_shiftText (env : Env) (h : env.SpaceOk) (k n : Nat) (s : List Char) :
    rowsFront env 0 (lines (shiftText k n s)) =
      (Span.shift k n (rowsFront env 0 (lines s)).1,
       (rowsFront env 0 (lines s)).2.map fun e => (e.1.shift k n, e.2)) := by
  obtain ⟨j, hj⟩ := lines_shiftText k n s
  rw [hj, rowsFront_append_blank_rows env h, rowsFront_blank_rows, rowsFront_down env n _ 0,
    rowsFront_indent_all env h]
  simp only [shiftCellsRight, shiftSegs, Span.shift, Cell.shift, List.map_map, Function.comp_def]

/-! ## no legend before, none after -/

theorem findLegend_none_of_no_hash (t : List Char) (h : '#' ∉ t) : findLegend t = none := by
  induction t with
  | nil => rfl
  | cons c cs ih =>
    have hc : c ≠ '#' := fun e => h (by simp [e])
    have hcs : '#' ∉ cs := fun e => h (List.mem_cons_of_mem _ e)
    have hp : legendMarker.isPrefixOf (c :: cs) = false := by
      have hm : legendMarker = '#' :: " Legend:".toList := rfl
      rw [hm, List.isPrefixOf_cons₂]
      have : ('#' == c) = false := by
        simp only [beq_eq_false_iff_ne, ne_eq]; exact fun e => hc e.symm
      simp [this]
    simp only [findLegend, hp, Bool.false_eq_true, if_false, ih hcs]

theorem mem_indentAfterNl (k : Nat) (s : List Char) (c : Char) (hc : c ∈ indentAfterNl k s) :
    c ∈ s ∨ c = ' ' := by
  induction s with
  | nil => simp [indentAfterNl] at hc
  | cons d ds ih =>
    simp only [indentAfterNl] at hc
    split at hc
    · rename_i hd
      have hd' : d = '\n' := by simpa using hd
      rcases List.mem_cons.mp hc with rfl | hc
      · exact Or.inl (by simp [hd'])
      · rcases List.mem_append.mp hc with hb | hr
        · exact Or.inr (List.mem_replicate.mp hb).2
        · rcases ih hr with h | h
          · exact Or.inl (List.mem_cons_of_mem _ h)
          · exact Or.inr h
    · rcases List.mem_cons.mp hc with rfl | hc
      · exact Or.inl (by simp)
      · rcases ih hc with h | h
        · exact Or.inl (List.mem_cons_of_mem _ h)
        · exact Or.inr h

theorem no_hash_shiftText (k n : Nat) (s : List Char) (h : '#' ∉ s) : '#' ∉ shiftText k n s := by
  intro hm
  unfold shiftText indentText at hm
  rcases List.mem_append.mp hm with h1 | h2
  · have := (List.mem_replicate.mp h1).2; simp at this
  · rcases List.mem_append.mp h2 with h3 | h4
    · have := (List.mem_replicate.mp h3).2; simp at this
    · rcases mem_indentAfterNl k s '#' h4 with h5 | h5
      · exact h h5
      · simp at h5

/-- **the front end on the moved text**: for a text without `#` (no legend marker before or after the
move), the cells and the quoted texts of the moved text are those of the text moved by `(k, n)`, and
neither has legend entries -/
theorem front_shiftText (env : Env) (h : env.SpaceOk) (k n : Nat) (s : List Char) (hs : '#' ∉ s) :
    (front env (shiftText k n s)).cells = Span.shift k n (front env s).cells ∧
    (front env (shiftText k n s)).escaped = (front env s).escaped.map (fun e => (e.1.shift k n, e.2)) ∧
    (front env (shiftText k n s)).css = [] ∧ (front env s).css = [] := by
  have e1 := findLegend_none_of_no_hash s hs
  have e2 := findLegend_none_of_no_hash _ (no_hash_shiftText k n s hs)
  simp only [front, e1, e2, rowsFront_lines_shiftText env h k n s, and_self]

end Svgbob

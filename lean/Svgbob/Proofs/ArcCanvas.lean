import Svgbob.Proofs.Canvas
import Svgbob.Proofs.RectStrokes
/-!
# Catalogue arcs lie inside the canvas of the span they are matched in

Every quarter, half and three-quarter arc of the regenerated catalogue has its end points inside the
box of its own drawing plus one cell of margin to the right and below (kernel evaluation); hence,
matched in any span, inside the canvas of that span.
-/
namespace Svgbob

/-- the control points of `f` lie between the top-left cell of `sp` and one cell beyond its
bottom-right cell -/
def fragInsideSpanBox (f : Frag) (sp : Span) : Bool :=
  match sp.bounds with
  | none => false
  | some (tl, br) => f.ctrl.all fun p =>
      decide (tl.x * 1000 ≤ p.x) && decide (p.x ≤ (br.x + 2) * 1000) &&
      decide (tl.y * 2000 ≤ p.y) && decide (p.y ≤ (br.y + 2) * 2000)

def Catalogue.arcsInsideB (c : Catalogue) : Bool :=
  c.circles.all (fun e => fragInsideSpanBox e.1 e.2) &&
  c.threeQuarters.all (fun e => fragInsideSpanBox e.2.1 e.2.2) &&
  c.halves.all (fun e => fragInsideSpanBox e.2.1 e.2.2) &&
  c.quarters.all (fun e => fragInsideSpanBox e.2.1 e.2.2)

/-- over the regenerated catalogue (kernel evaluation, a few minutes) -/
theorem real_catalogue_arcs_inside : catalogue.map Catalogue.arcsInsideB = some true := by
  decide +kernel

/-- **a catalogue fragment matched in a span lies inside the canvas of the span** -/
theorem matched_fragment_inCanvas (mx my : Int) (s : Span) (hs : SpanIn mx my s) (tl br : Cell)
    (hb : s.bounds = some (tl, br)) (f : Frag) (sp : Span) (hin : fragInsideSpanBox f sp = true)
    (rest : Span) (hm : matchSpan sp s = some rest) :
    (f.absPos tl).InRange 0 ((mx + 2) * 1000) 0 ((my + 2) * 2000) := by
  unfold fragInsideSpanBox at hin
  cases hcb : sp.bounds with
  | none => simp [hcb] at hin
  | some cb =>
    obtain ⟨ctl, cbr⟩ := cb
    simp only [hcb, List.all_eq_true, Bool.and_eq_true, decide_eq_true_eq] at hin
    obtain ⟨⟨cx, hcx, hcxe⟩, ⟨cy, hcy, hcye⟩, ⟨dx, hdx, hdxe⟩, ⟨dy, hdy, hdye⟩⟩ :=
      Span.bounds_attained sp ctl cbr hcb
    unfold matchSpan at hm
    simp only at hm
    split at hm
    · rename_i hall
      have hall' := List.all_eq_true.mp hall
      have h1 := hall' cx hcx
      have h2 := hall' cy hcy
      have h3 := hall' dx hdx
      have h4 := hall' dy hdy
      simp only [List.contains_iff_mem] at h1 h2 h3 h4
      obtain ⟨s1, hs1, e1, _⟩ := mem_localize s tl br hb cx h1
      obtain ⟨s2, hs2, _, e2⟩ := mem_localize s tl br hb cy h2
      obtain ⟨s3, hs3, e3, _⟩ := mem_localize s tl br hb dx h3
      obtain ⟨s4, hs4, _, e4⟩ := mem_localize s tl br hb dy h4
      have b1 := hs s1 hs1
      have b2 := hs s2 hs2
      have b3 := hs s3 hs3
      have b4 := hs s4 hs4
      obtain ⟨_, _, ⟨tx, htx, htxe⟩, ⟨ty, hty, htye⟩⟩ := Span.bounds_attained s tl br hb
      have btx := hs tx htx
      have bty := hs ty hty
      -- the span's own top-left cell is not right of / below any of its cells
      have hmin : ∀ cc ∈ s, tl.x ≤ cc.1.x ∧ tl.y ≤ cc.1.y := by
        intro cc hcc
        cases hsn : s with
        | nil => rw [hsn] at hcc; cases hcc
        | cons c0 cs0 =>
          rw [hsn] at hb hcc
          simp only [Span.bounds, Option.some.injEq, Prod.mk.injEq] at hb
          rw [← hb.1]
          exact ⟨listMin_le _ 0 _ (List.mem_map.mpr ⟨cc, hcc, rfl⟩),
                 listMin_le _ 0 _ (List.mem_map.mpr ⟨cc, hcc, rfl⟩)⟩
      have m3 := hmin s3 hs3
      have m4 := hmin s4 hs4
      intro p hp
      obtain ⟨q, hq, rfl⟩ := ctrl_absPos tl f p hp
      have hqb := hin q hq
      simp only [Pt.InRange, Pt.add, Cell.origin]
      omega
    · simp at hm

/-- **whatever the catalogue stage accepts in a span lies inside the canvas of the span**: the
circle, or the three-quarter, half or quarter arc — for every span with cells in columns `0..mx` and
rows `0..my`, and every catalogue whose fragments stay within their drawings plus one cell (as the
regenerated catalogue does: `real_catalogue_arcs_inside`) -/
theorem endorseArcsAndCircles_inCanvas (cat : Catalogue) (hcat : cat.arcsInsideB = true)
    (mx my : Int) (s : Span) (hs : SpanIn mx my s) (acc : List FragSpan) (rest : Span)
    (h : endorseArcsAndCircles cat s = some (acc, rest)) :
    ∀ f ∈ acc, f.frag.InRange 0 ((mx + 2) * 1000) 0 ((my + 2) * 2000) := by
  unfold Catalogue.arcsInsideB at hcat
  simp only [Bool.and_eq_true, List.all_eq_true] at hcat
  obtain ⟨⟨⟨h1, h2⟩, h3⟩, h4⟩ := hcat
  unfold endorseArcsAndCircles at h
  split at h
  · cases h
  · rename_i tl br hb
    split at h
    · rename_i f r hm
      cases h
      obtain ⟨e, he, rfl, hms⟩ := findMatch_some _ _ _ _ hm
      intro x hx
      simp only [List.mem_singleton] at hx
      subst hx
      exact matched_fragment_inCanvas mx my s hs tl br hb e.1 e.2 (h1 e he) _ hms
    · split at h
      · rename_i f r hm
        cases h
        obtain ⟨e, he, rfl, hms⟩ := findMatch_some _ _ _ _ hm
        obtain ⟨e', he', rfl⟩ := List.mem_map.mp he
        intro x hx
        simp only [List.mem_singleton] at hx
        subst hx
        exact matched_fragment_inCanvas mx my s hs tl br hb _ _ (h2 e' he') _ hms
      · split at h
        · rename_i f r hm
          cases h
          obtain ⟨e, he, rfl, hms⟩ := findMatch_some _ _ _ _ hm
          obtain ⟨e', he', rfl⟩ := List.mem_map.mp he
          intro x hx
          simp only [List.mem_singleton] at hx
          subst hx
          exact matched_fragment_inCanvas mx my s hs tl br hb _ _ (h3 e' he') _ hms
        · split at h
          · rename_i f r hm
            cases h
            obtain ⟨e, he, rfl, hms⟩ := findMatch_some _ _ _ _ hm
            obtain ⟨e', he', rfl⟩ := List.mem_map.mp he
            intro x hx
            simp only [List.mem_singleton] at hx
            subst hx
            exact matched_fragment_inCanvas mx my s hs tl br hb _ _ (h4 e' he') _ hms
          · cases h
            intro x hx
            cases hx

end Svgbob

import Svgbob.Model.Pipeline
/-!
# Conditions only look at the neighbours they mention

Used to cut the `decide` over all 8-neighbourhoods down to the axis neighbours plus a separate
check that the diagonal neighbours cannot matter.
-/
namespace Svgbob

def Cond.dirs : Cond → List Dir
  | .tt => []
  | .is d _ => [d]
  | .overlap d _ _ _ => [d]
  | .arcsTo d _ _ => [d]
  | .not c => c.dirs
  | .and a b => a.dirs ++ b.dirs
  | .or a b => a.dirs ++ b.dirs

theorem Cond.eval_congr (c : Cond) (nb nb' : Dir → Entry) (h : ∀ d ∈ c.dirs, nb d = nb' d) :
    c.eval nb = c.eval nb' := by
  induction c with
  | tt => rfl
  | is d ch => simp [Cond.eval, h d (by simp [Cond.dirs])]
  | overlap d p q s => simp [Cond.eval, h d (by simp [Cond.dirs])]
  | arcsTo d p q => simp [Cond.eval, h d (by simp [Cond.dirs])]
  | not c ih => simp [Cond.eval, ih h]
  | and a b iha ihb =>
    simp only [Cond.eval]
    rw [iha (fun d hd => h d (by simp [Cond.dirs, hd])), ihb (fun d hd => h d (by simp [Cond.dirs, hd]))]
  | or a b iha ihb =>
    simp only [Cond.eval]
    rw [iha (fun d hd => h d (by simp [Cond.dirs, hd])), ihb (fun d hd => h d (by simp [Cond.dirs, hd]))]

def Dir.isDiag : Dir → Bool
  | .topLeft | .topRight | .bottomLeft | .bottomRight => true
  | _ => false

/-- the neighbourhood with the four diagonal neighbours emptied -/
def axisOnly (nb : Dir → Entry) : Dir → Entry := fun d => if d.isDiag then Entry.empty else nb d

/-- a neighbourhood given by its four diagonal entries, axis neighbours empty -/
def diagFun (tl tr bl br : Entry) : Dir → Entry
  | .topLeft => tl | .topRight => tr | .bottomLeft => bl | .bottomRight => br
  | _ => Entry.empty

/-- a neighbourhood given by its four axis entries, diagonal neighbours empty -/
def axisFun (t b l r : Entry) : Dir → Entry
  | .top => t | .bottom => b | .left => l | .right => r
  | _ => Entry.empty

theorem axisOnly_eq_axisFun (nb : Dir → Entry) :
    axisOnly nb = axisFun (nb .top) (nb .bottom) (nb .left) (nb .right) := by
  funext d; cases d <;> simp [axisOnly, axisFun, Dir.isDiag]

/-- a row is *local* w.r.t. the candidate neighbour entries `E`: its condition mentions only axis
neighbours, or only diagonal neighbours and then has the same value for every choice of the
diagonal neighbours from `E` as for empty diagonals -/
def rowLocal (E : List Entry) (c : Cond) : Bool :=
  c.dirs.all (fun d => !d.isDiag) ||
  (c.dirs.all Dir.isDiag &&
    E.all fun tl => E.all fun tr => E.all fun bl => E.all fun br =>
      c.eval (diagFun tl tr bl br) == c.eval (fun _ => Entry.empty))

theorem rowLocal_eval (E : List Entry) (c : Cond) (hl : rowLocal E c = true) (nb : Dir → Entry)
    (hnb : ∀ d, nb d ∈ E) : c.eval nb = c.eval (axisOnly nb) := by
  simp only [rowLocal, Bool.or_eq_true] at hl
  rcases hl with hax | hdg
  · apply Cond.eval_congr
    intro d hd
    have := List.all_eq_true.mp hax d hd
    simp only [Bool.not_eq_true'] at this
    simp [axisOnly, this]
  · simp only [Bool.and_eq_true] at hdg
    obtain ⟨hd, hall⟩ := hdg
    have h1 : c.eval nb = c.eval (diagFun (nb .topLeft) (nb .topRight) (nb .bottomLeft) (nb .bottomRight)) := by
      apply Cond.eval_congr
      intro d hdm
      have hdiag := List.all_eq_true.mp hd d hdm
      cases d <;> simp [Dir.isDiag] at hdiag <;> rfl
    have h2 := List.all_eq_true.mp hall _ (hnb .topLeft)
    have h3 := List.all_eq_true.mp h2 _ (hnb .topRight)
    have h4 := List.all_eq_true.mp h3 _ (hnb .bottomLeft)
    have h5 := List.all_eq_true.mp h4 _ (hnb .bottomRight)
    have h6 : c.eval (fun _ => Entry.empty) = c.eval (axisOnly nb) := by
      apply Cond.eval_congr
      intro d hdm
      have hdiag := List.all_eq_true.mp hd d hdm
      simp [axisOnly, hdiag]
    rw [h1, ← h6]
    simpa using h5

/-- if every row of an entry is local then its fragments do not depend on the diagonal
neighbours (as long as all neighbours come from `E`) -/
theorem fragments_axisOnly (E : List Entry) (en : Entry)
    (hl : en.behavior.all (fun row => rowLocal E row.1) = true) (nb : Dir → Entry)
    (hnb : ∀ d, nb d ∈ E) : en.fragments nb = en.fragments (axisOnly nb) := by
  unfold Entry.fragments
  have hrows : ∀ rows : List (Cond × List Frag), (∀ row ∈ rows, rowLocal E row.1 = true) →
      (rows.flatMap fun cf => if cf.1.eval nb then cf.2 else []) =
      (rows.flatMap fun cf => if cf.1.eval (axisOnly nb) then cf.2 else []) := by
    intro rows
    induction rows with
    | nil => intro _; rfl
    | cons r rs ih =>
      intro h
      simp only [List.flatMap_cons]
      rw [rowLocal_eval E r.1 (h r (by simp)) nb hnb, ih (fun row hr => h row (List.mem_cons_of_mem _ hr))]
  exact hrows en.behavior (fun row hrow => List.all_eq_true.mp hl row hrow)

end Svgbob

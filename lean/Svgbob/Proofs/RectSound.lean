import Svgbob.Model.Endorse
/-!
# Soundness of rectangle endorsement
-/
namespace Svgbob

/-- if a contact group is endorsed as a (sharp) rectangle then the group consists of four
fragments and every side of the common bounding box is one of the group's lines -/
theorem isRect_sides (frags : List Frag) (h : isRect frags = true) :
    frags.length = 4 ∧ linesAreSides frags = true := by
  unfold isRect at h
  split at h
  · rename_i hlen
    refine ⟨by simpa using hlen, ?_⟩
    split at h
    · split at h
      · simp only [Bool.and_eq_true] at h
        exact h.2
      · simp at h
    · simp at h
  · simp at h

/-- membership form of `linesAreSides` -/
theorem linesAreSides_mem (frags : List Frag) (h : linesAreSides frags = true) :
    ∀ se ∈ boundsSides frags, ∃ b, Frag.line se.1 se.2 b ∈ frags := by
  intro se hse
  simp only [linesAreSides, List.all_eq_true, List.any_eq_true] at h
  obtain ⟨f, hf, hm⟩ := h se hse
  cases f with
  | line s e b =>
    simp only [Bool.and_eq_true, beq_iff_eq] at hm
    obtain ⟨rfl, rfl⟩ := hm
    exact ⟨b, hf⟩
  | _ => simp at hm

/-- the rectangle `endorse_rect` emits spans the bounding box of the group -/
theorem endorseRect_some (frags : List Frag) (r : Frag) (h : endorseRect frags = some r) :
    isRect frags = true := by
  unfold endorseRect at h
  split at h
  · assumption
  · simp at h

end Svgbob

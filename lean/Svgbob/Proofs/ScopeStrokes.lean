import Svgbob.Proofs.RectStrokes
import Svgbob.Proofs.MoveAll2
/-!
# From the cells of a scope to its contact groups: nothing stroked is lost, nothing is added

`FragBuf.Any D fb`: some fragment of the buffer, moved to its cell, satisfies `D`. The buffer is
built by inserting the cells one after the other; inserting adds exactly the inserted fragments
(also in the branch for a cell that is already present, where duplicates are skipped and the cell
is re-sorted). Then `abs_fragment_spans`, the fragment merge (`mergeRec_preserves_strokes`) and
the contact grouping (which only concatenates groups).
-/
namespace Svgbob

variable (len : List Char → Nat)

def FragBuf.Any (D : Frag → Prop) (fb : FragBuf) : Prop :=
  ∃ e ∈ fb, ∃ f ∈ e.2, D (f.frag.absPos e.1)

theorem FragBuf.any_nil (D : Frag → Prop) : ¬ FragBuf.Any D ([] : FragBuf) := by
  simp [FragBuf.Any]

theorem FragBuf.any_cons (D : Frag → Prop) (e : Cell × List FragSpan) (fb : FragBuf) :
    FragBuf.Any D (e :: fb) ↔ (∃ f ∈ e.2, D (f.frag.absPos e.1)) ∨ FragBuf.Any D fb := by
  simp [FragBuf.Any]

theorem FragBuf.insert_any (D : Frag → Prop) (c : Cell) (fs : List FragSpan) (fb : FragBuf) :
    FragBuf.Any D (FragBuf.insert len c fs fb) ↔
      FragBuf.Any D fb ∨ ∃ f ∈ fs, D (f.frag.absPos c) := by
  induction fb with
  | nil =>
    simp only [FragBuf.insert, FragBuf.any_cons]
    constructor
    · rintro (h | h)
      · exact Or.inr h
      · exact absurd h (FragBuf.any_nil D)
    · rintro (h | h)
      · exact absurd h (FragBuf.any_nil D)
      · exact Or.inl h
  | cons hd rest ih =>
    obtain ⟨c', fs'⟩ := hd
    simp only [FragBuf.insert]
    split
    · rename_i heq
      have hcc : c = c' := by simpa using heq
      subst hcc
      rw [FragBuf.any_cons, FragBuf.any_cons]
      simp only
      constructor
      · rintro (⟨f, hf, hd⟩ | h)
        · have hmem := (sortBy_mem _ _ f).mp hf
          rcases List.mem_append.mp hmem with hm | hm
          · exact Or.inl (Or.inl ⟨f, hm, hd⟩)
          · exact Or.inr ⟨f, (List.mem_filter.mp hm).1, hd⟩
        · exact Or.inl (Or.inr h)
      · rintro ((⟨f, hf, hd⟩ | h) | ⟨f, hf, hd⟩)
        · exact Or.inl ⟨f, (sortBy_mem _ _ f).mpr (List.mem_append_left _ hf), hd⟩
        · exact Or.inr h
        · by_cases hin : f ∈ fs'
          · exact Or.inl ⟨f, (sortBy_mem _ _ f).mpr (List.mem_append_left _ hin), hd⟩
          · refine Or.inl ⟨f, (sortBy_mem _ _ f).mpr (List.mem_append_right _ ?_), hd⟩
            rw [List.mem_filter]
            exact ⟨hf, by simpa using hin⟩
    · split
      · rw [FragBuf.any_cons]
        simp only
        constructor
        · rintro (h | h)
          · exact Or.inr h
          · exact Or.inl h
        · rintro (h | h)
          · exact Or.inr h
          · exact Or.inl h
      · rw [FragBuf.any_cons, FragBuf.any_cons, ih]
        simp only
        constructor
        · rintro (h | h | h)
          · exact Or.inl (Or.inl h)
          · exact Or.inl (Or.inr h)
          · exact Or.inr h
        · rintro ((h | h) | h)
          · exact Or.inl h
          · exact Or.inr (Or.inl h)
          · exact Or.inr (Or.inr h)

theorem fragmentBuffer_any (D : Frag → Prop) (s perm : Span) :
    FragBuf.Any D (fragmentBuffer len s perm) ↔
      ∃ cc ∈ perm, ∃ f ∈ cellFragments len s cc.1 cc.2, D (f.absPos cc.1) := by
  unfold fragmentBuffer
  suffices h : ∀ acc : FragBuf,
      FragBuf.Any D (perm.foldl (fun fb cc =>
        FragBuf.insert len cc.1 ((cellFragments len s cc.1 cc.2).map fun f => ⟨[cc], f⟩) fb) acc) ↔
      FragBuf.Any D acc ∨ ∃ cc ∈ perm, ∃ f ∈ cellFragments len s cc.1 cc.2, D (f.absPos cc.1) by
    have := h []
    simpa [FragBuf.any_nil] using this
  induction perm with
  | nil => intro acc; simp
  | cons cc rest ih =>
    intro acc
    simp only [List.foldl_cons]
    rw [ih, FragBuf.insert_any]
    simp only [List.mem_map, List.mem_cons, exists_exists_and_eq_and]
    constructor
    · rintro ((h | ⟨f, hf, hd⟩) | ⟨cc', hcc', h⟩)
      · exact Or.inl h
      · exact Or.inr ⟨cc, Or.inl rfl, f, hf, hd⟩
      · exact Or.inr ⟨cc', Or.inr hcc', h⟩
    · rintro (h | ⟨cc', rfl | hcc', f, hf, hd⟩)
      · exact Or.inl (Or.inl h)
      · exact Or.inl (Or.inr ⟨f, hf, hd⟩)
      · exact Or.inr ⟨cc', hcc', f, hf, hd⟩

theorem absFragmentSpans_any (D : Frag → Prop) (fb : FragBuf) :
    (∃ f ∈ absFragmentSpans fb, D f.frag) ↔ FragBuf.Any D fb := by
  simp only [absFragmentSpans, List.mem_flatMap, List.mem_map, FragBuf.Any]
  constructor
  · rintro ⟨f, ⟨e, he, g, hg, rfl⟩, hd⟩
    exact ⟨e, he, g, hg, hd⟩
  · rintro ⟨e, he, g, hg, hd⟩
    exact ⟨_, ⟨e, he, g, hg, rfl⟩, hd⟩

/-- every fragment of the buffer satisfies what every inserted cell fragment satisfies -/
theorem fragmentBuffer_all (Q : Frag → Prop) (s perm : Span)
    (h : ∀ cc ∈ perm, ∀ f ∈ cellFragments len s cc.1 cc.2, Q (f.absPos cc.1)) :
    ∀ f ∈ absFragmentSpans (fragmentBuffer len s perm), Q f.frag := by
  intro f hf
  simp only [absFragmentSpans, List.mem_flatMap, List.mem_map] at hf
  obtain ⟨e, he, g, hg, rfl⟩ := hf
  revert e g
  unfold fragmentBuffer
  suffices hh : ∀ (acc : FragBuf), (∀ e ∈ acc, ∀ g ∈ e.2, Q (g.frag.absPos e.1)) →
      ∀ e ∈ perm.foldl (fun fb cc =>
        FragBuf.insert len cc.1 ((cellFragments len s cc.1 cc.2).map fun f => ⟨[cc], f⟩) fb) acc,
        ∀ g ∈ e.2, Q (g.frag.absPos e.1) by
    intro e he g hg
    exact hh [] (by simp) e he g hg
  induction perm with
  | nil => intro acc hacc; simpa using hacc
  | cons cc rest ih =>
    intro acc hacc
    simp only [List.foldl_cons]
    apply ih (fun x hx => h x (List.mem_cons_of_mem _ hx))
    apply FragBuf.insert_forall2 len (fun c f => Q (f.frag.absPos c)) _ _ _ _ hacc
    intro f hf
    simp only [List.mem_map] at hf
    obtain ⟨g, hg, rfl⟩ := hf
    exact h cc (by simp) g hg

/-- contact grouping only concatenates groups -/
theorem contacts_any (D : FragSpan → Prop) (groups : List (List FragSpan)) (n : Nat) :
    (∃ g ∈ G.mergeRec (contactsMerge len) n groups, ∃ f ∈ g, D f) ↔
      (∃ g ∈ groups, ∃ f ∈ g, D f) := by
  have := G.mergeRec_cover (contactsMerge len)
    (fun (g : List FragSpan) (_ : Unit) => ∃ f ∈ g, D f) (fun _ => True)
    (by intros; trivial)
    (by
      intro g it m _ _ hm _
      simp only [contactsMerge] at hm
      split at hm
      · simp at hm; subst hm
        simp only [List.mem_append]
        constructor
        · rintro ⟨f, hf | hf, hd⟩
          · exact Or.inl ⟨f, hf, hd⟩
          · exact Or.inr ⟨f, hf, hd⟩
        · rintro (⟨f, hf, hd⟩ | ⟨f, hf, hd⟩)
          · exact ⟨f, Or.inl hf, hd⟩
          · exact ⟨f, Or.inr hf, hd⟩
      · simp at hm)
    n groups (by intros; trivial) ()
  simpa [G.Covered] using this

/-- **The contact groups of a scope stroke exactly what its cells stroke**: for a span all of
whose cell fragments are stroke-only (proper grid lines and texts), a rational point is stroked by
some fragment of some contact group iff it is stroked by some fragment of some cell. -/
theorem contactsOf_strokes (s : Span)
    (hok : ∀ cc ∈ s, ∀ f ∈ cellFragments len s cc.1 cc.2, (f.absPos cc.1).StrokeOk)
    (P : RPt) (hq : 0 < P.q) :
    (∃ g ∈ contactsOf len s, ∃ f ∈ g, f.frag.strokes P) ↔
      ∃ cc ∈ s, ∃ f ∈ cellFragments len s cc.1 cc.2, (f.absPos cc.1).strokes P := by
  unfold contactsOf
  simp only
  rw [contacts_any len (fun f => f.frag.strokes P)]
  have hall := fragmentBuffer_all len Frag.StrokeOk s s hok
  have hm := mergeRec_preserves_strokes len _ hall
    ((absFragmentSpans (fragmentBuffer len s s)).length + 1) P hq
  rw [← fragmentBuffer_any len (fun f => f.strokes P) s s, ← absFragmentSpans_any, ← hm]
  simp only [List.mem_map]
  constructor
  · rintro ⟨g, ⟨f, hf, rfl⟩, f', hf', hd⟩
    have : f' = f := by simpa using hf'
    subst this
    exact ⟨f', hf, hd⟩
  · rintro ⟨f, hf, hd⟩
    exact ⟨[f], ⟨f, hf, rfl⟩, f, by simp, hd⟩

end Svgbob

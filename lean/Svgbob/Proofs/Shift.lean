import Svgbob.Model.Pipeline
import Svgbob.Proofs.Merge
import Mathlib.Tactic.Ring
/-!
# Translation equivariance of the merge stages

Moving everything by `(k, n)` cells commutes with span merging, fragment merging and contact
grouping: every predicate these stages use is a function of coordinate differences.
-/
namespace Svgbob

def Cell.shift (k n : Int) (c : Cell) : Cell := ⟨c.x + k, c.y + n⟩

/-- a span moved by `(k, n)` cells -/
def Span.shift (k n : Int) (s : Span) : Span := s.map fun cc => (cc.1.shift k n, cc.2)

theorem Cell.isAdjacent_shift (k n : Int) (a b : Cell) :
    (a.shift k n).isAdjacent (b.shift k n) = a.isAdjacent b := by
  simp only [Cell.isAdjacent, Cell.shift]
  have h1 : b.x + k - (a.x + k) = b.x - a.x := by ring
  have h2 : b.y + n - (a.y + n) = b.y - a.y := by ring
  simp only [h1, h2]

/-- **span merging is translation equivariant** -/
theorem spanMerge_shift (k n : Int) (a b : Span) :
    spanMerge (Span.shift k n a) (Span.shift k n b) = (spanMerge a b).map (Span.shift k n) := by
  have hany : ((Span.shift k n a).reverse.any fun ca => (Span.shift k n b).any fun cb =>
      ca.1.isAdjacent cb.1) = (a.reverse.any fun ca => b.any fun cb => ca.1.isAdjacent cb.1) := by
    simp [Span.shift, ← List.map_reverse, List.any_map, Function.comp_def, Cell.isAdjacent_shift]
  simp only [spanMerge, hany]
  split <;> simp [Span.shift]

/-- **`Span::merge_recursive` commutes with moving the drawing** -/
theorem spansOf_shift (k n : Int) (items : List Span) :
    spansOf (items.map (Span.shift k n)) = (spansOf items).map (Span.shift k n) := by
  unfold spansOf
  rw [List.length_map]
  exact G.mergeRec_map spanMerge (Span.shift k n) (spanMerge_shift k n) _ items

/-! ## fragments -/

def Pt.move (d : Pt) (p : Pt) : Pt := ⟨p.x + d.x, p.y + d.y⟩

/-- a fragment moved by `(k, n)` cells (points by `(1000 k, 2000 n)` milli-units) -/
def Frag.move (k n : Int) : Frag → Frag := Frag.absPos ⟨k, n⟩

theorem Pt.cmp_add (d a b : Pt) : (d.add a).cmp (d.add b) = a.cmp b := by
  simp only [Pt.cmp, Pt.add]
  have e1 : (d.y + a.y < d.y + b.y) = (a.y < b.y) := by simp
  have e2 : (d.y + b.y < d.y + a.y) = (b.y < a.y) := by simp
  have e3 : (d.x + a.x < d.x + b.x) = (a.x < b.x) := by simp
  have e4 : (d.x + b.x < d.x + a.x) = (b.x < a.x) := by simp
  simp only [e1, e2, e3, e4]

theorem onSegment_add (d s e p : Pt) : onSegment (d.add s) (d.add e) (d.add p) = onSegment s e p := by
  simp only [onSegment, Pt.add]
  have h1 : (d.x + e.x - (d.x + s.x)) * (d.y + p.y - (d.y + s.y)) -
      (d.y + e.y - (d.y + s.y)) * (d.x + p.x - (d.x + s.x)) =
      (e.x - s.x) * (p.y - s.y) - (e.y - s.y) * (p.x - s.x) := by ring
  have m1 : min (d.x + s.x) (d.x + e.x) = d.x + min s.x e.x := by omega
  have m2 : max (d.x + s.x) (d.x + e.x) = d.x + max s.x e.x := by omega
  have m3 : min (d.y + s.y) (d.y + e.y) = d.y + min s.y e.y := by omega
  have m4 : max (d.y + s.y) (d.y + e.y) = d.y + max s.y e.y := by omega
  simp only [h1, m1, m2, m3, m4, Int.add_le_add_iff_left]

theorem isCollinear_add (d a b c : Pt) : isCollinear (d.add a) (d.add b) (d.add c) = isCollinear a b c := by
  simp only [isCollinear, Pt.add]
  have h1 : (d.x + b.x - (d.x + a.x)) * (d.y + c.y - (d.y + a.y)) -
      (d.y + b.y - (d.y + a.y)) * (d.x + c.x - (d.x + a.x)) =
      (b.x - a.x) * (c.y - a.y) - (b.y - a.y) * (c.x - a.x) := by ring
  simp only [h1]

theorem lineTouching_add (d s e s' e' : Pt) :
    lineTouching (d.add s) (d.add e) (d.add s') (d.add e') = lineTouching s e s' e' := by
  simp [lineTouching, onSegment_add]

theorem lineCanMerge_add (d s e s' e' : Pt) :
    lineCanMerge (d.add s) (d.add e) (d.add s') (d.add e') = lineCanMerge s e s' e' := by
  simp [lineCanMerge, lineTouching_add, isCollinear_add]

theorem Pt.min_add (d a b : Pt) : Pt.min (d.add a) (d.add b) = d.add (Pt.min a b) := by
  simp only [Pt.min, Pt.cmp_add]; split <;> rfl

theorem Pt.max_add (d a b : Pt) : Pt.max (d.add a) (d.add b) = d.add (Pt.max a b) := by
  simp only [Pt.max, Pt.cmp_add]; split <;> rfl

theorem dist2_add (d a b : Pt) : Pt.dist2 (d.add a) (d.add b) = Pt.dist2 a b := by
  simp only [Pt.dist2, Pt.add]; ring

theorem lineHeading_add (d s e : Pt) : lineHeading (d.add s) (d.add e) = lineHeading s e := by
  have h1 : (d.add e).x - (d.add s).x = e.x - s.x := by simp only [Pt.add]; ring
  have h2 : (d.add e).y - (d.add s).y = e.y - s.y := by simp only [Pt.add]; ring
  unfold lineHeading
  rw [h1, h2]

/-- **line merging is translation equivariant** -/
theorem lineMerge_move (k n : Int) (s e : Pt) (b : Bool) (s' e' : Pt) (b' : Bool) :
    lineMerge ((⟨k, n⟩ : Cell).origin.add s) ((⟨k, n⟩ : Cell).origin.add e) b
        ((⟨k, n⟩ : Cell).origin.add s') ((⟨k, n⟩ : Cell).origin.add e') b' =
      (lineMerge s e b s' e' b').map (Frag.move k n) := by
  simp only [lineMerge, lineCanMerge_add, Pt.min_add, Pt.max_add]
  split
  · simp only [Option.map_some, Option.some.injEq, mkLine, Pt.cmp_add]
    split <;> simp [Frag.move, Frag.absPos]
  · simp

/-- **bullet merging is translation equivariant** -/
theorem lineMergeCircle_move (k n : Int) (s e : Pt) (b : Bool) (c : Pt) (r : Int) (f : Bool) :
    lineMergeCircle ((⟨k, n⟩ : Cell).origin.add s) ((⟨k, n⟩ : Cell).origin.add e) b
        ((⟨k, n⟩ : Cell).origin.add c) r f =
      (lineMergeCircle s e b c r f).map (Frag.move k n) := by
  simp only [lineMergeCircle, lineHeading_add, dist2_add]
  split
  · split <;> simp [Frag.move, Frag.absPos]
  · simp

/-- **cell text merging is translation equivariant** -/
theorem cellTextMerge_move (len : List Char → Nat) (k n : Int) (st : Cell) (c : List Char)
    (st' : Cell) (c' : List Char) :
    cellTextMerge len ⟨st.x + k, st.y + n⟩ c ⟨st'.x + k, st'.y + n⟩ c' =
      (cellTextMerge len st c st' c').map (Frag.move k n) := by
  simp only [cellTextMerge]
  have e1 : (st.y + n == st'.y + n) = (st.y == st'.y) := by
    rw [Bool.eq_iff_iff]; simp only [beq_iff_eq]; constructor <;> (intro h; omega)
  have e2 : (st.x + k + (len c : Int) == st'.x + k) = (st.x + (len c : Int) == st'.x) := by
    rw [Bool.eq_iff_iff]; simp only [beq_iff_eq]; constructor <;> (intro h; omega)
  have e3 : (st'.x + k + (len c' : Int) == st.x + k) = (st'.x + (len c' : Int) == st.x) := by
    rw [Bool.eq_iff_iff]; simp only [beq_iff_eq]; constructor <;> (intro h; omega)
  have e4 : (st.x + k < st'.x + k) = (st.x < st'.x) := by simp
  rw [e1, e2, e3]
  split
  · simp only [e4]
    split <;> simp [Frag.move, Frag.absPos]
  · simp

/-- **`Fragment::merge` commutes with moving both fragments** -/
theorem Frag.merge_move (len : List Char → Nat) (k n : Int) (a b : Frag) :
    Frag.merge len (a.move k n) (b.move k n) = (Frag.merge len a b).map (Frag.move k n) := by
  cases a <;> cases b <;> simp only [Frag.move, Frag.absPos, Frag.merge, Option.map_none]
  · exact lineMerge_move k n _ _ _ _ _ _
  · exact lineMergeCircle_move k n _ _ _ _ _ _
  · exact lineMergeCircle_move k n _ _ _ _ _ _
  · exact cellTextMerge_move len k n _ _ _ _

/-- a fragment with its span, moved -/
def FragSpan.move (k n : Int) (f : FragSpan) : FragSpan := ⟨Span.shift k n f.span, f.frag.move k n⟩

theorem FragSpan.merge_move (len : List Char → Nat) (k n : Int) (a b : FragSpan) :
    FragSpan.merge len (a.move k n) (b.move k n) = (FragSpan.merge len a b).map (FragSpan.move k n) := by
  simp only [FragSpan.merge, FragSpan.move, Frag.merge_move]
  cases Frag.merge len a.frag b.frag <;> simp [FragSpan.move, Span.shift]

/-- **the fragment merge of a scope commutes with moving the drawing** -/
theorem mergeFragments_move (len : List Char → Nat) (k n : Int) (fuel : Nat) (frags : List FragSpan) :
    G.mergeRec (FragSpan.merge len) fuel (frags.map (FragSpan.move k n)) =
      (G.mergeRec (FragSpan.merge len) fuel frags).map (FragSpan.move k n) :=
  G.mergeRec_map (FragSpan.merge len) (FragSpan.move k n) (FragSpan.merge_move len k n) fuel frags

end Svgbob

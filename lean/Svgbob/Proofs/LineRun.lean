import Svgbob.Proofs.LineMerge
/-!
# A straight run of unit pieces merges into one line, whatever its length

`runPieces p d n b`: the pieces `p + k·d → p + (k+1)·d`, `k = 0..n-1`, in the order the fragment
buffer lists them (top to bottom, left to right). `d` is the step of one cell in one of the four
line directions; "forward" means the step goes down, or right on the same row, which is the order
`Line::new` sorts endpoints in.
-/
namespace Svgbob

def Pt.step (p d : Pt) (k : Nat) : Pt := ⟨p.x + k * d.x, p.y + k * d.y⟩

def Forward (d : Pt) : Prop := 0 < d.y ∨ (d.y = 0 ∧ 0 < d.x)

def runPieces (p d : Pt) (bs : List Bool) : List Frag :=
  (List.range bs.length).zip bs |>.map fun kb => Frag.line (p.step d kb.1) (p.step d (kb.1 + 1)) kb.2

theorem step_cmp_lt (p d : Pt) (hd : Forward d) (j k : Nat) (h : j < k) :
    (p.step d j).cmp (p.step d k) = .lt := by
  have hjk : (j : Int) < k := by exact_mod_cast h
  simp only [Pt.cmp, Pt.step]
  rcases hd with hy | ⟨hy, hx⟩
  · have : (j : Int) * d.y < k * d.y := Int.mul_lt_mul_of_pos_right hjk hy
    simp [this]
  · have : (j : Int) * d.x < k * d.x := Int.mul_lt_mul_of_pos_right hjk hx
    simp [hy, this]

theorem onSegment_endpoint (s e : Pt) : onSegment s e e = true := by
  have h1 : (e.x - s.x) * (e.y - s.y) - (e.y - s.y) * (e.x - s.x) = 0 := by ring
  simp only [onSegment, h1, Bool.and_eq_true, decide_eq_true_eq, beq_iff_eq]
  refine ⟨⟨⟨⟨trivial, ?_⟩, ?_⟩, ?_⟩, ?_⟩ <;> omega

/-- one more piece extends the accumulated line -/
theorem lineMerge_extend (p d : Pt) (hd : Forward d) (k : Nat) (hk : 0 < k) (b b' : Bool) :
    lineMerge p (p.step d k) b (p.step d k) (p.step d (k + 1)) b' =
      some (.line p (p.step d (k + 1)) (b || b')) := by
  have hp0 : p = p.step d 0 := by simp [Pt.step]
  have hcan : lineCanMerge p (p.step d k) (p.step d k) (p.step d (k + 1)) = true := by
    have hc1 : isCollinear p (p.step d k) (p.step d k) = true := by
      have : ((p.step d k).x - p.x) * ((p.step d k).y - p.y) -
          ((p.step d k).y - p.y) * ((p.step d k).x - p.x) = 0 := by ring
      simp [isCollinear, this]
    have hc2 : isCollinear p (p.step d k) (p.step d (k + 1)) = true := by
      have : ((p.step d k).x - p.x) * ((p.step d (k + 1)).y - p.y) -
          ((p.step d k).y - p.y) * ((p.step d (k + 1)).x - p.x) = 0 := by
        simp only [Pt.step]; push_cast; ring
      simp [isCollinear, this]
    simp [lineCanMerge, lineTouching, onSegment_endpoint, hc1, hc2]
  have hlt1 : p.cmp (p.step d k) = .lt := by
    have := step_cmp_lt p d hd 0 k hk; rwa [← hp0] at this
  have hlt2 : (p.step d k).cmp (p.step d (k + 1)) = .lt := step_cmp_lt p d hd k (k + 1) (by omega)
  have hlt3 : p.cmp (p.step d (k + 1)) = .lt := by
    have := step_cmp_lt p d hd 0 (k + 1) (by omega); rwa [← hp0] at this
  simp [lineMerge, hcan, Pt.min, Pt.max, hlt1, hlt2, mkLine, hlt3]

/-- **A straight run is one line.** Merging the unit pieces of a run of any length `n ≥ 1`, in
buffer order, with the greedy pass of `merge.rs` leaves exactly one line from the first point to
the last; it is dashed iff some piece is dashed. -/
theorem run_pass_is_one_line (len : List Char → Nat) (p d : Pt) (hd : Forward d)
    (b0 : Bool) (bs : List Bool) :
    G.pass (Frag.merge len) (runPieces p d (b0 :: bs)) =
      [.line p (p.step d (bs.length + 1)) ((b0 :: bs).any id)] := by
  -- generalise: after the first `k` pieces the accumulator is the line p → p.step k
  suffices h : ∀ (done rest : List Bool) (acc : Bool), done.length ≥ 1 →
      (((List.range rest.length).zip rest).map fun kb =>
          Frag.line (p.step d (done.length + kb.1)) (p.step d (done.length + kb.1 + 1)) kb.2).foldl
        (G.step (Frag.merge len)) [.line p (p.step d done.length) acc] =
      [.line p (p.step d (done.length + rest.length)) (acc || rest.any id)] by
    have h1 := h [b0] bs b0 (by simp)
    simp only [runPieces, G.pass, List.length_cons]
    rw [List.range_succ_eq_map]
    simp only [List.zip_cons_cons, List.map_cons, List.foldl_cons, List.zip_map_left, List.map_map]
    have hp0 : p.step d 0 = p := by simp [Pt.step]
    simp only [G.step, G.mergeIntoRev, List.nil_append, hp0, Nat.zero_add]
    simp only [List.length_singleton] at h1
    have : (List.map ((fun kb : Nat × Bool => Frag.line (p.step d kb.1) (p.step d (kb.1 + 1)) kb.2) ∘
        Prod.map Nat.succ id) ((List.range bs.length).zip bs)) =
        (((List.range bs.length).zip bs).map fun kb =>
          Frag.line (p.step d (1 + kb.1)) (p.step d (1 + kb.1 + 1)) kb.2) := by
      apply List.map_congr_left
      intro kb _
      simp [Nat.succ_eq_add_one, Nat.add_comm]
    rw [this, h1]
    simp [Nat.add_comm]
  intro done rest
  induction rest generalizing done with
  | nil => intro acc _; simp
  | cons b rest ih =>
    intro acc hdone
    rw [List.length_cons, List.range_succ_eq_map]
    simp only [List.zip_cons_cons, List.map_cons, List.foldl_cons, List.zip_map_left, List.map_map,
      Nat.add_zero]
    have hstep : G.step (Frag.merge len) [Frag.line p (p.step d done.length) acc]
        (Frag.line (p.step d done.length) (p.step d (done.length + 1)) b) =
        [Frag.line p (p.step d (done.length + 1)) (acc || b)] := by
      simp [G.step, G.mergeIntoRev, Frag.merge, lineMerge_extend p d hd done.length (by omega) acc b]
    rw [hstep]
    have := ih (done ++ [b]) (acc || b) (by simp)
    simp only [List.length_append, List.length_singleton] at this
    have hmap : (List.map ((fun kb : Nat × Bool => Frag.line (p.step d (done.length + kb.1))
          (p.step d (done.length + kb.1 + 1)) kb.2) ∘ Prod.map Nat.succ id)
          ((List.range rest.length).zip rest)) =
        (((List.range rest.length).zip rest).map fun kb =>
          Frag.line (p.step d (done.length + 1 + kb.1)) (p.step d (done.length + 1 + kb.1 + 1)) kb.2) := by
      apply List.map_congr_left
      intro kb _
      simp only [Function.comp, Prod.map, Nat.succ_eq_add_one, id]
      have e1 : done.length + (kb.1 + 1) = done.length + 1 + kb.1 := by omega
      rw [e1]
    rw [hmap, this]
    simp only [List.any_cons, id, Bool.or_assoc]
    have e2 : done.length + 1 + rest.length = done.length + (rest.length + 1) := by omega
    rw [e2]

end Svgbob

import Svgbob.Proofs.MoveAll
/-!
# The regenerated catalogue holds no polygon without points

Kernel evaluation over `Gen/CircleArt` (about three minutes; rebuilt only when `circle_map.rs` or the
model of the catalogue changes).
-/
namespace Svgbob

/-- every fragment of the four catalogue tables can be moved -/
def Catalogue.movableB (c : Catalogue) : Bool :=
  c.circles.all (fun e => Svgbob.movableB e.1) && c.threeQuarters.all (fun e => Svgbob.movableB e.2.1) &&
  c.halves.all (fun e => Svgbob.movableB e.2.1) && c.quarters.all (fun e => Svgbob.movableB e.2.1)

theorem real_catalogue_movable : catalogue.map Catalogue.movableB = some true := by decide +kernel

end Svgbob

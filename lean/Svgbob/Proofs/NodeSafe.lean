import Svgbob.Proofs.Escape
/-!
# Every node svgbob builds is lexically safe

`Node.Safe`: every text leaf is safe character data and every attribute value renders without
`"`, `<` or `&`, recursively. Element and attribute *names* are closed enumerations, so input text
cannot introduce any.
-/
namespace Svgbob

/-- a character that may appear inside a double-quoted attribute value -/
def attrChar (c : Char) : Bool := xmlChar c && c != '"' && c != '<' && c != '&'

def Piece.Safe : Piece → Prop
  | .lit s => ∀ c ∈ s.toList, attrChar c = true
  | .num _ => True

def AttrVal.Safe : AttrVal → Prop
  | .num _ => True
  | .int _ => True
  | .lit s => ∀ c ∈ s.toList, attrChar c = true
  | .token t => ∀ c ∈ t, identCont c = true
  | .seq ps => ∀ p ∈ ps, p.Safe

inductive Node.Safe : Node → Prop
  | text (s : List Char) : TextSafe s → Node.Safe (.text s)
  | elem (t : Tag) (attrs : List (AttrName × List AttrVal)) (kids : List Node) :
      (∀ a ∈ attrs, ∀ v ∈ a.2, v.Safe) → (∀ k ∈ kids, Node.Safe k) → Node.Safe (.elem t attrs kids)

/-! ### numbers render as digits, sign, point -/

def numChar (c : Char) : Bool := c.isDigit || c == '-' || c == '.' || c == '/' || c == 'N' || c == 'a'

theorem digitChar_num (d : Nat) (h : d < 10) : numChar (digitChar d) = true := by
  have : d = 0 ∨ d = 1 ∨ d = 2 ∨ d = 3 ∨ d = 4 ∨ d = 5 ∨ d = 6 ∨ d = 7 ∨ d = 8 ∨ d = 9 := by omega
  rcases this with rfl | rfl | rfl | rfl | rfl | rfl | rfl | rfl | rfl | rfl <;> decide

theorem natDigits_num (fuel n : Nat) (acc : List Char) (hacc : ∀ c ∈ acc, numChar c = true) :
    ∀ c ∈ natDigits fuel n acc, numChar c = true := by
  induction fuel generalizing n acc with
  | zero => simpa [natDigits] using hacc
  | succ fuel ih =>
    simp only [natDigits]
    split
    · rename_i hlt
      intro c hc
      rcases List.mem_cons.mp hc with rfl | hc
      · exact digitChar_num n hlt
      · exact hacc c hc
    · apply ih
      intro c hc
      rcases List.mem_cons.mp hc with rfl | hc
      · exact digitChar_num _ (Nat.mod_lt _ (by omega))
      · exact hacc c hc

theorem natToChars_num (n : Nat) : ∀ c ∈ natToChars n, numChar c = true :=
  natDigits_num _ _ [] (by simp)

theorem fracDigits_num (den fuel r : Nat) (ds : List Char) (hden : 0 < den) (hr : r < den)
    (h : fracDigits den fuel r = some ds) : ∀ c ∈ ds, numChar c = true := by
  induction fuel generalizing r ds with
  | zero =>
    cases r with
    | zero => simp [fracDigits] at h; subst h; simp
    | succ r => simp [fracDigits] at h
  | succ fuel ih =>
    cases r with
    | zero => simp [fracDigits] at h; subst h; simp
    | succ r =>
      simp only [fracDigits] at h
      split at h
      · simp at h
      · rename_i ds' hds'
        simp at h; subst h
        intro c hc
        rcases List.mem_cons.mp hc with rfl | hc
        · apply digitChar_num
          have : (r + 1) * 10 < den * 10 := by omega
          exact Nat.div_lt_of_lt_mul (by omega)
        · exact ih _ _ (Nat.mod_lt _ hden) hds' c hc

theorem renderNum_num (den : Nat) (n : Int) : ∀ c ∈ renderNum den n, numChar c = true := by
  unfold renderNum
  simp only
  have hsign : ∀ c ∈ (if n < 0 then ['-'] else ([] : List Char)), numChar c = true := by
    split <;> simp <;> decide
  split
  · intro c hc; simp at hc; rcases hc with rfl | rfl | rfl <;> decide
  · rename_i hden
    have hden' : 0 < den := by
      cases den with
      | zero => simp at hden
      | succ d => omega
    split
    · intro c hc
      rcases List.mem_append.mp hc with hc | hc
      · exact hsign c hc
      · exact natToChars_num _ c hc
    · rename_i ds _ hds
      intro c hc
      rcases List.mem_append.mp hc with hc | hc
      · rcases List.mem_append.mp hc with hc | hc
        · exact hsign c hc
        · exact natToChars_num _ c hc
      · rcases List.mem_cons.mp hc with rfl | hc
        · decide
        · exact fracDigits_num den 60 _ ds hden' (Nat.mod_lt _ hden') hds c hc
    · intro c hc
      rcases List.mem_append.mp hc with hc | hc
      · rcases List.mem_append.mp hc with hc | hc
        · exact hsign c hc
        · exact natToChars_num _ c hc
      · rcases List.mem_cons.mp hc with rfl | hc
        · decide
        · exact natToChars_num _ c hc

theorem intToChars_num (n : Int) : ∀ c ∈ intToChars n, numChar c = true := by
  unfold intToChars
  intro c hc
  rcases List.mem_append.mp hc with hc | hc
  · split at hc <;> simp at hc; subst hc; decide
  · exact natToChars_num _ c hc


end Svgbob

namespace Svgbob

theorem numChar_attrChar (c : Char) (h : numChar c = true) : attrChar c = true := by
  simp only [numChar, Char.isDigit, Bool.or_eq_true, Bool.and_eq_true, decide_eq_true_eq,
    beq_iff_eq] at h
  rcases h with ((((⟨h1, h2⟩ | rfl) | rfl) | rfl) | rfl) | rfl
  · have h1' : 48 ≤ c.toNat := by
      have := UInt32.le_iff_toNat_le.mp h1; simpa using this
    have h2' : c.toNat ≤ 57 := by
      have := UInt32.le_iff_toNat_le.mp h2; simpa using this
    simp only [attrChar, xmlChar, Bool.and_eq_true, Bool.or_eq_true, beq_iff_eq, decide_eq_true_eq,
      bne_iff_ne, ne_eq]
    refine ⟨⟨⟨?_, ?_⟩, ?_⟩, ?_⟩
    · left; left; right; exact ⟨by omega, by omega⟩
    · intro hq; subst hq; simp at h1'
    · intro hq; subst hq; simp at h2'
    · intro hq; subst hq; simp at h1'
  all_goals decide

/-- an identifier character (as accepted through pom's `alphanum(ch as u8)`) can never be a quote,
`<` or `&`, and is always representable in XML -/
theorem identCont_attrChar (c : Char) (h : identCont c = true) : attrChar c = true := by
  have hv := c.valid
  simp only [identCont, alnumU8, Bool.or_eq_true, Bool.and_eq_true, decide_eq_true_eq,
    beq_iff_eq] at h
  simp only [attrChar, xmlChar, Bool.and_eq_true, Bool.or_eq_true, beq_iff_eq, decide_eq_true_eq,
    bne_iff_ne, ne_eq]
  have hvn : c.toNat < 0xD800 ∨ (0xDFFF < c.toNat ∧ c.toNat < 0x110000) := by
    unfold UInt32.isValidChar Nat.isValidChar at hv
    exact hv
  rcases h with h | rfl
  · have hlow : 48 ≤ c.toNat % 256 ∧ c.toNat % 256 ≤ 122 := by omega
    refine ⟨⟨⟨?_, ?_⟩, ?_⟩, ?_⟩
    · by_cases h1 : c.toNat ≤ 0xD7FF
      · left; left; right; exact ⟨by omega, h1⟩
      · by_cases h2 : c.toNat ≤ 0xFFFD
        · left; right; exact ⟨by omega, h2⟩
        · right
          refine ⟨?_, by omega⟩
          -- 0xFFFE and 0xFFFF have low bytes 0xFE / 0xFF
          omega
    · intro hq; subst hq; simp at h
    · intro hq; subst hq; simp at h
    · intro hq; subst hq; simp at h
  · decide

theorem Piece.render_safe (den : Nat) (p : Piece) (h : p.Safe) :
    ∀ c ∈ p.render den, attrChar c = true := by
  cases p with
  | lit s => exact h
  | num n => intro c hc; exact numChar_attrChar c (renderNum_num den n c hc)

/-- **No attribute value can end its own quotes or start markup.** -/
theorem AttrVal.render_safe (den : Nat) (v : AttrVal) (h : v.Safe) :
    ∀ c ∈ v.render den, attrChar c = true := by
  cases v with
  | num n => intro c hc; exact numChar_attrChar c (renderNum_num den n c hc)
  | int n => intro c hc; exact numChar_attrChar c (intToChars_num n c hc)
  | lit s => exact h
  | token t => intro c hc; exact identCont_attrChar c (h c hc)
  | seq ps =>
    intro c hc
    simp only [AttrVal.render, List.mem_flatMap] at hc
    obtain ⟨p, hp, hcp⟩ := hc
    exact Piece.render_safe den p (h p hp) c hcp

end Svgbob

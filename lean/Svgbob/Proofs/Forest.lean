import Svgbob.Model.Doc
import Svgbob.Proofs.Merge
/-!
# The containment forest neither drops nor duplicates a fragment

`FragmentTree::enclose_fragments` nests the fragments by bounding box (this decides the document
order and which shape a `{tag}` styles) and `into_nodes` flattens the forest again. For fragments
none of which reads as a `{tag}`, the nodes that come out are a permutation of the nodes of the
fragments that went in: the last stage of the pipeline only reorders.
-/
namespace Svgbob

mutual
/-- the fragments of a tree, in the order `into_nodes` emits them -/
def FTree.frags : FTree → List Frag
  | .node f _ kids => f :: FTree.fragsList kids
def FTree.fragsList : List FTree → List Frag
  | [] => []
  | t :: ts => FTree.frags t ++ FTree.fragsList ts
end

mutual
/-- no node of the tree carries a `{tag}` class -/
def FTree.noTags : FTree → Prop
  | .node _ tags kids => tags = [] ∧ FTree.noTagsList kids
def FTree.noTagsList : List FTree → Prop
  | [] => True
  | t :: ts => FTree.noTags t ∧ FTree.noTagsList ts
end

theorem FTree.fragsList_append (a b : List FTree) :
    FTree.fragsList (a ++ b) = FTree.fragsList a ++ FTree.fragsList b := by
  induction a with
  | nil => simp [FTree.fragsList]
  | cons t ts ih => simp [FTree.fragsList, ih]

theorem FTree.noTagsList_append (a b : List FTree) :
    FTree.noTagsList (a ++ b) ↔ FTree.noTagsList a ∧ FTree.noTagsList b := by
  induction a with
  | nil => simp [FTree.noTagsList]
  | cons t ts ih => simp [FTree.noTagsList, ih, and_assoc]

variable (len : List Char → Nat) (unit : Int)

mutual
/-- enclosing a tree whose root is not a tag adds exactly its fragments -/
theorem FTree.encloseDF_frags (other : FTree) (ho : other.frag.asCssTag = []) :
    ∀ (t t' : FTree), FTree.encloseDF len unit other t = some t' →
      (FTree.frags t').Perm (FTree.frags t ++ FTree.frags other) ∧
      (FTree.noTags t → FTree.noTags other → FTree.noTags t')
  | .node f tags kids, t', h => by
    simp only [FTree.encloseDF] at h
    split at h
    · rename_i kids' hk
      cases h
      obtain ⟨hp, hn⟩ := FTree.encloseDFList_frags other ho kids kids' hk
      constructor
      · simp only [FTree.frags, List.cons_append]
        exact List.Perm.cons _ hp
      · intro ht hot
        exact ⟨ht.1, hn ht.2 hot⟩
    · split at h
      · simp only [ho, List.isEmpty_nil, Bool.not_true, Bool.false_eq_true, if_false,
          Option.some.injEq] at h
        subst h
        constructor
        · simp only [FTree.frags, FTree.fragsList_append, FTree.fragsList, List.append_nil,
            List.cons_append]
          exact List.Perm.refl _
        · intro ht hot
          exact ⟨ht.1, (FTree.noTagsList_append _ _).mpr ⟨ht.2, hot, trivial⟩⟩
      · cases h
theorem FTree.encloseDFList_frags (other : FTree) (ho : other.frag.asCssTag = []) :
    ∀ (ks ks' : List FTree), FTree.encloseDFList len unit other ks = some ks' →
      (FTree.fragsList ks').Perm (FTree.fragsList ks ++ FTree.frags other) ∧
      (FTree.noTagsList ks → FTree.noTags other → FTree.noTagsList ks')
  | [], ks', h => by simp [FTree.encloseDFList] at h
  | k :: ks, ks', h => by
    simp only [FTree.encloseDFList] at h
    split at h
    · rename_i k' hk
      cases h
      obtain ⟨hp, hn⟩ := FTree.encloseDF_frags other ho k k' hk
      constructor
      · simp only [FTree.fragsList]
        -- (k' frags) ++ rest ~ (k frags ++ other) ++ rest ~ k frags ++ rest ++ other
        refine (List.Perm.append_right _ hp).trans ?_
        rw [List.append_assoc, List.append_assoc]
        exact List.Perm.append_left _ List.perm_append_comm
      · intro hks hot
        exact ⟨hn hks.1 hot, hks.2⟩
    · split at h
      · rename_i ks2 hks2
        cases h
        obtain ⟨hp, hn⟩ := FTree.encloseDFList_frags other ho ks ks2 hks2
        constructor
        · simp only [FTree.fragsList, List.append_assoc]
          exact List.Perm.append_left _ hp
        · intro hks hot
          exact ⟨hks.1, hn hks.2 hot⟩
      · cases h
end

/-- a tree none of whose fragments reads as a tag, and without tag classes -/
def FTree.Plain (t : FTree) : Prop := (∀ f ∈ FTree.frags t, f.asCssTag = []) ∧ FTree.noTags t

theorem FTree.frag_mem_frags (t : FTree) : t.frag ∈ FTree.frags t := by
  cases t with | node f tags kids => simp [FTree.frag, FTree.frags]

/-- **the forest holds exactly the fragments it was built from** (tag-free input) -/
theorem encloseRecursive_frags (trees : List FTree) (h : ∀ t ∈ trees, t.Plain) :
    ((encloseRecursive len unit trees).flatMap FTree.frags).Perm (trees.flatMap FTree.frags) ∧
    ∀ t ∈ encloseRecursive len unit trees, t.Plain := by
  unfold encloseRecursive
  have hm : ∀ g it m, (fun g it => FTree.encloseDF len unit it g) g it = some m →
      g.Plain → it.Plain → m.Plain := by
    intro g it m hmm hg hi
    obtain ⟨hp, hn⟩ := FTree.encloseDF_frags len unit it (hi.1 _ (FTree.frag_mem_frags it)) g m hmm
    refine ⟨?_, hn hg.2 hi.2⟩
    intro f hf
    rcases List.mem_append.mp (hp.mem_iff.mp hf) with h1 | h1
    · exact hg.1 f h1
    · exact hi.1 f h1
  constructor
  · apply G.mergeRec_perm (fun g it => FTree.encloseDF len unit it g) FTree.frags FTree.Plain hm
    · intro g it m _ hi hmm
      exact (FTree.encloseDF_frags len unit it (hi.1 _ (FTree.frag_mem_frags it)) g m hmm).1
    · exact h
  · exact G.mergeRec_forall (fun g it => FTree.encloseDF len unit it g) FTree.Plain hm _ _ h

/-! ## flattening -/

/-- the node of one fragment of a tag-free tree -/
def plainNode (k : Int) (f : Frag) : Node := addClasses [] (f.scale k).toNode

mutual
theorem FTree.intoNodes_plain (k : Int) : ∀ (t : FTree), FTree.noTags t →
    FTree.intoNodes k t = (FTree.frags t).map (plainNode k)
  | .node f tags kids, h => by
    obtain ⟨rfl, hk⟩ := h
    simp only [FTree.intoNodes, FTree.frags, List.map_cons, plainNode]
    rw [FTree.intoNodesList_plain k kids hk]
theorem FTree.intoNodesList_plain (k : Int) : ∀ (ts : List FTree), FTree.noTagsList ts →
    FTree.intoNodesList k ts = (FTree.fragsList ts).map (plainNode k)
  | [], _ => by simp [FTree.intoNodesList, FTree.fragsList]
  | t :: ts, h => by
    simp only [FTree.intoNodesList, FTree.fragsList, List.map_append]
    rw [FTree.intoNodes_plain k t h.1, FTree.intoNodesList_plain k ts h.2]
end

theorem FTree.fragsList_eq_flatMap (ts : List FTree) : FTree.fragsList ts = ts.flatMap FTree.frags := by
  induction ts with
  | nil => rfl
  | cons t ts ih => simp [FTree.fragsList, List.flatMap_cons, ih]

theorem FTree.noTagsList_of_forall (ts : List FTree) (h : ∀ t ∈ ts, FTree.noTags t) :
    FTree.noTagsList ts := by
  induction ts with
  | nil => trivial
  | cons t ts ih => exact ⟨h t (by simp), ih (fun x hx => h x (List.mem_cons_of_mem _ hx))⟩

/-- **The last stage only reorders**: for fragments none of which reads as a `{tag}` (at unit
scale, as the forest sees them), the nodes `fragments_to_node` emits are a permutation of the
nodes of those fragments — none is dropped, none is emitted twice. -/
theorem fragmentsToNodes_perm (k : Int) (frags : List Frag)
    (h : ∀ f ∈ frags, (f.scale 1).asCssTag = []) :
    (fragmentsToNodes len k frags).Perm (frags.map fun f => plainNode k (f.scale 1)) := by
  unfold fragmentsToNodes
  have hplain : ∀ t ∈ frags.map (fun f => FTree.node (f.scale 1) [] []), t.Plain := by
    intro t ht
    simp only [List.mem_map] at ht
    obtain ⟨f, hf, rfl⟩ := ht
    refine ⟨?_, rfl, trivial⟩
    intro g hg
    simp only [FTree.frags, FTree.fragsList, List.mem_singleton] at hg
    subst hg
    exact h f hf
  obtain ⟨hp, hall⟩ := encloseRecursive_frags len 1000 _ hplain
  rw [FTree.intoNodesList_plain k _
    (FTree.noTagsList_of_forall _ (fun t ht => (hall t ht).2)), FTree.fragsList_eq_flatMap]
  refine (hp.map _).trans ?_
  apply List.Perm.of_eq
  simp only [List.flatMap_map]
  have hmapeq : ∀ l : List Frag,
      (l.flatMap fun a => (FTree.node (a.scale 1) [] []).frags).map (plainNode k) =
        l.map fun f => plainNode k (f.scale 1) := by
    intro l
    induction l with
    | nil => rfl
    | cons f fs ih =>
      simp only [FTree.frags, FTree.fragsList] at ih
      simp [List.flatMap_cons, FTree.frags, FTree.fragsList, ih]
  exact hmapeq frags

end Svgbob

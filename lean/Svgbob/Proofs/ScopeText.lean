import Svgbob.Proofs.TextCover
import Svgbob.Proofs.ScopeStrokes
/-!
# The texts of a scope: every shown character survives exactly once

For a span whose cells are pairwise different (they come from a map keyed by cell) the fragment
buffer is, as a multiset, the union of the cell fragments; the fragment merge and the contact
grouping keep the shown `(cell, character)` pairs up to permutation (`Proofs/TextCover`,
`Proofs/Merge`). Hence the contact groups of a scope show exactly — with multiplicity — what its
cells show: nothing is dropped, duplicated or moved.
-/
namespace Svgbob

variable (len : List Char → Nat)

def FragBuf.keys (fb : FragBuf) : List Cell := fb.map (·.1)

/-- inserting a cell that is not yet in the buffer adds exactly its fragments (as a multiset) and
its key -/
theorem FragBuf.insert_perm (c : Cell) (fs : List FragSpan) (fb : FragBuf) (h : c ∉ fb.keys) :
    (absFragmentSpans (FragBuf.insert len c fs fb)).Perm
      (absFragmentSpans fb ++ fs.map fun f => ⟨f.span, f.frag.absPos c⟩) ∧
    ∀ x, x ∈ (FragBuf.insert len c fs fb).keys ↔ x = c ∨ x ∈ fb.keys := by
  induction fb with
  | nil =>
    simp [FragBuf.insert, absFragmentSpans, FragBuf.keys]
  | cons hd rest ih =>
    obtain ⟨c', fs'⟩ := hd
    have hne : c ≠ c' := by
      intro he; apply h; simp [FragBuf.keys, he]
    have hrest : c ∉ FragBuf.keys rest := by
      intro hm; apply h; simp only [FragBuf.keys, List.map_cons, List.mem_cons]; exact Or.inr hm
    have hbeq : (c == c') = false := by simpa using hne
    simp only [FragBuf.insert, hbeq, Bool.false_eq_true, if_false]
    split
    · constructor
      · simp only [absFragmentSpans, List.flatMap_cons]
        -- new cell in front: (new) ++ (old) ~ (old) ++ (new)
        exact List.perm_append_comm
      · intro x
        simp [FragBuf.keys]
    · obtain ⟨ihp, ihk⟩ := ih hrest
      constructor
      · simp only [absFragmentSpans, List.flatMap_cons, List.append_assoc] at ihp ⊢
        exact List.Perm.append_left _ ihp
      · intro x
        simp only [FragBuf.keys, List.map_cons, List.mem_cons] at ihk ⊢
        rw [ihk x]
        constructor
        · rintro (h1 | h1 | h1)
          · exact Or.inr (Or.inl h1)
          · exact Or.inl h1
          · exact Or.inr (Or.inr h1)
        · rintro (h1 | h1 | h1)
          · exact Or.inr (Or.inl h1)
          · exact Or.inl h1
          · exact Or.inr (Or.inr h1)

/-- the fragment buffer of pairwise different cells is the multiset union of the cell fragments -/
theorem fragmentBuffer_perm (s perm : Span) (hnd : (perm.map (·.1)).Nodup) :
    (absFragmentSpans (fragmentBuffer len s perm)).Perm
      (perm.flatMap fun cc => (cellFragments len s cc.1 cc.2).map fun f => ⟨[cc], f.absPos cc.1⟩) := by
  unfold fragmentBuffer
  suffices h : ∀ (acc : FragBuf), (∀ cc ∈ perm, cc.1 ∉ acc.keys) →
      (absFragmentSpans (perm.foldl (fun fb cc =>
        FragBuf.insert len cc.1 ((cellFragments len s cc.1 cc.2).map fun f => ⟨[cc], f⟩) fb) acc)).Perm
      (absFragmentSpans acc ++
        perm.flatMap fun cc => (cellFragments len s cc.1 cc.2).map fun f => ⟨[cc], f.absPos cc.1⟩) by
    have := h [] (by simp [FragBuf.keys])
    simpa [absFragmentSpans] using this
  induction perm with
  | nil => intro acc _; simp
  | cons cc rest ih =>
    intro acc hacc
    simp only [List.foldl_cons, List.flatMap_cons]
    simp only [List.map_cons, List.nodup_cons] at hnd
    obtain ⟨hcc, hrest⟩ := hnd
    obtain ⟨hp, hk⟩ := FragBuf.insert_perm len cc.1
      ((cellFragments len s cc.1 cc.2).map fun f => ⟨[cc], f⟩) acc (hacc cc (by simp))
    have hacc' : ∀ cc' ∈ rest, cc'.1 ∉ (FragBuf.insert len cc.1
        ((cellFragments len s cc.1 cc.2).map fun f => ⟨[cc], f⟩) acc).keys := by
      intro cc' hcc' hm
      rcases (hk cc'.1).mp hm with h1 | h1
      · apply hcc
        rw [← h1]
        exact List.mem_map_of_mem hcc'
      · exact hacc cc' (List.mem_cons_of_mem _ hcc') h1
    refine (ih hrest _ hacc').trans ?_
    rw [← List.append_assoc]
    apply List.Perm.append_right
    have hmap : ((cellFragments len s cc.1 cc.2).map fun f => (⟨[cc], f⟩ : FragSpan)).map
        (fun f => (⟨f.span, f.frag.absPos cc.1⟩ : FragSpan)) =
        (cellFragments len s cc.1 cc.2).map fun f => (⟨[cc], f.absPos cc.1⟩ : FragSpan) := by
      simp [List.map_map, Function.comp]
    rw [← hmap]
    exact hp

theorem flatMap_flatMap' {α β γ : Type} (l : List α) (f : α → List β) (g : β → List γ) :
    (l.flatMap f).flatMap g = l.flatMap (fun a => (f a).flatMap g) := by
  induction l with
  | nil => rfl
  | cons a as ih => simp [List.flatMap_cons, List.flatMap_append, ih]

/-- **The contact groups of a scope show exactly what its cells show**, with multiplicity: the
`(cell, character)` pairs shown by the fragments of the contact groups are a permutation of those
shown by the cell fragments. -/
theorem contactsOf_shown (env : Env) (s : Span) (hnd : (s.map (·.1)).Nodup)
    (hnn : ∀ cc ∈ s, ∀ f ∈ cellFragments (segColumns env) s cc.1 cc.2, f.noNul) :
    ((contactsOf (segColumns env) s).flatMap fun g => g.flatMap fun f => f.frag.shown env).Perm
      (s.flatMap fun cc => (cellFragments (segColumns env) s cc.1 cc.2).flatMap fun f =>
        (f.absPos cc.1).shown env) := by
  unfold contactsOf
  simp only
  -- contact grouping
  have h1 := G.mergeRec_perm (contactsMerge (segColumns env))
    (fun g => g.flatMap fun f => f.frag.shown env) (fun _ => True)
    (by intros; trivial)
    (by
      intro g it m _ _ hm
      simp only [contactsMerge] at hm
      split at hm
      · simp at hm; subst hm; simp
      · simp at hm)
    (((G.mergeRec (FragSpan.merge (segColumns env))
        ((absFragmentSpans (fragmentBuffer (segColumns env) s s)).length + 1)
        (absFragmentSpans (fragmentBuffer (segColumns env) s s))).map fun f => [f]).length + 1)
    ((G.mergeRec (FragSpan.merge (segColumns env))
        ((absFragmentSpans (fragmentBuffer (segColumns env) s s)).length + 1)
        (absFragmentSpans (fragmentBuffer (segColumns env) s s))).map fun f => [f])
    (by intros; trivial)
  refine h1.trans ?_
  -- singletons
  have hsing : ∀ l : List FragSpan,
      ((l.map fun f => [f]).flatMap fun g => g.flatMap fun f => f.frag.shown env) =
        l.flatMap fun f => f.frag.shown env := by
    intro l; induction l with
    | nil => rfl
    | cons a as ih => simp [List.flatMap_cons, ih]
  rw [hsing]
  -- fragment merge
  have hall : ∀ f ∈ absFragmentSpans (fragmentBuffer (segColumns env) s s), f.frag.noNul := by
    apply fragmentBuffer_all (segColumns env) Frag.noNul s s
    intro cc hcc f hf
    have := hnn cc hcc f hf
    cases f <;> simpa [Frag.absPos, Frag.noNul] using this
  have h2 := G.mergeRec_perm (FragSpan.merge (segColumns env)) (fun f => f.frag.shown env)
    (fun f => f.frag.noNul)
    (by
      intro g it m hm hg hi
      simp only [FragSpan.merge] at hm
      split at hm
      · rename_i f hf
        simp at hm; subst hm
        exact Frag.merge_noNul _ _ _ _ hg hi hf
      · simp at hm)
    (by
      intro g it m hg hi hm
      simp only [FragSpan.merge] at hm
      split at hm
      · rename_i f hf
        simp at hm; subst hm
        exact Frag.merge_shown env _ _ _ hg hi hf
      · simp at hm)
    ((absFragmentSpans (fragmentBuffer (segColumns env) s s)).length + 1)
    (absFragmentSpans (fragmentBuffer (segColumns env) s s)) hall
  refine h2.trans ?_
  -- the buffer
  have h3 := fragmentBuffer_perm (segColumns env) s s hnd
  refine (h3.flatMap_right _).trans ?_
  rw [flatMap_flatMap']
  apply List.Perm.of_eq
  congr 1
  funext cc
  simp [List.flatMap_map]

end Svgbob

import Svgbob.Proofs.MoveAll
/-!
# Moving a drawing moves the result of the whole middle of the pipeline (continued)
-/
namespace Svgbob

variable (len : List Char → Nat)

/-! ## every fragment in a contact group is movable -/

theorem sortBy_mem {α : Type} (cmp : α → α → Ordering) (l : List α) (x : α) :
    x ∈ sortBy cmp l ↔ x ∈ l :=
  (FragBuf.insert_ok.sortBy_perm cmp l).mem_iff

theorem entryOf_movable (ch : Char) (en : Entry) (h : entryOf len ch = some en) :
    ∀ row ∈ en.behavior, ∀ f ∈ row.2, f.Movable := by
  unfold entryOf at h
  cases ha : asciiEntry ch with
  | some e =>
    simp only [ha, Option.some.injEq] at h
    subst h
    have hmem : e ∈ Gen.asciiTable := by
      have := List.mem_of_find?_eq_some ha
      simpa using this
    have := List.all_eq_true.mp tables_movable.1 e hmem
    intro row hrow f hf
    exact movable_of_movableB f (List.all_eq_true.mp (List.all_eq_true.mp this row hrow) f hf)
  | none =>
    simp only [ha] at h
    unfold unicodeFrags at h
    cases hu : Gen.unicodeTable.reverse.find? (·.1 == ch) with
    | none => simp [hu] at h
    | some p =>
      simp only [hu, Option.map_some, Option.some.injEq] at h
      subst h
      have hmem : p ∈ Gen.unicodeTable := by
        have := List.mem_of_find?_eq_some hu
        simpa using this
      have := List.all_eq_true.mp tables_movable.2 p hmem
      intro row hrow f hf
      simp only [Entry.ofGlyph, List.mem_singleton] at hrow
      subst hrow
      exact movable_of_movableB f (List.all_eq_true.mp this f ((sortBy_mem _ _ f).mp hf))

theorem unicodeFrags_movable (ch : Char) (ufs : List Frag) (h : unicodeFrags len ch = some ufs) :
    ∀ f ∈ ufs, f.Movable := by
  unfold unicodeFrags at h
  cases hu : Gen.unicodeTable.reverse.find? (·.1 == ch) with
  | none => simp [hu] at h
  | some p =>
    simp only [hu, Option.map_some, Option.some.injEq] at h
    subst h
    have hmem : p ∈ Gen.unicodeTable := by
      have := List.mem_of_find?_eq_some hu
      simpa using this
    have := List.all_eq_true.mp tables_movable.2 p hmem
    intro f hf
    exact movable_of_movableB f (List.all_eq_true.mp this f ((sortBy_mem _ _ f).mp hf))

theorem cellFragments_movable (s : Span) (c : Cell) (ch : Char) :
    ∀ f ∈ cellFragments len s c ch, f.Movable := by
  unfold cellFragments
  cases he : entryOf len ch with
  | none => intro f hf; simp at hf; subst hf; trivial
  | some en =>
    simp only
    split
    · intro f hf
      have hf' := (sortBy_mem _ _ f).mp hf
      simp only [Entry.fragments, List.mem_flatMap] at hf'
      obtain ⟨row, hrow, hfr⟩ := hf'
      split at hfr
      · exact entryOf_movable len ch en he row hrow f hfr
      · simp at hfr
    · cases hu : unicodeFrags len ch with
      | none => intro f hf; simp at hf; subst hf; trivial
      | some ufs =>
        intro f hf
        have hf' := (sortBy_mem _ _ f).mp hf
        unfold fragMergeRecursive at hf'
        exact G.mergeRec_forall (Frag.merge len) Frag.Movable
          (fun g it m hm _ _ => Frag.merge_movable len g it m hm) _ _
          (unicodeFrags_movable len ch ufs hu) f hf'

theorem FragBuf.insert_forall (P : FragSpan → Prop) (c : Cell) (fs : List FragSpan) (fb : FragBuf)
    (hfs : ∀ f ∈ fs, P f) (hfb : ∀ e ∈ fb, ∀ f ∈ e.2, P f) :
    ∀ e ∈ FragBuf.insert len c fs fb, ∀ f ∈ e.2, P f := by
  induction fb with
  | nil =>
    intro e he f hf
    simp only [FragBuf.insert, List.mem_singleton] at he
    subst he; exact hfs f hf
  | cons hd rest ih =>
    obtain ⟨c', fs'⟩ := hd
    intro e he f hf
    simp only [FragBuf.insert] at he
    split at he
    · rcases List.mem_cons.mp he with rfl | he
      · simp only at hf
        have hmem := (sortBy_mem _ _ f).mp hf
        rcases List.mem_append.mp hmem with hm | hm
        · exact hfb (c', fs') (by simp) f hm
        · exact hfs f (List.mem_filter.mp hm).1
      · exact hfb e (List.mem_cons_of_mem _ he) f hf
    · split at he
      · rcases List.mem_cons.mp he with rfl | he
        · exact hfs f hf
        · exact hfb e he f hf
      · rcases List.mem_cons.mp he with rfl | he
        · exact hfb _ (by simp) f hf
        · exact ih (fun e' he' => hfb e' (List.mem_cons_of_mem _ he')) e he f hf

theorem fragmentBuffer_movable (s perm : Span) :
    ∀ e ∈ fragmentBuffer len s perm, ∀ f ∈ e.2, f.frag.Movable := by
  unfold fragmentBuffer
  suffices h : ∀ (acc : FragBuf), (∀ e ∈ acc, ∀ f ∈ e.2, f.frag.Movable) →
      ∀ e ∈ perm.foldl (fun fb cc =>
        FragBuf.insert len cc.1 ((cellFragments len s cc.1 cc.2).map fun f => ⟨[cc], f⟩) fb) acc,
        ∀ f ∈ e.2, f.frag.Movable from h [] (by simp)
  induction perm with
  | nil => intro acc h; simpa using h
  | cons cc rest ih =>
    intro acc hacc
    simp only [List.foldl_cons]
    apply ih
    apply FragBuf.insert_forall len (fun f => f.frag.Movable) _ _ _ _ hacc
    intro f hf
    simp only [List.mem_map] at hf
    obtain ⟨g, hg, rfl⟩ := hf
    exact cellFragments_movable len s cc.1 cc.2 g hg

theorem Frag.absPos_movable (c : Cell) (f : Frag) (h : f.Movable) : (f.absPos c).Movable := by
  cases f <;> simp_all [Frag.absPos, Frag.Movable]

/-- **every fragment of every contact group is movable** -/
theorem contactsOf_movable (s : Span) : ∀ g ∈ contactsOf len s, ∀ f ∈ g, f.frag.Movable := by
  have hfrags : ∀ f ∈ absFragmentSpans (fragmentBuffer len s s), f.frag.Movable := by
    intro f hf
    simp only [absFragmentSpans, List.mem_flatMap, List.mem_map] at hf
    obtain ⟨e, he, g, hg, rfl⟩ := hf
    exact Frag.absPos_movable _ _ (fragmentBuffer_movable len s s e he g hg)
  have hmerged : ∀ f ∈ G.mergeRec (FragSpan.merge len)
      ((absFragmentSpans (fragmentBuffer len s s)).length + 1)
      (absFragmentSpans (fragmentBuffer len s s)), f.frag.Movable := by
    apply G.mergeRec_forall (FragSpan.merge len) (fun f => f.frag.Movable) _ _ _ hfrags
    intro g it m hm _ _
    simp only [FragSpan.merge] at hm
    split at hm
    · rename_i fm hfm
      simp only [Option.some.injEq] at hm
      subst hm
      exact Frag.merge_movable len _ _ _ hfm
    · simp at hm
  unfold contactsOf
  apply G.mergeRec_forall (contactsMerge len) (fun g => ∀ f ∈ g, f.frag.Movable)
  · intro g it m hm hg hi
    simp only [contactsMerge] at hm
    split at hm <;> simp at hm
    subst hm
    intro f hf
    rcases List.mem_append.mp hf with hf | hf
    · exact hg f hf
    · exact hi f hf
  · intro g hg
    simp only [List.mem_map] at hg
    obtain ⟨f, hf, rfl⟩ := hg
    intro f' hf'
    have : f' = f := by simpa using hf'
    rw [this]; exact hmerged f hf

/-! ## rectangles of contact groups, re-endorsement, the whole stage -/

theorem groupSpan_move (k n : Int) (g : List FragSpan) :
    groupSpan (g.map (FragSpan.move k n)) = Span.shift k n (groupSpan g) := by
  unfold groupSpan Span.shift
  induction g with
  | nil => rfl
  | cons f fs ih => simp only [List.map_cons, List.flatMap_cons, List.map_append, ih]; rfl

theorem endorseRects_move (k n : Int) (groups : List (List FragSpan))
    (h : ∀ g ∈ groups, ∀ f ∈ g, f.frag.Movable) :
    endorseRects (groups.map (List.map (FragSpan.move k n))) =
      ((endorseRects groups).1.map (FragSpan.move k n),
       (endorseRects groups).2.map (List.map (FragSpan.move k n))) := by
  unfold endorseRects
  suffices H : ∀ (acc : List FragSpan × List (List FragSpan)),
      (groups.map (List.map (FragSpan.move k n))).foldl (fun acc g =>
        match contactsEndorseRect (g.map (·.frag)) with
        | some r => (acc.1 ++ [⟨groupSpan g, r⟩], acc.2)
        | none => (acc.1, acc.2 ++ [g]))
        (acc.1.map (FragSpan.move k n), acc.2.map (List.map (FragSpan.move k n))) =
      (((groups.foldl (fun acc g =>
        match contactsEndorseRect (g.map (·.frag)) with
        | some r => (acc.1 ++ [⟨groupSpan g, r⟩], acc.2)
        | none => (acc.1, acc.2 ++ [g])) acc).1).map (FragSpan.move k n),
       ((groups.foldl (fun acc g =>
        match contactsEndorseRect (g.map (·.frag)) with
        | some r => (acc.1 ++ [⟨groupSpan g, r⟩], acc.2)
        | none => (acc.1, acc.2 ++ [g])) acc).2).map (List.map (FragSpan.move k n))) by
    have := H ([], [])
    simp only [List.map_nil] at this
    exact this
  induction groups with
  | nil => intro acc; rfl
  | cons g gs ih =>
    intro acc
    simp only [List.map_cons, List.foldl_cons]
    have hfr : (g.map (FragSpan.move k n)).map (·.frag) = (g.map (·.frag)).map (Frag.move k n) := by
      simp [List.map_map, Function.comp_def, FragSpan.move]
    have hmov : ∀ f ∈ g.map (·.frag), f.Movable := by
      intro f hf
      obtain ⟨fs, hfs, rfl⟩ := List.mem_map.mp hf
      exact h g (by simp) fs hfs
    rw [hfr, contactsEndorseRect_move k n _ hmov, groupSpan_move]
    cases hc : contactsEndorseRect (g.map (·.frag)) with
    | some r =>
      simp only [Option.map_some]
      have := ih (fun g' hg' => h g' (List.mem_cons_of_mem _ hg')) (acc.1 ++ [⟨groupSpan g, r⟩], acc.2)
      simpa [FragSpan.move] using this
    | none =>
      simp only [Option.map_none]
      have := ih (fun g' hg' => h g' (List.mem_cons_of_mem _ hg')) (acc.1, acc.2 ++ [g])
      simpa using this

theorem mapOpt_map {α β γ : Type} (f : α → Option β) (g : γ → α) (l : List γ) :
    mapOpt f (l.map g) = mapOpt (f ∘ g) l := by
  induction l with
  | nil => rfl
  | cons x xs ih => simp only [List.map_cons, mapOpt, ih, Function.comp]

theorem mapOpt_congr_map {α β : Type} (f f' : α → Option β) (σ : β → β) (l : List α)
    (h : ∀ x ∈ l, f' x = (f x).map σ) : mapOpt f' l = (mapOpt f l).map (List.map σ) := by
  induction l with
  | nil => rfl
  | cons x xs ih =>
    simp only [mapOpt, h x (by simp), ih (fun y hy => h y (List.mem_cons_of_mem _ hy))]
    cases f x <;> cases mapOpt f xs <;> rfl

/-- the result of the endorsement of one span, moved -/
def moveEndorsed (k n : Int) (r : List FragSpan × List Span) : List FragSpan × List Span :=
  (r.1.map (FragSpan.move k n), r.2.map (Span.shift k n))

/-- **`Span::endorse` commutes with moving the span** -/
theorem spanEndorse_shift (cat : Catalogue) (k n : Int) (s : Span) :
    spanEndorse len cat (Span.shift k n s) = (spanEndorse len cat s).map (moveEndorsed k n) := by
  unfold spanEndorse
  rw [endorseArcsAndCircles_shift]
  cases he : endorseArcsAndCircles cat s with
  | none => rfl
  | some r =>
    obtain ⟨acc1, rest⟩ := r
    simp only [Option.map_some]
    rw [contactsOf_shift, endorseRects_move k n _ (contactsOf_movable len rest)]
    simp only
    have hsp : spansOf (((endorseRects (contactsOf len rest)).2.map (List.map (FragSpan.move k n))).map groupSpan) =
        (spansOf ((endorseRects (contactsOf len rest)).2.map groupSpan)).map (Span.shift k n) := by
      rw [← spansOf_shift]
      congr 1
      simp only [List.map_map]
      apply List.map_congr_left
      intro g _
      exact groupSpan_move k n g
    rw [hsp, mapOpt_map]
    rw [mapOpt_congr_map (endorseArcsAndCircles cat) (endorseArcsAndCircles cat ∘ Span.shift k n)
      (fun r => (r.1.map (FragSpan.move k n), Span.shift k n r.2)) _
      (fun sp _ => endorseArcsAndCircles_shift cat k n sp)]
    cases mapOpt (endorseArcsAndCircles cat)
        (spansOf ((endorseRects (contactsOf len rest)).2.map groupSpan)) with
    | none => rfl
    | some rs =>
      simp only [Option.map_some, moveEndorsed, List.map_append, List.map_map, List.flatMap_map,
        List.map_flatMap, Function.comp_def]

/-- the result of the whole stage, moved -/
def moveResult (k n : Int) (r : List FragSpan × List (List FragSpan)) :
    List FragSpan × List (List FragSpan) :=
  (r.1.map (FragSpan.move k n), r.2.map (List.map (FragSpan.move k n)))

theorem flatMap_congr' {α β : Type} (l : List α) (f g : α → List β) (h : ∀ x ∈ l, f x = g x) :
    l.flatMap f = l.flatMap g := by
  induction l with
  | nil => rfl
  | cons x xs ih =>
    simp only [List.flatMap_cons, h x (by simp), ih (fun y hy => h y (List.mem_cons_of_mem _ hy))]

theorem filter_length_map {α β : Type} (g : α → β) (p : Nat → Bool) (l : List (List α)) :
    (l.map (List.map g)).filter (fun x => p x.length) = (l.filter fun x => p x.length).map (List.map g) := by
  rw [List.filter_map]
  congr 1
  apply List.filter_congr
  intro x _
  simp [Function.comp]

/-- **the whole middle of the pipeline commutes with moving the drawing**: cells and quoted texts
moved by `(k, n)` cells give the same top-level fragments and the same groups, moved by `(k, n)`
cells, in the same order -/
theorem endorseAll_shift (cat : Catalogue) (k n : Int) (cells : Span) (escaped : List (Cell × List Char)) :
    endorseAll len cat (Span.shift k n cells) (escaped.map fun e => (e.1.shift k n, e.2)) =
      (endorseAll len cat cells escaped).map (moveResult k n) := by
  unfold endorseAll
  have hsp : spansOf ((Span.shift k n cells).map fun cc => [cc]) =
      (spansOf (cells.map fun cc => [cc])).map (Span.shift k n) := by
    rw [← spansOf_shift]
    congr 1
    simp [Span.shift, List.map_map, Function.comp_def]
  simp only [hsp, mapOpt_map]
  rw [mapOpt_congr_map (spanEndorse len cat) (spanEndorse len cat ∘ Span.shift k n) (moveEndorsed k n) _
    (fun sp _ => spanEndorse_shift len cat k n sp)]
  cases mapOpt (spanEndorse len cat) (spansOf (cells.map fun cc => [cc])) with
  | none => rfl
  | some rs =>
    simp only [Option.map_some, moveResult, Option.some.injEq, Prod.mk.injEq]
    have hcontacts : (rs.map (moveEndorsed k n)).flatMap (fun r => r.2.flatMap (contactsOf len)) =
        (rs.flatMap fun r => r.2.flatMap (contactsOf len)).map (List.map (FragSpan.move k n)) := by
      simp only [List.flatMap_map, List.map_flatMap, moveEndorsed]
      apply flatMap_congr'
      intro r _
      apply flatMap_congr'
      intro sp _
      exact contactsOf_shift len k n sp
    have hend : (rs.map (moveEndorsed k n)).flatMap (·.1) = (rs.flatMap (·.1)).map (FragSpan.move k n) := by
      simp only [List.flatMap_map, List.map_flatMap, moveEndorsed]
    rw [hcontacts, hend]
    have hf1 := filter_length_map (FragSpan.move k n) (fun m => m == 1)
      (rs.flatMap fun r => r.2.flatMap (contactsOf len))
    have hf2 := filter_length_map (FragSpan.move k n) (fun m => m != 1)
      (rs.flatMap fun r => r.2.flatMap (contactsOf len))
    rw [hf1, hf2]
    refine ⟨?_, rfl⟩
    simp only [List.map_append, List.map_flatMap, List.flatMap_map, List.map_map, id, Function.comp_def]
    congr 1
    apply List.map_congr_left
    intro e _
    simp only [FragSpan.move, Frag.move, Frag.absPos, Span.shift, Cell.shift, List.map_map,
      FragSpan.mk.injEq, and_true]
    apply List.map_congr_left
    intro ic _
    simp only [Function.comp, Prod.mk.injEq, Cell.mk.injEq, and_true]
    omega

end Svgbob

import Svgbob.Proofs.Strokes
import Svgbob.Proofs.RectSound
import Svgbob.Proofs.Canvas
import Batteries.Data.List.Perm
/-!
# A rectangle strokes exactly what the four lines it replaces stroked

`endorse_rect` turns a contact group into `Rect(min, max)`. With the repaired `is_rect` each side
of the bounding box *is* one of the four lines of the group; the lines being proper lines, the
four sides are pairwise different, so the group *is* the four sides and the outline of the
rectangle is the union of the four lines — as sets of rational points.
-/
namespace Svgbob

/-- the outline of a sharp rectangle, and the points of a line -/
def Frag.outline : Frag → RPt → Prop
  | .line s e _, P => OnSeg s e P
  | .rect s e _ none _, P =>
    OnSeg ⟨s.x, s.y⟩ ⟨e.x, s.y⟩ P ∨ OnSeg ⟨s.x, e.y⟩ ⟨e.x, e.y⟩ P ∨
    OnSeg ⟨s.x, s.y⟩ ⟨s.x, e.y⟩ P ∨ OnSeg ⟨e.x, s.y⟩ ⟨e.x, e.y⟩ P
  | _, _ => False

theorem outline_line (f : Frag) (P : RPt) (h : ∃ s e b, f = .line s e b) :
    f.outline P ↔ f.strokes P := by
  obtain ⟨s, e, b, rfl⟩ := h
  simp [Frag.outline, Frag.strokes]

theorem foldl_min_le (l : List Int) (a : Int) :
    l.foldl (fun a b => if b < a then b else a) a ≤ a ∧
      ∀ x ∈ l, l.foldl (fun a b => if b < a then b else a) a ≤ x := by
  induction l generalizing a with
  | nil => simp
  | cons y ys ih =>
    simp only [List.foldl_cons]
    obtain ⟨h1, h2⟩ := ih (if y < a then y else a)
    by_cases hy : y < a
    · simp only [hy, if_true] at h1 h2 ⊢
      constructor
      · omega
      · intro x hx
        rcases List.mem_cons.mp hx with rfl | hx
        · exact h1
        · exact h2 x hx
    · simp only [hy, if_false] at h1 h2 ⊢
      constructor
      · omega
      · intro x hx
        rcases List.mem_cons.mp hx with rfl | hx
        · omega
        · exact h2 x hx

theorem listMin_le (l : List Int) (d x : Int) (hx : x ∈ l) : listMin l d ≤ x := by
  cases l with
  | nil => simp at hx
  | cons y ys =>
    simp only [listMin, List.headD_cons, List.foldl_cons]
    have h0 : (if y < y then y else y) = y := by simp
    rw [h0]
    obtain ⟨h1, h2⟩ := foldl_min_le ys y
    rcases List.mem_cons.mp hx with rfl | hx
    · exact h1
    · exact h2 x hx

theorem ptFoldMin_le (l : List Pt) (a : Pt) :
    (l.foldl (fun a b => if b.cmp a == .lt then b else a) a).cmp a ≠ .gt ∧
      ∀ x ∈ l, (l.foldl (fun a b => if b.cmp a == .lt then b else a) a).cmp x ≠ .gt := by
  induction l generalizing a with
  | nil =>
    simp only [List.foldl_nil, List.not_mem_nil, false_imp_iff, implies_true, and_true]
    rw [cmp_ne_gt_iff]; omega
  | cons y ys ih =>
    simp only [List.foldl_cons]
    obtain ⟨h1, h2⟩ := ih (if y.cmp a == .lt then y else a)
    by_cases hya : y.cmp a = .lt
    · simp only [hya, beq_self_eq_true, if_true] at h1 h2 ⊢
      rw [cmp_lt_iff] at hya
      rw [cmp_ne_gt_iff] at h1
      constructor
      · rw [cmp_ne_gt_iff]; omega
      · intro x hx
        rcases List.mem_cons.mp hx with rfl | hx
        · rw [cmp_ne_gt_iff]; exact h1
        · exact h2 x hx
    · have hb : (y.cmp a == .lt) = false := by simp [hya]
      simp only [hb, Bool.false_eq_true, if_false] at h1 h2 ⊢
      have hya := (cmp_ne_lt_iff y a).mp hya
      rw [cmp_ne_gt_iff] at h1
      constructor
      · rw [cmp_ne_gt_iff]; exact h1
      · intro x hx
        rcases List.mem_cons.mp hx with rfl | hx
        · rw [cmp_ne_gt_iff]; omega
        · exact h2 x hx

theorem ptFoldMax_ge (l : List Pt) (a : Pt) :
    (l.foldl (fun a b => if b.cmp a != .lt then b else a) a).cmp a ≠ .lt ∧
      ∀ x ∈ l, (l.foldl (fun a b => if b.cmp a != .lt then b else a) a).cmp x ≠ .lt := by
  induction l generalizing a with
  | nil =>
    simp only [List.foldl_nil, List.not_mem_nil, false_imp_iff, implies_true, and_true]
    rw [cmp_ne_lt_iff]; omega
  | cons y ys ih =>
    simp only [List.foldl_cons]
    obtain ⟨h1, h2⟩ := ih (if y.cmp a != .lt then y else a)
    by_cases hya : y.cmp a = .lt
    · have hb : (y.cmp a != .lt) = false := by simp [hya]
      simp only [hb, Bool.false_eq_true, if_false] at h1 h2 ⊢
      rw [cmp_lt_iff] at hya
      rw [cmp_ne_lt_iff] at h1
      constructor
      · rw [cmp_ne_lt_iff]; exact h1
      · intro x hx
        rcases List.mem_cons.mp hx with rfl | hx
        · rw [cmp_ne_lt_iff]; omega
        · exact h2 x hx
    · have hb : (y.cmp a != .lt) = true := by simp [hya]
      simp only [hb, if_true] at h1 h2 ⊢
      have hya := (cmp_ne_lt_iff y a).mp hya
      rw [cmp_ne_lt_iff] at h1
      constructor
      · rw [cmp_ne_lt_iff]; omega
      · intro x hx
        rcases List.mem_cons.mp hx with rfl | hx
        · rw [cmp_ne_lt_iff]; exact h1
        · exact h2 x hx

theorem ptListMin_le (l : List Pt) (p : Pt) (h : ptListMin l = some p) : ∀ x ∈ l, p.cmp x ≠ .gt := by
  cases l with
  | nil => simp [ptListMin] at h
  | cons y ys =>
    simp only [ptListMin, Option.some.injEq] at h
    obtain ⟨h1, h2⟩ := ptFoldMin_le ys y
    rw [h] at h1 h2
    intro x hx
    rcases List.mem_cons.mp hx with rfl | hx
    · exact h1
    · exact h2 x hx

theorem ptListMax_ge (l : List Pt) (p : Pt) (h : ptListMax l = some p) : ∀ x ∈ l, p.cmp x ≠ .lt := by
  cases l with
  | nil => simp [ptListMax] at h
  | cons y ys =>
    simp only [ptListMax, Option.some.injEq] at h
    obtain ⟨h1, h2⟩ := ptFoldMax_ge ys y
    rw [h] at h1 h2
    intro x hx
    rcases List.mem_cons.mp hx with rfl | hx
    · exact h1
    · exact h2 x hx

theorem bounds_mem_all (frags : List Frag) (f : Frag) (hf : f ∈ frags) :
    (f.bounds (fun _ => 0) 1000).1 ∈ boundsAllPoints frags ∧
    (f.bounds (fun _ => 0) 1000).2 ∈ boundsAllPoints frags := by
  simp only [boundsAllPoints, List.mem_flatMap]
  exact ⟨⟨f, hf, by simp⟩, ⟨f, hf, by simp⟩⟩

/-- four different members of a list of four are all its members -/
theorem four_of_four {α : Type} [DecidableEq α] (l : List α) (a b c d : α) (hl : l.length = 4)
    (ha : a ∈ l) (hb : b ∈ l) (hc : c ∈ l) (hd : d ∈ l)
    (hn : [a, b, c, d].Nodup) : ∀ x ∈ l, x ∈ [a, b, c, d] := by
  have hsub : [a, b, c, d] ⊆ l := by
    intro x hx
    simp only [List.mem_cons, List.mem_nil_iff, or_false] at hx
    rcases hx with rfl | rfl | rfl | rfl <;> assumption
  have hp := (List.subperm_of_subset hn hsub).perm_of_length_le (by simp [hl])
  intro x hx
  exact hp.mem_iff.mpr hx

/-- what `endorse_rect` accepts, spelled out: a proper box `x0 < x1`, `y0 < y1`, the group consists of
exactly its four sides, and the rectangle spans it -/
theorem endorseRect_core (frags : List Frag) (r : Frag) (h : endorseRect frags = some r)
    (hok : ∀ f ∈ frags, f.StrokeOk) :
    ∃ x0 x1 y0 y1 : Int, ∃ bT bB bL bR : Bool, x0 < x1 ∧ y0 < y1 ∧
      boundsSides frags =
        [(⟨x0, y0⟩, ⟨x1, y0⟩), (⟨x0, y1⟩, ⟨x1, y1⟩), (⟨x0, y0⟩, ⟨x0, y1⟩), (⟨x1, y0⟩, ⟨x1, y1⟩)] ∧
      r = .rect ⟨x0, y0⟩ ⟨x1, y1⟩ false none (frags.any Frag.isBroken) ∧
      Frag.line ⟨x0, y0⟩ ⟨x1, y0⟩ bT ∈ frags ∧ Frag.line ⟨x0, y1⟩ ⟨x1, y1⟩ bB ∈ frags ∧
      Frag.line ⟨x0, y0⟩ ⟨x0, y1⟩ bL ∈ frags ∧ Frag.line ⟨x1, y0⟩ ⟨x1, y1⟩ bR ∈ frags ∧
      ∀ f ∈ frags, f ∈ [Frag.line ⟨x0, y0⟩ ⟨x1, y0⟩ bT, Frag.line ⟨x0, y1⟩ ⟨x1, y1⟩ bB,
        Frag.line ⟨x0, y0⟩ ⟨x0, y1⟩ bL, Frag.line ⟨x1, y0⟩ ⟨x1, y1⟩ bR] := by
  have hr := endorseRect_some frags r h
  obtain ⟨hlen, hsides⟩ := isRect_sides frags hr
  have hmem := linesAreSides_mem frags hsides
  -- names for the box
  generalize hpts : boundsAllPoints frags = pts at *
  have hbs : boundsSides frags =
      [(⟨listMin (pts.map (·.x)) 0, listMin (pts.map (·.y)) 0⟩,
        ⟨listMax (pts.map (·.x)) 0, listMin (pts.map (·.y)) 0⟩),
       (⟨listMin (pts.map (·.x)) 0, listMax (pts.map (·.y)) 0⟩,
        ⟨listMax (pts.map (·.x)) 0, listMax (pts.map (·.y)) 0⟩),
       (⟨listMin (pts.map (·.x)) 0, listMin (pts.map (·.y)) 0⟩,
        ⟨listMin (pts.map (·.x)) 0, listMax (pts.map (·.y)) 0⟩),
       (⟨listMax (pts.map (·.x)) 0, listMin (pts.map (·.y)) 0⟩,
        ⟨listMax (pts.map (·.x)) 0, listMax (pts.map (·.y)) 0⟩)] := by
    simp only [boundsSides, hpts]
  generalize hx0 : listMin (pts.map (·.x)) 0 = x0 at hbs
  generalize hx1 : listMax (pts.map (·.x)) 0 = x1 at hbs
  generalize hy0 : listMin (pts.map (·.y)) 0 = y0 at hbs
  generalize hy1 : listMax (pts.map (·.y)) 0 = y1 at hbs
  rw [hbs] at hmem
  obtain ⟨bT, hT⟩ := hmem (⟨x0, y0⟩, ⟨x1, y0⟩) (by simp)
  obtain ⟨bB, hB⟩ := hmem (⟨x0, y1⟩, ⟨x1, y1⟩) (by simp)
  obtain ⟨bL, hL⟩ := hmem (⟨x0, y0⟩, ⟨x0, y1⟩) (by simp)
  obtain ⟨bR, hR⟩ := hmem (⟨x1, y0⟩, ⟨x1, y1⟩) (by simp)
  simp only at hT hB hL hR
  -- the sides are proper lines
  have hx : x0 < x1 := by
    have := (hok _ hT).1
    rw [cmp_lt_iff] at this
    simp only at this
    omega
  have hy : y0 < y1 := by
    have := (hok _ hL).1
    rw [cmp_lt_iff] at this
    simp only at this
    omega
  -- every bounding point lies in the box
  have hin : ∀ p ∈ pts, x0 ≤ p.x ∧ p.x ≤ x1 ∧ y0 ≤ p.y ∧ p.y ≤ y1 := by
    intro p hp
    have hpx : p.x ∈ pts.map (·.x) := List.mem_map_of_mem hp
    have hpy : p.y ∈ pts.map (·.y) := List.mem_map_of_mem hp
    refine ⟨?_, ?_, ?_, ?_⟩
    · rw [← hx0]; exact listMin_le _ _ _ hpx
    · rw [← hx1]; exact le_listMax _ _ _ hpx
    · rw [← hy0]; exact listMin_le _ _ _ hpy
    · rw [← hy1]; exact le_listMax _ _ _ hpy
  -- the two corners are bounding points
  have hc0 : (⟨x0, y0⟩ : Pt) ∈ pts := by
    have := (bounds_mem_all frags _ hT).1
    rw [hpts] at this
    simp only [Frag.bounds] at this
    have e1 : min x0 x1 = x0 := by omega
    have e2 : min y0 y0 = y0 := by omega
    rwa [e1, e2] at this
  have hc1 : (⟨x1, y1⟩ : Pt) ∈ pts := by
    have := (bounds_mem_all frags _ hB).2
    rw [hpts] at this
    simp only [Frag.bounds] at this
    have e1 : max x0 x1 = x1 := by omega
    have e2 : max y1 y1 = y1 := by omega
    rwa [e1, e2] at this
  -- the rectangle
  unfold endorseRect at h
  rw [if_pos hr, hpts] at h
  cases hmn : ptListMin pts with
  | none => simp [hmn] at h
  | some mn =>
    cases hmx : ptListMax pts with
    | none => simp [hmn, hmx] at h
    | some mx =>
      simp only [hmn, hmx, Option.some.injEq] at h
      have hmn_eq : mn = ⟨x0, y0⟩ := by
        have h1 := hin mn (ptListMin_mem pts mn hmn)
        have h2 := ptListMin_le pts mn hmn _ hc0
        rw [cmp_ne_gt_iff] at h2
        simp only at h2
        cases mn with | mk a b => simp only [Pt.mk.injEq] at *; omega
      have hmx_eq : mx = ⟨x1, y1⟩ := by
        have h1 := hin mx (ptListMax_mem pts mx hmx)
        have h2 := ptListMax_ge pts mx hmx _ hc1
        rw [cmp_ne_lt_iff] at h2
        simp only at h2
        cases mx with | mk a b => simp only [Pt.mk.injEq] at *; omega
      subst hmn_eq hmx_eq
      have hngt : ¬ ((⟨x0, y0⟩ : Pt).cmp ⟨x1, y1⟩ = .gt) := by
        rw [cmp_gt_iff]; simp only; omega
      have hrect : r = .rect ⟨x0, y0⟩ ⟨x1, y1⟩ false none (frags.any Frag.isBroken) := by
        rw [← h]; simp [mkRect, hngt]
      subst hrect
      -- the group is the four sides
      have hall := four_of_four frags _ _ _ _ hlen hT hB hL hR (by
        simp only [List.nodup_cons, List.mem_cons, List.mem_nil_iff, or_false, Frag.line.injEq,
          Pt.mk.injEq, List.not_mem_nil, not_false_eq_true, List.nodup_nil, and_true]
        omega)
      exact ⟨x0, x1, y0, y1, bT, bB, bL, bR, hx, hy, hbs, rfl, hT, hB, hL, hR, hall⟩

/-- **The rectangle strokes exactly the union of the strokes of the group it replaces.** -/
theorem endorseRect_strokes (frags : List Frag) (r : Frag) (h : endorseRect frags = some r)
    (hok : ∀ f ∈ frags, f.StrokeOk) (P : RPt) :
    r.outline P ↔ ∃ f ∈ frags, f.strokes P := by
  obtain ⟨x0, x1, y0, y1, bT, bB, bL, bR, _, _, _, rfl, hT, hB, hL, hR, hall⟩ :=
    endorseRect_core frags r h hok
  simp only [Frag.outline]
  constructor
  · rintro (h1 | h1 | h1 | h1)
    · exact ⟨_, hT, h1⟩
    · exact ⟨_, hB, h1⟩
    · exact ⟨_, hL, h1⟩
    · exact ⟨_, hR, h1⟩
  · rintro ⟨f, hf, hs⟩
    have := hall f hf
    simp only [List.mem_cons, List.mem_nil_iff, or_false] at this
    rcases this with rfl | rfl | rfl | rfl
    · exact Or.inl hs
    · exact Or.inr (Or.inl hs)
    · exact Or.inr (Or.inr (Or.inl hs))
    · exact Or.inr (Or.inr (Or.inr hs))

/-- the group of an endorsed rectangle is nothing but the four sides of its bounding box -/
theorem endorseRect_group_is_sides (frags : List Frag) (r : Frag) (h : endorseRect frags = some r)
    (hok : ∀ f ∈ frags, f.StrokeOk) :
    ∀ f ∈ frags, ∃ se ∈ boundsSides frags, ∃ b, f = Frag.line se.1 se.2 b := by
  obtain ⟨x0, x1, y0, y1, bT, bB, bL, bR, _, _, hbs, _, _, _, _, _, hall⟩ :=
    endorseRect_core frags r h hok
  intro f hf
  have := hall f hf
  rw [hbs]
  simp only [List.mem_cons, List.mem_nil_iff, or_false] at this
  rcases this with rfl | rfl | rfl | rfl
  · exact ⟨(⟨x0, y0⟩, ⟨x1, y0⟩), by simp, bT, rfl⟩
  · exact ⟨(⟨x0, y1⟩, ⟨x1, y1⟩), by simp, bB, rfl⟩
  · exact ⟨(⟨x0, y0⟩, ⟨x0, y1⟩), by simp, bL, rfl⟩
  · exact ⟨(⟨x1, y0⟩, ⟨x1, y1⟩), by simp, bR, rfl⟩

end Svgbob

import Svgbob.Model.Convert
import Svgbob.Proofs.Lines
/-!
# Line endings and trailing line feeds: the whole conversion (legend-free documents)
-/
namespace Svgbob

theorem isPrefixOf_crlf (m t : List Char) (hm : ∀ c ∈ m, c ≠ '\n' ∧ c ≠ '\r') :
    m.isPrefixOf (crlf t) = m.isPrefixOf t := by
  induction m generalizing t with
  | nil => simp
  | cons a m ih =>
    have ha := hm a (by simp)
    have hm' : ∀ c ∈ m, c ≠ '\n' ∧ c ≠ '\r' := fun c hc => hm c (List.mem_cons_of_mem _ hc)
    cases t with
    | nil => simp [crlf]
    | cons c cs =>
      by_cases hc : (c == '\n') = true
      · have hc' : c = '\n' := by simpa using hc
        subst hc'
        simp only [crlf, hc, if_true, List.isPrefixOf_cons_cons]
        have h1 : (a == '\r') = false := by simpa using ha.2
        have h2 : (a == '\n') = false := by simpa using ha.1
        simp [h1, h2]
      · have hc' : (c == '\n') = false := by simpa using hc
        simp only [crlf, hc', Bool.false_eq_true, if_false, List.isPrefixOf_cons_cons, ih cs hm']

theorem legendMarker_chars : ∀ c ∈ legendMarker, c ≠ '\n' ∧ c ≠ '\r' := by decide

theorem findLegend_crlf_none (s : List Char) (h : findLegend s = none) : findLegend (crlf s) = none := by
  induction s with
  | nil => simp [crlf, findLegend]
  | cons c cs ih =>
    simp only [findLegend] at h
    split at h
    · cases h
    · rename_i hp
      have hcs : findLegend cs = none := by
        cases hf : findLegend cs with
        | none => rfl
        | some r => simp [hf] at h
      have hp' : legendMarker.isPrefixOf (crlf (c :: cs)) = false := by
        rw [isPrefixOf_crlf _ _ legendMarker_chars]; exact (Bool.not_eq_true _).mp hp
      by_cases hc : (c == '\n') = true
      · simp only [crlf, hc, if_true] at hp' ⊢
        have hm : legendMarker = '#' :: " Legend:".toList := rfl
        have h2 : legendMarker.isPrefixOf ('\n' :: crlf cs) = false := by
          rw [hm, List.isPrefixOf_cons_cons]; simp
        simp only [findLegend, hp', h2, Bool.false_eq_true, if_false, ih hcs]
      · have hc' : (c == '\n') = false := by simpa using hc
        simp only [crlf, hc', Bool.false_eq_true, if_false] at hp' ⊢
        simp only [findLegend, hp', Bool.false_eq_true, if_false, ih hcs]

/-- a match of the marker never reaches into the appended line feeds -/
theorem isPrefixOf_append_nls (m t : List Char) (k : Nat) (hm : ∀ c ∈ m, c ≠ '\n') :
    m.isPrefixOf (t ++ List.replicate k '\n') = m.isPrefixOf t := by
  induction m generalizing t with
  | nil => simp
  | cons a m ih =>
    have ha := hm a (by simp)
    have hm' : ∀ c ∈ m, c ≠ '\n' := fun c hc => hm c (List.mem_cons_of_mem _ hc)
    cases t with
    | nil =>
      cases k with
      | zero => simp
      | succ k =>
        have h2 : (a == '\n') = false := by simpa using ha
        simp only [List.nil_append, List.replicate_succ, List.isPrefixOf_cons_cons, h2, Bool.false_and]
        simp
    | cons c cs => simp only [List.cons_append, List.isPrefixOf_cons_cons, ih cs hm']

theorem findLegend_append_nls_none (s : List Char) (k : Nat) (h : findLegend s = none) :
    findLegend (s ++ List.replicate k '\n') = none := by
  induction s with
  | nil =>
    induction k with
    | zero => simp [findLegend]
    | succ k ih =>
      have hm : legendMarker = '#' :: " Legend:".toList := rfl
      have h2 : legendMarker.isPrefixOf ('\n' :: List.replicate k '\n') = false := by
        rw [hm, List.isPrefixOf_cons_cons]; simp
      simp only [List.nil_append] at ih ⊢
      simp only [List.replicate_succ, findLegend, h2, Bool.false_eq_true, if_false, ih]
  | cons c cs ih =>
    simp only [findLegend] at h
    split at h
    · cases h
    · rename_i hp
      have hcs : findLegend cs = none := by
        cases hf : findLegend cs with
        | none => rfl
        | some r => simp [hf] at h
      have hp' : legendMarker.isPrefixOf (c :: cs ++ List.replicate k '\n') = false := by
        rw [isPrefixOf_append_nls _ _ _ (fun c hc => (legendMarker_chars c hc).1)]; exact (Bool.not_eq_true _).mp hp
      simp only [List.cons_append] at hp' ⊢
      simp only [findLegend, hp', Bool.false_eq_true, if_false, ih hcs]

/-- **LF or CRLF: the same front end** (legend-free document without stray carriage returns) -/
theorem front_crlf (env : Env) (s : List Char) (hr : '\r' ∉ s) (hl : findLegend s = none) :
    front env (crlf s) = front env s := by
  simp only [front, hl, findLegend_crlf_none s hl, lines_crlf s hr]

/-- **trailing line feeds: the same front end** -/
theorem front_append_nls (env : Env) (s : List Char) (k : Nat) (hr : '\r' ∉ s)
    (hl : findLegend s = none) : front env (s ++ List.replicate k '\n') = front env s := by
  obtain ⟨j, hj⟩ := lines_append_nls s hr k
  simp only [front, hl, findLegend_append_nls_none s k hl, hj, rowsFront_append_empty]

/-- **the whole conversion does not see the line-ending convention** -/
theorem convertDoc_crlf (env : Env) (cfg : Cfg) (cat : Catalogue) (s : List Char) (hr : '\r' ∉ s)
    (hl : findLegend s = none) : convertDoc env cfg cat (crlf s) = convertDoc env cfg cat s := by
  unfold convertDoc; rw [front_crlf env s hr hl]

/-- **… nor trailing blank lines** -/
theorem convertDoc_append_nls (env : Env) (cfg : Cfg) (cat : Catalogue) (s : List Char) (k : Nat)
    (hr : '\r' ∉ s) (hl : findLegend s = none) :
    convertDoc env cfg cat (s ++ List.replicate k '\n') = convertDoc env cfg cat s := by
  unfold convertDoc; rw [front_append_nls env s k hr hl]

end Svgbob

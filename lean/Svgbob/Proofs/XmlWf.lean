import Svgbob.Spec.Xml
import Svgbob.Proofs.DocSafe
/-!
# Every document the back end writes is a well-formed XML element

`Xml.element` (the recognizer of `Spec/Xml.lean`) accepts the rendering of every `Node.Safe`
element node, for every indentation mode.
-/
namespace Svgbob.Xml
open Svgbob

/-! ## fuel monotonicity -/

theorem attrs_mono : ∀ (f f' : Nat) (seen : List (List Char)) (s r : List Char),
    attrs f seen s = some r → f ≤ f' → attrs f' seen s = some r := by
  intro f
  induction f with
  | zero => intro f' seen s r h; simp [attrs] at h
  | succ f ih =>
    intro f' seen s r h hle
    obtain ⟨g, rfl⟩ : ∃ g, f' = g + 1 := ⟨f' - 1, by omega⟩
    simp only [attrs] at h ⊢
    cases hs : attrStep seen s with
    | done r' => simpa [hs] using h
    | more seen' r' => simp only [hs] at h ⊢; exact ih g _ _ _ h (by omega)
    | fail => simp [hs] at h

theorem startTag_mono (f f' : Nat) (s : List Char) (x : List Char × List Char)
    (h : startTag f s = some x) (hle : f ≤ f') : startTag f' s = some x := by
  cases s with
  | nil => simp [startTag] at h
  | cons c s =>
    simp only [startTag] at h ⊢
    split
    · rename_i hc
      simp only [hc, if_true] at h
      cases ha : attrs f [] (takeName s).2 with
      | none => simp [ha] at h
      | some r =>
        simp only [ha] at h
        rw [attrs_mono f f' _ _ _ ha hle]
        exact h
    · rename_i hc; simp [hc] at h

theorem content_element_mono : ∀ (f : Nat),
    (∀ (f' : Nat) (s r : List Char), content f s = some r → f ≤ f' → content f' s = some r) ∧
    (∀ (f' : Nat) (s r : List Char), element f s = some r → f ≤ f' → element f' s = some r) := by
  intro f
  induction f with
  | zero => exact ⟨fun f' s r h => by simp [content] at h, fun f' s r h => by simp [element] at h⟩
  | succ f ih =>
    obtain ⟨ihc, ihe⟩ := ih
    constructor
    · intro f' s r h hle
      obtain ⟨g, rfl⟩ : ∃ g, f' = g + 1 := ⟨f' - 1, by omega⟩
      simp only [content] at h ⊢
      cases hs : contentStep s with
      | stop => simpa [hs] using h
      | child =>
        simp only [hs] at h ⊢
        cases he : element f s with
        | none => simp [he] at h
        | some r' =>
          simp only [he] at h
          rw [ihe g s r' he (by omega)]
          exact ihc g r' r h (by omega)
      | skip r' => simp only [hs] at h ⊢; exact ihc g r' r h (by omega)
      | fail => simp [hs] at h
    · intro f' s r h hle
      obtain ⟨g, rfl⟩ : ∃ g, f' = g + 1 := ⟨f' - 1, by omega⟩
      simp only [element] at h ⊢
      cases hs : startTag f s with
      | none => simp [hs] at h
      | some x =>
        obtain ⟨n, r1⟩ := x
        simp only [hs] at h
        rw [startTag_mono f g s _ hs (by omega)]
        simp only
        cases hc : content f r1 with
        | none => simp [hc] at h
        | some r2 =>
          simp only [hc] at h
          rw [ihc g r1 r2 hc (by omega)]
          exact h

theorem content_mono {f f' : Nat} {s r : List Char} (h : content f s = some r) (hle : f ≤ f') :
    content f' s = some r := (content_element_mono f).1 f' s r h hle

theorem element_mono {f f' : Nat} {s r : List Char} (h : element f s = some r) (hle : f ≤ f') :
    element f' s = some r := (content_element_mono f).2 f' s r h hle

/-! ## names -/

theorem takeName_append (n : List Char) (d : Char) (rest : List Char)
    (hn : ∀ c ∈ n, nameChar c = true) (hd : nameChar d = false) :
    takeName (n ++ d :: rest) = (n, d :: rest) := by
  induction n with
  | nil => simp [takeName, hd]
  | cons c cs ih =>
    have hc := hn c (by simp)
    have := ih (fun x hx => hn x (List.mem_cons_of_mem _ hx))
    simp [takeName, hc, this]

theorem tagName_chars (t : Tag) : ∀ c ∈ t.name.toList, nameChar c = true := by
  cases t <;> decide

theorem tagName_start (t : Tag) : (t.name.toList.head?.map nameStart).getD false = true := by
  cases t <;> decide

theorem tagName_head_ne_slash (t : Tag) (rest : List Char) :
    (t.name.toList ++ rest).head? ≠ some '/' := by
  cases t <;> simp [Tag.name]

theorem attrName_chars (a : AttrName) : ∀ c ∈ a.name.toList, nameChar c = true := by
  cases a <;> decide

theorem attrName_start (a : AttrName) :
    ∃ d r, a.name.toList = d :: r ∧ nameStart d = true ∧ isWs d = false ∧ (d == '>') = false := by
  cases a <;> exact ⟨_, _, rfl, by decide, by decide, by decide⟩

theorem attrName_inj (a b : AttrName) (h : a.name.toList = b.name.toList) : a = b := by
  cases a <;> cases b <;> first | rfl | (exact absurd h (by decide))

/-! ## attribute values -/

theorem attChar_eq (c : Char) : attChar c = attrChar c := rfl

theorem attValue_append (v rest : List Char) (hv : ∀ c ∈ v, attrChar c = true) :
    attValue (v ++ '"' :: rest) = some rest := by
  induction v with
  | nil => simp [attValue]
  | cons c cs ih =>
    have hc := hv c (by simp)
    have hq : (c == '"') = false := by
      simp only [attrChar, Bool.and_eq_true, bne_iff_ne, ne_eq] at hc
      simpa using hc.1.1.2
    simp only [List.cons_append, attValue, hq, attChar_eq, hc, if_true]
    exact ih (fun x hx => hv x (List.mem_cons_of_mem _ hx))

theorem joinSp_safe (l : List (List Char)) (h : ∀ v ∈ l, ∀ c ∈ v, attrChar c = true) :
    ∀ c ∈ joinSp l, attrChar c = true := by
  induction l with
  | nil => simp [joinSp]
  | cons a rest ih =>
    cases rest with
    | nil => simpa [joinSp] using h a (by simp)
    | cons b rest' =>
      intro c hc
      simp only [joinSp, List.mem_append, List.mem_cons] at hc
      rcases hc with hc | rfl | hc
      · exact h a (by simp) c hc
      · decide
      · exact ih (fun v hv => h v (List.mem_cons_of_mem _ hv)) c hc

/-! ## the attribute list of a start tag -/

/-- what `renderAttr` writes for a list of (already merged) attributes, followed by `>` -/
def tagTail (den : Nat) (as : List (AttrName × List AttrVal)) (rest : List Char) : List Char :=
  as.flatMap (renderAttr den) ++ '>' :: rest

theorem renderAttr_head (den : Nat) (a : AttrName × List AttrVal) :
    ∃ t, renderAttr den a = ' ' :: t := by
  unfold renderAttr
  split <;> exact ⟨_, rfl⟩

theorem tagTail_head (den : Nat) (as : List (AttrName × List AttrVal)) (rest : List Char) :
    ∃ d t, tagTail den as rest = d :: t ∧ nameChar d = false := by
  cases as with
  | nil => exact ⟨'>', rest, rfl, by decide⟩
  | cons a as' =>
    obtain ⟨t, ht⟩ := renderAttr_head den a
    exact ⟨' ', t ++ tagTail den as' rest, by simp [tagTail, ht], by decide⟩

theorem attrs_tagTail (den : Nat) (rest : List Char) :
    ∀ (as : List (AttrName × List AttrVal)) (seen : List (List Char)),
      (as.map (·.1)).Nodup → (∀ a ∈ as, a.1.name.toList ∉ seen) →
      (∀ a ∈ as, ∀ v ∈ a.2, v.Safe) →
      (∃ f, attrs f seen (tagTail den as rest) = some rest) ∧
      (∀ Y, skipWs Y = skipWs (tagTail den as rest) → ∃ f, attrs f seen (' ' :: Y) = some rest) := by
  intro as
  induction as with
  | nil =>
    intro seen _ _ _
    refine ⟨⟨1, by simp [tagTail, attrs, attrStep]⟩, ?_⟩
    intro Y hY
    refine ⟨1, ?_⟩
    have : skipWs Y = '>' :: rest := by simpa [tagTail, skipWs, isWs] using hY
    simp [attrs, attrStep, isWs, this]
  | cons a as' ih =>
    intro seen hnd hseen hsafe
    have hnd' : (as'.map (·.1)).Nodup := (List.nodup_cons.mp (by simpa using hnd)).2
    have hnot : a.1 ∉ as'.map (·.1) := (List.nodup_cons.mp (by simpa using hnd)).1
    -- the second statement implies the first: the rendering starts with a blank
    have second : ∀ Y, skipWs Y = skipWs (tagTail den (a :: as') rest) →
        ∃ f, attrs f seen (' ' :: Y) = some rest := by
      intro Y hY
      obtain ⟨an, vs⟩ := a
      cases vs with
      | nil =>
        -- an attribute without a value renders as one blank
        have h1 : tagTail den ((an, []) :: as') rest = ' ' :: tagTail den as' rest := by
          simp [tagTail, renderAttr]
        rw [h1] at hY
        have h2 : skipWs (' ' :: tagTail den as' rest) = skipWs (tagTail den as' rest) := by
          simp [skipWs, isWs]
        rw [h2] at hY
        exact (ih seen hnd' (fun b hb => hseen b (List.mem_cons_of_mem _ hb))
          (fun b hb => hsafe b (List.mem_cons_of_mem _ hb))).2 Y hY
      | cons v vs' =>
        obtain ⟨d, nr, hname, hstart, hws, hgt⟩ := attrName_start an
        let val := joinSp ((v :: vs').map (AttrVal.render den))
        have h1 : tagTail den ((an, v :: vs') :: as') rest =
            ' ' :: (an.name.toList ++ '=' :: '"' :: (val ++ '"' :: tagTail den as' rest)) := by
          simp [tagTail, renderAttr, val]
        rw [h1] at hY
        have h2 : skipWs (' ' :: (an.name.toList ++ '=' :: '"' :: (val ++ '"' :: tagTail den as' rest)))
            = d :: (nr ++ '=' :: '"' :: (val ++ '"' :: tagTail den as' rest)) := by
          rw [hname]
          show skipWs (' ' :: d :: (nr ++ '=' :: '"' :: (val ++ '"' :: tagTail den as' rest))) = _
          rw [skipWs]
          simp only [show isWs ' ' = true from by decide, if_true]
          rw [skipWs]
          simp [hws]
        rw [h2] at hY
        have htk : takeName (d :: (nr ++ '=' :: '"' :: (val ++ '"' :: tagTail den as' rest))) =
            (an.name.toList, '=' :: '"' :: (val ++ '"' :: tagTail den as' rest)) := by
          have := takeName_append an.name.toList '=' ('"' :: (val ++ '"' :: tagTail den as' rest))
            (attrName_chars an) (by decide)
          rw [hname] at this
          simpa [hname] using this
        have hval : ∀ c ∈ val, attrChar c = true := by
          apply joinSp_safe
          intro x hx c hc
          simp only [List.mem_map] at hx
          obtain ⟨w, hw, rfl⟩ := hx
          exact AttrVal.render_safe den w (hsafe (an, v :: vs') (by simp) w hw) c hc
        have hav := attValue_append val (tagTail den as' rest) hval
        have hns : an.name.toList ∉ seen := hseen (an, v :: vs') (by simp)
        -- after this attribute
        have hseen' : ∀ b ∈ as', b.1.name.toList ∉ an.name.toList :: seen := by
          intro b hb hmem
          rcases List.mem_cons.mp hmem with heq | hmem
          · have : b.1 = an := attrName_inj _ _ heq
            exact hnot (List.mem_map.mpr ⟨b, hb, this⟩)
          · exact hseen b (List.mem_cons_of_mem _ hb) hmem
        obtain ⟨f, hf⟩ := (ih (an.name.toList :: seen) hnd' hseen'
          (fun b hb => hsafe b (List.mem_cons_of_mem _ hb))).1
        refine ⟨f + 1, ?_⟩
        simp only [attrs, attrStep]
        simp [isWs, hY, hgt, htk, hstart, hns, hav, hf]
    refine ⟨?_, second⟩
    obtain ⟨t, ht⟩ := renderAttr_head den a
    have h1 : tagTail den (a :: as') rest = ' ' :: (t ++ tagTail den as' rest) := by
      simp [tagTail, ht]
    rw [h1]
    exact second _ (by rw [h1]; simp [skipWs, isWs])

/-! ## merged attributes: names are distinct, values stay safe -/

theorem mergeInto_names (acc : List (AttrName × List AttrVal)) (a : AttrName × List AttrVal)
    (h : (acc.map (·.1)).Nodup) : ((mergeInto acc a).map (·.1)).Nodup := by
  unfold mergeInto
  split
  · have : (acc.map fun e => if e.1 == a.1 then (e.1, e.2 ++ a.2) else e).map (·.1) = acc.map (·.1) := by
      rw [List.map_map]
      apply List.map_congr_left
      intro e _
      simp only [Function.comp]
      split <;> rfl
    rw [this]; exact h
  · rename_i hno
    rw [List.map_append]
    refine List.nodup_append.mpr ⟨h, by simp, ?_⟩
    intro n1 hx n2 hy hxy
    simp only [List.map_cons, List.map_nil, List.mem_singleton] at hy
    rw [hxy, hy] at hx
    apply hno
    simp only [List.any_eq_true, beq_iff_eq]
    obtain ⟨e, he, heq⟩ := List.mem_map.mp hx
    exact ⟨e, he, heq⟩

theorem mergeInto_safe (acc : List (AttrName × List AttrVal)) (a : AttrName × List AttrVal)
    (hacc : ∀ e ∈ acc, ∀ v ∈ e.2, v.Safe) (ha : ∀ v ∈ a.2, v.Safe) :
    ∀ e ∈ mergeInto acc a, ∀ v ∈ e.2, v.Safe := by
  unfold mergeInto
  split
  · intro e he v hv
    obtain ⟨e0, he0, rfl⟩ := List.mem_map.mp he
    split at hv
    · rcases List.mem_append.mp hv with hv | hv
      · exact hacc e0 he0 v hv
      · exact ha v hv
    · exact hacc e0 he0 v hv
  · intro e he v hv
    rcases List.mem_append.mp he with he | he
    · exact hacc e he v hv
    · simp only [List.mem_singleton] at he; subst he; exact ha v hv

theorem mergeAttrs_ok (as : List (AttrName × List AttrVal)) (h : ∀ a ∈ as, ∀ v ∈ a.2, v.Safe) :
    ((mergeAttrs as).map (·.1)).Nodup ∧ ∀ e ∈ mergeAttrs as, ∀ v ∈ e.2, v.Safe := by
  unfold mergeAttrs
  suffices H : ∀ (acc : List (AttrName × List AttrVal)), (acc.map (·.1)).Nodup →
      (∀ e ∈ acc, ∀ v ∈ e.2, v.Safe) →
      ((as.foldl mergeInto acc).map (·.1)).Nodup ∧ ∀ e ∈ as.foldl mergeInto acc, ∀ v ∈ e.2, v.Safe from
    H [] (by simp) (by simp)
  induction as with
  | nil => intro acc h1 h2; exact ⟨h1, h2⟩
  | cons a rest ih =>
    intro acc h1 h2
    simp only [List.foldl_cons]
    exact ih (fun b hb => h b (List.mem_cons_of_mem _ hb)) _ (mergeInto_names acc a h1)
      (mergeInto_safe acc a h2 (h a (by simp)))

/-! ## character data -/

theorem dataChar_eq (c : Char) : dataChar c = plainChar c := rfl

theorem refs_eq : refs = [['&', 'g', 't', ';'], ['&', 'l', 't', ';'], ['&', 'a', 'm', 'p', ';'],
    ['&', '#', '3', '9', ';'], ['&', 'q', 'u', 'o', 't', ';'], ['&', '#', '1', '3', ';']] := by decide

theorem reference_refs (r : List Char) (hr : r ∈ refs) (tail : List Char) :
    ∃ body, r = '&' :: body ∧ reference (body ++ tail) = some tail := by
  rw [refs_eq] at hr
  simp only [List.mem_cons, List.mem_nil_iff, or_false] at hr
  rcases hr with rfl | rfl | rfl | rfl | rfl | rfl
  · exact ⟨_, rfl, by simp [reference]⟩
  · exact ⟨_, rfl, by simp [reference]⟩
  · exact ⟨_, rfl, by simp [reference]⟩
  · refine ⟨_, rfl, ?_⟩
    simp [reference, takeDigits, Char.isDigit, digitsValue]
    decide
  · exact ⟨_, rfl, by simp [reference]⟩
  · refine ⟨_, rfl, ?_⟩
    simp [reference, takeDigits, Char.isDigit, digitsValue]
    decide

/-- character data in front of more content is skipped -/
theorem content_textSafe {t : List Char} (ht : TextSafe t) (tail res : List Char)
    (h : ∃ g, content g tail = some res) : ∃ f, content f (t ++ tail) = some res := by
  induction ht with
  | nil => simpa using h
  | plain c rest hc _ ih =>
    obtain ⟨f, hf⟩ := ih
    refine ⟨f + 1, ?_⟩
    have hlt : (c == '<') = false := by
      simp only [plainChar, Bool.and_eq_true, bne_iff_ne, ne_eq] at hc; simpa using hc.1.1.2
    have hamp : (c == '&') = false := by
      simp only [plainChar, Bool.and_eq_true, bne_iff_ne, ne_eq] at hc; simpa using hc.1.2
    simp only [List.cons_append, content, contentStep, hlt, hamp, dataChar_eq, hc]
    simpa using hf
  | ref r rest hr _ ih =>
    obtain ⟨f, hf⟩ := ih
    obtain ⟨body, rfl, hb⟩ := reference_refs r hr (rest ++ tail)
    refine ⟨f + 1, ?_⟩
    simp only [List.cons_append, List.append_assoc, content, contentStep]
    simp [hb, hf]

theorem indentChars_safe (pretty : Bool) (indent : Nat) : TextSafe (indentChars pretty indent) := by
  unfold indentChars
  split
  · refine TextSafe.plain '\n' _ (by decide) ?_
    generalize 2 * indent = k
    induction k with
    | zero => exact TextSafe.nil
    | succ k ih => exact TextSafe.plain ' ' _ (by decide) ih
  · exact TextSafe.nil

/-! ## elements -/

/-- the end tag `</name>` -/
def closeTag (t : Tag) (rest : List Char) : List Char := '<' :: '/' :: (t.name.toList ++ '>' :: rest)

theorem content_closeTag (t : Tag) (rest : List Char) :
    ∃ g, content g (closeTag t rest) = some (closeTag t rest) :=
  ⟨1, by simp [content, contentStep, closeTag]⟩

theorem endTag_closeTag (t : Tag) (rest : List Char) :
    endTag t.name.toList (closeTag t rest) = some rest := by
  have := takeName_append t.name.toList '>' rest (tagName_chars t) (by decide)
  simp [endTag, closeTag, this, skipWs, isWs]

/-- a start tag with merged attributes, a body accepted as content up to the end tag, and the
end tag: one element -/
theorem element_wrap (den : Nat) (t : Tag) (as : List (AttrName × List AttrVal))
    (hsafe : ∀ a ∈ as, ∀ v ∈ a.2, v.Safe) (body rest : List Char)
    (h : ∃ g, content g (body ++ closeTag t rest) = some (closeTag t rest)) :
    ∃ f, element f ('<' :: (t.name.toList ++
      tagTail den (mergeAttrs as) (body ++ closeTag t rest))) = some rest := by
  obtain ⟨g, hg⟩ := h
  obtain ⟨hnd, hvals⟩ := mergeAttrs_ok as hsafe
  obtain ⟨f1, hf1⟩ := (attrs_tagTail den (body ++ closeTag t rest) (mergeAttrs as) [] hnd
    (by simp) hvals).1
  obtain ⟨d, tl, htl, hd⟩ := tagTail_head den (mergeAttrs as) (body ++ closeTag t rest)
  have htk : takeName (t.name.toList ++ tagTail den (mergeAttrs as) (body ++ closeTag t rest)) =
      (t.name.toList, tagTail den (mergeAttrs as) (body ++ closeTag t rest)) := by
    rw [htl]; exact takeName_append _ d tl (tagName_chars t) hd
  refine ⟨max f1 g + 1, ?_⟩
  have ha := attrs_mono f1 (max f1 g) _ _ _ hf1 (Nat.le_max_left _ _)
  have hc := content_mono hg (Nat.le_max_right f1 g)
  simp only [element, startTag, htk, tagName_start, Bool.and_true, beq_self_eq_true, if_true, ha, hc]
  exact endTag_closeTag t rest

theorem contentStep_child (X : List Char) (h : X.head? ≠ some '/') :
    contentStep ('<' :: X) = .child := by
  simp [contentStep, h]

theorem render_elem_eq (den : Nat) (pretty : Bool) (indent : Nat) (t : Tag)
    (as : List (AttrName × List AttrVal)) (kids : List Node) (rest : List Char) :
    ∃ body, (Node.elem t as kids).render den pretty indent ++ rest =
        '<' :: (t.name.toList ++ tagTail den (mergeAttrs as) (body ++ closeTag t rest)) ∧
      ((kids = [] ∧ body = []) ∨ (∃ s, kids = [.text s] ∧ body = s) ∨
       body = Node.renderKids den pretty (indent + 1) kids ++ indentChars pretty indent) := by
  cases kids with
  | nil => exact ⟨[], by simp [Node.render, tagTail, closeTag], Or.inl ⟨rfl, rfl⟩⟩
  | cons k ks =>
    cases ks with
    | nil =>
      cases k with
      | text s => exact ⟨s, by simp [Node.render, tagTail, closeTag], Or.inr (Or.inl ⟨s, rfl, rfl⟩)⟩
      | elem t' as' kids' =>
        exact ⟨_, by simp [Node.render, tagTail, closeTag], Or.inr (Or.inr rfl)⟩
    | cons k2 ks' => exact ⟨_, by simp [Node.render, tagTail, closeTag], Or.inr (Or.inr rfl)⟩

mutual
/-- **an element node renders to one well-formed element** -/
theorem element_render (den : Nat) (pretty : Bool) : ∀ (n : Node) (indent : Nat) (rest : List Char),
    n.Safe → n.isText = false → ∃ f, element f (n.render den pretty indent ++ rest) = some rest
  | .text s, _, _, _, ht => by simp [Node.isText] at ht
  | .elem t as kids, indent, rest, hs, _ => by
    cases hs with
    | elem _ _ _ hattrs hkids =>
      obtain ⟨body, heq, hbody⟩ := render_elem_eq den pretty indent t as kids rest
      rw [heq]
      apply element_wrap den t as hattrs body rest
      rcases hbody with ⟨_, rfl⟩ | ⟨s, hk, rfl⟩ | rfl
      · simpa using content_closeTag t rest
      · have hs : TextSafe body := by
          have := hkids (.text body) (by rw [hk]; simp)
          cases this with
          | text _ h => exact h
        exact content_textSafe hs _ _ (content_closeTag t rest)
      · simp only [List.append_assoc]
        exact content_renderKids den pretty kids (indent + 1) _ _ hkids
          (content_textSafe (indentChars_safe pretty indent) _ _ (content_closeTag t rest))

/-- **children render to content** -/
theorem content_renderKids (den : Nat) (pretty : Bool) : ∀ (ks : List Node) (indent : Nat)
    (tail res : List Char), (∀ k ∈ ks, k.Safe) → (∃ g, content g tail = some res) →
    ∃ f, content f (Node.renderKids den pretty indent ks ++ tail) = some res
  | [], _, _, _, _, h => by simpa [Node.renderKids] using h
  | k :: ks, indent, tail, res, hk, h => by
    have ih := content_renderKids den pretty ks indent tail res
      (fun k' hk' => hk k' (List.mem_cons_of_mem _ hk')) h
    simp only [Node.renderKids, List.append_assoc]
    apply content_textSafe (indentChars_safe pretty indent)
    match k, hk k (by simp) with
    | .text s, hks =>
      have hs : TextSafe s := by
        cases hks with
        | text _ h => exact h
      simpa [Node.render] using content_textSafe hs _ _ ih
    | .elem t as kids, hks =>
      obtain ⟨f1, hf1⟩ := element_render den pretty (.elem t as kids) indent
        (Node.renderKids den pretty indent ks ++ tail) hks rfl
      obtain ⟨f2, hf2⟩ := ih
      refine ⟨max f1 f2 + 1, ?_⟩
      have he := element_mono hf1 (Nat.le_max_left f1 f2)
      have hc := content_mono hf2 (Nat.le_max_right f1 f2)
      obtain ⟨body, heq, _⟩ := render_elem_eq den pretty indent t as kids
        (Node.renderKids den pretty indent ks ++ tail)
      have hstep : contentStep ((Node.elem t as kids).render den pretty indent ++
          (Node.renderKids den pretty indent ks ++ tail)) = .child := by
        rw [heq]
        exact contentStep_child _ (tagName_head_ne_slash t _)
      simp only [content, hstep, he, hc]
end

end Svgbob.Xml

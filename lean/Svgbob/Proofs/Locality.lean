import Svgbob.Model.Pipeline
import Svgbob.Proofs.Merge
/-!
# Locality of span grouping: sub-diagrams separated by a blank column or row do not interact
-/
namespace Svgbob

/-- a coordinate along which the two sub-diagrams are separated: `x` (side by side) or `y`
(stacked); adjacent cells differ by at most one in it -/
structure Axis where
  proj : Cell → Int
  adj : ∀ a b : Cell, a.isAdjacent b = true → (proj b - proj a).natAbs ≤ 1

def Axis.x : Axis := ⟨fun c => c.x, by
  intro a b h
  simp only [Cell.isAdjacent, Bool.and_eq_true, decide_eq_true_eq] at h
  exact h.1⟩

def Axis.y : Axis := ⟨fun c => c.y, by
  intro a b h
  simp only [Cell.isAdjacent, Bool.and_eq_true, decide_eq_true_eq] at h
  exact h.2⟩

/-- class of a span relative to the separating line `t`: 0 = entirely on the low side (`≤ t`) -/
def sideOf (ax : Axis) (t : Int) (s : Span) : Nat := if s.all (fun c => ax.proj c.1 ≤ t) then 0 else 1

/-- a span is *pure* when it is non-empty and lies entirely on one side of the blank line
`t + 1` (low side: `≤ t`, high side: `≥ t + 2`) -/
def Pure (ax : Axis) (t : Int) (s : Span) : Prop :=
  s ≠ [] ∧ ((∀ c ∈ s, ax.proj c.1 ≤ t) ∨ (∀ c ∈ s, t + 2 ≤ ax.proj c.1))

theorem sideOf_low (ax : Axis) (t : Int) (s : Span) (h : ∀ c ∈ s, ax.proj c.1 ≤ t) :
    sideOf ax t s = 0 := by
  simp only [sideOf]
  rw [if_pos]
  exact List.all_eq_true.mpr (fun c hc => by simpa using h c hc)

theorem sideOf_high (ax : Axis) (t : Int) (s : Span) (hne : s ≠ [])
    (h : ∀ c ∈ s, t + 2 ≤ ax.proj c.1) : sideOf ax t s = 1 := by
  simp only [sideOf]
  rw [if_neg]
  intro hall
  cases s with
  | nil => exact hne rfl
  | cons c cs =>
    have h1 := List.all_eq_true.mp hall c (by simp)
    have h2 := h c (by simp)
    simp at h1
    omega

theorem spanMerge_none_across (ax : Axis) (t : Int) (a b : Span)
    (ha : ∀ c ∈ a, ax.proj c.1 ≤ t) (hb : ∀ c ∈ b, t + 2 ≤ ax.proj c.1) :
    spanMerge a b = none ∧ spanMerge b a = none := by
  constructor
  · simp only [spanMerge]
    rw [if_neg]
    simp only [List.any_eq_true, List.mem_reverse, not_exists, not_and]
    intro ca hca cb hcb hadj
    have := ax.adj ca.1 cb.1 hadj
    have h1 := ha ca hca; have h2 := hb cb hcb
    omega
  · simp only [spanMerge]
    rw [if_neg]
    simp only [List.any_eq_true, List.mem_reverse, not_exists, not_and]
    intro cb hcb ca hca hadj
    have := ax.adj cb.1 ca.1 hadj
    have h1 := ha ca hca; have h2 := hb cb hcb
    omega

theorem spanMerge_pure (ax : Axis) (t : Int) (g it m : Span) (h : spanMerge g it = some m)
    (hg : Pure ax t g) (hi : Pure ax t it) : Pure ax t m ∧ sideOf ax t m = sideOf ax t g := by
  have hm : m = g ++ it := by
    simp only [spanMerge] at h; split at h <;> simp at h; exact h.symm
  subst hm
  obtain ⟨hgne, hgs⟩ := hg
  obtain ⟨hine, his⟩ := hi
  rcases hgs with hgl | hgh <;> rcases his with hil | hih
  · have hall : ∀ c ∈ g ++ it, ax.proj c.1 ≤ t := by
      intro c hc; rcases List.mem_append.mp hc with hc | hc
      · exact hgl c hc
      · exact hil c hc
    exact ⟨⟨by simp [hgne], Or.inl hall⟩, by rw [sideOf_low ax t _ hall, sideOf_low ax t _ hgl]⟩
  · rw [(spanMerge_none_across ax t g it hgl hih).1] at h; cases h
  · rw [(spanMerge_none_across ax t it g hil hgh).2] at h; cases h
  · have hall : ∀ c ∈ g ++ it, t + 2 ≤ ax.proj c.1 := by
      intro c hc; rcases List.mem_append.mp hc with hc | hc
      · exact hgh c hc
      · exact hih c hc
    exact ⟨⟨by simp [hgne], Or.inr hall⟩,
      by rw [sideOf_high ax t _ (by simp [hgne]) hall, sideOf_high ax t _ hgne hgh]⟩

theorem spanMerge_none_of_sides (ax : Axis) (t : Int) (a b : Span) (ha : Pure ax t a)
    (hb : Pure ax t b) (h : sideOf ax t a ≠ sideOf ax t b) : spanMerge a b = none := by
  obtain ⟨hane, has⟩ := ha
  obtain ⟨hbne, hbs⟩ := hb
  rcases has with hal | hah <;> rcases hbs with hbl | hbh
  · rw [sideOf_low ax t _ hal, sideOf_low ax t _ hbl] at h; exact absurd rfl h
  · exact (spanMerge_none_across ax t a b hal hbh).1
  · exact (spanMerge_none_across ax t b a hbl hah).2
  · rw [sideOf_high ax t _ hane hah, sideOf_high ax t _ hbne hbh] at h; exact absurd rfl h

/-- **Spans of one side do not depend on the other side.** For cells split by a blank column
(or row), grouping all of them and keeping the groups of one side gives exactly the groups of
that side's cells alone, in the same order. -/
theorem spansOf_local (ax : Axis) (t : Int) (side : Nat) (items : List Span)
    (hp : ∀ s ∈ items, Pure ax t s) :
    (spansOf items).filter (sideOf ax t · = side) =
      spansOf (items.filter (sideOf ax t · = side)) := by
  unfold spansOf
  apply G.mergeRec_filter_inv spanMerge (sideOf ax t) (Pure ax t)
  · intro g it m hm hg hi; exact (spanMerge_pure ax t g it m hm hg hi).1
  · intro a b ha hb h; exact spanMerge_none_of_sides ax t a b ha hb h
  · intro a b m ha hb hm; exact (spanMerge_pure ax t a b m hm ha hb).2
  · exact hp
  · omega
  · omega

end Svgbob

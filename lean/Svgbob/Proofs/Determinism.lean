import Svgbob.Model.Pipeline
/-!
# The fragment buffer does not depend on the order in which the cells are visited

The code walks a `std::collections::HashMap` (randomised order per process) and inserts the
fragments of each cell into a `BTreeMap`. In the model the visiting order is the explicit list
`perm`; the theorem says any two orders give the same buffer.
-/
namespace Svgbob

def Cell.ltP (a b : Cell) : Prop := a.y < b.y ∨ (a.y = b.y ∧ a.x < b.x)

theorem Cell.cmp_lt_iff (a b : Cell) : (a.cmp b == .lt) = true ↔ Cell.ltP a b := by
  simp only [Cell.cmp, Cell.ltP]
  by_cases h1 : a.y < b.y
  · simp [h1]
  · by_cases h2 : b.y < a.y
    · simp [h1, h2] <;> omega
    · by_cases h3 : a.x < b.x
      · simp [h1, h2, h3] <;> omega
      · by_cases h4 : b.x < a.x
        · simp [h1, h2, h3, h4] <;> omega
        · simp [h1, h2, h3, h4] <;> omega

theorem Cell.eq_iff (a b : Cell) : a = b ↔ a.x = b.x ∧ a.y = b.y := by
  cases a; cases b; simp

/-- inserting the fragments of two different cells commutes -/
theorem FragBuf.insert_comm (len : List Char → Nat) (c1 c2 : Cell) (f1 f2 : List FragSpan)
    (hne : c1 ≠ c2) (fb : FragBuf) :
    FragBuf.insert len c1 f1 (FragBuf.insert len c2 f2 fb) =
      FragBuf.insert len c2 f2 (FragBuf.insert len c1 f1 fb) := by
  induction fb with
  | nil =>
    simp only [FragBuf.insert]
    have h12 : (c1 == c2) = false := by simpa using hne
    have h21 : (c2 == c1) = false := by simpa using (Ne.symm hne)
    simp only [h12, h21, Bool.false_eq_true, if_false]
    by_cases hlt : (c1.cmp c2 == .lt) = true
    · have hgt : (c2.cmp c1 == .lt) = false := by
        have := (Cell.cmp_lt_iff c1 c2).mp hlt
        cases h : (c2.cmp c1 == .lt)
        · rfl
        · have := (Cell.cmp_lt_iff c2 c1).mp h
          simp only [Cell.ltP] at *; omega
      simp [hlt, hgt, FragBuf.insert]
    · have hlt' : (c1.cmp c2 == .lt) = false := by simpa using hlt
      have hgt : (c2.cmp c1 == .lt) = true := by
        cases h : (c2.cmp c1 == .lt)
        · exfalso
          have n1 : ¬ Cell.ltP c1 c2 := fun hh => by
            have := (Cell.cmp_lt_iff c1 c2).mpr hh; simp [hlt'] at this
          have n2 : ¬ Cell.ltP c2 c1 := fun hh => by
            have := (Cell.cmp_lt_iff c2 c1).mpr hh; simp [h] at this
          apply hne
          rw [Cell.eq_iff]
          simp only [Cell.ltP] at n1 n2; omega
        · rfl
      simp [hlt', hgt, FragBuf.insert]
  | cons hd rest ih =>
    obtain ⟨ch, fh⟩ := hd
    have h12 : (c1 == c2) = false := by simpa using hne
    have h21 : (c2 == c1) = false := by simpa using (Ne.symm hne)
    -- three-way position of c1 and of c2 relative to the head
    by_cases e1 : c1 = ch
    · subst e1
      have e2 : (c2 == c1) = false := h21
      by_cases l2 : (c2.cmp c1 == .lt) = true
      · have hthis : (c1.cmp c2 == .lt) = false := by
          cases h : (c1.cmp c2 == .lt)
          · rfl
          · have a := (Cell.cmp_lt_iff c1 c2).mp h
            have b := (Cell.cmp_lt_iff c2 c1).mp l2
            simp only [Cell.ltP] at a b; omega
        have hthis' : ¬ c1.cmp c2 = .lt := by simpa using hthis
        simp [FragBuf.insert, e2, l2, h12, hthis']
      · have l2' : (c2.cmp c1 == .lt) = false := by simpa using l2
        simp [FragBuf.insert, e2, l2', h12]
    · have e1' : (c1 == ch) = false := by simpa using e1
      by_cases e2 : c2 = ch
      · subst e2
        by_cases l1 : (c1.cmp c2 == .lt) = true
        · have : (c2.cmp c1 == .lt) = false := by
            cases h : (c2.cmp c1 == .lt)
            · rfl
            · have a := (Cell.cmp_lt_iff c2 c1).mp h
              have b := (Cell.cmp_lt_iff c1 c2).mp l1
              simp only [Cell.ltP] at a b; omega
          simp [FragBuf.insert, e1', l1, h21, this]
        · have l1' : (c1.cmp c2 == .lt) = false := by simpa using l1
          simp [FragBuf.insert, e1', l1', h21]
      · have e2' : (c2 == ch) = false := by simpa using e2
        by_cases l1 : (c1.cmp ch == .lt) = true <;> by_cases l2 : (c2.cmp ch == .lt) = true
        · -- both before the head
          have a1 := (Cell.cmp_lt_iff c1 ch).mp l1
          have a2 := (Cell.cmp_lt_iff c2 ch).mp l2
          by_cases l12 : (c1.cmp c2 == .lt) = true
          · have : (c2.cmp c1 == .lt) = false := by
              cases h : (c2.cmp c1 == .lt)
              · rfl
              · have a := (Cell.cmp_lt_iff c2 c1).mp h
                have b := (Cell.cmp_lt_iff c1 c2).mp l12
                simp only [Cell.ltP] at a b; omega
            simp [FragBuf.insert, e1', e2', l1, l2, h12, h21, l12, this]
          · have l12' : (c1.cmp c2 == .lt) = false := by simpa using l12
            have : (c2.cmp c1 == .lt) = true := by
              cases h : (c2.cmp c1 == .lt)
              · exfalso
                have n1 : ¬ Cell.ltP c1 c2 := fun hh => by
                  have := (Cell.cmp_lt_iff c1 c2).mpr hh; simp [l12'] at this
                have n2 : ¬ Cell.ltP c2 c1 := fun hh => by
                  have := (Cell.cmp_lt_iff c2 c1).mpr hh; simp [h] at this
                apply hne; rw [Cell.eq_iff]; simp only [Cell.ltP] at n1 n2; omega
              · rfl
            simp [FragBuf.insert, e1', e2', l1, l2, h12, h21, l12', this]
        · -- c1 before the head, c2 after it
          have l2' : (c2.cmp ch == .lt) = false := by simpa using l2
          have a1 := (Cell.cmp_lt_iff c1 ch).mp l1
          have : (c2.cmp c1 == .lt) = false := by
            cases h : (c2.cmp c1 == .lt)
            · rfl
            · exfalso
              have a := (Cell.cmp_lt_iff c2 c1).mp h
              have n2 : ¬ Cell.ltP c2 ch := fun hh => by
                have := (Cell.cmp_lt_iff c2 ch).mpr hh; simp [l2'] at this
              simp only [Cell.ltP] at a a1 n2; omega
          simp [FragBuf.insert, e1', e2', l1, l2', h21, this]
        · -- c2 before the head, c1 after it
          have l1' : (c1.cmp ch == .lt) = false := by simpa using l1
          have a2 := (Cell.cmp_lt_iff c2 ch).mp l2
          have : (c1.cmp c2 == .lt) = false := by
            cases h : (c1.cmp c2 == .lt)
            · rfl
            · exfalso
              have a := (Cell.cmp_lt_iff c1 c2).mp h
              have n1 : ¬ Cell.ltP c1 ch := fun hh => by
                have := (Cell.cmp_lt_iff c1 ch).mpr hh; simp [l1'] at this
              simp only [Cell.ltP] at a a2 n1; omega
          simp [FragBuf.insert, e1', e2', l1', l2, h12, this]
        · -- both after the head
          have l1' : (c1.cmp ch == .lt) = false := by simpa using l1
          have l2' : (c2.cmp ch == .lt) = false := by simpa using l2
          simp [FragBuf.insert, e1', e2', l1', l2', ih]

/-- **The fragment buffer of a span is the same for every visiting order of its cells.** -/
theorem fragmentBuffer_order_independent (len : List Char → Nat) (s : Span) (perm₁ perm₂ : Span)
    (hp : perm₁.Perm perm₂)
    (hkey : ∀ x ∈ perm₁, ∀ y ∈ perm₁, x.1 = y.1 → x = y) :
    fragmentBuffer len s perm₁ = fragmentBuffer len s perm₂ := by
  unfold fragmentBuffer
  apply List.Perm.foldl_eq' hp
  intro x hx y hy z
  by_cases hxy : x.1 = y.1
  · have := hkey x hx y hy hxy; subst this; rfl
  · exact (FragBuf.insert_comm len y.1 x.1 _ _ (Ne.symm hxy) z)

end Svgbob

import Svgbob.Proofs.ScopeText
import Svgbob.Proofs.Strokes
/-!
# Provenance: every item lives on in one item of the merged list

`mergeRec_cover` says that the union of what the items cover is kept; it does not say *by which*
item. Here: a relation "`m` carries on `a`" that is reflexive and carried along by every merge
gives, for every item of the input, one item of the result that carries it on. For fragments:
every fragment of every cell lives on in one merged fragment whose span holds the cell and which
strokes every point the cell's fragment stroked.
-/
namespace Svgbob.G
variable {α : Type}

/-! ### representation: every item lives on in one item of the result

`R a m` ("`a` is represented by `m`"): reflexive on items, and carried along by every merge — if `g`
or `it` represents `a` and they merge into `m`, then `m` represents `a`. -/

theorem mergeIntoRev_repr (merge : α → α → Option α) (R : α → α → Prop) (P : α → Prop)
    (hR : ∀ g it m a, P g → P it → merge g it = some m → (R a g ∨ R a it) → R a m)
    (gs : List α) (it : α) (r : List α) (hg : ∀ g ∈ gs, P g) (hi : P it)
    (h : mergeIntoRev merge gs it = some r) (a : α)
    (ha : (∃ g ∈ gs, R a g) ∨ R a it) : ∃ m ∈ r, R a m := by
  induction gs generalizing r with
  | nil => simp [mergeIntoRev] at h
  | cons g gs ih =>
    simp only [mergeIntoRev] at h
    split at h
    · rename_i gs' hgs'
      cases h
      rcases ha with ⟨x, hx, hax⟩ | ha
      · rcases List.mem_cons.mp hx with rfl | hx
        · exact ⟨x, by simp, hax⟩
        · obtain ⟨m, hm, ham⟩ := ih gs' (fun y hy => hg y (List.mem_cons_of_mem _ hy)) hgs' (Or.inl ⟨x, hx, hax⟩)
          exact ⟨m, List.mem_cons_of_mem _ hm, ham⟩
      · obtain ⟨m, hm, ham⟩ := ih gs' (fun y hy => hg y (List.mem_cons_of_mem _ hy)) hgs' (Or.inr ha)
        exact ⟨m, List.mem_cons_of_mem _ hm, ham⟩
    · split at h
      · rename_i m hm
        cases h
        rcases ha with ⟨x, hx, hax⟩ | ha
        · rcases List.mem_cons.mp hx with rfl | hx
          · exact ⟨m, by simp, hR x it m a (hg x (by simp)) hi hm (Or.inl hax)⟩
          · exact ⟨x, List.mem_cons_of_mem _ hx, hax⟩
        · exact ⟨m, by simp, hR g it m a (hg g (by simp)) hi hm (Or.inr ha)⟩
      · cases h

theorem step_repr (merge : α → α → Option α) (R : α → α → Prop) (P : α → Prop)
    (hR : ∀ g it m a, P g → P it → merge g it = some m → (R a g ∨ R a it) → R a m)
    (acc : List α) (it : α) (hacc : ∀ g ∈ acc, P g) (hi : P it) (a : α)
    (ha : (∃ g ∈ acc, R a g) ∨ R a it) :
    ∃ m ∈ step merge acc it, R a m := by
  unfold step
  split
  · rename_i r h; exact mergeIntoRev_repr merge R P hR acc it r hacc hi h a ha
  · rcases ha with ⟨g, hg, hag⟩ | ha
    · exact ⟨g, List.mem_append_left _ hg, hag⟩
    · exact ⟨it, by simp, ha⟩

theorem foldl_step_repr (merge : α → α → Option α) (R : α → α → Prop) (P : α → Prop)
    (hm : ∀ g it m, merge g it = some m → P g → P it → P m)
    (hR : ∀ g it m a, P g → P it → merge g it = some m → (R a g ∨ R a it) → R a m) (a : α) :
    ∀ (items acc : List α), (∀ x ∈ items, P x) → (∀ g ∈ acc, P g) →
      ((∃ g ∈ acc, R a g) ∨ ∃ x ∈ items, R a x) →
      ∃ m ∈ items.foldl (step merge) acc, R a m
  | [], acc, _, _, h => by
    rcases h with h | ⟨x, hx, _⟩
    · simpa using h
    · cases hx
  | y :: ys, acc, hp, hacc, h => by
    simp only [List.foldl_cons]
    have hy := hp y (by simp)
    apply foldl_step_repr merge R P hm hR a ys _ (fun x hx => hp x (List.mem_cons_of_mem _ hx))
      (step_forall merge P hm acc y hacc hy)
    rcases h with h | ⟨x, hx, hax⟩
    · exact Or.inl (step_repr merge R P hR acc y hacc hy a (Or.inl h))
    · rcases List.mem_cons.mp hx with rfl | hx
      · exact Or.inl (step_repr merge R P hR acc x hacc hy a (Or.inr hax))
      · exact Or.inr ⟨x, hx, hax⟩

theorem pass_repr (merge : α → α → Option α) (R : α → α → Prop) (P : α → Prop)
    (hm : ∀ g it m, merge g it = some m → P g → P it → P m)
    (hR : ∀ g it m a, P g → P it → merge g it = some m → (R a g ∨ R a it) → R a m)
    (items : List α) (hp : ∀ x ∈ items, P x) (a : α) (ha : ∃ x ∈ items, R a x) :
    ∃ m ∈ pass merge items, R a m :=
  foldl_step_repr merge R P hm hR a items [] hp (by simp) (Or.inr ha)

/-- **every item is represented in the result of `merge_recursive`** -/
theorem mergeRec_repr (merge : α → α → Option α) (R : α → α → Prop) (P : α → Prop)
    (hm : ∀ g it m, merge g it = some m → P g → P it → P m)
    (hR : ∀ g it m a, P g → P it → merge g it = some m → (R a g ∨ R a it) → R a m)
    (n : Nat) (items : List α) (hp : ∀ x ∈ items, P x) (a : α) (ha : ∃ x ∈ items, R a x) :
    ∃ m ∈ mergeRec merge n items, R a m := by
  induction n generalizing items with
  | zero => simpa [mergeRec] using ha
  | succ n ih =>
    simp only [mergeRec]
    split
    · exact ih _ (pass_forall merge P hm items hp) (pass_repr merge R P hm hR items hp a ha)
    · exact pass_repr merge R P hm hR items hp a ha

end Svgbob.G

namespace Svgbob

variable (len : List Char → Nat)

/-- `m` carries on `a`: its span holds the cells of `a` and it strokes every point `a` stroked -/
def Represents (a m : FragSpan) : Prop :=
  (∀ cc ∈ a.span, cc ∈ m.span) ∧ ∀ P : RPt, 0 < P.q → a.frag.strokes P → m.frag.strokes P

theorem FragSpan.merge_represents (g it m a : FragSpan) (hg : g.frag.StrokeOk) (hi : it.frag.StrokeOk)
    (hm : FragSpan.merge len g it = some m) (h : Represents a g ∨ Represents a it) : Represents a m := by
  simp only [FragSpan.merge] at hm
  split at hm
  · rename_i f hf
    simp at hm; subst hm
    rcases h with ⟨h1, h2⟩ | ⟨h1, h2⟩
    · exact ⟨fun cc hcc => List.mem_append_left _ (h1 cc hcc),
        fun P hq hs => (Frag.merge_strokes len _ _ _ hg hi hf P hq).mpr (Or.inl (h2 P hq hs))⟩
    · exact ⟨fun cc hcc => List.mem_append_right _ (h1 cc hcc),
        fun P hq hs => (Frag.merge_strokes len _ _ _ hg hi hf P hq).mpr (Or.inr (h2 P hq hs))⟩
  · simp at hm

/-- **every fragment of every cell lives on in ONE merged fragment of the scope**: that fragment's
span holds the cell, and it strokes every point the cell's fragment stroked -/
theorem cell_fragment_lives_on (s : Span) (hnd : (s.map (·.1)).Nodup)
    (hok : ∀ cc ∈ s, ∀ f ∈ cellFragments len s cc.1 cc.2, (f.absPos cc.1).StrokeOk)
    (cc : Cell × Char) (hcc : cc ∈ s) (f : Frag) (hf : f ∈ cellFragments len s cc.1 cc.2) :
    ∃ m ∈ G.mergeRec (FragSpan.merge len) ((absFragmentSpans (fragmentBuffer len s s)).length + 1)
        (absFragmentSpans (fragmentBuffer len s s)),
      cc ∈ m.span ∧ ∀ P : RPt, 0 < P.q → (f.absPos cc.1).strokes P → m.frag.strokes P := by
  have hall := fragmentBuffer_all len Frag.StrokeOk s s hok
  have hmem : (⟨[cc], f.absPos cc.1⟩ : FragSpan) ∈ absFragmentSpans (fragmentBuffer len s s) := by
    apply (fragmentBuffer_perm len s s hnd).mem_iff.mpr
    simp only [List.mem_flatMap, List.mem_map]
    exact ⟨cc, hcc, f, hf, rfl⟩
  obtain ⟨m, hm, hr⟩ := G.mergeRec_repr (FragSpan.merge len) Represents (fun x => x.frag.StrokeOk)
    (by
      intro g it m hmm hg hi
      simp only [FragSpan.merge] at hmm
      split at hmm
      · rename_i fm hfm
        simp at hmm; subst hmm
        exact Frag.merge_strokeOk len _ _ _ hfm hg hi
      · simp at hmm)
    (fun g it m a hg hi hmm h => FragSpan.merge_represents len g it m a hg hi hmm h)
    _ _ hall ⟨[cc], f.absPos cc.1⟩ ⟨_, hmem, ⟨fun _ h => h, fun _ _ h => h⟩⟩
  exact ⟨m, hm, hr.1 cc (by simp), hr.2⟩

end Svgbob

import Svgbob.Model.Front
/-!
# Facts about `line_parse` (quoted segments of a row)

`LocsOk lo hi locs`: the segments are in order, each has its opening quote strictly before its
closing quote, and all indices lie in `[lo, hi)`. This is what makes the three slices of
`escape_line` (`input_chars[start+1..end]`, `input_chars[index..start]`, `input_chars[index..]`)
in range — the panic sites of `cell_buffer.rs:528-556`.
-/
namespace Svgbob

def LocsOk : Nat → Nat → List (Nat × Nat) → Prop
  | _, _, [] => True
  | lo, hi, (s, e) :: rest => lo ≤ s ∧ s < e ∧ e < hi ∧ LocsOk (e + 1) hi rest

theorem sym_eq {c : Char} {cs r : List Char} (h : sym c cs = some r) : cs = c :: r := by
  cases cs with
  | nil => simp [sym] at h
  | cons d cs =>
    simp only [sym] at h
    split at h
    · rename_i hd; simp at h; subst h; simp at hd; rw [hd]
    · simp at h

theorem takeWhile_dropWhile_length (p : Char → Bool) (cs : List Char) :
    (cs.takeWhile p).length + (cs.dropWhile p).length = cs.length := by
  induction cs with
  | nil => simp
  | cons c cs ih =>
    simp only [List.takeWhile, List.dropWhile]
    split <;> simp <;> omega

theorem charStrings_count (cs : List Char) :
    (charStrings cs).1 + (charStrings cs).2.length = cs.length := by
  fun_induction charStrings cs <;> simp_all <;> omega

/-- what one successful `escape_string` returns -/
theorem escapeString_spec {pos : Nat} {cs rest : List Char} {s e p : Nat}
    (h : escapeString pos cs = some ((s, e), rest, p)) :
    pos ≤ s ∧ s < e ∧ e < pos + cs.length ∧ e + 1 ≤ p ∧ p + rest.length = pos + cs.length := by
  unfold escapeString at h
  simp only at h
  split at h
  · simp at h
  · rename_i cs1 h1
    split at h
    · simp at h
    · rename_i cs2 h2
      simp only [Option.some.injEq, Prod.mk.injEq] at h
      obtain ⟨⟨rfl, rfl⟩, rfl, rfl⟩ := h
      have e1 := sym_eq h1
      have e2 := sym_eq h2
      have l1 := takeWhile_dropWhile_length notQuote cs
      have l2 := takeWhile_dropWhile_length notQuote cs2
      have l3 := charStrings_count cs1
      have l4 : (cs.dropWhile notQuote).length = cs1.length + 1 := by rw [e1]; simp
      have l5 : (charStrings cs1).2.length = cs2.length + 1 := by rw [e2]; simp
      refine ⟨?_, ?_, ?_, ?_, ?_⟩ <;> omega

theorem locsOk_mono {lo lo' hi : Nat} {locs : List (Nat × Nat)} (hle : lo ≤ lo')
    (h : LocsOk lo' hi locs) : LocsOk lo hi locs := by
  cases locs with
  | nil => simp [LocsOk]
  | cons se rest =>
    obtain ⟨s, e⟩ := se
    simp only [LocsOk] at h ⊢
    exact ⟨by omega, h.2.1, h.2.2.1, h.2.2.2⟩

theorem lineParseFrom_ok (fuel pos : Nat) (cs : List Char) :
    LocsOk pos (pos + cs.length) (lineParseFrom fuel pos cs) := by
  induction fuel generalizing pos cs with
  | zero => simp [lineParseFrom, LocsOk]
  | succ fuel ih =>
    simp only [lineParseFrom]
    split
    · simp [LocsOk]
    · rename_i se rest p h
      obtain ⟨s, e⟩ := se
      have sp := escapeString_spec h
      simp only [LocsOk]
      refine ⟨sp.1, sp.2.1, sp.2.2.1, ?_⟩
      have hhi : p + rest.length = pos + cs.length := sp.2.2.2.2
      have := ih p rest
      rw [hhi] at this
      exact locsOk_mono sp.2.2.2.1 this

/-- the fuel is never exhausted: any two fuels above the input length give the same parse -/
theorem lineParseFrom_fuel_adequate (f f' pos : Nat) (cs : List Char)
    (h : cs.length ≤ f) (h' : cs.length ≤ f') :
    lineParseFrom f pos cs = lineParseFrom f' pos cs := by
  induction f generalizing f' pos cs with
  | zero =>
    have : cs = [] := by cases cs <;> simp_all
    subst this
    cases f' <;> simp [lineParseFrom, escapeString, sym]
  | succ f ih =>
    cases f' with
    | zero =>
      have : cs = [] := by cases cs <;> simp_all
      subst this
      simp [lineParseFrom, escapeString, sym]
    | succ f' =>
      simp only [lineParseFrom]
      split
      · rfl
      · rename_i se rest p hes
        have := escapeString_length hes
        rw [ih f' p rest (by omega) (by omega)]

/-- `line_parse` on a row: all segment indices are inside the row and ordered. -/
theorem lineParse_ok (row : List Char) : LocsOk 0 row.length (lineParse row) := by
  have := lineParseFrom_ok row.length 0 row
  simpa [lineParse] using this

end Svgbob

import Svgbob.Model.Convert
import Svgbob.Proofs.NodeMove
import Svgbob.Proofs.TextShift
import Svgbob.Proofs.MoveAll2
import Svgbob.Proofs.Canvas
import Svgbob.Proofs.Independence
import Svgbob.Proofs.CatalogueMovable
/-!
# Moving the text moves the document — the whole conversion

Composition of the front end on the moved text (`front_shiftText`), the middle of the pipeline
(`endorseAll_shift`) and the back end (`svgRoot_move`).
-/
namespace Svgbob

/-! ## every top-level fragment of the endorsement stage can be moved -/

theorem mkRect_movable (a b : Pt) (fl br : Bool) (r : Option Int) : (mkRect a b fl br r).Movable := by
  unfold mkRect; split <;> trivial

theorem contactsEndorseRect_movable (frags : List Frag) (r : Frag)
    (h : contactsEndorseRect frags = some r) : r.Movable := by
  unfold contactsEndorseRect at h
  split at h
  · rename_i r' hr
    cases h
    unfold endorseRect at hr
    split at hr
    · simp only at hr
      split at hr
      · cases hr; exact mkRect_movable _ _ _ _ _
      · cases hr
    · cases hr
  · unfold endorseRoundedRect at h
    split at h
    · simp only at h
      split at h
      · cases h; exact mkRect_movable _ _ _ _ _
      · cases h
    · cases h

theorem endorseRects_movable (groups : List (List FragSpan)) :
    ∀ f ∈ (endorseRects groups).1, f.frag.Movable := by
  unfold endorseRects
  suffices H : ∀ (acc : List FragSpan × List (List FragSpan)), (∀ f ∈ acc.1, f.frag.Movable) →
      ∀ f ∈ (groups.foldl (fun acc g =>
        match contactsEndorseRect (g.map (·.frag)) with
        | some r => (acc.1 ++ [⟨groupSpan g, r⟩], acc.2)
        | none => (acc.1, acc.2 ++ [g])) acc).1, f.frag.Movable from H ([], []) (by simp)
  induction groups with
  | nil => intro acc h; exact h
  | cons g gs ih =>
    intro acc h
    simp only [List.foldl_cons]
    apply ih
    cases hc : contactsEndorseRect (g.map (·.frag)) with
    | none => exact h
    | some r =>
      intro f hf
      rcases List.mem_append.mp hf with hf | hf
      · exact h f hf
      · simp only [List.mem_singleton] at hf
        subst hf
        exact contactsEndorseRect_movable _ r hc

/-- the catalogue holds no polygon without points (as a proposition) -/
def Catalogue.AllMovable (cat : Catalogue) : Prop := cat.movableB = true

theorem endorseArcsAndCircles_movable (cat : Catalogue) (hcat : cat.AllMovable) (s : Span)
    (acc : List FragSpan) (rest : Span) (h : endorseArcsAndCircles cat s = some (acc, rest)) :
    ∀ f ∈ acc, f.frag.Movable := by
  unfold Catalogue.AllMovable Catalogue.movableB at hcat
  simp only [Bool.and_eq_true, List.all_eq_true] at hcat
  obtain ⟨⟨⟨h1, h2⟩, h3⟩, h4⟩ := hcat
  unfold endorseArcsAndCircles at h
  split at h
  · cases h
  · rename_i tl br hb
    split at h
    · rename_i f r hm
      cases h
      obtain ⟨e, he, rfl, _⟩ := findMatch_some _ _ _ _ hm
      intro x hx
      simp only [List.mem_singleton] at hx
      subst hx
      exact Frag.absPos_movable _ _ (movable_of_movableB _ (h1 e he))
    · split at h
      · rename_i f r hm
        cases h
        obtain ⟨e, he, rfl, _⟩ := findMatch_some _ _ _ _ hm
        obtain ⟨e', he', rfl⟩ := List.mem_map.mp he
        intro x hx
        simp only [List.mem_singleton] at hx
        subst hx
        exact Frag.absPos_movable _ _ (movable_of_movableB _ (h2 e' he'))
      · split at h
        · rename_i f r hm
          cases h
          obtain ⟨e, he, rfl, _⟩ := findMatch_some _ _ _ _ hm
          obtain ⟨e', he', rfl⟩ := List.mem_map.mp he
          intro x hx
          simp only [List.mem_singleton] at hx
          subst hx
          exact Frag.absPos_movable _ _ (movable_of_movableB _ (h3 e' he'))
        · split at h
          · rename_i f r hm
            cases h
            obtain ⟨e, he, rfl, _⟩ := findMatch_some _ _ _ _ hm
            obtain ⟨e', he', rfl⟩ := List.mem_map.mp he
            intro x hx
            simp only [List.mem_singleton] at hx
            subst hx
            exact Frag.absPos_movable _ _ (movable_of_movableB _ (h4 e' he'))
          · cases h
            intro x hx
            cases hx

theorem mapOpt_mem {α β : Type} (f : α → Option β) (l : List α) (rs : List β)
    (h : mapOpt f l = some rs) (r : β) (hr : r ∈ rs) : ∃ x ∈ l, f x = some r := by
  obtain ⟨e, _⟩ := mapOpt_eq_some f l rs h
  subst e
  obtain ⟨x, hx, hfx⟩ := List.mem_filterMap.mp hr
  exact ⟨x, hx, hfx⟩

variable (len : List Char → Nat)

theorem spanEndorse_movable (cat : Catalogue) (hcat : cat.AllMovable) (s : Span)
    (acc : List FragSpan) (rej : List Span) (h : spanEndorse len cat s = some (acc, rej)) :
    ∀ f ∈ acc, f.frag.Movable := by
  unfold spanEndorse at h
  split at h
  · cases h
  · rename_i acc1 rest h1
    simp only at h
    split at h
    · cases h
    · rename_i rs hrs
      cases h
      intro f hf
      rcases List.mem_append.mp hf with hf | hf
      · rcases List.mem_append.mp hf with hf | hf
        · exact endorseArcsAndCircles_movable cat hcat s acc1 rest h1 f hf
        · exact endorseRects_movable _ f hf
      · obtain ⟨r, hr, hfr⟩ := List.mem_flatMap.mp hf
        obtain ⟨sp, _, hsp⟩ := mapOpt_mem _ _ _ hrs r hr
        exact endorseArcsAndCircles_movable cat hcat sp r.1 r.2 hsp f hfr

/-- **every top-level fragment of the endorsement stage can be moved** -/
theorem endorseAll_movable (cat : Catalogue) (hcat : cat.AllMovable) (cells : Span)
    (escaped : List (Cell × List Char)) (F : List FragSpan) (G : List (List FragSpan))
    (h : endorseAll len cat cells escaped = some (F, G)) : ∀ f ∈ F, f.frag.Movable := by
  unfold endorseAll at h
  simp only at h
  split at h
  · cases h
  · rename_i rs hrs
    cases h
    intro f hf
    rcases List.mem_append.mp hf with hf | hf
    · rcases List.mem_append.mp hf with hf | hf
      · obtain ⟨r, hr, hfr⟩ := List.mem_flatMap.mp hf
        obtain ⟨sp, _, hsp⟩ := mapOpt_mem _ _ _ hrs r hr
        exact spanEndorse_movable len cat hcat sp r.1 r.2 hsp f hfr
      · obtain ⟨g, hg, hfg⟩ := List.mem_flatMap.mp hf
        have hg' := (List.mem_filter.mp hg).1
        obtain ⟨r, _, hgr⟩ := List.mem_flatMap.mp hg'
        obtain ⟨sp, _, hgsp⟩ := List.mem_flatMap.mp hgr
        exact contactsOf_movable len sp g hgsp f hfg
    · obtain ⟨e, _, rfl⟩ := List.mem_map.mp hf
      trivial

/-! ## the parts of a document -/

/-- what a document consists of besides the settings: legend rules, canvas, nodes of the drawing -/
structure DocParts where
  css : List (List Char × List Char)
  wh : Int × Int
  drawing : List Node

/-- the same parts with the canvas grown by `(dx, dy)` and every coordinate of the drawing offset by
`(dx, dy)`: number, kinds, order, classes, sizes, radii and texts of the nodes are untouched -/
def DocParts.move (dx dy : Int) (p : DocParts) : DocParts :=
  ⟨p.css, (p.wh.1 + dx, p.wh.2 + dy), p.drawing.map (Node.moveNum dx dy)⟩

/-- the conversion up to the assembly of the root -/
def convertParts (env : Env) (cfg : Cfg) (cat : Catalogue) (input : List Char) : Option DocParts :=
  let fo := front env input
  match endorseAll (segColumns env) cat fo.cells fo.escaped with
  | none => none
  | some (fs, gs) =>
    some ⟨fo.css, canvasSize cfg fo.cells,
      drawingNodes (segColumns env) cfg.scaleN (fs.map (·.frag)) (gs.map fun g => g.map (·.frag))⟩

/-- the document is the root assembled from these parts (no overridden size) -/
theorem convertDoc_eq_parts (env : Env) (cfg : Cfg) (cat : Catalogue) (input : List Char)
    (hov : cfg.overrideSize = none) :
    convertDoc env cfg cat input =
      (convertParts env cfg cat input).map fun p => assembleRoot cfg p.css p.wh p.drawing := by
  unfold convertDoc convertParts
  simp only
  cases endorseAll (segColumns env) cat (front env input).cells (front env input).escaped with
  | none => rfl
  | some r => simp only [Option.map_some, svgRoot_eq_assemble _ _ _ _ _ _ hov]

/-- **moving the text moves the document**: for every text without `#`, with at least one occupied
cell, every `k` and `n`, every environment in which a blank is white space of width one, every
scale and switch combination: the parts of the document of the moved text are the parts of the
document of the text, moved by `scale·(k, 2n)` cells -/
theorem convertParts_shiftText (env : Env) (henv : env.SpaceOk) (cfg : Cfg) (cat : Catalogue)
    (hcat : cat.AllMovable) (k n : Nat) (s : List Char) (hs : '#' ∉ s)
    (hne : (front env s).cells ≠ []) :
    convertParts env cfg cat (shiftText k n s) =
      (convertParts env cfg cat s).map
        (DocParts.move (1000 * (k : Int) * cfg.scaleN) (2000 * (n : Int) * cfg.scaleN)) := by
  obtain ⟨hc, he, hcss, hcss0⟩ := front_shiftText env henv k n s hs
  unfold convertParts
  simp only [hc, he, hcss, hcss0]
  rw [endorseAll_shift (segColumns env) cat k n]
  cases hall : endorseAll (segColumns env) cat (front env s).cells (front env s).escaped with
  | none => rfl
  | some r =>
    obtain ⟨F, G⟩ := r
    have hmov := endorseAll_movable (segColumns env) cat hcat _ _ F G hall
    simp only [Option.map_some, moveResult, DocParts.move, Option.some.injEq]
    have e1 : (F.map (FragSpan.move k n)).map (·.frag) = (F.map (·.frag)).map (Frag.move k n) := by
      simp [List.map_map, Function.comp_def, FragSpan.move]
    have e2 : (G.map (List.map (FragSpan.move k n))).map (fun g => g.map (·.frag)) =
        (G.map fun g => g.map (·.frag)).map (List.map (Frag.move k n)) := by
      simp [List.map_map, Function.comp_def, FragSpan.move]
    rw [e1, e2, canvasSize_shift cfg k n _ hne]
    simp only [drawingNodes, List.map_append, groupNodes_move]
    rw [fragmentsToNodes_move]
    intro f hf
    obtain ⟨fs, hfs, rfl⟩ := List.mem_map.mp hf
    exact hmov fs hfs

end Svgbob

import Svgbob.Model.Parser
/-!
# Front end: text → (cells, quoted texts, legend entries)

`CellBuffer::from(&str)` (`cell_buffer.rs:574-615`), `StringBuffer::from(&str)`
(`string_buffer.rs:77-95`) and `escape_line` (`cell_buffer.rs:516-561`).
-/
namespace Svgbob

/-- split at every `'\n'`; always at least one (possibly empty) piece -/
def splitNl : List Char → List (List Char)
  | [] => [[]]
  | c :: cs =>
    if c == '\n' then [] :: splitNl cs
    else match splitNl cs with
      | [] => [[c]]
      | l :: ls => (c :: l) :: ls

/-- strip one trailing `'\r'` -/
def stripCr (l : List Char) : List Char :=
  match l.getLast? with
  | some '\r' => l.dropLast
  | _ => l

/-- the pieces that were terminated by `'\n'` lose a trailing `'\r'`; a last unterminated
piece is kept as it is, and dropped when empty -/
def linesOfPieces : List (List Char) → List (List Char)
  | [] => []
  | [last] => if last.isEmpty then [] else [last]
  | l :: ls => stripCr l :: linesOfPieces ls

/-- Rust's `str::lines` -/
def lines (cs : List Char) : List (List Char) := linesOfPieces (splitNl cs)

/-- one row of `StringBuffer::from`: every character followed by `width - 1` NUL fillers -/
def expandRow (env : Env) (l : List Char) : List Char :=
  l.flatMap fun c => c :: List.replicate ((env.width c).getD 1 - 1) nul

/-- number of buffer columns a quoted segment occupies, as `escape_line` counts them: each
character that is not a NUL filler counts `max 1 width` (a character without a width counts 1) -/
def segColumns (env : Env) (seg : List Char) : Nat :=
  ((seg.filter (· != nul)).map fun c => max 1 ((env.width c).getD 1)).sum

/-- the `for (start, end) in char_locs` loop of `escape_line`; `index` is the start of the
not-yet-copied part of the row -/
def escapeLoop (env : Env) (y : Int) (row : List Char) :
    List (Nat × Nat) → Nat → List (Cell × List Char) × List Char
  | [], index => ([], row.drop index)
  | (s, e) :: rest, index =>
    let seg := (row.drop (s + 1)).take (e - (s + 1))
    let r := escapeLoop env y row rest (e + 1)
    ((⟨s, y⟩, seg) :: r.1,
      (row.drop index).take (s - index) ++ List.replicate (segColumns env seg + 2) ' ' ++ r.2)

/-- `escape_line`: the quoted segments with the cell of their opening quote, and the row with
every segment (quotes included) blanked. -/
def escapeLine (env : Env) (y : Int) (row : List Char) : List (Cell × List Char) × List Char :=
  match lineParse row with
  | [] => ([], row)
  | locs => escapeLoop env y row locs 0

/-- the cells of one blanked row: every character that is neither a NUL filler nor white space -/
def rowCellsFrom (env : Env) (y : Int) : Nat → List Char → List (Cell × Char)
  | _, [] => []
  | x, c :: cs =>
    if c != nul && !env.isWs c then (⟨x, y⟩, c) :: rowCellsFrom env y (x + 1) cs
    else rowCellsFrom env y (x + 1) cs

/-- What the front end computes. -/
structure FrontOut where
  cells : List (Cell × Char)
  escaped : List (Cell × List Char)
  css : List (List Char × List Char)
deriving Repr, DecidableEq

/-- `CellBuffer::from(StringBuffer)` over rows numbered from `y` -/
def rowsFront (env : Env) : Nat → List (List Char) → List (Cell × Char) × List (Cell × List Char)
  | _, [] => ([], [])
  | y, row :: rows =>
    let e := escapeLine env y (expandRow env row)
    let r := rowsFront env (y + 1) rows
    (rowCellsFrom env y 0 e.2 ++ r.1, e.1 ++ r.2)

def legendMarker : List Char := "# Legend:".toList

/-- `str::find("# Legend:")`: the text before the first occurrence and the text from it on -/
def findLegend : List Char → Option (List Char × List Char)
  | [] => none
  | c :: cs =>
    if legendMarker.isPrefixOf (c :: cs) then some ([], c :: cs)
    else match findLegend cs with
      | none => none
      | some (pre, suf) => some (c :: pre, suf)

/-- `CellBuffer::from(&str)` -/
def front (env : Env) (input : List Char) : FrontOut :=
  let (body, css) :=
    match findLegend input with
    | none => (input, [])
    | some (pre, suf) =>
      match parseCssLegend suf with
      | none => (input, [])
      | some css => (pre, css)
  let r := rowsFront env 0 (lines body)
  { cells := r.1, escaped := r.2, css := css }

end Svgbob

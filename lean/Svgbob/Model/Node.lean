import Svgbob.Model.Geom
/-!
# The SVG node tree and its serializer

`Node` mirrors the part of sauron's virtual DOM svgbob uses; element and attribute names are
closed enumerations (svgbob's own vocabulary). Text from the input can enter only through a
`Node.text` leaf (always produced by `escapeHtmlText` or by the style sheet) and through
`AttrVal.token` (identifiers of `{tags}`). `render` is a transcription of
`sauron-core-0.61.9/src/vdom/render.rs`.

Numbers: a scaled coordinate is an integer numerator over the document's common denominator
`den = 1000 * scale.den` (`Doc.den`), so that everything stays in `Int`.
-/
namespace Svgbob

inductive Tag
  | svg | style | defs | marker | g | rect | line | path | circle | polygon | text
deriving DecidableEq, Repr, Inhabited

def Tag.name : Tag → String
  | .svg => "svg" | .style => "style" | .defs => "defs" | .marker => "marker" | .g => "g"
  | .rect => "rect" | .line => "line" | .path => "path" | .circle => "circle"
  | .polygon => "polygon" | .text => "text"

inductive AttrName
  | xmlns | width | height | class | x | y | x1 | y1 | x2 | y2 | cx | cy | r | rx | d | points
  | id | viewBox | refX | refY | markerWidth | markerHeight | orient
deriving DecidableEq, Repr, Inhabited

def AttrName.name : AttrName → String
  | .xmlns => "xmlns" | .width => "width" | .height => "height" | .class => "class"
  | .x => "x" | .y => "y" | .x1 => "x1" | .y1 => "y1" | .x2 => "x2" | .y2 => "y2"
  | .cx => "cx" | .cy => "cy" | .r => "r" | .rx => "rx" | .d => "d" | .points => "points"
  | .id => "id" | .viewBox => "viewBox" | .refX => "refX" | .refY => "refY"
  | .markerWidth => "markerWidth" | .markerHeight => "markerHeight" | .orient => "orient"

/-- a piece of a composite attribute value (`d`, `points`) -/
inductive Piece
  | lit (s : String)
  | num (n : Int)
deriving DecidableEq, Repr, Inhabited

inductive AttrVal
  /-- a scaled length: numerator over the document denominator -/
  | num (n : Int)
  /-- an integer literal of the code (`x(0)`, `rx(0)`, `ref_x(4)`) -/
  | int (n : Int)
  /-- a fixed string of the code -/
  | lit (s : String)
  /-- an identifier taken from a `{tag}` in the input -/
  | token (s : List Char)
  /-- a formatted string with embedded scaled numbers -/
  | seq (ps : List Piece)
deriving DecidableEq, Repr, Inhabited

inductive Node
  | elem (tag : Tag) (attrs : List (AttrName × List AttrVal)) (kids : List Node)
  | text (s : List Char)
deriving Repr, Inhabited

/-! ## numbers -/

def digitChar (d : Nat) : Char := Char.ofNat (48 + d)

/-- decimal digits of a natural number -/
def natDigits : Nat → Nat → List Char → List Char
  | 0, _, acc => acc
  | fuel + 1, n, acc =>
    if n < 10 then digitChar n :: acc else natDigits fuel (n / 10) (digitChar (n % 10) :: acc)

def natToChars (n : Nat) : List Char := natDigits (n + 1) n []

/-- the fractional digits of `r / den` (`r < den`), at most `fuel` of them; `none` if the
expansion does not terminate within `fuel` digits -/
def fracDigits (den : Nat) : Nat → Nat → Option (List Char)
  | _, 0 => some []
  | 0, _ + 1 => none
  | fuel + 1, r + 1 =>
    let t := (r + 1) * 10
    match fracDigits den fuel (t % den) with
    | none => none
    | some ds => some (digitChar (t / den) :: ds)

/-- a number `n / den` as Rust's `Display` prints an exactly representable `f32`: no exponent,
no trailing zeros, `-` sign, integer without a fraction. A value without a finite decimal
expansion is written `n/den` (cannot occur for a dyadic scale). -/
def renderNum (den : Nat) (n : Int) : List Char :=
  let a := n.natAbs
  let sign : List Char := if n < 0 then ['-'] else []
  if den == 0 then "NaN".toList else
  match fracDigits den 60 (a % den) with
  | some [] => sign ++ natToChars (a / den)
  | some ds => sign ++ natToChars (a / den) ++ '.' :: ds
  | none => sign ++ natToChars a ++ '/' :: natToChars den

def intToChars (n : Int) : List Char :=
  (if n < 0 then ['-'] else []) ++ natToChars n.natAbs

/-! ## serializer -/

def Piece.render (den : Nat) : Piece → List Char
  | .lit s => s.toList
  | .num n => renderNum den n

def AttrVal.render (den : Nat) : AttrVal → List Char
  | .num n => renderNum den n
  | .int n => intToChars n
  | .lit s => s.toList
  | .token s => s
  | .seq ps => ps.flatMap (Piece.render den)

def joinSp : List (List Char) → List Char
  | [] => []
  | [a] => a
  | a :: rest => a ++ ' ' :: joinSp rest

/-- one insertion into the `IndexMap` of `Attribute::merge_attributes_of_same_name` -/
def mergeInto (acc : List (AttrName × List AttrVal)) (a : AttrName × List AttrVal) :
    List (AttrName × List AttrVal) :=
  if acc.any (·.1 == a.1) then acc.map fun e => if e.1 == a.1 then (e.1, e.2 ++ a.2) else e
  else acc ++ [a]

/-- `Attribute::merge_attributes_of_same_name`: values of equally named attributes are
concatenated at the position of the first occurrence -/
def mergeAttrs (attrs : List (AttrName × List AttrVal)) : List (AttrName × List AttrVal) :=
  attrs.foldl mergeInto []

/-- one merged attribute, preceded by a space; an attribute with no value renders as the bare
space (`Value::merge_to_string` returns `None`) -/
def renderAttr (den : Nat) (a : AttrName × List AttrVal) : List Char :=
  match a.2 with
  | [] => [' ']
  | vs => ' ' :: a.1.name.toList ++ '=' :: '"' :: joinSp (vs.map (AttrVal.render den)) ++ ['"']

def indentChars (pretty : Bool) (indent : Nat) : List Char :=
  if pretty then '\n' :: List.replicate (2 * indent) ' ' else []

def Node.isText : Node → Bool
  | .text _ => true
  | _ => false

mutual
/-- `Element::render_with_indent` / `Leaf::render_with_indent` -/
def Node.render (den : Nat) (pretty : Bool) (indent : Nat) : Node → List Char
  | .text s => s
  | .elem tag attrs kids =>
    let open_ := '<' :: tag.name.toList ++ (mergeAttrs attrs).flatMap (renderAttr den) ++ ['>']
    let close := '<' :: '/' :: tag.name.toList ++ ['>']
    match kids with
    | [] => open_ ++ close
    | [.text s] => open_ ++ s ++ close
    | _ => open_ ++ Node.renderKids den pretty (indent + 1) kids ++ indentChars pretty indent ++ close

def Node.renderKids (den : Nat) (pretty : Bool) (indent : Nat) : List Node → List Char
  | [] => []
  | k :: ks => indentChars pretty indent ++ Node.render den pretty indent k ++
      Node.renderKids den pretty indent ks
end

end Svgbob

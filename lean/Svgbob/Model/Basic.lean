/-!
# Basic types of the svgbob model

Import-free (core only) so that the driver links as a native executable.
-/
namespace Svgbob

/-- A character cell of the input grid. `Ord` in the code is `y` first, then `x`
(`cell.rs:53-57`). Coordinates are `Int` (the code uses `i32`; column/row numbers of real
inputs are far from the `i32` range, overflow is outside the model). -/
structure Cell where
  x : Int
  y : Int
deriving DecidableEq, Repr, Inhabited

/-- `Cell::cmp`: by row, then by column. -/
def Cell.lt (a b : Cell) : Bool := a.y < b.y || (a.y == b.y && a.x < b.x)

def Cell.le (a b : Cell) : Bool := a.y < b.y || (a.y == b.y && a.x ≤ b.x)

/-- External Unicode tables, supplied per case by the real crates (`unicode-width`,
`char::is_whitespace`). Theorems quantify over all environments. -/
structure Env where
  /-- `UnicodeWidthChar::width` -/
  width : Char → Option Nat
  /-- `char::is_whitespace` -/
  isWs : Char → Bool

/-- The NUL filler `StringBuffer` puts after a double-width character. -/
def nul : Char := Char.ofNat 0

end Svgbob

import Svgbob.Model.Front
import Svgbob.Model.FragOps
import Svgbob.Gen.CircleArt
/-!
# The circle catalogue and its derived arc tables (`circle_map.rs:556-1183`)

The 22 drawings come from the regenerated `Gen.circleArt`; everything derived from them
(`CIRCLES_SPAN`, quarter / half / three-quarter arc tables) is computed here the way the code
computes its statics.
-/
namespace Svgbob

abbrev Span := List (Cell × Char)

/-- the environment the circle drawings are read with: they are plain ASCII -/
def asciiEnv : Env :=
  { width := fun _ => some 1
    isWs := fun c => c == ' ' || c == '\t' || c == '\n' || c == '\r' }

/-- `Span::bounds` -/
def Span.bounds (s : Span) : Option (Cell × Cell) :=
  match s with
  | [] => none
  | _ =>
    some (⟨listMin (s.map (·.1.x)) 0, listMin (s.map (·.1.y)) 0⟩,
          ⟨listMax (s.map (·.1.x)) 0, listMax (s.map (·.1.y)) 0⟩)

/-- `Span::localize` -/
def Span.localize (s : Span) : Span :=
  match s.bounds with
  | some (tl, _) => s.map fun cc => (⟨cc.1.x - tl.x, cc.1.y - tl.y⟩, cc.2)
  | none => s

/-- `Cell::rearrange_bound` -/
def rearrangeBound (a b : Cell) : Cell × Cell :=
  (⟨min a.x b.x, min a.y b.y⟩, ⟨max a.x b.x, max a.y b.y⟩)

/-- `Cell::is_bounded` / `Span::extract` -/
def Span.extract (s : Span) (b : Cell × Cell) : Span :=
  s.filter fun cc => b.1.x ≤ cc.1.x && b.1.y ≤ cc.1.y && cc.1.x ≤ b.2.x && cc.1.y ≤ b.2.y

/-- `circle_art_to_span`: the single span of the drawing, localized (`none`: the `assert_eq!` on
the span count would fail) -/
def circleArtSpan (art : String) : Option Span :=
  match spansOf ((front asciiEnv art.toList).cells.map fun cc => [cc]) with
  | [s] => some (Span.localize s)
  | _ => none

structure CircleInfo where
  span : Span
  /-- centre and radius in milli-units -/
  center : Pt
  radius : Int
  diameter : Int
  centerCell : Cell
deriving Repr, Inhabited

def floorDiv (a b : Int) : Int := Int.fdiv a b

/-- `CircleArt::{width, radius, center, diameter, center_cell}` -/
def circleInfo (row : CircleArtRow) : Option CircleInfo :=
  match circleArtSpan row.art with
  | none => none
  | some span =>
    match span.bounds with
    | none => none
    | some (lo, hi) =>
      let widthCells : Int := match row.edge with
        | .leftEdge => hi.x - lo.x + 1
        | .half => hi.x - lo.x
      let radius := widthCells * 500
      let edgeInc : Int := match row.edge with | .leftEdge => 0 | .half => 500
      let center : Pt := ⟨radius + edgeInc, row.offsetY * 2⟩
      let sharedX := row.offsetX % 1000 == 500
      let sharedY := row.offsetY % 1000 == 500
      let ccx := row.offsetX - edgeInc - (if sharedX then 0 else 500)
      let ccy := row.offsetY - (if sharedY then 0 else 500)
      some { span := span, center := center, radius := radius, diameter := widthCells,
             centerCell := ⟨floorDiv ccx 1000, floorDiv ccy 1000⟩ }

/-- all catalogue rows, in source order (`CIRCLE_MAP`); `none` if any drawing is malformed -/
def circleInfos : Option (List CircleInfo) := Gen.circleArt.mapM circleInfo

/-- `CIRCLES_SPAN`: circle fragment and localized span, in source order -/
def circlesSpan (infos : List CircleInfo) : List (Frag × Span) :=
  infos.map fun ci => (.circle ci.center ci.radius false, ci.span)

/-- an arc table entry: key `(diameter, arc index)`, the arc, its localized span -/
abbrev ArcEntry := (Int × Nat) × Frag × Span

/-- `BTreeMap::insert` on a list sorted by key -/
def arcInsert (e : ArcEntry) : List ArcEntry → List ArcEntry
  | [] => [e]
  | x :: xs =>
    if e.1 == x.1 then e :: xs
    else if e.1.1 < x.1.1 || (e.1.1 == x.1.1 && e.1.2 < x.1.2) then e :: x :: xs
    else x :: arcInsert e xs

def flattenArcs (tables : List (Int × List (Frag × Span))) : List ArcEntry :=
  tables.foldl (fun acc t =>
    (List.range t.2.length).foldl (fun acc i =>
      match t.2[i]? with
      | some fs => arcInsert ((t.1, i), fs.1, fs.2) acc
      | none => acc) acc) []

/-- `Arc::major` -/
def mkArcMajor (a b : Pt) (r : Int) : Frag :=
  if a.cmp b == .gt then .arc b a r true true else .arc a b r true false

structure Quadrants where
  p1 : Pt
  p2 : Pt
  p3 : Pt
  p4 : Pt
  topLeft : Cell
  topRight : Cell
  bottomLeft : Cell
  bottomRight : Cell
  c1 : Cell
  c2 : Cell
  c3 : Cell
  c4 : Cell

def quadrants (ci : CircleInfo) : Option Quadrants :=
  match ci.span.bounds with
  | none => none
  | some (tl, br) =>
    let c := ci.center
    let r := ci.radius
    let fx := floorDiv c.x 1000
    let fy := floorDiv (floorDiv c.y 1000) 2
    some { p1 := ⟨c.x + r, c.y⟩, p2 := ⟨c.x, c.y - r⟩, p3 := ⟨c.x - r, c.y⟩, p4 := ⟨c.x, c.y + r⟩,
           topLeft := tl, bottomRight := br, topRight := ⟨br.x, tl.y⟩, bottomLeft := ⟨tl.x, br.y⟩,
           c1 := ⟨fx, ci.centerCell.y⟩, c2 := ci.centerCell, c3 := ⟨ci.centerCell.x, fy⟩,
           c4 := ⟨fx, fy⟩ }

def locPt (c : Cell) (p : Pt) : Pt := p.sub c.origin

/-- one entry of `QUARTER_ARC_SPAN` -/
def quarterArcs (ci : CircleInfo) : Option (Int × List (Frag × Span)) :=
  match quadrants ci with
  | none => none
  | some q =>
    let b1 := rearrangeBound q.c1 q.topRight
    let b2 := rearrangeBound q.topLeft q.c2
    let b3 := rearrangeBound q.bottomLeft q.c3
    let b4 := rearrangeBound q.c4 q.bottomRight
    let r := ci.radius
    some (ci.diameter,
      [(mkArc (locPt b1.1 q.p1) (locPt b1.1 q.p2) r, (ci.span.extract b1).localize),
       (mkArc (locPt b2.1 q.p2) (locPt b2.1 q.p3) r, (ci.span.extract b2).localize),
       (mkArc (locPt b3.1 q.p3) (locPt b3.1 q.p4) r, (ci.span.extract b3).localize),
       (mkArc (locPt b4.1 q.p4) (locPt b4.1 q.p1) r, (ci.span.extract b4).localize)])

/-- one entry of `HALF_ARC_SPAN` -/
def halfArcs (ci : CircleInfo) : Option (Int × List (Frag × Span)) :=
  match quadrants ci with
  | none => none
  | some q =>
    let topTangent : Cell := ⟨q.topRight.x, q.c1.y⟩
    let bottomTangent : Cell := ⟨q.bottomLeft.x, q.c3.y⟩
    let leftTangent : Cell := ⟨q.c2.x, q.topLeft.y⟩
    let rightTangent : Cell := ⟨q.c1.x, q.topRight.y⟩
    let bTop := rearrangeBound q.topLeft topTangent
    let bBottom := rearrangeBound bottomTangent q.bottomRight
    let bLeft := rearrangeBound leftTangent q.bottomLeft
    let bRight := rearrangeBound rightTangent q.bottomRight
    let r := ci.radius
    some (ci.diameter,
      [(mkArc q.p1 q.p3 r, (ci.span.extract bTop).localize),
       (mkArc (locPt bBottom.1 q.p3) (locPt bBottom.1 q.p1) r, (ci.span.extract bBottom).localize),
       (mkArc q.p2 q.p4 r, (ci.span.extract bLeft).localize),
       (mkArc (locPt bRight.1 q.p4) (locPt bRight.1 q.p2) r, (ci.span.extract bRight).localize)])

/-- one entry of `THREE_QUARTERS_ARC_SPAN` -/
def threeQuarterArcs (ci : CircleInfo) : Option (Int × List (Frag × Span)) :=
  match quadrants ci with
  | none => none
  | some q =>
    let s1 := ci.span.extract (rearrangeBound q.c1 q.topRight)
    let s2 := ci.span.extract (rearrangeBound q.topLeft q.c2)
    let s3 := ci.span.extract (rearrangeBound q.bottomLeft q.c3)
    let s4 := ci.span.extract (rearrangeBound q.c4 q.bottomRight)
    let r := ci.radius
    some (ci.diameter,
      [(mkArcMajor q.p1 q.p4 r, Span.localize (s1 ++ s2 ++ s3)),
       (mkArcMajor q.p2 q.p1 r, Span.localize (s2 ++ s3 ++ s4)),
       (mkArcMajor q.p3 q.p2 r, Span.localize (s3 ++ s4 ++ s1)),
       (mkArcMajor q.p4 q.p3 r, Span.localize (s4 ++ s1 ++ s2))])

/-- the four catalogue tables the endorsement consults -/
structure Catalogue where
  circles : List (Frag × Span)
  threeQuarters : List ArcEntry
  halves : List ArcEntry
  quarters : List ArcEntry
deriving Repr, Inhabited

def catalogue : Option Catalogue :=
  match circleInfos with
  | none => none
  | some infos =>
    let arcInfos := infos.drop Gen.circlesToSkipForArc
    match arcInfos.mapM quarterArcs, arcInfos.mapM halfArcs, arcInfos.mapM threeQuarterArcs with
    | some qs, some hs, some ts =>
      some { circles := circlesSpan infos, threeQuarters := flattenArcs ts, halves := flattenArcs hs,
             quarters := flattenArcs qs }
    | _, _, _ => none

/-- `is_subset_of` + the collection of unmatched cells: `some rest` when every cell of the
catalogue span occurs in the localized search span; `rest` = the search cells (absolute) whose
localized form is not part of the catalogue span -/
def matchSpan (cat : Span) (search : Span) : Option Span :=
  let loc := search.localize
  if cat.all fun c => loc.contains c then
    some ((search.zip loc).filterMap fun p => if cat.contains p.2 then none else some p.1)
  else none

/-- `.iter().rev().find_map(..)` over a table: the last entry that matches -/
def findMatch {α : Type} (table : List (α × Span)) (search : Span) : Option (α × Span) :=
  table.reverse.findSome? fun e =>
    match matchSpan e.2 search with
    | some rest => some (e.1, rest)
    | none => none

/-- `Span::endorse_to_arcs_and_circles`: circle, else three-quarter arc, else half arc, else
quarter arc; the fragment is moved to the span's top-left cell. `none` = `bounds().expect` on an
empty span (panic site `span.rs:182`). -/
def endorseArcsAndCircles (cat : Catalogue) (s : Span) : Option (List FragSpan × Span) :=
  match s.bounds with
  | none => none
  | some (tl, _) =>
    match findMatch cat.circles s with
    | some (f, rest) => some ([⟨s, f.absPos tl⟩], rest)
    | none =>
      match findMatch (cat.threeQuarters.map (·.2)) s with
      | some (f, rest) => some ([⟨s, f.absPos tl⟩], rest)
      | none =>
        match findMatch (cat.halves.map (·.2)) s with
        | some (f, rest) => some ([⟨s, f.absPos tl⟩], rest)
        | none =>
          match findMatch (cat.quarters.map (·.2)) s with
          | some (f, rest) => some ([⟨s, f.absPos tl⟩], rest)
          | none => some ([], s)

end Svgbob

import Svgbob.Model.Table
import Svgbob.Model.Merge
/-!
# Operations on fragments: touching, merging, contact

`line.rs`, `arc.rs`, `circle.rs`, `text.rs`, `fragment.rs:139-173, 411-461`, `util.rs:79-84`.
Geometric predicates the code evaluates in `f32` through parry/nalgebra are modelled by the exact
predicate on the integer grid (squared distances instead of `sqrt`, tangent thresholds instead of
`atan`); DESIGN.md 2.7 says how differences are found and classified.
-/
namespace Svgbob

/-- `util::is_collinear`: the area of the triangle (half the cross product of two sides) is
below 0.01; in milli-units² that is `|cross| < 20000`. On the quarter-cell grid the cross product
is a multiple of 62500, so this says the three points lie on one straight line
(`Proofs/Collinear.lean`). -/
def isCollinear (a b c : Pt) : Bool :=
  ((b.x - a.x) * (c.y - a.y) - (b.y - a.y) * (c.x - a.x)).natAbs < 20000

/-- `Line::touching_line` / `Line::is_touching` -/
def lineTouching (s e s' e' : Pt) : Bool :=
  onSegment s e s' || onSegment s e e' || onSegment s' e' s || onSegment s' e' e

/-- `Line::can_merge` -/
def lineCanMerge (s e s' e' : Pt) : Bool :=
  lineTouching s e s' e' && isCollinear s e s' && isCollinear s e e'

/-- `Line::merge` -/
def lineMerge (s e : Pt) (b : Bool) (s' e' : Pt) (b' : Bool) : Option Frag :=
  if lineCanMerge s e s' e' then some (mkLine (Pt.min s s') (Pt.max e e') (b || b')) else none

/-- the eight headings of `Line::heading` -/
inductive Heading | right | topRight | top | topLeft | left | bottomLeft | bottom | bottomRight
deriving DecidableEq, Repr, Inhabited

/-- `Line::heading`: the code computes the angle of `(dx, -2*dy)` with `atan`, rounds it to whole
degrees and buckets it (`line.rs:140-189`): up to 10° off an axis counts as that axis. With
`t = tan 10.5° ≈ 0.18533905` this is: horizontal iff `|2dy| < t·|dx|`, vertical iff
`|dx| < t·|2dy|` (`tan 80.5° = 1 / tan 9.5°` is approximated likewise). The constants are rational
approximations to 1e-9; a grid slope never comes that close to a threshold. -/
def lineHeading (s e : Pt) : Heading :=
  let dx := e.x - s.x
  let dy := -(2 * (e.y - s.y))          -- up is positive
  let ax := dx.natAbs
  let ay := dy.natAbs
  -- tan(10.5°) ≈ 0.185339045 ; tan(80.5°) ≈ 5.975764
  let horiz : Bool := (ay : Int) * 1000000000 < 185339045 * (ax : Int)
  let vert : Bool := (ay : Int) * 1000000 > 5975764 * (ax : Int)
  if dx == 0 && dy == 0 then .right
  else if horiz then (if dx ≥ 0 then .right else .left)
  else if vert then (if dy ≥ 0 then .top else .bottom)
  else if dx > 0 then (if dy > 0 then .topRight else .bottomRight)
  else (if dy > 0 then .topLeft else .bottomLeft)

/-- square of `Direction::threshold_length() * 0.75` in milli-units² -/
def Heading.threshold75Sq : Heading → Int
  | .right | .left => 562500            -- (0.75 * 1.0)²
  | .top | .bottom => 2250000           -- (0.75 * 2.0)²
  | _ => 2812500                        -- (0.75 * √5)²

/-- `Line::merge_circle` (`line.rs:218-263`); `none` when the two do not merge. The panic branch
of the code is unreachable because `can_merge` implies one of the two "close" flags. -/
def lineMergeCircle (s e : Pt) (b : Bool) (c : Pt) (r : Int) (filled : Bool) : Option Frag :=
  let th := (lineHeading s e).threshold75Sq
  let closeStart := decide (Pt.dist2 s c ≤ th)
  let closeEnd := decide (Pt.dist2 e c ≤ th)
  if r ≤ 750 && (closeStart || closeEnd) then
    let marker := if filled then Marker.circle else if r ≥ 500 then Marker.bigOpenCircle else Marker.openCircle
    -- the end point nearer to the bullet is moved to its centre
    let endNearer := decide (Pt.dist2 e c ≤ Pt.dist2 s c)
    if closeEnd && (endNearer || !closeStart) then some (.markerLine s c b none (some marker))
    else some (.markerLine e c b none (some marker))
  else none

/-- `CellText::can_merge` / `merge`; `len` is the width the code attributes to the content -/
def cellTextMerge (len : List Char → Nat) (st : Cell) (c : List Char) (st' : Cell) (c' : List Char) :
    Option Frag :=
  if st.y == st'.y && (st.x + (len c : Int) == st'.x || st'.x + (len c' : Int) == st.x) then
    if st.x < st'.x then some (.cellText st (c ++ c')) else some (.cellText st' (c' ++ c))
  else none

/-- `Fragment::merge` (`fragment.rs:411-461`) -/
def Frag.merge (len : List Char → Nat) : Frag → Frag → Option Frag
  | .line s e b, .line s' e' b' => lineMerge s e b s' e' b'
  | .line s e b, .circle c r f => lineMergeCircle s e b c r f
  | .circle c r f, .line s e b => lineMergeCircle s e b c r f
  | .cellText st c, .cellText st' c' => cellTextMerge len st c st' c'
  | _, _ => none

/-- `Line::is_touching_arc`, `Arc::is_touching`: an endpoint coincides -/
def endpointsTouch (s e s' e' : Pt) : Bool := s == s' || e == e' || s == e' || e == s'

/-- `Line::is_touching_circle`: an endpoint strictly inside the circle -/
def lineTouchingCircle (s e c : Pt) (r : Int) : Bool :=
  decide (Pt.dist2 s c < r * r) || decide (Pt.dist2 e c < r * r)

/-- `CellText::is_contacting`: some cell of one is next to (same row, |dx| ≤ 1) a cell of the
other -/
def cellTextContacting (len : List Char → Nat) (st : Cell) (c : List Char) (st' : Cell)
    (c' : List Char) : Bool :=
  -- cells st.x .. st.x+len-1 and st'.x .. st'.x+len'-1 on rows st.y / st'.y
  st.y == st'.y && 0 < len c && 0 < len c' &&
    st.x ≤ st'.x + (len c' : Int) && st'.x ≤ st.x + (len c : Int)

/-- `Fragment::is_contacting` (`fragment.rs:139-173`) -/
def Frag.isContacting (len : List Char → Nat) : Frag → Frag → Bool
  | .line s e _, .line s' e' _ => lineTouching s e s' e'
  | .line s e _, .arc s' e' _ _ _ => endpointsTouch s e s' e'
  | .line s e _, .circle c r _ => lineTouchingCircle s e c r
  | .arc s e _ _ _, .arc s' e' _ _ _ => endpointsTouch s e s' e'
  | .arc s e _ _ _, .line s' e' _ => endpointsTouch s' e' s e
  | .circle c r _, .line s e _ => lineTouchingCircle s e c r
  | .cellText st c, .cellText st' c' => cellTextContacting len st c st' c'
  | _, _ => false

/-- a fragment together with the cells it came from (`FragmentSpan`) -/
structure FragSpan where
  span : List (Cell × Char)
  frag : Frag
deriving DecidableEq, Repr, Inhabited

/-- `FragmentSpan::merge` -/
def FragSpan.merge (len : List Char → Nat) (a b : FragSpan) : Option FragSpan :=
  match a.frag.merge len b.frag with
  | some f => some ⟨a.span ++ b.span, f⟩
  | none => none

/-- `Contacts::is_contacting`: any fragment of `other` touches any fragment of `self` -/
def contactsContacting (len : List Char → Nat) (a b : List FragSpan) : Bool :=
  b.any fun fb => a.reverse.any fun fa => fa.frag.isContacting len fb.frag

/-- `Contacts::merge` -/
def contactsMerge (len : List Char → Nat) (a b : List FragSpan) : Option (List FragSpan) :=
  if contactsContacting len a b then some (a ++ b) else none

/-- `Cell::is_adjacent` -/
def Cell.isAdjacent (a b : Cell) : Bool := (b.x - a.x).natAbs ≤ 1 && (b.y - a.y).natAbs ≤ 1

/-- `Span::merge`: some cell of one is adjacent (8-neighbourhood) to some cell of the other -/
def spanMerge (a b : List (Cell × Char)) : Option (List (Cell × Char)) :=
  if a.reverse.any (fun ca => b.any fun cb => ca.1.isAdjacent cb.1) then some (a ++ b) else none

/-- `Span::merge_recursive` -/
def spansOf (items : List (List (Cell × Char))) : List (List (Cell × Char)) :=
  G.mergeRec spanMerge (items.length + 1) items

end Svgbob

import Svgbob.Model.FragOps
/-!
# Endorsing a contact group as a rectangle (`endorse.rs`)
-/
namespace Svgbob

/-- `Line::is_aabb_parallel` lifted to fragments (`Fragment::is_aabb_parallel`) -/
def Frag.isAabbParallel : Frag → Frag → Bool
  | .line s e _, .line s' e' _ =>
    (s.y == e.y && s'.y == e'.y && s.x == s'.x && e.x == e'.x) ||
    (s.x == e.x && s'.x == e'.x && s.y == s'.y && e.y == e'.y)
  | _, _ => false

/-- `Line::is_aabb_perpendicular` -/
def lineAabbPerpendicular (s e s' e' : Pt) : Bool :=
  (s.y == e.y && s'.x == e'.x) || (s.x == e.x && s'.y == e'.y)

/-- `parallel_aabb_group` (`endorse.rs:149-167`): scan all ordered index pairs, take a pair when
neither index is used yet and the two fragments are aabb-parallel -/
def parallelAabbGroup (frags : List Frag) : List (Nat × Nat) :=
  let n := frags.length
  let idx := List.range n
  (idx.flatMap fun i => idx.map fun j => (i, j)).foldl
    (fun acc ij =>
      let i := ij.1
      let j := ij.2
      if i != j && !(acc.any fun p => i == p.1 || i == p.2 || j == p.1 || j == p.2) &&
          (match frags[i]?, frags[j]? with
           | some a, some b => a.isAabbParallel b
           | _, _ => false) then acc ++ [(i, j)] else acc) []

/-- exact version of `Arc::is_aabb_right_angle_arc`: the centre computed by `Arc::center` lies at
`(start.x, end.y)` or `(end.x, start.y)`; in exact arithmetic that is the case iff both legs of the
chord equal the radius -/
def Frag.isRightAngleArc : Frag → Bool
  | .arc s e r _ _ => (e.x - s.x).natAbs == r.natAbs && (e.y - s.y).natAbs == r.natAbs
  | _ => false

/-- `right_angle_arcs` -/
def rightAngleArcs (frags : List Frag) : List Nat :=
  (List.range frags.length).filter fun i =>
    match frags[i]? with
    | some f => f.isRightAngleArc
    | none => false

def boundsAllPoints (frags : List Frag) : List Pt :=
  frags.flatMap fun f => let b := f.bounds (fun _ => 0) 1000; [b.1, b.2]

def ptListMin : List Pt → Option Pt
  | [] => none
  | p :: ps => some (ps.foldl (fun a b => if b.cmp a == .lt then b else a) p)

def ptListMax : List Pt → Option Pt
  | [] => none
  | p :: ps => some (ps.foldl (fun a b => if b.cmp a != .lt then b else a) p)

/-- the four sides of the common bounding box of the fragments: top, bottom, left, right -/
def boundsSides (frags : List Frag) : List (Pt × Pt) :=
  let pts := boundsAllPoints frags
  let minX := listMin (pts.map (·.x)) 0
  let maxX := listMax (pts.map (·.x)) 0
  let minY := listMin (pts.map (·.y)) 0
  let maxY := listMax (pts.map (·.y)) 0
  [(⟨minX, minY⟩, ⟨maxX, minY⟩), (⟨minX, maxY⟩, ⟨maxX, maxY⟩),
   (⟨minX, minY⟩, ⟨minX, maxY⟩), (⟨maxX, minY⟩, ⟨maxX, maxY⟩)]

/-- `lines_are_the_sides_of_their_bounds`: each side of the common bounding box is one of the
lines of the group -/
def linesAreSides (frags : List Frag) : Bool :=
  (boundsSides frags).all fun se => frags.any fun f =>
    match f with
    | .line s e _ => s == se.1 && e == se.2
    | _ => false

/-- `is_rect` -/
def isRect (frags : List Frag) : Bool :=
  if frags.length == 4 then
    match parallelAabbGroup frags with
    | [(a1, a2), (b1, b2)] =>
      match frags[a1]?, frags[b1]?, frags[a2]?, frags[b2]? with
      | some (.line s1 e1 _), some (.line s2 e2 _), some (.line s3 e3 _), some (.line s4 e4 _) =>
        (lineTouching s1 e1 s2 e2 && lineAabbPerpendicular s1 e1 s2 e2) &&
        (lineTouching s3 e3 s4 e4 && lineAabbPerpendicular s3 e3 s4 e4) &&
        linesAreSides frags
      | _, _, _, _ => false
    | _ => false
  else false

/-- `endorse_rect` -/
def endorseRect (frags : List Frag) : Option Frag :=
  if isRect frags then
    let pts := boundsAllPoints frags
    match ptListMin pts, ptListMax pts with
    | some mn, some mx => some (mkRect mn mx false (frags.any Frag.isBroken))
    | _, _ => none
  else none

/-- `is_rounded_rect` -/
def isRoundedRect (frags : List Frag) : Bool × Option Int :=
  if frags.length == 8 then
    match parallelAabbGroup frags, rightAngleArcs frags with
    | [(a1, a2), (b1, b2)], [r0, _, _, _] =>
      match frags[r0]?, frags[a1]?, frags[b1]?, frags[a2]?, frags[b2]? with
      | some (.arc _ _ r _ _), some (.line s1 e1 _), some (.line s2 e2 _), some (.line s3 e3 _),
          some (.line s4 e4 _) =>
        (lineAabbPerpendicular s1 e1 s2 e2 && lineAabbPerpendicular s3 e3 s4 e4, some r)
      | _, _, _, _, _ => (false, none)
    | _, _ => (false, none)
  else (false, none)

/-- `endorse_rounded_rect` -/
def endorseRoundedRect (frags : List Frag) : Option Frag :=
  match isRoundedRect frags with
  | (true, some r) =>
    let pts := boundsAllPoints frags
    match ptListMin pts, ptListMax pts with
    | some mn, some mx => some (mkRect mn mx false (frags.any Frag.isBroken) (some r))
    | _, _ => none
  | _ => none

/-- `Contacts::endorse_rect` -/
def contactsEndorseRect (frags : List Frag) : Option Frag :=
  match endorseRect frags with
  | some r => some r
  | none => endorseRoundedRect frags

end Svgbob

import Svgbob.Model.Node
import Svgbob.Model.Merge
import Svgbob.Model.Parser
/-!
# From fragments to the SVG document

`cell_buffer.rs:102-132, 212-251, 373-416` (root, style/defs/backdrop, groups),
`fragment_tree.rs` (containment forest, `{tags}`), the `From<…> for Node` impls of the fragments.
-/
namespace Svgbob

/-- the part of `Settings` the document structure depends on; colours, fonts and stroke width only
enter through the captured base style sheet `css0` (output of the `jss!` macro) -/
structure Cfg where
  /-- `scale = scaleN / scaleD` -/
  scaleN : Nat
  scaleD : Nat
  includeBackdrop : Bool
  includeStyles : Bool
  includeDefs : Bool
  css0 : List Char
  /-- `to_svg_with_override_size`: numerators over `den` -/
  overrideSize : Option (Int × Int)
deriving Repr, Inhabited

/-- common denominator of all scaled numbers of a document -/
def Cfg.den (c : Cfg) : Nat := 1000 * c.scaleD

/-- value of `1.0` (unscaled) in scaled units -/
def Cfg.unit (c : Cfg) : Int := 1000 * c.scaleD

def Pt.scale (k : Int) (p : Pt) : Pt := ⟨p.x * k, p.y * k⟩

/-- `CellText → Text`: anchored at grid point `q` of its first cell -/
def cellTextAnchor (st : Cell) : Pt := st.origin.add ⟨250, 1500⟩

/-- `Fragment::scale` (a `CellText` becomes a `Text` first) -/
def Frag.scale (k : Int) : Frag → Frag
  | .line s e b => .line (s.scale k) (e.scale k) b
  | .markerLine s e b sm em => .markerLine (s.scale k) (e.scale k) b sm em
  | .circle c r f => .circle (c.scale k) (r * k) f
  | .arc s e r m sw => .arc (s.scale k) (e.scale k) (r * k) m sw
  | .polygon pts f t => .polygon (pts.map (Pt.scale k)) f t
  | .rect s e f r b => .rect (s.scale k) (e.scale k) f (r.map (· * k)) b
  | .cellText st c => .text ((cellTextAnchor st).scale k) c
  | .text st c => .text (st.scale k) c

/-- is the character representable in an XML 1.0 document (`Char` production, §2.2)? -/
def xmlChar (c : Char) : Bool :=
  let n := c.toNat
  n == 0x9 || n == 0xA || n == 0xD || (0x20 ≤ n && n ≤ 0xD7FF) || (0xE000 ≤ n && n ≤ 0xFFFD) ||
    (0x10000 ≤ n && n ≤ 0x10FFFF)

/-- `replace_html_char` (`text.rs:156-166`) -/
def replaceHtmlChar (c : Char) : List Char :=
  if c == '>' then "&gt;".toList
  else if c == '<' then "&lt;".toList
  else if c == '&' then "&amp;".toList
  else if c == '\'' then "&#39;".toList
  else if c == '"' then "&quot;".toList
  else if c == '\r' then "&#13;".toList
  else if xmlChar c then [c]
  else []

/-- `escape_html_text` -/
def escapeHtmlText (s : List Char) : List Char := s.flatMap replaceHtmlChar

def Marker.name : Marker → String
  | .arrow => "arrow" | .clearArrow => "clear_arrow" | .circle => "circle" | .square => "square"
  | .diamond => "diamond" | .openCircle => "open_circle" | .bigOpenCircle => "big_open_circle"

def flagClass (a b : String) (flag : Bool) : AttrVal := .lit (if flag then a else b)

/-- `impl From<Fragment> for Node` on an already scaled fragment -/
def Frag.toNode : Frag → Node
  | .line s e b =>
    .elem .line [(.x1, [.num s.x]), (.y1, [.num s.y]), (.x2, [.num e.x]), (.y2, [.num e.y]),
      (.class, [flagClass "broken" "solid" b])] []
  | .markerLine s e b sm em =>
    .elem .line ([(.x1, [.num s.x]), (.y1, [.num s.y]), (.x2, [.num e.x]), (.y2, [.num e.y]),
      (.class, [flagClass "broken" "solid" b])] ++
      (match sm with | some m => [(AttrName.class, [AttrVal.lit ("start_marked_" ++ m.name)])] | none => []) ++
      (match em with | some m => [(AttrName.class, [AttrVal.lit ("end_marked_" ++ m.name)])] | none => [])) []
  | .circle c r f =>
    .elem .circle [(.cx, [.num c.x]), (.cy, [.num c.y]), (.r, [.num r]),
      (.class, [flagClass "filled" "nofill" f])] []
  | .arc s e r m sw =>
    .elem .path [(.d, [.seq [.lit "M ", .num s.x, .lit ",", .num s.y, .lit " A ", .num r, .lit ",",
        .num r, .lit " 0,", .lit (if m then "1" else "0"), .lit ",", .lit (if sw then "1" else "0"),
        .lit " ", .num e.x, .lit ",", .num e.y]]),
      (.class, [.lit "nofill"])] []
  | .polygon pts f _ =>
    .elem .polygon [(.points, [.seq (joinPieces (pts.map fun p => [.num p.x, .lit ",", .num p.y]))]),
      (.class, [flagClass "filled" "nofill" f])] []
  | .rect s e f r b =>
    .elem .rect [(.x, [.num s.x]), (.y, [.num s.y]), (.width, [.num (e.x - s.x)]),
      (.height, [.num (e.y - s.y)]),
      (.class, [flagClass "broken" "solid" b, flagClass "filled" "nofill" f]),
      (.rx, [match r with | some v => .num v | none => .int 0])] []
  | .cellText st c =>
    let a := cellTextAnchor st
    .elem .text [(.x, [.num a.x]), (.y, [.num a.y])] [.text (escapeHtmlText c)]
  | .text st c =>
    .elem .text [(.x, [.num st.x]), (.y, [.num st.y])] [.text (escapeHtmlText c)]
where
  joinPieces : List (List Piece) → List Piece
    | [] => []
    | [a] => a
    | a :: rest => a ++ Piece.lit " " :: joinPieces rest

/-! ## containment forest (`fragment_tree.rs`) -/

inductive FTree
  | node (frag : Frag) (cssTag : List (List Char)) (enclosing : List FTree)
deriving Repr, Inhabited

def FTree.frag : FTree → Frag | .node f _ _ => f

/-- `Fragment::can_fit` on scaled fragments -/
def canFit (len : List Char → Nat) (unit : Int) (a b : Frag) : Bool :=
  let ba := a.bounds len unit
  let bb := b.bounds len unit
  ba.1.x ≤ bb.1.x && ba.1.y ≤ bb.1.y && ba.2.x ≥ bb.2.x && ba.2.y ≥ bb.2.y

/-- `Fragment::as_css_tag` -/
def Frag.asCssTag : Frag → List (List Char)
  | .cellText _ c => (parseCssTag c).getD []
  | .text _ c => (parseCssTag c).getD []
  | _ => []

mutual
/-- `FragmentTree::enclose_deep_first`: `some t'` = enclosed, `t'` is the updated tree -/
def FTree.encloseDF (len : List Char → Nat) (unit : Int) (other : FTree) : FTree → Option FTree
  | .node f tags kids =>
    match FTree.encloseDFList len unit other kids with
    | some kids' => some (.node f tags kids')
    | none =>
      if canFit len unit f other.frag then
        let ts := other.frag.asCssTag
        if !ts.isEmpty then some (.node f (tags ++ ts) kids)
        else some (.node f tags (kids ++ [other]))
      else none

/-- the `for child in &mut self.enclosing` loop: the first child that encloses -/
def FTree.encloseDFList (len : List Char → Nat) (unit : Int) (other : FTree) :
    List FTree → Option (List FTree)
  | [] => none
  | k :: ks =>
    match FTree.encloseDF len unit other k with
    | some k' => some (k' :: ks)
    | none =>
      match FTree.encloseDFList len unit other ks with
      | some ks' => some (k :: ks')
      | none => none
end

/-- `enclose_recursive` is the generic loop with `merge group item = group.enclose_deep_first(item)` -/
def encloseRecursive (len : List Char → Nat) (unit : Int) (trees : List FTree) : List FTree :=
  G.mergeRec (fun g it => FTree.encloseDF len unit it g) (trees.length + 1) trees

/-- `Element::merge_attributes` for one new attribute: the value list of the FIRST attribute of that
name is extended (a marker line carries several `class` attributes: only the first receives the
tags; the serializer joins all of them later) -/
def extendFirstClass (vals : List AttrVal) :
    List (AttrName × List AttrVal) → List (AttrName × List AttrVal)
  | [] => []
  | a :: rest =>
    if a.1 == AttrName.class then (a.1, a.2 ++ vals) :: rest else a :: extendFirstClass vals rest

/-- append the `{tag}` classes: `merge_attributes(vec![classes(css_tag)])` extends the first existing
`class` attribute or pushes a new (possibly empty) one -/
def addClasses (tags : List (List Char)) : Node → Node
  | .elem t attrs kids =>
    let vals := tags.map AttrVal.token
    if attrs.any (·.1 == AttrName.class) then .elem t (extendFirstClass vals attrs) kids
    else .elem t (attrs ++ [(.class, vals)]) kids
  | n => n

mutual
/-- `FragmentTree::into_nodes`: the fragment is scaled by `k` when it becomes a node -/
def FTree.intoNodes (k : Int) : FTree → List Node
  | .node f tags kids => addClasses tags (f.scale k).toNode :: FTree.intoNodesList k kids

def FTree.intoNodesList (k : Int) : List FTree → List Node
  | [] => []
  | t :: ts => FTree.intoNodes k t ++ FTree.intoNodesList k ts
end

/-- `FragmentTree::fragments_to_node`: the containment forest is built from the fragments at unit
scale (`frag.scale(1.0)`: a `CellText` becomes a `Text`), the nodes are scaled by `k` -/
def fragmentsToNodes (len : List Char → Nat) (k : Int) (frags : List Frag) : List Node :=
  FTree.intoNodesList k (encloseRecursive len 1000 (frags.map fun f => .node (f.scale 1) [] []))

/-! ## the root -/

def markerNode (idv viewBox : String) (rx ry : Int) (kid : Node) : Node :=
  .elem .marker [(.id, [.lit idv]), (.viewBox, [.lit viewBox]), (.refX, [.int rx]), (.refY, [.int ry]),
    (.markerWidth, [.int 7]), (.markerHeight, [.int 7]), (.orient, [.lit "auto-start-reverse"])] [kid]

def markerCircle (r : Int) (cls : String) : Node :=
  .elem .circle [(.cx, [.int 4]), (.cy, [.int 4]), (.r, [.int r]), (.class, [.lit cls])] []

/-- `get_defs` -/
def defsNode : Node :=
  .elem .defs [] [
    markerNode "arrow" "-2 -2 8 8" 4 2 (.elem .polygon [(.points, [.lit "0,0 0,4 4,2 0,0"])] []),
    markerNode "diamond" "-2 -2 8 8" 4 2 (.elem .polygon [(.points, [.lit "0,2 2,0 4,2 2,4 0,2"])] []),
    markerNode "circle" "0 0 8 8" 4 4 (markerCircle 2 "filled"),
    markerNode "open_circle" "0 0 8 8" 4 4 (markerCircle 2 "bg_filled"),
    markerNode "big_open_circle" "0 0 8 8" 4 4 (markerCircle 3 "bg_filled")]

/-- `legend_css` -/
def legendCss (css : List (List Char × List Char)) : List Char :=
  joinNl (css.map fun kv => ".svgbob .".toList ++ kv.1 ++ "{ ".toList ++ kv.2 ++ " }".toList)
where
  joinNl : List (List Char) → List Char
    | [] => []
    | [a] => a
    | a :: rest => a ++ '\n' :: joinNl rest

/-- the style element: base sheet, a newline, the legend rules -/
def styleNode (cfg : Cfg) (css : List (List Char × List Char)) : Node :=
  .elem .style [] [.text (escapeCss (cfg.css0 ++ '\n' :: legendCss css))]
where
  /-- character data of the style element: markup characters of the legend are escaped, characters
  XML cannot carry are dropped; line breaks (also CR) stay, an XML parser normalises them -/
  escapeCss (s : List Char) : List Char := s.flatMap fun c =>
    if c == '<' then "&lt;".toList else if c == '&' then "&amp;".toList
    else if c == '>' then "&gt;".toList
    else if xmlChar c then [c] else []

/-- canvas size `get_size`: numerators over `den` -/
def canvasSize (cfg : Cfg) (cells : List (Cell × Char)) : Int × Int :=
  let mx := listMax (cells.map (·.1.x)) 0
  let my := listMax (cells.map (·.1.y)) 0
  match cells with
  | [] => (2 * 1000 * cfg.scaleN, 2 * 2000 * cfg.scaleN)
  | _ => ((mx + 2) * 1000 * cfg.scaleN, (my + 2) * 2000 * cfg.scaleN)

/-- `get_node_with_size` / `get_node_override_size` given the result of the endorsement stage:
`accepted` top-level fragments (quoted texts already appended) and `groups` -/
def svgRoot (len : List Char → Nat) (cfg : Cfg) (cells : List (Cell × Char))
    (css : List (List Char × List Char)) (accepted : List Frag) (groups : List (List Frag)) : Node :=
  let k : Int := cfg.scaleN
  let (w, h) := match cfg.overrideSize with
    | some wh => wh
    | none => canvasSize cfg cells
  let fragNodes := fragmentsToNodes len k accepted
  let groupNodes := groups.map fun g => Node.elem .g [] (g.map fun f => (f.scale k).toNode)
  .elem .svg [(.xmlns, [.lit "http://www.w3.org/2000/svg"]), (.width, [.num w]), (.height, [.num h]),
      (.class, [.lit "svgbob"])]
    ((if cfg.includeStyles then [styleNode cfg css] else []) ++
     (if cfg.includeDefs then [defsNode] else []) ++
     (if cfg.includeBackdrop then
        [.elem .rect [(.class, [.lit "backdrop"]), (.x, [.int 0]), (.y, [.int 0]), (.width, [.num w]),
          (.height, [.num h])] []] else []) ++
     fragNodes ++ groupNodes)

end Svgbob

import Svgbob.Model.Geom
/-!
# Character properties: signatures and behaviours (`property.rs`, `ascii_map.rs`, `unicode_map.rs`)

The behaviour closures of `ascii_map.rs` are deep-embedded as `Cond` expressions so that facts
about the tables can be decided by evaluation over the *regenerated* table (`Gen/AsciiTable.lean`).
-/
namespace Svgbob

inductive Signal | faint | weak | medium | strong
deriving DecidableEq, Repr, Inhabited

/-- `Signal::intensity` -/
def Signal.intensity : Signal → Nat
  | .faint => 1 | .weak => 2 | .medium => 3 | .strong => 4

/-- the eight neighbours, in the argument order of the behaviour closures -/
inductive Dir | topLeft | top | topRight | left | right | bottomLeft | bottom | bottomRight
deriving DecidableEq, Repr, Inhabited

def Dir.all : List Dir :=
  [.topLeft, .top, .topRight, .left, .right, .bottomLeft, .bottom, .bottomRight]

/-- offset of the neighbour cell -/
def Dir.delta : Dir → Int × Int
  | .topLeft => (-1, -1) | .top => (0, -1) | .topRight => (1, -1)
  | .left => (-1, 0) | .right => (1, 0)
  | .bottomLeft => (-1, 1) | .bottom => (0, 1) | .bottomRight => (1, 1)

/-- conditions of the behaviour tables: `nb.is(ch)`, `nb.line_overlap(p,q)` (at least `Medium`),
`nb.line_strongly_overlap`, `nb.line_weakly_overlap`, `nb.arcs_to(p,q)`, `!`, `&&`, `||`, `true` -/
inductive Cond
  | tt
  | is (d : Dir) (c : Char)
  | overlap (d : Dir) (p q : Pt) (atLeast : Signal)
  | arcsTo (d : Dir) (p q : Pt)
  | not (c : Cond)
  | and (a b : Cond)
  | or (a b : Cond)
deriving Repr, Inhabited

/-- one character of `ASCII_PROPERTIES`; a glyph of `UNICODE_FRAGMENTS` becomes an entry through
`Property::with_strong_fragments` -/
structure Entry where
  ch : Char
  signature : List (Signal × List Frag)
  behavior : List (Cond × List Frag)
deriving Repr, Inhabited

/-- `Property::empty()`: what a cell without a property looks like to its neighbours -/
def Entry.empty : Entry := { ch := ' ', signature := [], behavior := [] }

/-- `Property::with_strong_fragments` -/
def Entry.ofGlyph (ch : Char) (frags : List Frag) : Entry :=
  { ch := ch, signature := [(.strong, frags)], behavior := [(.tt, frags)] }

/-- exact "point lies on the closed segment" (the code asks parry's `Segment::contains_point`) -/
def onSegment (s e p : Pt) : Bool :=
  (e.x - s.x) * (p.y - s.y) - (e.y - s.y) * (p.x - s.x) == 0 &&
  min s.x e.x ≤ p.x && p.x ≤ max s.x e.x && min s.y e.y ≤ p.y && p.y ≤ max s.y e.y

/-- `Fragment::line_overlap` -/
def Frag.lineOverlap (a b : Pt) : Frag → Bool
  | .line s e _ => onSegment s e a && onSegment s e b
  | _ => false

/-- `Fragment::arcs_to` via `Arc::arcs_to` -/
def Frag.arcsTo (a b : Pt) : Frag → Bool
  | .arc s e _ _ sw =>
    match mkArc a b 1000 with
    | .arc s' e' _ _ sw' => s == s' && e == e' && sw == sw'
    | _ => false
  | _ => false

/-- `Property::line_overlap_with_signal` -/
def Entry.lineOverlap (en : Entry) (a b : Pt) (required : Signal) : Bool :=
  en.signature.any fun sf => required.intensity ≤ sf.1.intensity && sf.2.any (Frag.lineOverlap a b)

/-- `Property::arcs_to` -/
def Entry.arcsTo (en : Entry) (a b : Pt) : Bool :=
  en.signature.any fun sf => sf.2.any (Frag.arcsTo a b)

/-- evaluation of a condition against the eight neighbour properties -/
def Cond.eval (nb : Dir → Entry) : Cond → Bool
  | .tt => true
  | .is d c => (nb d).ch == c
  | .overlap d p q s => (nb d).lineOverlap p q s
  | .arcsTo d p q => (nb d).arcsTo p q
  | .not c => !c.eval nb
  | .and a b => a.eval nb && b.eval nb
  | .or a b => a.eval nb || b.eval nb

/-- `Property::fragments`: the fragments of all behaviour rows whose condition holds, in order -/
def Entry.fragments (en : Entry) (nb : Dir → Entry) : List Frag :=
  en.behavior.flatMap fun cf => if cf.1.eval nb then cf.2 else []

/-- edge case of a circle drawing (`circle_map.rs`, `Horizontal`) -/
inductive Horizontal | leftEdge | half
deriving DecidableEq, Repr, Inhabited

/-- one row of `CIRCLE_ART_MAP`: the drawing, the edge case, the centre offsets (milli-cells)
and the centre cell of the arc table -/
structure CircleArtRow where
  art : String
  edge : Horizontal
  offsetX : Int
  offsetY : Int
  arcCenter : Cell
deriving Repr, Inhabited

end Svgbob

import Svgbob.Model.Front
import Svgbob.Model.Pipeline
import Svgbob.Model.Doc
/-!
# The whole conversion: text → document

`to_svg_with_settings` / `to_svg_with_override_size` up to serialisation: front end (legend cut-off,
rows, quoted texts, cells), endorsement stage, root element. `none` = a panic site of the
endorsement stage was reached (never: `C01.conversion_total`).
-/
namespace Svgbob

def convertDoc (env : Env) (cfg : Cfg) (cat : Catalogue) (input : List Char) : Option Node :=
  let fo := front env input
  match endorseAll (segColumns env) cat fo.cells fo.escaped with
  | none => none
  | some (fs, gs) =>
    some (svgRoot (segColumns env) cfg fo.cells fo.css (fs.map (·.frag)) (gs.map fun g => g.map (·.frag)))

end Svgbob

/-!
# The generic greedy merge loop (`merge.rs`)

`second_pass_merge`: for each item try the groups collected so far from the **last** to the
first and replace the first that merges, else push the item; `merge_recursive` repeats while the
number of groups shrinks. Shared by spans, fragments, contact groups and the containment forest.
-/
namespace Svgbob.G
variable {α : Type}

def mergeIntoRev (merge : α → α → Option α) : List α → α → Option (List α)
  | [], _ => none
  | g :: gs, it =>
    match mergeIntoRev merge gs it with
    | some gs' => some (g :: gs')
    | none => match merge g it with
      | some m => some (m :: gs)
      | none => none

def step (merge : α → α → Option α) (acc : List α) (it : α) : List α :=
  match mergeIntoRev merge acc it with
  | some acc' => acc'
  | none => acc ++ [it]

def pass (merge : α → α → Option α) (items : List α) : List α :=
  items.foldl (step merge) []

def mergeRec (merge : α → α → Option α) : Nat → List α → List α
  | 0, l => l
  | n+1, l => let m := pass merge l; if m.length < l.length then mergeRec merge n m else m


end Svgbob.G

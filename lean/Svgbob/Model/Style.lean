/-!
# The base style sheet (`CellBuffer::style`)

The `sauron::jss!` block is regenerated as data (`Gen/StyleSheet.lean`); this file gives the values a
declaration can have and the rendering of the block as the macro prints it.
-/
namespace Svgbob

/-- a declaration value: a literal of the source, or one of the settings -/
inductive StyleVal
  | lit (s : String)
  | strokeColor | strokeWidth | background | fillColor | fontFamily | fontSizePx
deriving Repr, DecidableEq

/-- the settings as the style sheet prints them (`stroke_width` through `f32`'s `Display`,
`font_size` as an integer) -/
structure StyleParams where
  strokeColor : List Char
  strokeWidth : List Char
  background : List Char
  fillColor : List Char
  fontFamily : List Char
  fontSize : List Char

def StyleVal.render (p : StyleParams) : StyleVal → List Char
  | .lit s => s.toList
  | .strokeColor => p.strokeColor
  | .strokeWidth => p.strokeWidth
  | .background => p.background
  | .fillColor => p.fillColor
  | .fontFamily => p.fontFamily
  | .fontSizePx => p.fontSize ++ ['p', 'x']

/-- one rule: `selector {⏎  name: value;⏎ … }⏎` -/
def renderRule (p : StyleParams) (r : String × List (String × StyleVal)) : List Char :=
  r.1.toList ++ [' ', '{', '\n'] ++
    r.2.flatMap (fun d => [' ', ' '] ++ d.1.toList ++ [':', ' '] ++ d.2.render p ++ [';', '\n']) ++ ['}', '\n']

/-- the block: rules separated by an empty line -/
def renderRules (p : StyleParams) : List (String × List (String × StyleVal)) → List Char
  | [] => []
  | [r] => renderRule p r
  | r :: rs => renderRule p r ++ ['\n'] ++ renderRules p rs

end Svgbob

import Svgbob.Model.CircleMap
import Svgbob.Model.Endorse
import Svgbob.Gen.AsciiTable
import Svgbob.Gen.UnicodeTable
/-!
# The middle of the pipeline: cells → spans → fragments → contact groups → endorsed shapes

`cell_buffer.rs:134-251, 621-627`, `span.rs:134-344`, `property_buffer.rs:139-203`,
`fragment_buffer.rs`, `contacts.rs`.  `none` stands for a panic of the code
(`bounds().expect(..)` on an empty span).
-/
namespace Svgbob

variable (len : List Char → Nat)

/-- `Iterator::map(..).collect()` over a step that can panic: the first `none` aborts -/
def mapOpt {α β : Type} (f : α → Option β) : List α → Option (List β)
  | [] => some []
  | x :: xs =>
    match f x, mapOpt f xs with
    | some y, some ys => some (y :: ys)
    | _, _ => none

/-- `Fragment::cmp` as used by the sorts of the pipeline (unscaled fragments) -/
def fcmp (a b : Frag) : Ordering := Frag.cmp len a b

/-- `ASCII_PROPERTIES.get`: the table is inserted into a `BTreeMap` row by row, a later row for
the same character replaces an earlier one -/
def asciiEntry (ch : Char) : Option Entry := Gen.asciiTable.reverse.find? (·.ch == ch)

/-- `UNICODE_FRAGMENTS.get`: last row wins, fragments sorted when the table is built -/
def unicodeFrags (ch : Char) : Option (List Frag) :=
  (Gen.unicodeTable.reverse.find? (·.1 == ch)).map fun p => sortBy (fcmp len) p.2

/-- `Property::from_char` -/
def entryOf (ch : Char) : Option Entry :=
  match asciiEntry ch with
  | some e => some e
  | none => (unicodeFrags len ch).map (Entry.ofGlyph ch)

def spanLookup (s : Span) (c : Cell) : Option Char := (s.find? (·.1 == c)).map (·.2)

/-- the neighbour properties of a cell inside its span (`property_buffer.rs:141-178`) -/
def neighbours (s : Span) (c : Cell) (d : Dir) : Entry :=
  match spanLookup s ⟨c.x + d.delta.1, c.y + d.delta.2⟩ with
  | some ch => (entryOf len ch).getD Entry.empty
  | none => Entry.empty

/-- `Fragment::merge_recursive` on plain fragments -/
def fragMergeRecursive (fs : List Frag) : List Frag :=
  G.mergeRec (Frag.merge len) (fs.length + 1) fs

/-- the cell-local, sorted fragments of one cell (`From<PropertyBuffer> for FragmentBuffer` and the
no-property branch of `From<Span> for FragmentBuffer`) -/
def cellFragments (s : Span) (c : Cell) (ch : Char) : List Frag :=
  match entryOf len ch with
  | some en =>
    let fs := en.fragments (neighbours len s c)
    if !fs.isEmpty then sortBy (fcmp len) fs
    else match unicodeFrags len ch with
      | some ufs => sortBy (fcmp len) (fragMergeRecursive len ufs)
      | none => [.cellText ⟨0, 0⟩ [ch]]
  | none => [.cellText ⟨0, 0⟩ [ch]]

/-- the fragment buffer: a `BTreeMap<Cell, Vec<FragmentSpan>>`, i.e. a list sorted by cell -/
abbrev FragBuf := List (Cell × List FragSpan)

/-- `add_fragments_to_cell` for a cell not yet present / `add_fragment_span_to_cell` otherwise -/
def FragBuf.insert (c : Cell) (fs : List FragSpan) : FragBuf → FragBuf
  | [] => [(c, fs)]
  | (c', fs') :: rest =>
    if c == c' then
      -- the cell is already there (a duplicate cell of a re-assembled span): fragments that are
      -- already contained are skipped, the rest is appended and the cell re-sorted
      let extra := fs.filter fun f => !fs'.contains f
      (c', (sortBy (fun a b => fcmp len a.frag b.frag) (fs' ++ extra))) :: rest
    else if c.cmp c' == .lt then (c, fs) :: (c', fs') :: rest
    else (c', fs') :: FragBuf.insert c fs rest

/-- `FragmentBuffer::from(span)` visiting the cells in the order `perm` (the code walks a
`HashMap`, whose order is arbitrary; see C07) -/
def fragmentBuffer (s : Span) (perm : Span) : FragBuf :=
  perm.foldl (fun fb cc =>
    FragBuf.insert len cc.1 ((cellFragments len s cc.1 cc.2).map fun f => ⟨[cc], f⟩) fb) []

/-- `abs_fragment_spans` -/
def absFragmentSpans (fb : FragBuf) : List FragSpan :=
  fb.flatMap fun cf => cf.2.map fun f => ⟨f.span, f.frag.absPos cf.1⟩

/-- `Vec<Contacts>::from(span)`: fragments, merged, grouped by contact -/
def contactsOf (s : Span) : List (List FragSpan) :=
  let frags := absFragmentSpans (fragmentBuffer len s s)
  let merged := G.mergeRec (FragSpan.merge len) (frags.length + 1) frags
  let groups := merged.map fun f => [f]
  G.mergeRec (contactsMerge len) (groups.length + 1) groups

/-- `Contacts::span` -/
def groupSpan (g : List FragSpan) : Span := g.flatMap (·.span)

/-- `Contacts::endorse_rects` -/
def endorseRects (groups : List (List FragSpan)) : List FragSpan × List (List FragSpan) :=
  groups.foldl (fun acc g =>
    match contactsEndorseRect (g.map (·.frag)) with
    | some r => (acc.1 ++ [⟨groupSpan g, r⟩], acc.2)
    | none => (acc.1, acc.2 ++ [g])) ([], [])

/-- `Span::endorse`: (accepted fragments, rejected spans) -/
def spanEndorse (cat : Catalogue) (s : Span) : Option (List FragSpan × List Span) :=
  match endorseArcsAndCircles cat s with
  | none => none
  | some (acc1, rest) =>
    let (rects, rejects) := endorseRects (contactsOf len rest)
    let spans2 := spansOf (rejects.map groupSpan)
    match mapOpt (endorseArcsAndCircles cat) spans2 with
    | none => none
    | some rs => some (acc1 ++ rects ++ rs.flatMap (·.1), rs.map (·.2))

/-- `CellBuffer::endorse_to_fragment_spans` followed by the append of the quoted texts:
(top-level fragments, groups) -/
def endorseAll (cat : Catalogue) (cells : Span) (escaped : List (Cell × List Char)) :
    Option (List FragSpan × List (List FragSpan)) :=
  let spans := spansOf (cells.map fun cc => [cc])
  match mapOpt (spanEndorse len cat) spans with
  | none => none
  | some rs =>
    let endorsed := rs.flatMap (·.1)
    let contacts := rs.flatMap fun r => r.2.flatMap (contactsOf len)
    let singles := (contacts.filter (·.length == 1)).flatMap id
    let groups := contacts.filter (·.length != 1)
    let texts : List FragSpan := escaped.map fun e =>
      ⟨(List.range e.2.length).zip e.2 |>.map fun ic => (⟨e.1.x + ic.1, e.1.y⟩, ic.2), .cellText e.1 e.2⟩
    some (endorsed ++ singles ++ texts, groups)

end Svgbob

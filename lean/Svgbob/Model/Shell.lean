import Svgbob.Model.Basic
/-!
# The two shells around the library: command line tool and HTTP server

`svgbob_cli/src/main.rs` and `svgbob_server/src/main.rs`. The library conversion is a parameter
(`conv`), clap's argv parsing, number parsing and the file system are an abstract `World`; what is
modelled is the decision logic of the shells.
-/
namespace Svgbob

/-- settings as the CLI passes them on (strings uninterpreted; `scaleMul` multiplies the default 8) -/
structure CliSettings where
  background : Option String := none
  fillColor : Option String := none
  fontFamily : Option String := none
  fontSize : Option String := none       -- raw text, parsed with `parseUsize`
  strokeWidth : Option String := none    -- raw text, parsed with `parseF32`
  strokeColor : Option String := none
  scale : Option String := none          -- raw text, parsed with `parseF32`
deriving Repr, DecidableEq

/-- how the input is given -/
inductive CliInput
  | inlineStr (s : Option String)       -- `-s <text>`; `none`: `-s` without a text (the code unwraps)
  | file (path : String)
  | stdin
deriving Repr, DecidableEq

structure CliArgs where
  input : CliInput
  output : Option String
  settings : CliSettings
deriving Repr, DecidableEq

/-- result of reading: the text, an I/O error message, or bytes that are not UTF-8 (the code
`unwrap`s `read_to_string`, i.e. panics) -/
inductive ReadResult
  | ok (text : String)
  | ioError (msg : String)
  | notUtf8
deriving Repr, DecidableEq

/-- the outside world as far as the tool looks at it -/
structure World where
  readFile : String → ReadResult
  stdin : ReadResult
  /-- `fs::write`: `none` = success, `some msg` = failure (nothing is written on failure) -/
  writeFile : String → String → Option String
  /-- `str::parse::<usize>` and `str::parse::<f32>` (trusted: Rust's parsers); error text on failure -/
  parseUsize : String → Except String Nat
  parseF32 : String → Except String String   -- the parsed value in a canonical rendering

/-- what a run of the tool does -/
structure CliOutcome where
  stdout : String
  stderr : String
  exit : Nat
  /-- files written: path and content -/
  written : List (String × String)
deriving Repr, DecidableEq

/-- the resolved settings handed to the library (defaults when an option is absent) -/
structure ResolvedSettings where
  background : String
  fillColor : String
  fontFamily : String
  fontSize : Nat
  strokeWidth : String
  strokeColor : String
  /-- factor applied to the default scale 8 (`settings.scale *= s`); `none` = default -/
  scaleMul : Option String
deriving Repr, DecidableEq

def defaultResolved : ResolvedSettings :=
  { background := "white", fillColor := "black", fontFamily := "Iosevka Fixed, monospace",
    fontSize := 14, strokeWidth := "2", strokeColor := "black", scaleMul := none }

/-- Rust's `str::replace("\\n", "\n")` on the inline argument -/
def replaceBackslashN : List Char → List Char
  | '\\' :: 'n' :: rest => '\n' :: replaceBackslashN rest
  | c :: rest => c :: replaceBackslashN rest
  | [] => []

/-- exit status of a Rust panic in `main` -/
def panicExit : Nat := 101

/-- an outcome that is a failure: nothing written, nothing on standard output -/
def failure (stderr : String) (exit : Nat) : CliOutcome := ⟨"", stderr, exit, []⟩

/-- step 1 of `main()`: read the input text -/
def readInput (w : World) (a : CliArgs) : Except CliOutcome String :=
  match a.input with
  | .inlineStr (some s) => .ok (String.ofList (replaceBackslashN s.toList))
  | .inlineStr none => .error (failure "panic" panicExit)
  | .file p =>
    match w.readFile p with
    | .ok t => .ok t
    | .ioError msg => .error (failure ("Failed to open input file " ++ p ++ ": " ++ msg ++ "\n") 1)
    | .notUtf8 => .error (failure "panic" panicExit)
  | .stdin =>
    match w.stdin with
    | .ok t => .ok t
    | _ => .error (failure "panic" panicExit)

def illegalValue (name msg : String) : CliOutcome :=
  failure ("Illegal value for argument " ++ name ++ ": " ++ msg ++ "\n") 1

/-- step 2: the settings, in the order of the code (font-size, stroke-width, then scale) -/
def resolveSettings (w : World) (s : CliSettings) : Except CliOutcome ResolvedSettings :=
  let r0 : ResolvedSettings :=
    { defaultResolved with
      background := s.background.getD defaultResolved.background
      fillColor := s.fillColor.getD defaultResolved.fillColor
      fontFamily := s.fontFamily.getD defaultResolved.fontFamily }
  let r1 : Except CliOutcome ResolvedSettings :=
    match s.fontSize with
    | none => .ok r0
    | some t => match w.parseUsize t with
      | .ok n => .ok { r0 with fontSize := n }
      | .error m => .error (illegalValue "font-size" m)
  match r1 with
  | .error o => .error o
  | .ok r1 =>
    let r2 : Except CliOutcome ResolvedSettings :=
      match s.strokeWidth with
      | none => .ok r1
      | some t => match w.parseF32 t with
        | .ok v => .ok { r1 with strokeWidth := v }
        | .error m => .error (illegalValue "stroke-width" m)
    match r2 with
    | .error o => .error o
    | .ok r2 =>
      let r3 := { r2 with strokeColor := s.strokeColor.getD r2.strokeColor }
      match s.scale with
      | none => .ok r3
      | some t => match w.parseF32 t with
        | .ok v => .ok { r3 with scaleMul := some v }
        | .error m => .error (illegalValue "scale" m)

/-- step 3: convert and write. `conv` is the library's `to_svg_with_settings`; `none` = the
conversion panicked. -/
def convertAndWrite (w : World) (conv : String → ResolvedSettings → Option String)
    (output : Option String) (bob : String) (r : ResolvedSettings) : CliOutcome :=
  match conv bob r with
  | none => failure "panic" panicExit
  | some svg =>
    match output with
    | none => ⟨svg ++ "\n", "", 0, []⟩
    | some path =>
      match w.writeFile path svg with
      | none => ⟨"", "", 0, [(path, svg)]⟩
      | some msg => failure ("Failed to write to output file " ++ path ++ ": " ++ msg ++ "\n") 2

/-- the main path of `main()` (everything except the `build` subcommand) -/
def cliMain (w : World) (conv : String → ResolvedSettings → Option String) (a : CliArgs) : CliOutcome :=
  match readInput w a with
  | .error o => o
  | .ok bob =>
    match resolveSettings w a.settings with
    | .error o => o
    | .ok r => convertAndWrite w conv a.output bob r

/-- one file of the batch mode: `(input path, output path, what reading gave)` -/
structure BuildFile where
  inPath : String
  outPath : String
  content : ReadResult
deriving Repr, DecidableEq

/-- one file of the batch loop: `(outcome so far, number of files that failed)` -/
def buildStep (w : World) (conv : String → ResolvedSettings → Option String)
    (acc : CliOutcome × Nat) (f : BuildFile) : CliOutcome × Nat :=
  let o := acc.1
  let line := f.inPath ++ " => " ++ f.outPath ++ "\n"
  match f.content with
  | .ok text =>
    match conv text defaultResolved with
    | none => ({ o with stdout := o.stdout ++ line, exit := panicExit }, acc.2 + 1)
    | some svg =>
      match w.writeFile f.outPath svg with
      | none => ({ o with stdout := o.stdout ++ line, written := o.written ++ [(f.outPath, svg)] }, acc.2)
      | some msg => ({ o with stdout := o.stdout ++ line ++ msg ++ "\n" }, acc.2 + 1)
  | .ioError msg => ({ o with stdout := o.stdout ++ line ++ msg ++ "\n" }, acc.2 + 1)
  | .notUtf8 => ({ o with stdout := o.stdout ++ line, exit := panicExit }, acc.2 + 1)

/-- `build` subcommand after the directory has been listed: every matching file is converted with
the default settings; the status is zero exactly when every file was converted and written -/
def cliBuild (w : World) (conv : String → ResolvedSettings → Option String) (dirOk : Bool)
    (files : List BuildFile) : CliOutcome :=
  if !dirOk then ⟨"[Error]: No such dir\n", "", 1, []⟩ else
  let r := files.foldl (buildStep w conv) (⟨"", "", 0, []⟩, 0)
  if r.1.exit == panicExit then r.1
  else if r.2 == 0 then { r.1 with exit := 0 } else { r.1 with exit := 1 }

/-! ## HTTP server -/

inductive Method | get | post | other
deriving Repr, DecidableEq

structure Request where
  method : Method
  path : String
  /-- the body as bytes; `utf8` is its decoding when it is valid UTF-8 -/
  utf8 : Option String
  /-- body length in bytes -/
  size : Nat
deriving Repr, DecidableEq

structure Response where
  status : Nat
  body : String
deriving Repr, DecidableEq

/-- axum's default body limit for `Bytes` -/
def bodyLimit : Nat := 2 * 1024 * 1024

/-- one request against `Router::new().route("/", get(hello).post(text_to_svgbob))`;
`toSvg` is `svgbob::to_svg`; 404/405/413 are the framework's answers (bodies unspecified) -/
def handle (name version : String) (toSvg : String → String) (r : Request) : Response :=
  if r.path != "/" then ⟨404, ""⟩
  else match r.method with
    | .get => ⟨200, name ++ " " ++ version⟩
    | .post =>
      if r.size > bodyLimit then ⟨413, ""⟩
      else match r.utf8 with
        | some text => ⟨200, toSvg text⟩
        | none => ⟨400, ""⟩
    | .other => ⟨405, ""⟩

/-- the server is stateless: a sequence of requests is answered one by one -/
def serve (name version : String) (toSvg : String → String) (rs : List Request) : List Response :=
  rs.map (handle name version toSvg)

end Svgbob

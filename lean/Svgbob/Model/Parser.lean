import Svgbob.Model.Basic
/-!
# The three pom grammars of `util.rs` (`mod parser`)

Transcribed from `util.rs:93-258` over pom 3.4's combinators (`repeat`, `list`, `one_of`,
`none_of`, `sym`, `tag`, `is_a`, `pos`, `-`, `*`, `+`, `|`): greedy, no backtracking into a
`repeat`, `parse` does not require end of input, `list` never fails.
A parser is a function from the remaining input to `Option (result × remaining input)`.
-/
namespace Svgbob

/-- `pom::char_class::alpha(ch as u8)`: the code truncates the `char` to its low byte. -/
def alphaU8 (c : Char) : Bool :=
  let b := c.toNat % 256
  (65 ≤ b && b ≤ 90) || (97 ≤ b && b ≤ 122)

/-- `pom::char_class::alphanum(ch as u8)` -/
def alnumU8 (c : Char) : Bool :=
  let b := c.toNat % 256
  (65 ≤ b && b ≤ 90) || (97 ≤ b && b ≤ 122) || (48 ≤ b && b ≤ 57)

def identStart (c : Char) : Bool := alphaU8 c || c == '_'
def identCont (c : Char) : Bool := alnumU8 c || c == '_'

def isSpaceTab (c : Char) : Bool := c == ' ' || c == '\t'
def isWhite (c : Char) : Bool := c == ' ' || c == '\t' || c == '\r' || c == '\n'

/-- `space()` = `one_of(" \t").repeat(0..)` -/
def skipSpace (cs : List Char) : List Char := cs.dropWhile isSpaceTab

/-- `ident()` -/
def ident : List Char → Option (List Char × List Char)
  | [] => none
  | c :: cs =>
    if identStart c then some (c :: cs.takeWhile identCont, cs.dropWhile identCont) else none

/-- `sym(c)` -/
def sym (c : Char) : List Char → Option (List Char)
  | [] => none
  | d :: cs => if d == c then some cs else none

/-- `tag(s)` -/
def tagStr : List Char → List Char → Option (List Char)
  | [], cs => some cs
  | _ :: _, [] => none
  | t :: ts, c :: cs => if t == c then tagStr ts cs else none

/-- `new_line()`: a line terminator `\r\n`, `\r` or `\n`. -/
def newLine : List Char → Option (List Char)
  | '\r' :: '\n' :: cs => some cs
  | '\r' :: cs => some cs
  | '\n' :: cs => some cs
  | _ => none

def notBrace (c : Char) : Bool := c != '{' && c != '}'

/-- `css_styles()` = `sym('{') * css_strings() - sym('}')`; `css_strings` takes every character
up to the next brace. -/
def cssStyles (cs : List Char) : Option (List Char × List Char) :=
  match sym '{' cs with
  | none => none
  | some cs1 =>
    match sym '}' (cs1.dropWhile notBrace) with
    | none => none
    | some cs2 => some (cs1.takeWhile notBrace, cs2)

/-- `class_and_style()` -/
def classAndStyle (cs : List Char) : Option ((List Char × List Char) × List Char) :=
  -- the leading `-space()` of the code is pom's look-ahead (`Neg`): it consumes nothing, so an
  -- entry has to start with its identifier
  match ident cs with
  | none => none
  | some (name, cs1) =>
    match sym '=' (skipSpace cs1) with
    | none => none
    | some cs2 =>
      match cssStyles (skipSpace cs2) with
      | none => none
      | some (decl, cs3) => some ((name, decl), skipSpace cs3)

theorem sym_length {c : Char} {cs r : List Char} (h : sym c cs = some r) :
    r.length < cs.length := by
  cases cs with
  | nil => simp [sym] at h
  | cons d cs => simp only [sym] at h; split at h <;> simp_all

theorem newLine_length {cs r : List Char} (h : newLine cs = some r) : r.length < cs.length := by
  unfold newLine at h
  split at h
  · cases h; simp; omega
  · cases h; simp
  · cases h; simp
  · cases h

theorem dropWhile_length_le (p : Char → Bool) (cs : List Char) :
    (cs.dropWhile p).length ≤ cs.length := by
  induction cs with
  | nil => simp
  | cons c cs ih => simp only [List.dropWhile]; split <;> simp <;> omega

theorem ident_length {cs n r : List Char} (h : ident cs = some (n, r)) :
    r.length < cs.length := by
  cases cs with
  | nil => simp [ident] at h
  | cons c cs =>
    simp only [ident] at h
    split at h
    · simp at h; obtain ⟨_, rfl⟩ := h
      have := dropWhile_length_le identCont cs; simp; omega
    · simp at h

theorem cssStyles_length {cs d r : List Char} (h : cssStyles cs = some (d, r)) :
    r.length < cs.length := by
  unfold cssStyles at h
  split at h
  · simp at h
  · rename_i cs1 h1
    split at h
    · simp at h
    · rename_i cs2 h2
      simp at h; obtain ⟨_, rfl⟩ := h
      have := sym_length h1; have := sym_length h2
      have := dropWhile_length_le notBrace cs1; omega

theorem classAndStyle_length {cs r : List Char} {x : List Char × List Char}
    (h : classAndStyle cs = some (x, r)) : r.length < cs.length := by
  unfold classAndStyle at h
  split at h
  · simp at h
  · rename_i name cs1 h1
    split at h
    · simp at h
    · rename_i cs2 h2
      split at h
      · simp at h
      · rename_i decl cs3 h3
        simp at h; obtain ⟨_, rfl⟩ := h
        have := ident_length h1; have := sym_length h2; have := cssStyles_length h3
        have := dropWhile_length_le isSpaceTab cs1
        have := dropWhile_length_le isSpaceTab cs2
        have := dropWhile_length_le isSpaceTab cs3
        simp only [skipSpace] at *; omega

/-- the `while let Ok(sep) … match item` loop of pom's `list`: returns the further items and
the input left after the last item (a separator not followed by an item is not consumed).
Structural recursion on `fuel`; every iteration consumes at least two characters, so
`fuel = cs.length` is always enough (`Proofs/ParserFuel.lean`). -/
def styleListMore : Nat → List Char → List (List Char × List Char) × List Char
  | 0, cs => ([], cs)
  | fuel + 1, cs =>
    match newLine cs with
    | none => ([], cs)
    | some cs1 =>
      match classAndStyle cs1 with
      | none => ([], cs)
      | some (item, cs2) =>
        match styleListMore fuel cs2 with
        | (items, r) => (item :: items, r)

/-- `css_style_list()` = `list(class_and_style(), new_line())`; never fails. -/
def cssStyleList (cs : List Char) : List (List Char × List Char) × List Char :=
  match classAndStyle cs with
  | none => ([], cs)
  | some (item, cs1) =>
    match styleListMore cs1.length cs1 with
    | (items, r) => (item :: items, r)

def legendTag : List Char := "Legend:".toList

/-- `css_legend_with_padding().parse(input)`; the trailing `white_space()` cannot fail and
`parse` ignores what is left, so it does not influence the result. -/
def parseCssLegend (cs : List Char) : Option (List (List Char × List Char)) :=
  match sym '#' (skipSpace cs) with
  | none => none
  | some cs1 =>
    match tagStr legendTag (skipSpace cs1) with
    | none => none
    | some cs2 =>
      match newLine (skipSpace cs2) with
      | some cs3 => some (cssStyleList cs3).1
      | none =>
        -- `new_line() | end()`: a header that ends the document is an empty legend
        match skipSpace cs2 with
        | [] => some []
        | _ :: _ => none

/-- the `while let Ok(sep)` loop of `list(ident(), sym(','))` (fuel: see `styleListMore`) -/
def classesMore : Nat → List Char → List (List Char) × List Char
  | 0, cs => ([], cs)
  | fuel + 1, cs =>
    match sym ',' cs with
    | none => ([], cs)
    | some cs1 =>
      match ident cs1 with
      | none => ([], cs)
      | some (item, cs2) =>
        match classesMore fuel cs2 with
        | (items, r) => (item :: items, r)

/-- `classes()` = `list(ident(), sym(','))` -/
def classes (cs : List Char) : List (List Char) × List Char :=
  match ident cs with
  | none => ([], cs)
  | some (item, cs1) =>
    match classesMore cs1.length cs1 with
    | (items, r) => (item :: items, r)

/-- `parse_css_tag`: `sym('{') * classes() - sym('}')`, trailing input ignored. -/
def parseCssTag (cs : List Char) : Option (List (List Char)) :=
  match sym '{' cs with
  | none => none
  | some cs1 =>
    let r := classes cs1
    match sym '}' r.2 with
    | none => none
    | some _ => some r.1

/-! ## `line_parse`: quoted segments of one row -/

def notQuote (c : Char) : Bool := c != '"'

/-- `char_string.repeat(0..)` with `char_string = (sym('\\') * sym('"')) | none_of("\"")`:
returns the number of characters consumed and the rest. Greedy: a backslash followed by a quote
is always taken as a pair. -/
def charStrings : List Char → Nat × List Char
  | '\\' :: '"' :: cs => match charStrings cs with | (n, r) => (n + 2, r)
  | c :: cs => if c == '"' then (0, c :: cs) else match charStrings cs with | (n, r) => (n + 1, r)
  | [] => (0, [])

/-- one `escape_string()` at absolute position `pos`: `((start, end), rest, position of rest)`
where `start`/`end` are the indices of the opening and the closing quote. -/
def escapeString (pos : Nat) (cs : List Char) : Option ((Nat × Nat) × List Char × Nat) :=
  let pre := cs.takeWhile notQuote
  match sym '"' (cs.dropWhile notQuote) with
  | none => none
  | some cs1 =>
    let start := pos + pre.length
    let r := charStrings cs1
    let stop := start + 1 + r.1
    match sym '"' r.2 with
    | none => none
    | some cs2 =>
      some ((start, stop), cs2.dropWhile notQuote, stop + 1 + (cs2.takeWhile notQuote).length)

theorem charStrings_length (cs : List Char) : (charStrings cs).2.length ≤ cs.length := by
  fun_induction charStrings cs <;> simp_all <;> omega

theorem escapeString_length {pos : Nat} {cs r : List Char} {se : Nat × Nat} {p : Nat}
    (h : escapeString pos cs = some (se, r, p)) : r.length < cs.length := by
  unfold escapeString at h
  simp only at h
  split at h
  · simp at h
  · rename_i cs1 h1
    split at h
    · simp at h
    · rename_i cs2 h2
      simp at h; obtain ⟨_, rfl, _⟩ := h
      have := sym_length h1; have := sym_length h2
      have := charStrings_length cs1
      have := dropWhile_length_le notQuote cs
      have := dropWhile_length_le notQuote cs2
      omega

/-- `line_parse()` = `escape_string().repeat(0..)`; never fails. Structural recursion on
`fuel`; every iteration consumes at least the two quotes, so `fuel = cs.length` is enough. -/
def lineParseFrom : Nat → Nat → List Char → List (Nat × Nat)
  | 0, _, _ => []
  | fuel + 1, pos, cs =>
    match escapeString pos cs with
    | none => []
    | some (se, rest, p) => se :: lineParseFrom fuel p rest

def lineParse (cs : List Char) : List (Nat × Nat) := lineParseFrom cs.length 0 cs

end Svgbob

import Svgbob.Model.Basic
/-!
# Points and fragments

Coordinates are `Int` in **milli-units**: the code's `f32` value `v` is modelled by `1000 * v`.
A cell is 1000 wide and 2000 high; the cell grid `a..y` has a pitch of 250 in both directions.
Every literal in the tables has at most three decimals, so it is exact in this representation.
-/
namespace Svgbob

structure Pt where
  x : Int
  y : Int
deriving DecidableEq, Repr, Inhabited

/-- `Point::cmp` (`point.rs:149-153`): by `y`, then by `x` -/
def Pt.cmp (a b : Pt) : Ordering :=
  if a.y < b.y then .lt else if b.y < a.y then .gt
  else if a.x < b.x then .lt else if b.x < a.x then .gt else .eq

def Pt.lt (a b : Pt) : Bool := a.cmp b == .lt
def Pt.le (a b : Pt) : Bool := a.cmp b != .gt
def Pt.min (a b : Pt) : Pt := if a.cmp b == .gt then b else a
def Pt.max (a b : Pt) : Pt := if a.cmp b == .lt then b else a
def Pt.add (a b : Pt) : Pt := ⟨a.x + b.x, a.y + b.y⟩
def Pt.sub (a b : Pt) : Pt := ⟨a.x - b.x, a.y - b.y⟩

/-- squared distance (milli-units²) -/
def Pt.dist2 (a b : Pt) : Int := (a.x - b.x) * (a.x - b.x) + (a.y - b.y) * (a.y - b.y)

/-- `Cell::top_left_most` -/
def Cell.origin (c : Cell) : Pt := ⟨c.x * 1000, c.y * 2000⟩

inductive Marker
  | arrow | clearArrow | circle | square | diamond | openCircle | bigOpenCircle
deriving DecidableEq, Repr, Inhabited

inductive PolygonTag
  | arrowTopLeft | arrowTop | arrowTopRight | arrowLeft | arrowRight
  | arrowBottomLeft | arrowBottom | arrowBottomRight | diamondBullet
deriving DecidableEq, Repr, Inhabited

/-- `Fragment` (`fragment.rs:33-45`). Lines, arcs and rects are stored with the endpoint order
their constructors establish (`mkLine`, `mkArc`, `mkRect`); a marker line is never re-sorted. -/
inductive Frag
  | line (s e : Pt) (broken : Bool)
  | markerLine (s e : Pt) (broken : Bool) (sm em : Option Marker)
  | circle (c : Pt) (r : Int) (filled : Bool)
  | arc (s e : Pt) (r : Int) (major sweep : Bool)
  | polygon (pts : List Pt) (filled : Bool) (tags : List PolygonTag)
  | rect (s e : Pt) (filled : Bool) (radius : Option Int) (broken : Bool)
  | cellText (start : Cell) (content : List Char)
  | text (start : Pt) (content : List Char)
deriving DecidableEq, Repr, Inhabited

/-- `Line::new`: endpoints sorted -/
def mkLine (a b : Pt) (broken : Bool := false) : Frag :=
  if a.cmp b == .gt then .line b a broken else .line a b broken

def mkBrokenLine (a b : Pt) : Frag := mkLine a b true

/-- `Arc::new`: endpoints sorted, the sweep flag flips when they are swapped -/
def mkArcSweep (a b : Pt) (r : Int) (sweep : Bool) : Frag :=
  if a.cmp b == .gt then .arc b a r false (!sweep) else .arc a b r false sweep

def mkArc (a b : Pt) (r : Int) : Frag := mkArcSweep a b r false

def mkCircle (c : Pt) (r : Int) (filled : Bool) : Frag := .circle c r filled

def mkPolygon (pts : List Pt) (filled : Bool) (tags : List PolygonTag) : Frag :=
  .polygon pts filled tags

/-- `Rect::new` / `Rect::rounded_new`: corners sorted -/
def mkRect (a b : Pt) (filled broken : Bool) (radius : Option Int := none) : Frag :=
  if a.cmp b == .gt then .rect b a filled radius broken else .rect a b filled radius broken

def listMin (l : List Int) (d : Int) : Int := l.foldl (fun a b => if b < a then b else a) (l.headD d)
def listMax (l : List Int) (d : Int) : Int := l.foldl (fun a b => if b > a then b else a) (l.headD d)

/-- `Bounds::bounds`: `(mins, maxs)` of the axis-aligned bounding box. `len` is the length the
code attributes to a text (`String::len`, bytes) and `unit` the value of `1.0` in the current
units (1000 before scaling): a `Text` is as wide as `len * 1.0` whatever the scale
(`text.rs:143-145`), a `CellText` covers `len` cells. -/
def Frag.bounds (len : List Char → Nat) (unit : Int) : Frag → Pt × Pt
  | .line s e _ => (⟨min s.x e.x, min s.y e.y⟩, ⟨max s.x e.x, max s.y e.y⟩)
  | .markerLine s e _ _ _ => (⟨min s.x e.x, min s.y e.y⟩, ⟨max s.x e.x, max s.y e.y⟩)
  | .circle c r _ => (⟨c.x - r, c.y - r⟩, ⟨c.x + r, c.y + r⟩)
  | .arc s e _ _ _ => (⟨min s.x e.x, min s.y e.y⟩, ⟨max s.x e.x, max s.y e.y⟩)
  | .polygon pts _ _ =>
    (⟨listMin (pts.map (·.x)) 0, listMin (pts.map (·.y)) 0⟩,
     ⟨listMax (pts.map (·.x)) 0, listMax (pts.map (·.y)) 0⟩)
  | .rect s e _ _ _ => (⟨min s.x e.x, min s.y e.y⟩, ⟨max s.x e.x, max s.y e.y⟩)
  | .cellText st c =>
    (st.origin, ⟨(st.x + (len c : Int) + 1) * 1000, (st.y + 1) * 2000⟩)
  | .text st c => (st, ⟨st.x + (len c : Int) * unit, st.y⟩)

/-- `Fragment::rank` -/
def Frag.rank : Frag → Nat
  | .line .. => 10 | .markerLine .. => 20 | .circle .. => 30 | .arc .. => 40
  | .polygon .. => 50 | .rect .. => 60 | .text .. => 70 | .cellText .. => 80

def cmpBool (a b : Bool) : Ordering := compare a.toNat b.toNat

def cmpListWith {α : Type} (f : α → α → Ordering) : List α → List α → Ordering
  | [], [] => .eq
  | [], _ :: _ => .lt
  | _ :: _, [] => .gt
  | a :: as, b :: bs => (f a b).then (cmpListWith f as bs)

def cmpChar (a b : Char) : Ordering := compare a.toNat b.toNat

def cmpOptInt : Option Int → Option Int → Ordering
  | none, none => .eq
  | some _, none => .gt
  | none, some _ => .lt
  | some a, some b => compare a b

def Cell.cmp (a b : Cell) : Ordering :=
  if a.y < b.y then .lt else if b.y < a.y then .gt
  else if a.x < b.x then .lt else if b.x < a.x then .gt else .eq

end Svgbob

namespace Svgbob

/-- `Fragment::cmp` (`fragment.rs:612-633`): same-kind comparisons for line, arc, circle, polygon,
rect, text, cell text; everything else (including two marker lines) by bounding box and rank.
`none` = the comparison would index an empty polygon (`polygon.rs:158-165`, a panic site). -/
def Frag.cmp? (bl : List Char → Nat) (unit : Int) : Frag → Frag → Option Ordering
  | .line s e b, .line s' e' b' => some ((s.cmp s').then ((e.cmp e').then (cmpBool b b')))
  | .arc s e r m sw, .arc s' e' r' m' sw' =>
    some ((s.cmp s').then ((e.cmp e').then ((compare r r').then ((cmpBool m m').then (cmpBool sw sw')))))
  | .circle c r f, .circle c' r' f' =>
    let a := Frag.bounds bl unit (.circle c r f)
    let b := Frag.bounds bl unit (.circle c' r' f')
    some ((a.1.cmp b.1).then ((a.2.cmp b.2).then ((compare r r').then (cmpBool f f'))))
  | .polygon pts f _, .polygon pts' f' _ =>
    if pts == pts' then some .eq
    else match pts.head?, pts'.head?, pts.getLast?, pts'.getLast? with
      | some a, some a', some z, some z' =>
        some ((a.cmp a').then ((z.cmp z').then ((cmpBool f f').then (compare pts.length pts'.length))))
      | _, _, _, _ => none
  | .rect s e f r b, .rect s' e' f' r' b' =>
    some ((s.cmp s').then ((e.cmp e').then ((cmpBool f f').then ((cmpOptInt r r').then (cmpBool b b')))))
  | .text s c, .text s' c' => some ((s.cmp s').then (cmpListWith cmpChar c c'))
  | .cellText s c, .cellText s' c' => some ((s.cmp s').then (cmpListWith cmpChar c c'))
  | a, b =>
    let ba := a.bounds bl unit
    let bb := b.bounds bl unit
    some ((ba.1.cmp bb.1).then ((ba.2.cmp bb.2).then (compare a.rank b.rank)))

/-- total version used where the table lemma `polygons_nonempty` excludes the panic -/
def Frag.cmp (bl : List Char → Nat) (a b : Frag) : Ordering := (Frag.cmp? bl 1000 a b).getD .eq

/-- `Fragment::eq` is `cmp == Equal` -/
def Frag.beq (bl : List Char → Nat) (a b : Frag) : Bool := Frag.cmp bl a b == .eq

/-- one step of Rust's small-slice insertion sort (`insert_tail`): the new element moves left
past every element it is strictly less than. `revPrefix` is the sorted prefix *reversed* (its last
element first); the result is again reversed. -/
def insertTail {α : Type} (cmp : α → α → Ordering) (x : α) : List α → List α
  | [] => [x]
  | y :: ys => if cmp x y == .lt then y :: insertTail cmp x ys else x :: y :: ys

/-- the model of `slice::sort` for the short lists svgbob sorts with `Fragment::cmp` (Rust sorts
slices of up to 20 elements by exactly this insertion sort; for a total preorder every stable
sort gives the same result, but `Fragment::cmp` is not transitive across kinds, so the algorithm
matters). -/
def sortBy {α : Type} (cmp : α → α → Ordering) (l : List α) : List α :=
  (l.foldl (fun acc x => insertTail cmp x acc) []).reverse

/-- `Vec::dedup`: removes consecutive elements equal under `eq` (keeps the first) -/
def dedupBy {α : Type} (eq : α → α → Bool) : List α → List α
  | [] => []
  | [a] => [a]
  | a :: b :: rest => if eq a b then dedupBy eq (a :: rest) else a :: dedupBy eq (b :: rest)
termination_by l => l.length

/-- `Fragment::absolute_position` -/
def Frag.absPos (c : Cell) : Frag → Frag
  | .line s e b => .line (c.origin.add s) (c.origin.add e) b
  | .markerLine s e b sm em => .markerLine (c.origin.add s) (c.origin.add e) b sm em
  | .circle ct r f => .circle (c.origin.add ct) r f
  | .arc s e r m sw => .arc (c.origin.add s) (c.origin.add e) r m sw
  | .polygon pts f t => .polygon (pts.map (c.origin.add ·)) f t
  | .rect s e f r b => .rect (c.origin.add s) (c.origin.add e) f r b
  | .cellText st ct => .cellText ⟨st.x + c.x, st.y + c.y⟩ ct
  | .text st ct => .text (c.origin.add st) ct

def Frag.isBroken : Frag → Bool
  | .line _ _ b => b
  | .rect _ _ _ _ b => b
  | _ => false

end Svgbob

import Svgbob.Gen.StyleSheet
import Svgbob.Model.Front
import Svgbob.Model.Doc
import Svgbob.Model.Pipeline
import Svgbob.Model.Shell
import Svgbob.Model.Convert
import Svgbob.Spec.Xml
/-!
Line-protocol driver for the executable model. `svgbob_model <mode>` reads one case per line
on stdin and answers one line per case in the same canonical format as the Rust harness.
-/
open Svgbob

def hexDigit (c : Char) : Nat :=
  if '0' ≤ c ∧ c ≤ '9' then c.toNat - '0'.toNat
  else if 'a' ≤ c ∧ c ≤ 'f' then c.toNat - 'a'.toNat + 10
  else 0

def unhexBytes (s : String) : ByteArray := Id.run do
  if s == "-" then return ByteArray.empty
  let cs := s.toList.toArray
  let mut out := ByteArray.empty
  let mut i := 0
  while i + 1 < cs.size do
    out := out.push (UInt8.ofNat (hexDigit cs[i]! * 16 + hexDigit cs[i+1]!))
    i := i + 2
  return out

def unhex (s : String) : List Char :=
  match String.fromUTF8? (unhexBytes s) with
  | some t => t.toList
  | none => []

def hexNibble (n : Nat) : Char :=
  if n < 10 then Char.ofNat (n + 48) else Char.ofNat (n - 10 + 97)

def hexOfChars (cs : List Char) : String :=
  if cs.isEmpty then "-" else
  let bs := (String.ofList cs).toUTF8
  String.ofList (bs.toList.flatMap fun b => [hexNibble (b.toNat / 16), hexNibble (b.toNat % 16)])

/-- parse `env=cp:w:ws:sw,...` -/
def parseEnv (tok : String) : Env :=
  let body := (tok.drop 4).toString
  let entries : List (Nat × Int × Bool) := (body.splitOn ",").filterMap fun e =>
    match e.splitOn ":" with
    | cp :: w :: ws :: _ => some (cp.toNat!, w.toInt!, ws == "1")
    | _ => none
  { width := fun c =>
      match entries.find? (fun e => e.1 == c.toNat) with
      | some (_, w, _) => if w < 0 then none else some w.toNat
      | none => some 1
    isWs := fun c =>
      match entries.find? (fun e => e.1 == c.toNat) with
      | some (_, _, ws) => ws
      | none => false }

def joinWith (sep : String) (l : List String) : String := sep.intercalate l

def showFront (o : FrontOut) : String :=
  "cells=" ++ joinWith ";" (o.cells.map fun (c, ch) => s!"{c.x},{c.y},{ch.toNat}") ++
  " esc=" ++ joinWith ";" (o.escaped.map fun (c, s) => s!"{c.x},{c.y},{hexOfChars s}") ++
  " css=" ++ joinWith ";" (o.css.map fun (k, v) => s!"{hexOfChars k}:{hexOfChars v}")

/-! fragment dump parsing (same tokens as the harness's `dump_fragment`) -/

def pInt (s : String) : Int := s.toInt!
def pBool (s : String) : Bool := s == "1"

def pMarker (s : String) : Option Marker :=
  match s with
  | "arrow" => some .arrow | "clear_arrow" => some .clearArrow | "circle" => some .circle
  | "square" => some .square | "diamond" => some .diamond | "open_circle" => some .openCircle
  | "big_open_circle" => some .bigOpenCircle | _ => none

def pTag (s : String) : Option PolygonTag :=
  match s with
  | "ArrowTopLeft" => some .arrowTopLeft | "ArrowTop" => some .arrowTop
  | "ArrowTopRight" => some .arrowTopRight | "ArrowLeft" => some .arrowLeft
  | "ArrowRight" => some .arrowRight | "ArrowBottomLeft" => some .arrowBottomLeft
  | "ArrowBottom" => some .arrowBottom | "ArrowBottomRight" => some .arrowBottomRight
  | "DiamondBullet" => some .diamondBullet | _ => none

def pFrag (tok : String) : Option Frag :=
  match tok.splitOn ":" with
  | ["L", body] =>
    match body.splitOn "," with
    | [a, b, c, d, e] => some (.line ⟨pInt a, pInt b⟩ ⟨pInt c, pInt d⟩ (pBool e))
    | _ => none
  | ["M", body] =>
    match body.splitOn "," with
    | [a, b, c, d, e, sm, em] =>
      some (.markerLine ⟨pInt a, pInt b⟩ ⟨pInt c, pInt d⟩ (pBool e) (pMarker sm) (pMarker em))
    | _ => none
  | ["C", body] =>
    match body.splitOn "," with
    | [a, b, r, f] => some (.circle ⟨pInt a, pInt b⟩ (pInt r) (pBool f))
    | _ => none
  | ["A", body] =>
    match body.splitOn "," with
    | [a, b, c, d, r, m, sw] => some (.arc ⟨pInt a, pInt b⟩ ⟨pInt c, pInt d⟩ (pInt r) (pBool m) (pBool sw))
    | _ => none
  | ["P", f, tags, pts] =>
    let ps := (pts.splitOn "/").filterMap fun p =>
      match p.splitOn "," with
      | [x, y] => some (Pt.mk (pInt x) (pInt y))
      | _ => none
    let ts := if tags == "-" then [] else (tags.splitOn "+").filterMap pTag
    some (.polygon ps (pBool f) ts)
  | ["R", body] =>
    match body.splitOn "," with
    | [a, b, c, d, f, r, br] =>
      some (.rect ⟨pInt a, pInt b⟩ ⟨pInt c, pInt d⟩ (pBool f) (if r == "-" then none else some (pInt r)) (pBool br))
    | _ => none
  | ["T", body] =>
    match body.splitOn "," with
    | [x, y, h] => some (.cellText ⟨pInt x, pInt y⟩ (unhex h))
    | _ => none
  | ["X", body] =>
    match body.splitOn "," with
    | [x, y, h] => some (.text ⟨pInt x, pInt y⟩ (unhex h))
    | _ => none
  | _ => none

def pFrags (s : String) : List Frag :=
  if s == "-" then [] else (s.splitOn ";").filterMap pFrag

def pGroups (s : String) : List (List Frag) :=
  if s == "-" then [] else (s.splitOn "#").map pFrags

def showMarker : Option Marker → String
  | none => "-"
  | some m => m.name

def showTag : PolygonTag → String
  | .arrowTopLeft => "ArrowTopLeft" | .arrowTop => "ArrowTop" | .arrowTopRight => "ArrowTopRight"
  | .arrowLeft => "ArrowLeft" | .arrowRight => "ArrowRight" | .arrowBottomLeft => "ArrowBottomLeft"
  | .arrowBottom => "ArrowBottom" | .arrowBottomRight => "ArrowBottomRight"
  | .diamondBullet => "DiamondBullet"

def b01 (b : Bool) : String := if b then "1" else "0"

/-- the harness's `dump_fragment` -/
def showFrag : Frag → String
  | .line s e b => s!"L:{s.x},{s.y},{e.x},{e.y},{b01 b}"
  | .markerLine s e b sm em => s!"M:{s.x},{s.y},{e.x},{e.y},{b01 b},{showMarker sm},{showMarker em}"
  | .circle c r f => s!"C:{c.x},{c.y},{r},{b01 f}"
  | .arc s e r m sw => s!"A:{s.x},{s.y},{e.x},{e.y},{r},{b01 m},{b01 sw}"
  | .polygon pts f tags =>
    let ts := if tags.isEmpty then "-" else "+".intercalate (tags.map showTag)
    let ps := "/".intercalate (pts.map fun p => s!"{p.x},{p.y}")
    s!"P:{b01 f}:{ts}:{ps}"
  | .rect s e f r b =>
    let rs := match r with | some v => toString v | none => "-"
    s!"R:{s.x},{s.y},{e.x},{e.y},{b01 f},{rs},{b01 b}"
  | .cellText st c => s!"T:{st.x},{st.y},{hexOfChars c}"
  | .text st c => s!"X:{st.x},{st.y},{hexOfChars c}"

def showFrags (fs : List Frag) : String :=
  if fs.isEmpty then "-" else ";".intercalate (fs.map showFrag)

def showGroups (gs : List (List Frag)) : String :=
  if gs.isEmpty then "-" else "#".intercalate (gs.map showFrags)

def pEsc (s : String) : List (Cell × List Char) :=
  if s == "" then [] else (s.splitOn ";").filterMap fun e =>
    match e.splitOn "," with
    | [x, y, h] => some (⟨pInt x, pInt y⟩, unhex h)
    | _ => none

/-- the catalogue tables, computed once -/
def theCatalogue : Option Catalogue := catalogue

/-- `key=value` lookup in a comma separated token -/
def kv (tok key : String) : Option String :=
  (tok.splitOn ",").findSome? fun e =>
    match e.splitOn "=" with
    | [k, v] => if k == key then some v else none
    | _ => none

/-- `scale=N/D,b=0|1,s=0|1,d=0|1,ow=W,oh=H` (override numerators over 1000*D, optional) -/
def pCfg (tok : String) (css0 : List Char) : Cfg :=
  let sc := (kv tok "scale").getD "8/1"
  let (n, d) := match sc.splitOn "/" with
    | [a, b] => (a.toNat!, b.toNat!)
    | [a] => (a.toNat!, 1)
    | _ => (8, 1)
  { scaleN := n, scaleD := d,
    includeBackdrop := (kv tok "b").getD "1" == "1",
    includeStyles := (kv tok "s").getD "1" == "1",
    includeDefs := (kv tok "d").getD "1" == "1",
    css0 := css0,
    overrideSize := match kv tok "ow", kv tok "oh" with
      | some w, some h => some (pInt w, pInt h)
      | _, _ => none }

def pCss (s : String) : List (List Char × List Char) :=
  if s == "" then [] else (s.splitOn ";").filterMap fun e =>
    match e.splitOn ":" with
    | [k, v] => some (unhex k, unhex v)
    | _ => none

def pCells (s : String) : List (Cell × Char) :=
  if s == "" then [] else (s.splitOn ";").filterMap fun e =>
    match e.splitOn "," with
    | [x, y, c] => some (⟨pInt x, pInt y⟩, Char.ofNat c.toNat!)
    | _ => none

/-- UTF-8 byte length, the `String::len` of the code -/
def byteLen (cs : List Char) : Nat := (String.ofList cs).utf8ByteSize

def stripPrefix (p s : String) : String := (s.drop p.length).toString

/-- text → (top-level fragments, groups) through front end and middle -/
def midOf (env : Env) (cells : Span) (esc : List (Cell × List Char)) :
    Option (List Frag × List (List Frag)) :=
  match theCatalogue with
  | none => none
  | some cat =>
    match endorseAll (segColumns env) cat cells esc with
    | none => none
    | some (fs, gs) => some (fs.map (·.frag), gs.map fun g => g.map (·.frag))

/-! shells: the request carries the answers of the world -/

def unhexS (s : String) : String := String.ofList (unhex s)

/-- `k=v` fields separated by spaces: lookup -/
def fld (fields : List String) (key : String) : Option String :=
  fields.findSome? fun e =>
    match e.splitOn "=" with
    | [k, v] => if k == key then some v else none
    | _ => none

def pRead (tok : String) : ReadResult :=
  match tok.splitOn ":" with
  | ["ok", h] => .ok (unhexS h)
  | ["err", h] => .ioError (unhexS h)
  | _ => .notUtf8

def pOptS (o : Option String) : Option String :=
  match o with
  | some "-" => none
  | some h => some (unhexS h)
  | none => none

/-- a numeric option: `-` absent, `ok:<hex raw>:<hex canonical>` or `err:<hex raw>:<hex message>` -/
def pNumOpt (o : Option String) : Option String × (String → Except String String) :=
  match o with
  | some tok =>
    match tok.splitOn ":" with
    | ["ok", raw, v] => (some (unhexS raw), fun _ => .ok (unhexS v))
    | ["err", raw, m] => (some (unhexS raw), fun _ => .error (unhexS m))
    | _ => (none, fun _ => .error "")
  | none => (none, fun _ => .error "")

def cliRun (fields : List String) : String :=
  let inputTok := (fld fields "input").getD "stdin:bad"
  let (input, readFile, stdin) : CliInput × (String → ReadResult) × ReadResult :=
    match inputTok.splitOn ":" with
    | ["inline", h] => (.inlineStr (some (unhexS h)), (fun _ => .notUtf8), .notUtf8)
    | ["inlinenone"] => (.inlineStr none, (fun _ => .notUtf8), .notUtf8)
    | "file" :: p :: rest => (.file (unhexS p), (fun _ => pRead (":".intercalate rest)), .notUtf8)
    | "stdin" :: rest => (.stdin, (fun _ => .notUtf8), pRead (":".intercalate rest))
    | _ => (.stdin, (fun _ => .notUtf8), .notUtf8)
  let (fs, pfs) := pNumOpt (fld fields "fs")
  let (sw, psw) := pNumOpt (fld fields "sw")
  let (sc, psc) := pNumOpt (fld fields "sc")
  let outTok := (fld fields "out").getD "-"
  let (output, wr) : Option String × (String → String → Option String) :=
    match outTok.splitOn ":" with
    | ["ok", p] => (some (unhexS p), fun _ _ => none)
    | ["err", p, m] => (some (unhexS p), fun _ _ => some (unhexS m))
    | _ => (none, fun _ _ => none)
  let w : World :=
    { readFile := readFile, stdin := stdin, writeFile := wr,
      parseUsize := fun t => match pfs t with | .ok v => .ok v.toNat! | .error m => .error m,
      parseF32 := fun t => if some t == sw then psw t else psc t }
  let convTok := (fld fields "conv").getD "panic"
  let conv : String → ResolvedSettings → Option String :=
    fun _ _ => if convTok == "panic" then none else some (unhexS convTok)
  let a : CliArgs :=
    { input := input, output := output,
      settings := { background := pOptS (fld fields "bg"), fillColor := pOptS (fld fields "fill"),
                    fontFamily := pOptS (fld fields "ff"), fontSize := fs, strokeWidth := sw,
                    strokeColor := pOptS (fld fields "stc"), scale := sc } }
  let o := cliMain w conv a
  s!"exit={o.exit} stdout={hexOfChars o.stdout.toList} stderr_empty={b01 o.stderr.isEmpty} written={o.written.length}"

def handle (mode : String) (fields : List String) : String :=
  match mode, fields with
  | "front", [inp, env] => showFront (front (parseEnv env) (unhex inp))
  | "escape_line", [y, raw, env] =>
    let r := escapeLine (parseEnv env) y.toInt! (unhex raw)
    "esc=" ++ joinWith ";" (r.1.map fun (c, s) => s!"{c.x},{c.y},{hexOfChars s}") ++
    " un=" ++ hexOfChars r.2
  | "xmlwf", [inp] => b01 (Xml.wellFormed (unhex inp))
  | "legend", [inp] =>
    match parseCssLegend (unhex inp) with
    | none => "err"
    | some css => "css=" ++ joinWith ";" (css.map fun (k, v) => s!"{hexOfChars k}:{hexOfChars v}")
  | "tag", [inp] =>
    match parseCssTag (unhex inp) with
    | none => "err"
    | some ts => "tags=" ++ joinWith ";" (ts.map hexOfChars)
  | "back", [pretty, cfgTok, css0, cells, css, frags, groups, env] =>
    -- pretty|compressed cfg css0hex cells=.. css=.. frags=.. groups=.. env=..
    let cfg := pCfg cfgTok (unhex css0)
    let root := svgRoot (segColumns (parseEnv env)) cfg (pCells (stripPrefix "cells=" cells)) (pCss (stripPrefix "css=" css))
      (pFrags (stripPrefix "frags=" frags)) (pGroups (stripPrefix "groups=" groups))
    "ok " ++ hexOfChars (Node.render cfg.den (pretty == "pretty") 0 root)
  | "mid", [cells, esc, env] =>
    match midOf (parseEnv env) (pCells (stripPrefix "cells=" cells)) (pEsc (stripPrefix "esc=" esc)) with
    | none => "panic"
    | some (fs, gs) => "frags=" ++ showFrags fs ++ " groups=" ++ showGroups gs
  | "full", [pretty, cfgTok, css0, inp, env] =>
    -- the whole conversion of the model (`Model/Convert.convertDoc`, the function the end-to-end
    -- theorems are about), serialized
    match theCatalogue with
    | none => "panic"
    | some cat =>
      let cfg := pCfg cfgTok (unhex css0)
      match convertDoc (parseEnv env) cfg cat (unhex inp) with
      | none => "panic"
      | some root => "ok " ++ hexOfChars (Node.render cfg.den (pretty == "pretty") 0 root)
  | "css", [sc, sw, bg, fill, ff, fs] =>
    -- the base style sheet from the regenerated rules and the settings as the code prints them
    hexOfChars (renderRules { strokeColor := unhex sc, strokeWidth := unhex sw, background := unhex bg,
                              fillColor := unhex fill, fontFamily := unhex ff, fontSize := unhex fs } Gen.styleRules)
  | "cli", fs => cliRun fs
  | "http", [m, path, body, size] =>
    let meth := if m == "GET" then Method.get else if m == "POST" then Method.post else Method.other
    let utf8 := if body == "bad" then none else some (unhexS body)
    let r := Svgbob.handle "N" "V" (fun t => "SVG(" ++ t ++ ")") ⟨meth, unhexS path, utf8, size.toNat!⟩
    s!"status={r.status} body={hexOfChars r.body.toList}"
  | _, _ => "bad-request"

partial def loop (h : IO.FS.Stream) (out : IO.FS.Stream) (mode : String) : IO Unit := do
  let line ← h.getLine
  if line.isEmpty then return ()
  let line := line.trimAscii.toString
  if line.isEmpty then loop h out mode else
  match line.splitOn " " with
  | id :: fields =>
    out.putStrLn (id ++ " " ++ handle mode fields)
    loop h out mode
  | [] => loop h out mode

def main (args : List String) : IO Unit := do
  let mode := args.headD "front"
  loop (← IO.getStdin) (← IO.getStdout) mode

import Svgbob.Model.Front
/-!
Line-protocol driver for the executable model. `svgbob_model <mode>` reads one case per line
on stdin and answers one line per case in the same canonical format as the Rust harness.
-/
open Svgbob

def hexDigit (c : Char) : Nat :=
  if '0' ≤ c ∧ c ≤ '9' then c.toNat - '0'.toNat
  else if 'a' ≤ c ∧ c ≤ 'f' then c.toNat - 'a'.toNat + 10
  else 0

def unhexBytes (s : String) : ByteArray := Id.run do
  if s == "-" then return ByteArray.empty
  let cs := s.toList.toArray
  let mut out := ByteArray.empty
  let mut i := 0
  while i + 1 < cs.size do
    out := out.push (UInt8.ofNat (hexDigit cs[i]! * 16 + hexDigit cs[i+1]!))
    i := i + 2
  return out

def unhex (s : String) : List Char :=
  match String.fromUTF8? (unhexBytes s) with
  | some t => t.toList
  | none => []

def hexNibble (n : Nat) : Char :=
  if n < 10 then Char.ofNat (n + 48) else Char.ofNat (n - 10 + 97)

def hexOfChars (cs : List Char) : String :=
  if cs.isEmpty then "-" else
  let bs := (String.ofList cs).toUTF8
  String.ofList (bs.toList.flatMap fun b => [hexNibble (b.toNat / 16), hexNibble (b.toNat % 16)])

/-- parse `env=cp:w:ws:sw,...` -/
def parseEnv (tok : String) : Env :=
  let body := (tok.drop 4).toString
  let entries : List (Nat × Int × Bool) := (body.splitOn ",").filterMap fun e =>
    match e.splitOn ":" with
    | cp :: w :: ws :: _ => some (cp.toNat!, w.toInt!, ws == "1")
    | _ => none
  { width := fun c =>
      match entries.find? (fun e => e.1 == c.toNat) with
      | some (_, w, _) => if w < 0 then none else some w.toNat
      | none => some 1
    isWs := fun c =>
      match entries.find? (fun e => e.1 == c.toNat) with
      | some (_, _, ws) => ws
      | none => false }

def joinWith (sep : String) (l : List String) : String := sep.intercalate l

def showFront (o : FrontOut) : String :=
  "cells=" ++ joinWith ";" (o.cells.map fun (c, ch) => s!"{c.x},{c.y},{ch.toNat}") ++
  " esc=" ++ joinWith ";" (o.escaped.map fun (c, s) => s!"{c.x},{c.y},{hexOfChars s}") ++
  " css=" ++ joinWith ";" (o.css.map fun (k, v) => s!"{hexOfChars k}:{hexOfChars v}")

def handle (mode : String) (fields : List String) : String :=
  match mode, fields with
  | "front", [inp, env] => showFront (front (parseEnv env) (unhex inp))
  | "escape_line", [y, raw, env] =>
    let r := escapeLine (parseEnv env) y.toInt! (unhex raw)
    "esc=" ++ joinWith ";" (r.1.map fun (c, s) => s!"{c.x},{c.y},{hexOfChars s}") ++
    " un=" ++ hexOfChars r.2
  | "legend", [inp] =>
    match parseCssLegend (unhex inp) with
    | none => "err"
    | some css => "css=" ++ joinWith ";" (css.map fun (k, v) => s!"{hexOfChars k}:{hexOfChars v}")
  | "tag", [inp] =>
    match parseCssTag (unhex inp) with
    | none => "err"
    | some ts => "tags=" ++ joinWith ";" (ts.map hexOfChars)
  | _, _ => "bad-request"

partial def loop (h : IO.FS.Stream) (out : IO.FS.Stream) (mode : String) : IO Unit := do
  let line ← h.getLine
  if line.isEmpty then return ()
  let line := line.trimAscii.toString
  if line.isEmpty then loop h out mode else
  match line.splitOn " " with
  | id :: fields =>
    out.putStrLn (id ++ " " ++ handle mode fields)
    loop h out mode
  | [] => loop h out mode

def main (args : List String) : IO Unit := do
  let mode := args.headD "front"
  loop (← IO.getStdin) (← IO.getStdout) mode

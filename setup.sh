#!/bin/sh
# Build the framework from files on disk only (offline): Lean model + theorems, driver, harness.
set -e
cd "$(dirname "$0")"
export CARGO_NET_OFFLINE=true
mkdir -p .build
if [ -f tools/gen_tables.py ]; then python3 tools/gen_tables.py /repo lean/Svgbob/Gen; fi
(cd lean && lake build Svgbob svgbob_model)
[ -f harness/Cargo.lock ] || cp /repo/Cargo.lock harness/Cargo.lock
(cd harness && cargo build --release --offline)
echo setup-ok

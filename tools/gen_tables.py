#!/usr/bin/env python3
"""Translate svgbob's character tables from Rust source into Lean 4 data.

usage: gen_tables.py <repo_root> <out_dir>

reads   <repo_root>/crates/svgbob/src/map/ascii_map.rs     (ASCII_PROPERTIES)
        <repo_root>/crates/svgbob/src/map/unicode_map.rs   (UNICODE_FRAGMENTS)
        <repo_root>/crates/svgbob/src/map/circle_map.rs    (CIRCLE_ART_MAP, CIRCLES_TO_SKIP_FOR_ARC)
        <repo_root>/crates/svgbob/src/buffer/cell_buffer/cell/cell_grid.rs
                                                           (only the grid constants: a..y, width, height, slices)
writes  <out_dir>/AsciiTable.lean, UnicodeTable.lean, CircleArt.lean   (only when the content changes)

This is a *translator*, not a Rust interpreter: it understands exactly the small expression language
the three tables are written in (see the grammar below) and refuses everything else with
`error: <file>:<line>: <message>` and exit status 1.  It never guesses.

All numbers are evaluated exactly (`fractions.Fraction`); a decimal literal of the Rust source denotes
its decimal value.  Lengths and coordinates are emitted in milli-units (1000 * value) and must be
integers.

Grammar (tokens are Rust tokens; comments are ignored; a trailing `,` is allowed in every list)

  ascii table   static ASCII_PROPERTIES ... = Lazy::new(|| { let* `let map: T = vec![` entry,* `];` TAIL
  entry         ( CHAR, vec![ (signal, vec![frag,*]),* ],
                  Arc::new(move |n1, .., n8| { vec![ (cond, vec![frag,*]),* ] }) )
  unicode table static UNICODE_FRAGMENTS ... = Lazy::new(|| { let* `let map = vec![` (CHAR, vec![frag,*]),* `];` TAIL
  circle table  static CIRCLE_ART_MAP ... = Lazy::new(|| { vec![ (STR, Horizontal::X, num, num, cell),* ] });
                const CIRCLES_TO_SKIP_FOR_ARC: usize = INT;
  let           let NAME = value;           (value : number | point | cell)
  signal        [Signal::] Faint | Weak | Medium | Strong
  frag          line(pt, pt) | broken_line(pt, pt) | arc(pt, pt, num) | arc_with_sweep(pt, pt, num, bool)
              | circle(pt, num, bool) | rect(pt, pt, bool, bool) | polygon(vec![pt,*], bool, vec![tag,*])
  tag           [PolygonTag::] ArrowTopLeft | ArrowTop | ArrowTopRight | ArrowLeft | ArrowRight
              | ArrowBottomLeft | ArrowBottom | ArrowBottomRight | DiamondBullet
  cond          cond `||` cond | cond `&&` cond | `!` cond | ( cond ) | true        (`!` > `&&` > `||`)
              | nb.is(CHAR) | nb.line_overlap(pt, pt) | nb.line_strongly_overlap(pt, pt)
              | nb.line_weakly_overlap(pt, pt) | nb.arcs_to(pt, pt)       (nb = one of the 8 closure parameters,
                                                                          identified by *position*)
  value         value (+|-) value | value (*|/) value | - value | ( value )       (numbers only)
              | NUMBER | NAME | Cell::unit(INT) | Cell::new(INT, INT) | CellGrid::a() .. CellGrid::y()
              | CellGrid::point(INT, INT)
              | point.adjust(num, num) | point.adjust_x(num) | point.adjust_y(num)
              | cell.top_left() | .top() | .top_right() | .left() | .right() | .bottom_left() | .bottom()
              | .bottom_right() | cell.a() .. cell.y()
  TAIL          the exact token sequence of the loop that inserts the rows into the BTreeMap (checked, so
                that a change of what is done with the rows is noticed)
"""
import os
import re
import sys
import time
from fractions import Fraction

ASCII_RS = 'crates/svgbob/src/map/ascii_map.rs'
UNICODE_RS = 'crates/svgbob/src/map/unicode_map.rs'
CIRCLE_RS = 'crates/svgbob/src/map/circle_map.rs'
GRID_RS = 'crates/svgbob/src/buffer/cell_buffer/cell/cell_grid.rs'


class GenError(Exception):
    def __init__(self, path, line, msg):
        Exception.__init__(self, '%s:%s: %s' % (path, line, msg))


# ---------------------------------------------------------------------------------------------
# lexer
# ---------------------------------------------------------------------------------------------

class Tok(object):
    __slots__ = ('kind', 'text', 'line', 'val')

    def __init__(self, kind, text, line, val=None):
        self.kind = kind    # 'id' 'num' 'chr' 'str' 'life' 'op' 'eof'
        self.text = text    # source text of the token
        self.line = line    # 1-based line of its first character
        self.val = val      # decoded value of chr/str, Fraction of num

    def __repr__(self):
        return '%s(%r)@%d' % (self.kind, self.text, self.line)


RE_RAW = re.compile(r'r(#*)"')
RE_CHAR = re.compile(r"'(\\u\{[0-9a-fA-F_]{1,8}\}|\\x[0-9a-fA-F]{2}|\\[^ux\n]|[^\\'\n])'")
RE_STR_ESC = re.compile(r'u\{[0-9a-fA-F_]{1,8}\}|x[0-9a-fA-F]{2}|.')
RE_LIFE = re.compile(r"'[A-Za-z_][A-Za-z0-9_]*")
RE_NUM = re.compile(r'[0-9][0-9_]*(?:\.[0-9][0-9_]*)?(?:[eE][+-]?[0-9]+)?')
RE_ID = re.compile(r'[A-Za-z_][A-Za-z0-9_]*')
OPS2 = ('&&', '||', '::', '->', '=>', '==', '!=')
OPS1 = set('()[]{}<>,.;:!|&*+-/=%#?@^~$')
NUM_SUFFIX = ('f32', 'f64', 'i8', 'i16', 'i32', 'i64', 'i128', 'isize',
              'u8', 'u16', 'u32', 'u64', 'u128', 'usize')
SIMPLE_ESC = {'n': '\n', 't': '\t', 'r': '\r', '0': '\0', '\\': '\\', "'": "'", '"': '"'}


def decode_escape(path, line, body):
    """body: the text after the backslash of one escape sequence"""
    if body[0] == 'u':
        n = int(body[2:-1].replace('_', ''), 16)
        if n > 0x10FFFF or 0xD800 <= n <= 0xDFFF:
            raise GenError(path, line, 'invalid unicode escape \\%s' % body)
        return chr(n)
    if body[0] == 'x':
        n = int(body[1:], 16)
        if n > 0x7F:
            raise GenError(path, line, 'invalid escape \\%s (must be <= \\x7f)' % body)
        return chr(n)
    if body in SIMPLE_ESC:
        return SIMPLE_ESC[body]
    raise GenError(path, line, 'unknown escape sequence \\%s' % body)


def lex(path, src):
    toks = []
    i, n, line = 0, len(src), 1
    while i < n:
        c = src[i]
        if c == '\n':
            line += 1
            i += 1
            continue
        if c.isspace():
            i += 1
            continue
        if src.startswith('//', i):
            j = src.find('\n', i)
            i = n if j < 0 else j
            continue
        if src.startswith('/*', i):
            start_line = line
            depth, j = 1, i + 2
            while j < n and depth:
                if src.startswith('/*', j):
                    depth += 1
                    j += 2
                elif src.startswith('*/', j):
                    depth -= 1
                    j += 2
                else:
                    if src[j] == '\n':
                        line += 1
                    j += 1
            if depth:
                raise GenError(path, start_line, 'unterminated block comment')
            i = j
            continue
        m = RE_RAW.match(src, i)
        if m:
            close = '"' + m.group(1)
            j = src.find(close, m.end())
            if j < 0:
                raise GenError(path, line, 'unterminated raw string')
            val = src[m.end():j]
            end = j + len(close)
            toks.append(Tok('str', src[i:end], line, val))
            line += val.count('\n')
            i = end
            continue
        if c == '"':
            start_line = line
            j = i + 1
            out = []
            while True:
                if j >= n:
                    raise GenError(path, start_line, 'unterminated string literal')
                d = src[j]
                if d == '"':
                    break
                if d == '\\':
                    if j + 1 < n and src[j + 1] == '\n':      # line continuation
                        j += 2
                        line += 1
                        while j < n and src[j] in ' \t\n\r':
                            if src[j] == '\n':
                                line += 1
                            j += 1
                        continue
                    m2 = RE_STR_ESC.match(src, j + 1)
                    if not m2:
                        raise GenError(path, line, 'bad escape in string literal')
                    out.append(decode_escape(path, line, m2.group(0)))
                    j = m2.end()
                    continue
                if d == '\n':
                    line += 1
                out.append(d)
                j += 1
            toks.append(Tok('str', src[i:j + 1], start_line, ''.join(out)))
            i = j + 1
            continue
        if c == "'":
            m = RE_CHAR.match(src, i)
            if m:
                body = m.group(1)
                val = decode_escape(path, line, body[1:]) if body[0] == '\\' else body
                toks.append(Tok('chr', m.group(0), line, val))
                i = m.end()
                continue
            m = RE_LIFE.match(src, i)
            if m:
                toks.append(Tok('life', m.group(0), line))
                i = m.end()
                continue
            raise GenError(path, line, 'cannot tokenize character literal or lifetime here')
        if c.isdigit():
            m = RE_NUM.match(src, i)
            text = m.group(0)
            j = m.end()
            m2 = RE_ID.match(src, j)
            if m2:
                if m2.group(0) not in NUM_SUFFIX:
                    raise GenError(path, line, 'unknown numeric literal suffix in %r'
                                   % (text + m2.group(0)))
                j = m2.end()
            toks.append(Tok('num', src[i:j], line, Fraction(text.replace('_', ''))))
            i = j
            continue
        m = RE_ID.match(src, i)
        if m:
            toks.append(Tok('id', m.group(0), line))
            i = m.end()
            continue
        two = src[i:i + 2]
        if two in OPS2:
            toks.append(Tok('op', two, line))
            i += 2
            continue
        if c in OPS1:
            toks.append(Tok('op', c, line))
            i += 1
            continue
        raise GenError(path, line, 'unexpected character %r' % c)
    toks.append(Tok('eof', '<end of file>', line))
    return toks


def toks_text(toks):
    """compact one-line rendering of a token range (used for the comments of the Lean files)"""
    out = []
    for t in toks:
        s = t.text
        if s in ('&&', '||', '*', '/', '+'):
            out.append(' ' + s + ' ')
        elif s == ',':
            out.append(', ')
        else:
            out.append(s)
    s = ''.join(out)
    s = re.sub(r',\s*([\])])', r'\1', s)
    return re.sub(r'\s+', ' ', s).strip().rstrip(',').rstrip()


# ---------------------------------------------------------------------------------------------
# the constants of the cell grid
# ---------------------------------------------------------------------------------------------

LETTERS = 'abcdefghijklmnopqrstuvwxy'
NEIGHBOUR_CELLS = {
    'top_left': (-1, -1), 'top': (0, -1), 'top_right': (1, -1),
    'left': (-1, 0), 'right': (1, 0),
    'bottom_left': (-1, 1), 'bottom': (0, 1), 'bottom_right': (1, 1),
}


class Grid(object):
    """what `cell_grid.rs` says: the 25 named intersections, the size of a cell, the slices.
    The formulas that use them are those of cell_grid.rs / cell.rs / point.rs:
      CellGrid::point(x, y) = (x * unit_x, y * unit_y), unit_x = width / hslices, unit_y = height / vslices
      Cell::unit(l) = unit_x * l;  Cell(x, y).top_left_most() = (x * width, y * height)
      Point::adjust(ux, uy) = (x + ux * unit_x, y + uy * unit_y)"""

    def __init__(self, path, src):
        toks = lex(path, src)
        texts = [t.text for t in toks]

        def find_fn(name):
            for i in range(len(texts) - 2):
                if texts[i] == 'fn' and texts[i + 1] == name and texts[i + 2] == '(':
                    return i
            raise GenError(path, 1, 'cannot find `fn %s(` of CellGrid' % name)

        def body(name, ret):
            """tokens of the body of `fn name() -> ret { body }`"""
            i = find_fn(name)
            head = ['fn', name, '(', ')', '->', ret, '{']
            if texts[i:i + len(head)] != head:
                raise GenError(path, toks[i].line, 'unexpected signature of CellGrid::%s' % name)
            j = i + len(head)
            k = j
            while texts[k] != '}':
                if toks[k].kind == 'eof' or texts[k] == '{':
                    raise GenError(path, toks[j].line, 'unexpected body of CellGrid::%s' % name)
                k += 1
            return toks[j:k]

        def const(name, ret, integral):
            b = body(name, ret)
            if len(b) != 1 or b[0].kind != 'num' or (integral and b[0].val.denominator != 1):
                raise GenError(path, b[0].line if b else toks[find_fn(name)].line,
                               'CellGrid::%s() is expected to be a literal' % name)
            return b[0].val

        def same(name, ret, expected):
            b = body(name, ret)
            if [t.text for t in b] != expected.split():
                raise GenError(path, b[0].line if b else toks[find_fn(name)].line,
                               'CellGrid::%s() is not `%s` any more; the translator has to be adapted'
                               % (name, expected))

        self.width = const('width', 'f32', False)
        self.height = const('height', 'f32', False)
        hs = const('horizontal_slices', 'usize', True)
        vs = const('vertical_slices', 'usize', True)
        same('unit_x', 'f32', 'Self :: width ( ) / Self :: horizontal_slices ( ) as f32')
        same('unit_y', 'f32', 'Self :: height ( ) / Self :: vertical_slices ( ) as f32')
        i = find_fn('point')
        expected = ('fn point ( x : usize , y : usize ) -> Point { '
                    'let px = x as f32 * Self :: unit_x ( ) ; let py = y as f32 * Self :: unit_y ( ) ; '
                    'Point :: new ( px , py ) }').split()
        if texts[i:i + len(expected)] != expected:
            raise GenError(path, toks[i].line,
                           'CellGrid::point is not the expected function any more; '
                           'the translator has to be adapted')
        self.unit_x = self.width / hs
        self.unit_y = self.height / vs
        # Model/Geom.lean fixes these (Cell.origin = (1000 x, 2000 y), pitch 250): a table translated
        # for another cell size would not fit the model
        if (self.width, self.height, self.unit_x, self.unit_y) != (1, 2, Fraction(1, 4), Fraction(1, 4)):
            raise GenError(path, toks[find_fn('width')].line,
                           'cell size %s x %s with pitch %s x %s: the Lean model (Model/Geom.lean) assumes '
                           '1 x 2 with pitch 0.25 x 0.25' % (self.width, self.height, self.unit_x, self.unit_y))
        self.letters = {}
        for ch in LETTERS:
            b = body(ch, 'Point')
            tx = [t.text for t in b]
            if (len(b) != 8 or tx[:4] != ['Self', '::', 'point', '('] or tx[5] != ',' or tx[7] != ')'
                    or b[4].kind != 'num' or b[6].kind != 'num'
                    or b[4].val.denominator != 1 or b[6].val.denominator != 1):
                raise GenError(path, b[0].line if b else toks[find_fn(ch)].line,
                               'CellGrid::%s() is expected to be `Self::point(INT, INT)`' % ch)
            self.letters[ch] = (int(b[4].val), int(b[6].val))

    def point(self, x, y):
        return (x * self.unit_x, y * self.unit_y)


# ---------------------------------------------------------------------------------------------
# parser
# ---------------------------------------------------------------------------------------------

SIGNALS = {'Faint': '.faint', 'Weak': '.weak', 'Medium': '.medium', 'Strong': '.strong'}
TAGS = {
    'ArrowTopLeft': '.arrowTopLeft', 'ArrowTop': '.arrowTop', 'ArrowTopRight': '.arrowTopRight',
    'ArrowLeft': '.arrowLeft', 'ArrowRight': '.arrowRight',
    'ArrowBottomLeft': '.arrowBottomLeft', 'ArrowBottom': '.arrowBottom',
    'ArrowBottomRight': '.arrowBottomRight', 'DiamondBullet': '.diamondBullet',
}
DIRS = ['.topLeft', '.top', '.topRight', '.left', '.right', '.bottomLeft', '.bottom', '.bottomRight']
OVERLAP = {'line_overlap': '.medium', 'line_strongly_overlap': '.strong',
           'line_weakly_overlap': '.weak'}
KIND_NAME = {'num': 'a number', 'pt': 'a point', 'cell': 'a cell', 'bool': 'a boolean'}

ASCII_TAIL = ('; let mut btree = BTreeMap :: new ( ) ; '
              'for ( ch , fragments , closure ) in map { '
              'btree . insert ( ch , Property :: new ( ch , fragments , closure ) ) ; } '
              'btree } ) ;')
UNICODE_TAIL = ('; let mut btree = BTreeMap :: new ( ) ; '
                'for ( ch , mut fragments ) in map . into_iter ( ) { '
                'fragments . sort ( ) ; btree . insert ( ch , fragments ) ; } '
                'btree } ) ;')
CIRCLE_TAIL = '} ) ;'


class Parser(object):
    def __init__(self, path, src, grid):
        self.path = path
        self.toks = lex(path, src)
        self.pos = 0
        self.grid = grid
        self.env = {}          # name -> (kind, value)
        self.params = {}       # closure parameter -> Dir
        self.inexact = []      # (line, literal) of decimal literals that are not exact in binary

    # -- token helpers --------------------------------------------------------------------------
    def err(self, tok, msg):
        raise GenError(self.path, tok.line, msg)

    def peek(self, k=0):
        return self.toks[min(self.pos + k, len(self.toks) - 1)]

    def at(self, text, k=0):
        t = self.peek(k)
        return t.kind in ('op', 'id') and t.text == text

    def next(self):
        t = self.toks[self.pos]
        if t.kind != 'eof':
            self.pos += 1
        return t

    def expect(self, text):
        t = self.peek()
        if not self.at(text):
            self.err(t, 'expected `%s`, found `%s`' % (text, t.text))
        return self.next()

    def expect_seq(self, texts):
        for x in texts.split():
            self.expect(x)

    def expect_kind(self, kind, what):
        t = self.peek()
        if t.kind != kind:
            self.err(t, 'expected %s, found `%s`' % (what, t.text))
        return self.next()

    def opt_comma(self):
        if self.at(','):
            self.next()

    def seek(self, *texts):
        """position just after the first occurrence of the token sequence"""
        n = len(texts)
        for i in range(len(self.toks) - n):
            if all(self.toks[i + k].text == texts[k] and self.toks[i + k].kind in ('id', 'op')
                   for k in range(n)):
                self.pos = i + n
                return self.toks[i]
        raise GenError(self.path, 1, 'cannot find `%s`' % ' '.join(texts))

    def skip_type(self):
        """skip a type annotation up to the `=` that follows it"""
        start = self.peek()
        depth = 0
        while True:
            t = self.peek()
            if t.kind == 'eof' or t.text in (';', '{', '}'):
                self.err(start, 'cannot find the end of this type annotation')
            if t.kind == 'op':
                if t.text in '(<[':
                    depth += 1
                elif t.text in ')>]':
                    depth -= 1
                    if depth < 0:
                        self.err(t, 'unbalanced `%s` in type annotation' % t.text)
                elif t.text == '=' and depth == 0:
                    return
            self.next()

    def path_name(self):
        """ident (:: ident)*  ->  list of tokens"""
        parts = [self.expect_kind('id', 'an identifier')]
        while self.at('::'):
            self.next()
            parts.append(self.expect_kind('id', 'an identifier after `::`'))
        return parts

    def comma_list(self, close, item):
        out = []
        while not self.at(close):
            out.append(item())
            if self.at(','):
                self.next()
            elif not self.at(close):
                t = self.peek()
                self.err(t, 'expected `,` or `%s`, found `%s`' % (close, t.text))
        self.expect(close)
        return out

    def vec(self, item):
        """vec![ item,* ]  ->  (items, source text of the inside)"""
        self.expect('vec')
        self.expect('!')
        self.expect('[')
        a = self.pos
        items = self.comma_list(']', item)
        return items, toks_text(self.toks[a:self.pos - 1])

    # -- values ---------------------------------------------------------------------------------
    def value(self, kind):
        t = self.peek()
        v = self.additive()
        if v[0] != kind:
            self.err(t, 'expected %s, found %s' % (KIND_NAME[kind], KIND_NAME[v[0]]))
        return v[1]

    def integer(self):
        t = self.peek()
        v = self.value('num')
        if v.denominator != 1:
            self.err(t, 'expected an integer')
        return int(v)

    def additive(self):
        l = self.multiplicative()
        while self.at('+') or self.at('-'):
            op = self.next()
            l = self.arith(op, l, self.multiplicative())
        return l

    def multiplicative(self):
        l = self.unary()
        while self.at('*') or self.at('/'):
            op = self.next()
            l = self.arith(op, l, self.unary())
        return l

    def arith(self, op, l, r):
        if l[0] != 'num' or r[0] != 'num':
            self.err(op, 'operator `%s` is only supported between numbers (found %s %s %s)'
                     % (op.text, KIND_NAME[l[0]], op.text, KIND_NAME[r[0]]))
        a, b = l[1], r[1]
        if op.text == '+':
            return ('num', a + b)
        if op.text == '-':
            return ('num', a - b)
        if op.text == '*':
            return ('num', a * b)
        if b == 0:
            self.err(op, 'division by zero')
        return ('num', a / b)

    def unary(self):
        if self.at('-'):
            op = self.next()
            v = self.unary()
            if v[0] != 'num':
                self.err(op, 'unary `-` is only supported on numbers')
            return ('num', -v[1])
        return self.postfix()

    def postfix(self):
        v = self.primary()
        while self.at('.'):
            self.next()
            name = self.peek()
            if name.kind != 'id' or not self.at('(', 1):
                self.err(name, 'expected a method call after `.`, found `%s`' % name.text)
            self.next()
            self.next()
            args_at = self.peek()
            args = self.comma_list(')', self.additive)
            v = self.method(v, name, args, args_at)
        return v

    def check_args(self, tok, what, args, kinds):
        if len(args) != len(kinds):
            self.err(tok, '%s takes %d argument(s), found %d' % (what, len(kinds), len(args)))
        for a, k in zip(args, kinds):
            if a[0] != k:
                self.err(tok, 'argument of %s: expected %s, found %s'
                         % (what, KIND_NAME[k], KIND_NAME[a[0]]))
        return [a[1] for a in args]

    def int_args(self, tok, what, args, n):
        vals = self.check_args(tok, what, args, ['num'] * n)
        for v in vals:
            if v.denominator != 1:
                self.err(tok, 'argument of %s: expected an integer' % what)
        return [int(v) for v in vals]

    def method(self, v, name, args, args_at):
        g = self.grid
        kind, val = v
        m = name.text
        if kind == 'pt':
            x, y = val
            if m == 'adjust':
                ux, uy = self.check_args(name, 'Point::adjust', args, ['num', 'num'])
                return ('pt', (x + ux * g.unit_x, y + uy * g.unit_y))
            if m == 'adjust_x':
                ux, = self.check_args(name, 'Point::adjust_x', args, ['num'])
                return ('pt', (x + ux * g.unit_x, y))
            if m == 'adjust_y':
                uy, = self.check_args(name, 'Point::adjust_y', args, ['num'])
                return ('pt', (x, y + uy * g.unit_y))
        elif kind == 'cell':
            cx, cy = val
            if m in NEIGHBOUR_CELLS:
                self.check_args(name, 'Cell::%s' % m, args, [])
                dx, dy = NEIGHBOUR_CELLS[m]
                return ('cell', (cx + dx, cy + dy))
            if m in g.letters:
                self.check_args(name, 'Cell::%s' % m, args, [])
                px, py = g.point(*g.letters[m])
                return ('pt', (cx * g.width + px, cy * g.height + py))
        self.err(name, 'unknown method `.%s(..)` on %s' % (m, KIND_NAME[kind]))

    def primary(self):
        t = self.peek()
        if t.kind == 'num':
            self.next()
            d = t.val.denominator
            if d & (d - 1):
                self.inexact.append((t.line, t.text))
            return ('num', t.val)
        if self.at('('):
            self.next()
            v = self.additive()
            self.expect(')')
            return v
        if t.kind != 'id':
            self.err(t, 'expected a value (number, point or cell), found `%s`' % t.text)
        parts = self.path_name()
        name = '::'.join(p.text for p in parts)
        if not self.at('('):
            if len(parts) == 1 and name in self.params:
                self.err(t, '`%s` is a neighbour (closure parameter), a value is expected here' % name)
            if len(parts) != 1 or name not in self.env:
                self.err(t, 'unknown name `%s` (not defined by a `let` before the table)' % name)
            return self.env[name]
        self.next()
        args = self.comma_list(')', self.additive)
        g = self.grid
        if name == 'Cell::unit':
            l, = self.int_args(t, name, args, 1)
            return ('num', g.unit_x * l)
        if name == 'Cell::new':
            x, y = self.int_args(t, name, args, 2)
            return ('cell', (x, y))
        if name == 'CellGrid::point':
            x, y = self.int_args(t, name, args, 2)
            if x < 0 or y < 0:
                self.err(t, 'CellGrid::point takes unsigned arguments')
            return ('pt', g.point(x, y))
        if len(parts) == 2 and parts[0].text == 'CellGrid' and parts[1].text in g.letters:
            self.check_args(t, name, args, [])
            return ('pt', g.point(*g.letters[parts[1].text]))
        self.err(t, 'unknown function `%s(..)`' % name)

    def boolean(self):
        t = self.peek()
        if t.kind == 'id' and t.text in ('true', 'false'):
            self.next()
            return t.text == 'true'
        self.err(t, 'expected `true` or `false`, found `%s`' % t.text)

    def char(self):
        return self.expect_kind('chr', 'a character literal').val

    # -- milli-units ----------------------------------------------------------------------------
    def milli(self, tok, v, what):
        m = v * 1000
        if m.denominator != 1:
            self.err(tok, '%s %s is not a whole number of milli-units' % (what, v))
        return int(m)

    def pt(self):
        t = self.peek()
        x, y = self.value('pt')
        return (self.milli(t, x, 'x coordinate'), self.milli(t, y, 'y coordinate'))

    def length(self):
        t = self.peek()
        return self.milli(t, self.value('num'), 'length')

    # -- statements -----------------------------------------------------------------------------
    def lets_until_map(self):
        """`let NAME = value;`* followed by `let map [: T] = vec![`; stops inside the vec"""
        while True:
            t = self.peek()
            if not self.at('let'):
                self.err(t, 'expected a `let` statement before the table, found `%s`' % t.text)
            self.next()
            name = self.expect_kind('id', 'a variable name')
            if name.text == 'mut':
                self.err(name, '`let mut` is not supported before the table')
            if name.text == 'map':
                if self.at(':'):
                    self.next()
                    self.skip_type()
                self.expect_seq('= vec ! [')
                return
            if self.at(':'):
                self.err(self.peek(), 'type annotation on `let %s` is not supported' % name.text)
            self.expect('=')
            self.env[name.text] = self.additive()
            self.expect(';')

    def check_tail(self, expected, what):
        for x in expected.split():
            t = self.peek()
            if t.text != x or t.kind not in ('id', 'op'):
                self.err(t, 'unexpected code after the table (%s): expected `%s`, found `%s`; '
                         'the translator has to be adapted' % (what, x, t.text))
            self.next()

    # -- fragments ------------------------------------------------------------------------------
    def fragment(self):
        t = self.peek()
        a = self.pos
        if t.kind != 'id':
            self.err(t, 'expected a fragment constructor, found `%s`' % t.text)
        parts = self.path_name()
        f = parts[-1].text
        if len(parts) > 2 or (len(parts) == 2 and parts[0].text != 'fragment'):
            self.err(t, 'unknown fragment constructor `%s`' % '::'.join(p.text for p in parts))
        if f in self.env or f in self.params:
            self.err(t, '`%s` is a variable here, a fragment constructor is expected' % f)
        self.expect('(')

        def comma():
            self.expect(',')

        if f in ('line', 'broken_line'):
            p = self.pt(); comma(); q = self.pt()
            lean = '%s %s %s' % ('mkLine' if f == 'line' else 'mkBrokenLine', lpt(p), lpt(q))
        elif f == 'arc':
            p = self.pt(); comma(); q = self.pt(); comma(); r = self.length()
            lean = 'mkArc %s %s %s' % (lpt(p), lpt(q), larg(r))
        elif f == 'arc_with_sweep':
            p = self.pt(); comma(); q = self.pt(); comma(); r = self.length(); comma()
            sweep = self.boolean()
            lean = 'mkArcSweep %s %s %s %s' % (lpt(p), lpt(q), larg(r), lbool(sweep))
        elif f == 'circle':
            c = self.pt(); comma(); r = self.length(); comma(); filled = self.boolean()
            lean = 'mkCircle %s %s %s' % (lpt(c), larg(r), lbool(filled))
        elif f == 'rect':
            p = self.pt(); comma(); q = self.pt(); comma(); filled = self.boolean(); comma()
            broken = self.boolean()
            lean = 'mkRect %s %s %s %s' % (lpt(p), lpt(q), lbool(filled), lbool(broken))
        elif f == 'polygon':
            pts, _ = self.vec(self.pt); comma(); filled = self.boolean(); comma()
            tags, _ = self.vec(self.tag)
            lean = 'mkPolygon [%s] %s [%s]' % (', '.join(lpt(p) for p in pts), lbool(filled),
                                               ', '.join(tags))
        else:
            self.err(t, 'unknown fragment constructor `%s`' % f)
        self.opt_comma()
        self.expect(')')
        return lean

    def enum_name(self, table, prefix, what):
        t = self.peek()
        if t.kind != 'id':
            self.err(t, 'expected %s, found `%s`' % (what, t.text))
        parts = self.path_name()
        if len(parts) > 2 or (len(parts) == 2 and parts[0].text != prefix) \
                or parts[-1].text not in table:
            self.err(t, 'unknown %s `%s`' % (what, '::'.join(p.text for p in parts)))
        return table[parts[-1].text]

    def tag(self):
        return self.enum_name(TAGS, 'PolygonTag', 'polygon tag')

    def signal(self):
        return self.enum_name(SIGNALS, 'Signal', 'signal')

    # -- conditions -----------------------------------------------------------------------------
    def cond(self):
        l = self.cond_and()
        while self.at('||'):
            self.next()
            l = '.or %s %s' % (lparen(l), lparen(self.cond_and()))
        return l

    def cond_and(self):
        l = self.cond_not()
        while self.at('&&'):
            self.next()
            l = '.and %s %s' % (lparen(l), lparen(self.cond_not()))
        return l

    def cond_not(self):
        t = self.peek()
        if self.at('!'):
            self.next()
            return '.not %s' % lparen(self.cond_not())
        if self.at('('):
            self.next()
            c = self.cond()
            self.expect(')')
            return c
        if t.kind != 'id':
            self.err(t, 'expected a condition, found `%s`' % t.text)
        self.next()
        if t.text == 'true':
            return '.tt'
        if t.text not in self.params:
            self.err(t, 'unknown condition `%s` (expected `true` or one of the closure parameters %s)'
                     % (t.text, ', '.join(sorted(self.params, key=lambda k: DIRS.index(self.params[k])))))
        d = self.params[t.text]
        self.expect('.')
        m = self.expect_kind('id', 'a method name')
        self.expect('(')
        if m.text == 'is':
            c = '.is %s %s' % (d, lchar(self.char()))
        elif m.text in OVERLAP:
            p = self.pt(); self.expect(','); q = self.pt()
            c = '.overlap %s %s %s %s' % (d, lpt(p), lpt(q), OVERLAP[m.text])
        elif m.text == 'arcs_to':
            p = self.pt(); self.expect(','); q = self.pt()
            c = '.arcsTo %s %s %s' % (d, lpt(p), lpt(q))
        else:
            self.err(m, 'unknown method `.%s(..)` on a neighbour property' % m.text)
        self.opt_comma()
        self.expect(')')
        return c

    # -- tables ---------------------------------------------------------------------------------
    def pair(self, first, second):
        """( first , second ,? )  ->  (a, b, source text of a, source text of b)"""
        self.expect('(')
        i = self.pos
        a = first()
        j = self.pos
        self.expect(',')
        b = second()
        self.opt_comma()
        self.expect(')')
        return a, b, toks_text(self.toks[i:j])

    def ascii_entry(self):
        self.expect('(')
        ch = self.char()
        self.expect(',')
        sig, _ = self.vec(lambda: self.pair(self.signal, lambda: self.vec(self.fragment)))
        self.expect(',')
        self.expect_seq('Arc :: new ( move |')
        names = self.comma_list('|', lambda: self.expect_kind('id', 'a closure parameter name'))
        if len(names) != 8:
            self.err(names[0] if names else self.peek(),
                     'the behaviour closure must have 8 parameters, found %d' % len(names))
        self.params = {}
        for tok, d in zip(names, DIRS):
            if tok.text in self.env or tok.text in self.params or tok.text in ('true', 'false'):
                self.err(tok, 'closure parameter `%s` clashes with another name' % tok.text)
            self.params[tok.text] = d
        self.expect('{')
        beh, _ = self.vec(lambda: self.pair(self.cond, lambda: self.vec(self.fragment)))
        self.expect('}')
        self.params = {}
        self.opt_comma()
        self.expect(')')
        self.opt_comma()
        self.expect(')')
        return {'ch': ch,
                'sig': [(s, fr, '%s: %s' % (st, ft)) for (s, (fr, ft), st) in sig],
                'beh': [(c, fr, '%s => %s' % (ct, ft)) for (c, (fr, ft), ct) in beh]}

    def ascii_table(self):
        self.seek('static', 'ASCII_PROPERTIES')
        self.expect(':')
        self.skip_type()
        self.expect_seq('= Lazy :: new ( || {')
        self.lets_until_map()
        entries = self.comma_list(']', self.ascii_entry)
        self.check_tail(ASCII_TAIL, 'every row is inserted into the BTreeMap under its char')
        return entries

    def unicode_row(self):
        self.expect('(')
        ch = self.char()
        self.expect(',')
        frags, text = self.vec(self.fragment)
        self.opt_comma()
        self.expect(')')
        return ch, frags, text

    def unicode_table(self):
        self.seek('static', 'UNICODE_FRAGMENTS')
        self.expect(':')
        self.skip_type()
        self.expect_seq('= Lazy :: new ( || {')
        self.lets_until_map()
        rows = self.comma_list(']', self.unicode_row)
        self.check_tail(UNICODE_TAIL, 'the fragments of every row are sorted and inserted under its char')
        return rows

    def circle_row(self):
        self.expect('(')
        art = self.expect_kind('str', 'a string literal (the circle drawing)').val
        self.expect(',')
        t = self.peek()
        parts = self.path_name()
        name = '::'.join(p.text for p in parts)
        if name == 'Horizontal::Half':
            edge = '.half'
        elif name == 'Horizontal::LeftEdge':
            edge = '.leftEdge'
        else:
            self.err(t, 'unknown edge case `%s` (expected Horizontal::Half or Horizontal::LeftEdge)' % name)
        self.expect(',')
        t = self.peek()
        ox = self.milli(t, self.value('num'), 'offset')
        self.expect(',')
        t = self.peek()
        oy = self.milli(t, self.value('num'), 'offset')
        self.expect(',')
        cell = self.value('cell')
        self.opt_comma()
        self.expect(')')
        return art, edge, ox, oy, cell

    def circle_table(self):
        self.seek('const', 'CIRCLES_TO_SKIP_FOR_ARC')
        self.expect_seq(': usize =')
        t = self.peek()
        skip = self.integer()
        if skip < 0:
            self.err(t, 'CIRCLES_TO_SKIP_FOR_ARC must not be negative')
        self.expect(';')
        self.seek('static', 'CIRCLE_ART_MAP')
        self.expect(':')
        self.skip_type()
        self.expect_seq('= Lazy :: new ( || { vec ! [')
        rows = self.comma_list(']', self.circle_row)
        self.check_tail(CIRCLE_TAIL, 'the vector is the value of CIRCLE_ART_MAP')
        return skip, rows


# ---------------------------------------------------------------------------------------------
# Lean rendering
# ---------------------------------------------------------------------------------------------

def lpt(p):
    return '⟨%d, %d⟩' % p


def larg(n):
    return '(%d)' % n if n < 0 else '%d' % n


def lbool(b):
    return 'true' if b else 'false'


def lparen(s):
    return s if ' ' not in s else '(%s)' % s


def lchar(c):
    if c == "'":
        return "'\\''"
    if c == '\\':
        return "'\\\\'"
    if c == '\n':
        return "'\\n'"
    if c == '\t':
        return "'\\t'"
    if c.isprintable():
        return "'%s'" % c
    return '(Char.ofNat %d)' % ord(c)


def lstring(path, s):
    out = []
    for c in s:
        if c == '\n':
            out.append('\\n')
        elif c == '\t':
            out.append('\\t')
        elif c == '\r':
            out.append('\\r')
        elif c == '\\':
            out.append('\\\\')
        elif c == '"':
            out.append('\\"')
        elif c.isprintable():
            out.append(c)
        elif ord(c) < 0x100:
            out.append('\\x%02x' % ord(c))
        elif ord(c) < 0x10000:
            out.append('\\u%04x' % ord(c))
        else:
            raise GenError(path, 1, 'cannot write U+%X in a Lean string literal' % ord(c))
    return '"%s"' % ''.join(out)


def comment(s):
    return '  -- ' + s.replace('\n', ' ')


def header(rel):
    return '-- GENERATED by tools/gen_tables.py from %s — do not edit\n' % rel


def rows_block(rows, indent, closing):
    """rows: [(lean text, comment)] -> lines of a Lean list, one row per line; `closing` follows the
    last row on its line (before the comment)"""
    lines = []
    for k, (lean, com) in enumerate(rows):
        last = k == len(rows) - 1
        lines.append('%s%s%s%s' % (indent, lean, closing if last else ',', comment(com)))
    return lines


def render_ascii(entries):
    out = [header(ASCII_RS), 'import Svgbob.Model.Table\n', 'namespace Svgbob.Gen\n',
           '/-- entries in source order (the code inserts them into a BTreeMap by char) -/\n',
           'def asciiTable : List Entry := [\n']
    for k, e in enumerate(entries):
        end = ' }' + ('' if k == len(entries) - 1 else ',')
        lines = ['  { ch := %s,' % lchar(e['ch'])]
        sig = [('(%s, [%s])' % (s, ', '.join(fr)), com) for s, fr, com in e['sig']]
        beh = [('(%s, [%s])' % (c, ', '.join(fr)), com) for c, fr, com in e['beh']]
        if sig:
            lines.append('    signature := [')
            lines += rows_block(sig, '      ', '],')
        else:
            lines.append('    signature := [],')
        if beh:
            lines.append('    behavior := [')
            lines += rows_block(beh, '      ', ']' + end)
        else:
            lines.append('    behavior := []' + end)
        out.append('\n'.join(lines) + '\n')
    out.append(']\n')
    out.append('end Svgbob.Gen\n')
    return ''.join(out)


def render_unicode(rows):
    out = [header(UNICODE_RS), 'import Svgbob.Model.Table\n', 'namespace Svgbob.Gen\n',
           '/-- the rows of the `map` vector of `UNICODE_FRAGMENTS` in source order, duplicates kept (the code\n'
           'sorts the fragments of each row and inserts it into a BTreeMap by char: the last row of a char wins) -/\n',
           'def unicodeTable : List (Char × List Frag) := [\n']
    body = [('(%s, [%s])' % (lchar(ch), ', '.join(fr)), 'U+%04X %s' % (ord(ch), text))
            for ch, fr, text in rows]
    out.append('\n'.join(rows_block(body, '  ', '')) + '\n' if body else '')
    out.append(']\n')
    out.append('end Svgbob.Gen\n')
    return ''.join(out)


def render_circle(path, skip, rows):
    out = [header(CIRCLE_RS), 'import Svgbob.Model.Table\n', 'namespace Svgbob.Gen\n',
           '/-- `CIRCLES_TO_SKIP_FOR_ARC` -/\n',
           'def circlesToSkipForArc : Nat := %d\n' % skip,
           '/-- the rows of `CIRCLE_ART_MAP` in source order; `art` is the raw string as written -/\n',
           'def circleArt : List CircleArtRow := [\n']
    for k, (art, edge, ox, oy, cell) in enumerate(rows):
        out.append('  { art := %s,\n    edge := %s, offsetX := %d, offsetY := %d, arcCenter := ⟨%d, %d⟩ }%s%s\n'
                   % (lstring(path, art), edge, ox, oy, cell[0], cell[1],
                      '' if k == len(rows) - 1 else ',', comment('CIRCLE_%d' % k)))
    out.append(']\n')
    out.append('end Svgbob.Gen\n')
    return ''.join(out)


# ---------------------------------------------------------------------------------------------
# driver
# ---------------------------------------------------------------------------------------------

def read(path):
    try:
        with open(path, encoding='utf-8') as f:
            return f.read()
    except (OSError, UnicodeDecodeError) as e:
        raise GenError(path, 0, 'cannot read: %s' % e)


def write_if_changed(path, content):
    try:
        with open(path, encoding='utf-8') as f:
            if f.read() == content:
                return False
    except (OSError, UnicodeDecodeError):
        pass
    tmp = path + '.tmp'
    with open(tmp, 'w', encoding='utf-8') as f:
        f.write(content)
    os.replace(tmp, path)
    return True



# ----------------------------------------------------------------------------
# constants: package names/versions, default settings, the escape table of text.rs

def lean_str(t):
    return '"' + t.replace('\\', '\\\\').replace('"', '\\"').replace('\n', '\\n') + '"'


def gen_consts(root):
    import re as _re
    out = ['-- GENERATED by tools/gen_tables.py from Cargo.toml, settings.rs, text.rs — do not edit',
           'namespace Svgbob.Gen', '']
    for crate, prefix in (('svgbob_server', 'server'), ('svgbob_cli', 'cli'), ('svgbob', 'lib')):
        p = os.path.join(root, 'crates', crate, 'Cargo.toml')
        src = read(p)
        pkg = src.split('[dependencies]')[0]
        name = _re.search(r'^name\s*=\s*"([^"]*)"', pkg, _re.M)
        ver = _re.search(r'^version\s*=\s*"([^"]*)"', pkg, _re.M)
        if not name or not ver:
            raise GenError(p, 1, 'cannot find package name/version')
        out.append('def %sPackageName : String := %s' % (prefix, lean_str(name.group(1))))
        out.append('def %sPackageVersion : String := %s' % (prefix, lean_str(ver.group(1))))
    # default settings
    p = os.path.join(root, 'crates', 'svgbob', 'src', 'settings.rs')
    src = read(p)
    m = _re.search(r'impl Default for Settings \{.*?Settings \{(.*?)\}\s*\}\s*\}', src, _re.S)
    if not m:
        raise GenError(p, 1, 'cannot find Default for Settings')
    body = m.group(1)
    fields = dict((k, v.strip()) for k, v in _re.findall(r'^\s*(\w+):\s*(.*),\s*$', body, _re.M))
    need = ['font_size', 'font_family', 'fill_color', 'background', 'stroke_color', 'stroke_width', 'scale',
            'include_backdrop', 'include_styles', 'include_defs']
    for k in need:
        if k not in fields:
            raise GenError(p, 1, 'default for %s not found' % k)

    def sval(v):
        mm = _re.match(r'"(.*)"\.into\(\)$', v)
        if not mm:
            raise GenError(p, 1, 'unexpected default %r' % v)
        return lean_str(mm.group(1))

    def fval(v):
        fr = Fraction(v)
        return '(%d, %d)' % (fr.numerator, fr.denominator)

    out.append('')
    out.append('def defaultFontSize : Nat := %d' % int(fields['font_size']))
    out.append('def defaultFontFamily : String := %s' % sval(fields['font_family']))
    out.append('def defaultFillColor : String := %s' % sval(fields['fill_color']))
    out.append('def defaultBackground : String := %s' % sval(fields['background']))
    out.append('def defaultStrokeColor : String := %s' % sval(fields['stroke_color']))
    out.append('/-- numerator, denominator -/')
    out.append('def defaultStrokeWidth : Nat × Nat := %s' % fval(fields['stroke_width']))
    out.append('def defaultScale : Nat × Nat := %s' % fval(fields['scale']))
    for k, nm in (('include_backdrop', 'defaultIncludeBackdrop'), ('include_styles', 'defaultIncludeStyles'),
                  ('include_defs', 'defaultIncludeDefs')):
        if fields[k] not in ('true', 'false'):
            raise GenError(p, 1, 'unexpected default %r' % fields[k])
        out.append('def %s : Bool := %s' % (nm, fields[k]))
    # escape table of replace_html_char
    p = os.path.join(root, 'crates', 'svgbob', 'src', 'buffer', 'fragment_buffer', 'fragment', 'text.rs')
    src = read(p)
    m = _re.search(r'fn replace_html_char.*?match ch \{(.*?)\n    \}', src, _re.S)
    if not m:
        raise GenError(p, 1, 'cannot find replace_html_char')
    rows = _re.findall(r"'((?:\\.|[^'\\]))'\s*=>\s*Cow::from\(\"([^\"]*)\"\)", m.group(1))
    if len(rows) < 5:
        raise GenError(p, 1, 'escape table has only %d literal rows' % len(rows))
    out.append('')
    out.append('/-- the literal rows of `replace_html_char` (character, replacement) -/')
    out.append('def escapeTable : List (Char × String) := [')
    lits = []
    for ch, rep in rows:
        c = {"\\'": "'", '\\"': '"', '\\r': '\r', '\\0': '\0', '\\n': '\n', '\\\\': '\\'}.get(ch, ch)
        lits.append('  (Char.ofNat %d, %s)' % (ord(c), lean_str(rep)))
    out.append(',\n'.join(lits) + ']')
    out.append('')
    out.append('end Svgbob.Gen')
    return '\n'.join(out) + '\n'


def gen_thresholds(root):
    """numeric constants of the geometry code that the hand-written model carries as literals; the Properties files
    hold `decide` theorems that the model's literal equals the value regenerated here"""
    import re as _re
    src_dir = os.path.join(root, 'crates', 'svgbob', 'src')
    out = ['-- GENERATED by tools/gen_tables.py from util.rs, line.rs, direction.rs, cell_grid.rs, cell.rs — do not edit',
           'namespace Svgbob.Gen', '']

    def milli(v):
        fr = Fraction(v) * 1000
        if fr.denominator != 1:
            raise GenError('thresholds', 1, 'literal %s is not a whole number of milli-units' % v)
        return fr.numerator

    # cell size and grid pitch
    p = os.path.join(src_dir, 'buffer', 'cell_buffer', 'cell', 'cell_grid.rs')
    src = read(p)
    dims = {}
    for fn in ('width', 'height'):
        m = _re.search(r'pub fn %s\(\) -> f32 \{\s*([0-9.]+)\s*\}' % fn, src)
        if not m:
            raise GenError(p, 1, 'cannot find CellGrid::%s' % fn)
        dims[fn] = m.group(1)
    for fn in ('horizontal_slices', 'vertical_slices'):
        m = _re.search(r'fn %s\(\) -> usize \{\s*([0-9]+)\s*\}' % fn, src)
        if not m:
            raise GenError(p, 1, 'cannot find CellGrid::%s' % fn)
        dims[fn] = int(m.group(1))
    out.append('def cellWidthMilli : Int := %d' % milli(dims['width']))
    out.append('def cellHeightMilli : Int := %d' % milli(dims['height']))
    out.append('def horizontalSlices : Nat := %d' % dims['horizontal_slices'])
    out.append('def verticalSlices : Nat := %d' % dims['vertical_slices'])
    ux = Fraction(dims['width']) * 1000 / dims['horizontal_slices']
    # util::is_collinear: `cross.abs() * F < E`  ->  |cross| < E / F  (milli-units squared)
    p = os.path.join(src_dir, 'util.rs')
    src = read(p)
    m = _re.search(r'pub fn is_collinear.*?cross\.abs\(\)\s*\*\s*([0-9.]+)\s*<\s*([0-9.]+)', src, _re.S)
    if not m:
        raise GenError(p, 1, 'cannot find the comparison of is_collinear')
    lim = Fraction(m.group(2)) / Fraction(m.group(1)) * 1000000
    if lim.denominator != 1:
        raise GenError(p, 1, 'collinearity limit is not integral in milli-units squared')
    out.append('/-- `is_collinear`: |cross product| below this (milli-units squared) -/')
    out.append('def collinearCrossLimit : Int := %d' % lim.numerator)
    # Line::merge_circle / can_merge_circle
    p = os.path.join(src_dir, 'buffer', 'fragment_buffer', 'fragment', 'line.rs')
    src = read(p)
    facs = _re.findall(r'<=\s*threshold_length\s*\*\s*([0-9.]+)', src)
    if len(facs) < 2 or len(set(facs)) != 1:
        raise GenError(p, 1, 'expected one common factor in `<= threshold_length * F`, found %r' % facs)
    fr = Fraction(facs[0])
    out.append('/-- `merge_circle`: an end point within this fraction of the threshold length is close -/')
    out.append('def mergeCircleFactor : Int × Int := (%d, %d)' % (fr.numerator, fr.denominator))
    m = _re.search(r'circle\.radius\s*<=\s*Cell::unit\((\d+)\)', src)
    if not m:
        raise GenError(p, 1, 'cannot find the radius bound of merge_circle')
    rb = ux * int(m.group(1))
    out.append('/-- `merge_circle`: largest bullet radius that merges (milli-units) -/')
    out.append('def mergeCircleMaxRadius : Int := %d' % rb.numerator)
    m = _re.search(r'fn line_angle\(&self\) -> f32 \{.*?match angle \{(.*?)\n        \}', src, _re.S)
    if not m:
        raise GenError(p, 1, 'cannot find line_angle')
    buckets = _re.findall(r'(\d+)\.\.=(\d+)\s*=>\s*([0-9.]+)', m.group(1))
    if len(buckets) < 8:
        raise GenError(p, 1, 'line_angle has only %d buckets' % len(buckets))
    out.append('/-- `line_angle`: (from, to, angle in milli-degrees) -/')
    out.append('def lineAngleBuckets : List (Nat × Nat × Nat) := [' +
               ', '.join('(%s, %s, %d)' % (a, b, milli(v)) for a, b, v in buckets) + ']')
    m = _re.search(r'fn heading\(&self\) -> Direction \{.*?match .*? \{(.*?)\n        \}', src, _re.S)
    if not m:
        raise GenError(p, 1, 'cannot find heading')
    heads = _re.findall(r'(\d+)\s*=>\s*Direction::(\w+)', m.group(1))
    if len(heads) < 8:
        raise GenError(p, 1, 'heading has only %d arms' % len(heads))
    out.append('/-- `heading`: rounded angle -> direction -/')
    out.append('def headingOfAngle : List (Nat × String) := [' + ', '.join('(%s, "%s")' % (a, d) for a, d in heads) + ']')
    # Direction::threshold_length
    p = os.path.join(src_dir, 'buffer', 'fragment_buffer', 'direction.rs')
    src = read(p)
    m = _re.search(r'fn threshold_length\(&self\) -> f32 \{\s*match self \{(.*?)\n        \}', src, _re.S)
    if not m:
        raise GenError(p, 1, 'cannot find threshold_length')
    arms = _re.findall(r'((?:Direction::\w+\s*\|?\s*)+)=>\s*CellGrid::(\w+)\(\)', m.group(1))
    pairs = []
    for ds, fn in arms:
        for d in _re.findall(r'Direction::(\w+)', ds):
            pairs.append((d, fn))
    if len(pairs) != 8:
        raise GenError(p, 1, 'threshold_length covers %d directions' % len(pairs))
    out.append('/-- `Direction::threshold_length`: direction -> CellGrid length used -/')
    out.append('def thresholdLengthOf : List (String × String) := [' +
               ', '.join('("%s", "%s")' % pr for pr in sorted(pairs)) + ']')
    # Signal::intensity and the level each `line_*overlap` predicate of the table conditions asks for
    p = os.path.join(src_dir, 'buffer', 'property_buffer', 'property.rs')
    src = read(p)
    m = _re.search(r'fn intensity\(&self\) -> u8 \{\s*match self \{(.*?)\}', src, _re.S)
    if not m:
        raise GenError(p, 1, 'cannot find Signal::intensity')
    ints = _re.findall(r'Signal::(\w+)\s*=>\s*(\d+)', m.group(1))
    if len(ints) != 4:
        raise GenError(p, 1, 'Signal::intensity has %d arms' % len(ints))
    out.append('/-- `Signal::intensity` -/')
    out.append('def signalIntensity : List (String × Nat) := [' + ', '.join('("%s", %s)' % a for a in ints) + ']')
    levels = []
    for fn in ('line_overlap', 'line_strongly_overlap', 'line_weakly_overlap'):
        m = _re.search(r'fn %s\(&self, a: Point, b: Point\) -> bool \{\s*self\.line_overlap_with_signal\(a, b, (?:Signal::)?(\w+)\)' % fn, src)
        if not m:
            raise GenError(p, 1, 'cannot find the level of %s' % fn)
        levels.append((fn, m.group(1)))
        # the table translator maps the predicate names to levels itself (OVERLAP): they must agree with the source
        if OVERLAP[fn] != '.' + m.group(1).lower():
            raise GenError(p, 1, '%s asks for %s, the translator assumes %s' % (fn, m.group(1), OVERLAP[fn]))
    out.append('/-- the signal level each overlap predicate of the table conditions requires -/')
    out.append('def overlapLevels : List (String × String) := [' + ', '.join('("%s", "%s")' % a for a in levels) + ']')
    m = _re.search(r'fn line_overlap_with_signal\(.*?\) -> bool \{(.*?)\n    \}', src, _re.S)
    if not m or not _re.search(r'signal\s*>=\s*&?required_signal|\*signal\s*>=\s*required_signal|signal\.intensity\(\)\s*>=', m.group(1)):
        # recorded, not fatal: the comparison is covered by the byte-level correspondence
        out.append('def overlapComparison : String := "unrecognised"')
    else:
        out.append('def overlapComparison : String := "signal >= required"')
    # Fragment::rank
    p = os.path.join(src_dir, 'buffer', 'fragment_buffer', 'fragment.rs')
    src = read(p)
    m = _re.search(r'fn rank\(&self\) -> u8 \{\s*match self \{(.*?)\n        \}', src, _re.S)
    if not m:
        raise GenError(p, 1, 'cannot find Fragment::rank')
    ranks = _re.findall(r'Fragment::(\w+)\s*(?:\(_\)|\{ \.\. \})\s*=>\s*(\d+)', m.group(1))
    if len(ranks) != 8:
        raise GenError(p, 1, 'Fragment::rank has %d arms' % len(ranks))
    out.append('/-- `Fragment::rank` -/')
    out.append('def fragmentRank : List (String × Nat) := [' + ', '.join('("%s", %s)' % a for a in ranks) + ']')
    out.append('')
    out.append('end Svgbob.Gen')
    return '\n'.join(out) + '\n'



def gen_stylesheet(root):
    """the base style sheet of `CellBuffer::style` (the `sauron::jss!` block) as data: rules in source order, each a
    selector and its declarations; a value is a literal or one of the settings"""
    path = os.path.join(root, 'crates/svgbob/src/buffer/cell_buffer.rs')
    src = read(path)
    m = re.search(r'sauron::jss!\s*\{', src)
    if not m:
        raise GenError('%s: no sauron::jss! block' % path)
    i = m.end()
    depth = 1
    j = i
    while j < len(src) and depth:
        if src[j] == '{':
            depth += 1
        elif src[j] == '}':
            depth -= 1
        j += 1
    block = re.sub(r'/\*.*?\*/', '', src[i:j - 1], flags=re.S)
    block = re.sub(r'//[^\n]*', '', block)
    values = {
        'stroke_color.clone()': '.strokeColor', 'stroke_color': '.strokeColor', 'stroke_width': '.strokeWidth',
        'background.clone()': '.background', 'background': '.background', 'fill_color': '.fillColor',
        'fill_color.clone()': '.fillColor', 'font_family': '.fontFamily', 'font_family.clone()': '.fontFamily',
        'px(font_size)': '.fontSizePx',
    }
    rules = []
    pos = 0
    rule_re = re.compile(r'\s*"([^"]*)"\s*:\s*\{([^{}]*)\}\s*,?', re.S)
    while True:
        rm = rule_re.match(block, pos)
        if not rm:
            break
        sel, body = rm.group(1), rm.group(2)
        decls = []
        for part in body.split(','):
            part = part.strip()
            if not part:
                continue
            dm = re.match(r'^([a-z_]+)\s*:\s*(.+)$', part, re.S)
            if not dm:
                raise GenError('%s: cannot read the declaration %r of rule %r' % (path, part, sel))
            name, val = dm.group(1).replace('_', '-'), dm.group(2).strip()
            if re.match(r'^"[^"\\]*"$', val):
                lean = '.lit "%s"' % val[1:-1]
            elif re.match(r'^[0-9]+$', val):
                lean = '.lit "%s"' % val
            elif val in values:
                lean = values[val]
            else:
                raise GenError('%s: value %r of %s in rule %r is not understood' % (path, val, name, sel))
            decls.append((name, lean))
        rules.append((sel, decls))
        pos = rm.end()
    if block[pos:].strip():
        raise GenError('%s: cannot read the jss! block from %r on' % (path, block[pos:].strip()[:60]))
    if not rules:
        raise GenError('%s: empty jss! block' % path)
    out = ['-- GENERATED by tools/gen_tables.py from crates/svgbob/src/buffer/cell_buffer.rs (CellBuffer::style) — do not edit',
           'import Svgbob.Model.Style', 'namespace Svgbob.Gen',
           '/-- the rules of the `sauron::jss!` block in source order -/',
           'def styleRules : List (String × List (String × StyleVal)) := [']
    lines = []
    for sel, decls in rules:
        lines.append('  ("%s", [%s])' % (sel, ', '.join('("%s", %s)' % (n, v) for n, v in decls)))
    out.append(',\n'.join(lines))
    out.append(']')
    out.append('end Svgbob.Gen')
    return '\n'.join(out) + '\n'


def main(argv):
    if len(argv) != 3:
        sys.stderr.write('usage: gen_tables.py <repo_root> <out_dir>\n')
        return 2
    t0 = time.time()
    root, out_dir = argv[1], argv[2]
    try:
        p = os.path.join(root, GRID_RS)
        grid = Grid(p, read(p))

        p = os.path.join(root, ASCII_RS)
        pa = Parser(p, read(p), grid)
        entries = pa.ascii_table()
        ascii_lean = render_ascii(entries)

        p = os.path.join(root, UNICODE_RS)
        pu = Parser(p, read(p), grid)
        urows = pu.unicode_table()
        unicode_lean = render_unicode(urows)

        p = os.path.join(root, CIRCLE_RS)
        pc = Parser(p, read(p), grid)
        skip, crows = pc.circle_table()
        circle_lean = render_circle(p, skip, crows)
        consts_lean = gen_consts(root)
        thresholds_lean = gen_thresholds(root)
        style_lean = gen_stylesheet(root)
    except GenError as e:
        sys.stderr.write('error: %s\n' % e)
        return 1

    os.makedirs(out_dir, exist_ok=True)
    status = []
    for name, content in (('AsciiTable.lean', ascii_lean), ('UnicodeTable.lean', unicode_lean),
                          ('CircleArt.lean', circle_lean), ('Consts.lean', consts_lean),
                          ('Thresholds.lean', thresholds_lean), ('StyleSheet.lean', style_lean)):
        changed = write_if_changed(os.path.join(out_dir, name), content)
        status.append('%s %s' % (name, 'written' if changed else 'unchanged'))

    nsig = sum(len(e['sig']) for e in entries)
    nbeh = sum(len(e['beh']) for e in entries)
    fsig = sum(len(fr) for e in entries for _, fr, _ in e['sig'])
    fbeh = sum(len(fr) for e in entries for _, fr, _ in e['beh'])
    print('ascii:   %d entries, %d signature rows (%d fragments), %d behaviour rows (%d fragments)'
          % (len(entries), nsig, fsig, nbeh, fbeh))
    print('unicode: %d rows (%d distinct chars), %d fragments'
          % (len(urows), len(set(ch for ch, _, _ in urows)), sum(len(fr) for _, fr, _ in urows)))
    print('circle:  %d rows, circlesToSkipForArc = %d' % (len(crows), skip))
    for prs, rel in ((pa, ASCII_RS), (pu, UNICODE_RS), (pc, CIRCLE_RS)):
        if prs.inexact:
            print('note:    %s: decimal literals that are not exact in f32 (taken at their decimal value): %s'
                  % (rel, ', '.join('%s (line %d)' % (txt, ln) for ln, txt in prs.inexact)))
    print('files:   %s' % '; '.join(status))
    print('time:    %.2fs' % (time.time() - t0))
    return 0


if __name__ == '__main__':
    sys.exit(main(sys.argv))

"""helpers for the relational oracles (C06, C10, C11): canonical element multisets with an affine
map applied to every length/coordinate"""
import re
from fractions import Fraction as F

import svgcanon

NUM = re.compile(r"-?[0-9]+(?:\.[0-9]+)?")
TOL = F(1, 2 ** 18)


def close(a, b):
    if a == b:
        return True
    m = max(abs(a), abs(b), F(1))
    return abs(a - b) <= TOL * m


def nums_close(na, nb):
    """the numbers of two elements agree: each pair within the relative tolerance, or — for an element far from the origin,
    whose sizes are differences of coordinates an f32 holds to one unit in the last place only — within four such units
    of the largest coordinate of the element (a rect 11 million units out has a width that is exact to about 1 unit)"""
    if len(na) != len(nb):
        return False
    m = max([abs(v) for v in na] + [abs(v) for v in nb] + [F(1)])
    slack = m / (1 << 21) if m >= (1 << 20) else F(0)
    return all(close(x, y) or abs(x - y) <= slack for x, y in zip(na, nb))


def elem_key(e, fx, fy, flen, in_group=None):
    """canonical key of a geometry element with coordinates mapped by fx/fy (positions) and flen
    (lengths: radii, widths); numbers are returned separately so that they can be compared with
    a tolerance"""
    a = e.attrs
    t = e.tag
    cls = tuple(a.get("class", "").split())
    nums = []
    if t == "line":
        nums = [fx(F(a["x1"])), fy(F(a["y1"])), fx(F(a["x2"])), fy(F(a["y2"]))]
    elif t == "rect":
        nums = [fx(F(a["x"])), fy(F(a["y"])), flen(F(a["width"])), flen(F(a["height"])), flen(F(a.get("rx", "0")))]
    elif t == "circle":
        nums = [fx(F(a["cx"])), fy(F(a["cy"])), flen(F(a["r"]))]
    elif t == "polygon":
        for p in a["points"].split():
            x, y = p.split(",")
            nums += [fx(F(x)), fy(F(y))]
    elif t == "path":
        n = [F(v) for v in NUM.findall(a["d"])]
        # M x,y A r,r 0,maj,sweep ex,ey
        nums = [fx(n[0]), fy(n[1]), flen(n[2]), flen(n[3]), n[4], n[5], n[6], fx(n[7]), fy(n[8])]
    elif t == "text":
        nums = [fx(F(a["x"])), fy(F(a["y"]))]
    other = tuple(sorted((k, v) for k, v in a.items() if k not in
                         ("x1", "y1", "x2", "y2", "x", "y", "width", "height", "rx", "cx", "cy", "r", "points", "d", "class")))
    return (t, cls, e.text, other, in_group), nums


def canon_elems(root, fx, fy, flen, with_group=False):
    out = []
    for ing, e in svgcanon.flat_geometry(root):
        out.append(elem_key(e, fx, fy, flen, ing if with_group else None))
    out.sort(key=lambda kn: (kn[0], [float(v) for v in kn[1]]))
    return out


def same_multiset(a, b):
    """a, b: lists from canon_elems; equal kinds and numbers equal up to the f32 tolerance"""
    if len(a) != len(b):
        return False
    used = [False] * len(b)
    for ka, na in a:
        ok = False
        for j, (kb, nb) in enumerate(b):
            if not used[j] and ka == kb and nums_close(na, nb):
                used[j] = True
                ok = True
                break
        if not ok:
            return False
    return True


def describe_diff(a, b):
    ka = [k for k, _ in a]
    kb = [k for k, _ in b]
    only_a = [(k, [str(v) for v in n]) for k, n in a if not any(k == k2 and nums_close(n, n2) for k2, n2 in b)]
    only_b = [(k, [str(v) for v in n]) for k, n in b if not any(k == k2 and nums_close(n, n2) for k2, n2 in a)]
    return {"only_first": repr(only_a[:4]), "only_second": repr(only_b[:4]), "counts": [len(a), len(b)]}

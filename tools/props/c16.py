"""C16 — legend entries become CSS rules and {tags} style the enclosing shape."""
import backend
import common
import gen
import svgcanon
from common import hx, unhx
from props.c02 import xml_ok
from runner import PropertyCheck, Failure, Disagreement

NAMES = ["a", "b", "big_circle", "_x1", "Zz9", "red", "w"]
TAGNAMES = ["a", "b", "red1", "w", "bg", "n0"]     # no drawing letters (o, v, x, ...) inside
DECL_CHARS = "abc :;-#0123456789.,()'\"<>&%!/\n\t é一"


def gen_legend(rng):
    n = rng.below(7)
    entries = []
    for _ in range(n):
        name = rng.choice(NAMES)
        decl = "".join(rng.choice(DECL_CHARS) for _ in range(rng.choice([0, 0, 1, 1]) if rng.chance(1, 5) else rng.below(24)))
        entries.append((name, decl))
    header = "# Legend:" + " " * rng.below(3)
    rows = [header]
    for name, decl in entries:
        rows.append("%s%s=%s{%s}" % (name, " " * rng.below(3), " " * rng.below(3), decl))
    text = "\n".join(rows) + "\n" * rng.below(4)
    return text, entries


def tag_of(names):
    return "{" + ",".join(names) + "}"


class Check(PropertyCheck):
    id = "C16"
    thorough_mult = 3
    lean_modules = ["Svgbob.Properties.C16"]
    assumptions = [
        "whole-pipeline model tied to the implementation end to end (bytes); legend and tag grammars additionally "
        "compared function by function through the hooks",
        "'inside a shape' is the implemented notion: the text's box fits the bounding box of the fragment",
    ]

    def rule(self):
        return ("legends with 0..6 entries at column 0 (identifiers x declarations over a hostile alphabet without braces, "
                "incl. newlines and quotes), header/trailing-blank variants; tags with one or several names in boxes, "
                "rounded boxes, circles, nested boxes, next to other text, outside shapes; non-trivial = at least one entry "
                "or one tag, distinct by input")

    # ---- generators -------------------------------------------------------
    def tag_cases(self, n):
        out = []
        import props.c13 as c13
        cat = c13.catalogue()
        for i in range(n):
            names = [self.rng.choice(TAGNAMES) for _ in range(self.rng.range(1, 3))]
            tag = tag_of(names)
            kind = self.rng.below(9)
            k, nn = self.rng.below(10), self.rng.below(5)
            if kind >= 7:      # an outer box holding 2..3 sibling boxes at different heights, each with its own tag
                sib = self.siblings(k, nn)
                if sib:
                    out.append(sib)
                continue
            if kind == 6:      # boxes nested 2..4 deep, one distinct tag per level
                depth = self.rng.range(2, 4)
                lv = list(TAGNAMES)
                self.rng.shuffle(lv)
                lv = lv[:depth]
                corners = self.rng.choice(["++++", "..''"])
                t = gen.nested_boxes([["{%s}" % nm] for nm in lv], corners=corners)
                out.append((gen.place(t, k, nn), "deep", lv, [], "{%s}" % lv[-1]))
                continue
            if kind == 0:      # sharp box, tag + label
                w = len(tag) + self.rng.range(4, 12)
                pos = self.rng.range(1, w - len(tag) - 2)
                inner = [" " * pos + tag, " lbl"]
                t = gen.box(w, 2, inner=inner)
                out.append((gen.place(t, k, nn), "rect", names, ["lbl"], tag))
            elif kind == 1:    # rounded box
                w = len(tag) + self.rng.range(3, 9)
                t = gen.box(w, 1, corners=".." + "''", inner=[" " + tag])
                out.append((gen.place(t, k, nn), "rect", names, [], tag))
            elif kind == 2:    # circle
                idx = self.rng.range(8, 21)
                art = cat[idx][0].split("\n")
                mid = len(art) // 2
                # the middle row, or (every other time) any interior row: the tag centred, or flush against the outline
                # on the left or on the right (between the outline characters of its row: inside the circle as drawn)
                if self.rng.chance(1, 2):
                    mid = self.rng.range(1, len(art) - 2) if len(art) > 2 else mid
                row = art[mid]
                l = len(row) - len(row.lstrip())
                # interior of the row: between the first and last drawing character
                first = l
                last = len(row.rstrip()) - 1
                space = last - first - 1
                if space >= len(tag) + 2 and row[first + 1:last].strip() == "":
                    align = self.rng.below(3)
                    start = first + 1 + (space - len(tag)) // 2 if align == 0 else first + 1 if align == 1 else last - len(tag)
                    row = row[:start] + tag + row[start + len(tag):]
                    art[mid] = row
                    out.append((gen.place("\n".join(art), k, nn), "circle", names, [], tag))
            elif kind == 3:    # nested boxes
                w = len(tag) + 4
                inner_box = gen.box(w, 1, inner=[" " + tag]).split("\n")
                outer = gen.box(w + 6, 5, inner=[""] + ["  " + r for r in inner_box])
                out.append((gen.place(outer, k, nn), "nested", names, [], tag))
            elif kind == 4:    # outside any shape
                t = gen.box(4, 1) + "\n\n  " + tag + "  free"
                out.append((gen.place(t, k, nn), "outside", names, ["free"], tag))
            else:              # tag with legend
                w = len(tag) + 4
                t = gen.box(w, 1, inner=[" " + tag]) + "\n# Legend:\n%s = {fill:blue}\n" % names[0]
                out.append((t, "rect", names, [], tag))
        return out

    def siblings(self, k, nn):
        """sibling boxes inside one outer box: different heights, some standing on the outer bottom border or leaning
        against a side border without a blank cell in between, optionally a caption stacked on one of them; every sibling
        carries its own tag. Returns a case of kind "siblings": names = [(x, y, tagname)] with the cell of each
        sibling's top-left corner."""
        rng = self.rng
        lv = list(TAGNAMES)
        rng.shuffle(lv)
        nsib = rng.range(2, 3)
        W, H = rng.range(24, 40), rng.range(8, 14)       # interior of the outer box
        grid = [[" "] * W for _ in range(H)]
        placed = []
        for j in range(nsib):
            tag = "{%s}" % lv[j]
            w, h = len(tag) + rng.range(1, 4), rng.range(1, 3)
            corners = rng.choice(["++++", "..''"])
            for _ in range(40):
                mode = rng.below(4)
                if corners == "++++":
                    # a sharp box may lean against the outer border without a blank cell in between
                    x = 0 if mode == 0 else (W - (w + 2)) if mode == 1 else rng.range(0, W - (w + 2))
                    y = (H - (h + 2)) if mode == 2 else rng.range(0, H - (h + 2))
                else:
                    # a rounded corner directly next to a border character is a different drawing: keep one blank cell
                    x, y = rng.range(1, W - (w + 2) - 1), rng.range(1, H - (h + 2) - 1)
                if all(x + w + 2 + 1 <= px or px + pw + 2 + 1 <= x or y + h + 2 + 1 <= py or py + ph + 2 + 1 <= y
                       for (px, py, pw, ph, _) in placed):
                    placed.append((x, y, w, h, lv[j]))
                    rows = gen.box(w, h, corners=corners, inner=[" " + tag][: 1]).split("\n")
                    for dy, r in enumerate(rows):
                        for dx, ch in enumerate(r):
                            grid[y + dy][x + dx] = ch
                    break
        if len(placed) < 2 or len({p[1] for p in placed}) < 2:
            return None
        # a caption of two or three rows stacked directly on top of the lowest sibling (when there is room)
        low = max(placed, key=lambda p: p[1])
        if rng.chance(1, 2):
            for up in range(1, rng.range(2, 3) + 1):
                yy = low[1] - up
                if yy >= 0 and all(grid[yy][low[0] + dx] == " " for dx in range(min(3, low[2] + 2))) and \
                        all(not (p[1] - 1 <= yy <= p[1] + p[3] + 2 and p[0] - 1 <= low[0] + 2 and low[0] <= p[0] + p[2] + 2)
                            for p in placed if p is not low):
                    for dx, ch in enumerate("cap"[: min(3, low[2] + 2)]):
                        grid[yy][low[0] + dx] = ch
        outer = gen.box(W, H, inner=["".join(r) for r in grid])
        t = gen.place(outer, k, nn)
        where = [(k + 1 + p[0], nn + 1 + p[1], p[4]) for p in placed]
        return (t, "siblings", where, [], "{%s}" % placed[0][4])

    def correspondence(self):
        dis = []
        # function level: the two grammars through the hooks
        strs = []
        for _ in range(self.scale(600, 8000)):
            r = self.rng.below(3)
            if r == 0:
                strs.append(gen_legend(self.rng)[0])
            elif r == 1:
                strs.append("# Legend:" + "".join(self.rng.choice("ab={} \n\r\t_1,") for _ in range(self.rng.below(30))))
            else:
                strs.append("".join(self.rng.choice("# Legnd:ab={}\n ") for _ in range(self.rng.below(30))))
        ri = common.run_impl("legend", ["%d %s" % (i, hx(s)) for i, s in enumerate(strs)])
        rm = common.run_model("legend", ["%d %s" % (i, hx(s)) for i, s in enumerate(strs)])
        for i, s in enumerate(strs):
            self.evaluations += 1
            if ri[str(i)] != rm[str(i)]:
                dis.append(Disagreement("L2 parse_css_legend", {"input": s, "input_hex": hx(s)}, rm[str(i)][:300], ri[str(i)][:300]))
        tags = ["{a}", "{a,b}", "{}", "{a,}", "{a b}", "{é}", "{Ł1}", "{a}x", "x{a}", "{_a,b2,c_}", "{a,,b}", "{1a}"]
        for _ in range(self.scale(600, 8000)):
            tags.append("".join(self.rng.choice("{}ab1_, éŁ*") for _ in range(self.rng.below(10))))
        ri = common.run_impl("tag", ["%d %s" % (i, hx(s)) for i, s in enumerate(tags)])
        rm = common.run_model("tag", ["%d %s" % (i, hx(s)) for i, s in enumerate(tags)])
        for i, s in enumerate(tags):
            self.evaluations += 1
            if ri[str(i)] != rm[str(i)]:
                dis.append(Disagreement("L2 parse_css_tag", {"input": s, "input_hex": hx(s)}, rm[str(i)], ri[str(i)]))
        # end to end
        cases = []
        for (t, _, _, _, _) in self.tag_cases(self.scale(150, 2500)):
            cases.append((t, backend.Settings(b=False, d=False), "settings"))
        for _ in range(self.scale(100, 1500)):
            body = gen.random_diagram(self.rng, 16, 5).split("# Legend:")[0]
            cases.append((body + "\n" + gen_legend(self.rng)[0], backend.Settings(b=False, d=False), "settings"))
        res = backend.run_full(cases)
        for c, r in zip(cases, res):
            self.evaluations += 1
            cmp = backend.compare_outputs(r["impl"], r["model"])
            if cmp == "float":
                self.count("inexact_float")
            if cmp == "different":
                dis.append(Disagreement("L3 full pipeline bytes", {"input": c[0], "input_hex": hx(c[0])},
                                        str(backend.first_difference(r["impl"], r["model"]))[:600], ""))
        return dis

    # ---- oracles ------------------------------------------------------------
    def oracle_legend(self, n):
        fails = []
        items = []
        for _ in range(n):
            body = gen.random_diagram(self.rng, 16, 5).split("# Legend:")[0].replace("{", "(").replace("}", ")")
            if self.rng.chance(1, 5):
                # an unpaired quote somewhere in the drawing (an inch mark, a ditto mark): quoted strings are per row, so
                # it cannot hide the legend
                rows = body.split("\n")
                rows.insert(self.rng.below(len(rows) + 1), self.rng.choice(['5" pipe', 'a "', '"', '3.5" x 2', ' " ']))
                body = "\n".join(rows)
            leg, entries = gen_legend(self.rng)
            items.append((body, leg, entries))
        lines = []
        for i, (body, leg, entries) in enumerate(items):
            lines.append("%da settings b=0,s=1,d=0 %s" % (i, hx(body + "\n" + leg)))
            lines.append("%db settings b=0,s=1,d=0 %s" % (i, hx(body + "\n")))
        res = common.run_impl("lib", lines)
        for i, (body, leg, entries) in enumerate(items):
            self.evaluations += 1
            t = body + "\n" + leg
            case = {"input": t, "input_hex": hx(t), "kind": "legend"}
            ra, rb = res["%da" % i], res["%db" % i]
            if not ra.startswith("ok ") or not rb.startswith("ok "):
                fails.append(Failure("conversion did not return", case))
                continue
            try:
                A, B = svgcanon.parse(unhx(ra[3:])), svgcanon.parse(unhx(rb[3:]))
            except svgcanon.ParseError:
                continue
            if entries:
                self.nontrivial.add(t)
            if i < 2:
                self.sample({"input": t})
            if svgcanon.geometry_keys(A) != svgcanon.geometry_keys(B) or \
               (A.attrs["width"], A.attrs["height"]) != (B.attrs["width"], B.attrs["height"]):
                fails.append(Failure("the legend part is drawn (rendering differs from the body alone)", case))
                continue
            sa = [c for c in A.children if c.tag == "style"][0].text
            sb = [c for c in B.children if c.tag == "style"][0].text
            want = "\n".join(".svgbob .%s{ %s }" % (n_, "".join(ch for ch in d if xml_ok(ch)).replace("\r\n", "\n").replace("\r", "\n"))
                             for n_, d in entries)
            if not sa.startswith(sb.rstrip("\n")) or sa[len(sb.rstrip("\n")):].strip("\n") != want.strip("\n"):
                fails.append(Failure("the CSS rules are not the legend entries in order", case,
                                     {"got_tail": sa[len(sb.rstrip("\n")):][-300:], "want": want[-300:]}))
        return fails

    def oracle_tags(self, cases):
        fails = []
        res = common.run_impl("lib", ["%d settings b=0,s=0,d=0 %s" % (i, hx(c[0])) for i, c in enumerate(cases)])
        for i, (t, kind, names, labels, tag) in enumerate(cases):
            self.evaluations += 1
            self.nontrivial.add(t)
            case = {"input": t, "input_hex": hx(t), "kind": kind, "names": names, "labels": labels, "tag": tag}
            r = res[str(i)]
            if not r.startswith("ok "):
                fails.append(Failure("conversion did not return", case))
                continue
            try:
                root = svgcanon.parse(unhx(r[3:]))
            except svgcanon.ParseError:
                continue
            els = [e for _, e in svgcanon.flat_geometry(root)]
            texts = [e.text for e in els if e.tag == "text"]
            if i < 3:
                self.sample({"input": t, "kind": kind})
            bad = None
            for lb in labels:
                if lb not in texts:
                    bad = "other text %r inside/near the shape is affected" % lb
            if kind == "outside":
                if tag not in texts:
                    bad = "a tag outside every shape does not remain ordinary text"
                if any(set(names) & set(e.attrs.get("class", "").split()) for e in els if e.tag != "text"):
                    bad = "a tag outside every shape was applied to a shape"
            else:
                shape = "circle" if kind == "circle" else "rect"
                shapes = [e for e in els if e.tag == shape]
                if tag in texts:
                    bad = "the tag is rendered as text"
                elif kind == "deep":
                    # names[j] is the tag written at nesting level j (outermost first)
                    if len(shapes) != len(names):
                        bad = "%d nested boxes are not %d rects" % (len(names), len(names))
                    else:
                        shapes.sort(key=lambda e: -float(e.attrs["width"]))
                        for j, e in enumerate(shapes):
                            cl = e.attrs.get("class", "").split()
                            if names[j] not in cl or any(nm in cl for q, nm in enumerate(names) if q != j):
                                bad = "the tag of nesting level %d is not applied to the innermost shape around it only" % (j + 1)
                        if any(("{%s}" % nm) in texts for nm in names):
                            bad = "a tag is rendered as text"
                elif kind == "siblings":
                    # names = [(column, row, tag name)] of each sibling's top-left corner; the outer box is the widest rect
                    if any(("{%s}" % nm) in texts for (_, _, nm) in names):
                        bad = "a tag is rendered as text"
                    elif len(shapes) != len(names) + 1:
                        bad = "%d sibling boxes in an outer box are not %d rects" % (len(names), len(names) + 1)
                    else:
                        allnames = [nm for (_, _, nm) in names]
                        outer = max(shapes, key=lambda e: float(e.attrs["width"]) * float(e.attrs["height"]))
                        if any(nm in outer.attrs.get("class", "").split() for nm in allnames):
                            bad = "the tag of a sibling box is applied to the outer box"
                        for (cx_, cy_, nm) in names:
                            hit = [e for e in shapes if float(e.attrs["x"]) == 8 * cx_ + 4 and float(e.attrs["y"]) == 16 * cy_ + 8]
                            if len(hit) != 1:
                                bad = "a sibling box is not one rect at its place"
                            else:
                                cl = hit[0].attrs.get("class", "").split()
                                if nm not in cl or any(o in cl for o in allnames if o != nm):
                                    bad = "the tag of a sibling box is not applied to that box only"
                elif kind == "nested":
                    if len(shapes) != 2:
                        bad = "nested boxes are not two rects"
                    else:
                        shapes.sort(key=lambda e: float(e.attrs["width"]))
                        inner, outer = shapes
                        ci, co = inner.attrs.get("class", "").split(), outer.attrs.get("class", "").split()
                        if not all(nm in ci for nm in names) or any(nm in co for nm in names):
                            bad = "the tag is not applied to the innermost shape only"
                else:
                    hit = [e for e in shapes if all(nm in e.attrs.get("class", "").split() for nm in names)]
                    if len(hit) != 1:
                        bad = "the tag's names are not added to the class of the enclosing %s" % shape
            if bad:
                fails.append(Failure(bad, case, {"texts": texts[:6], "classes": [e.attrs.get("class") for e in els][:8]}))
        return fails

    def search(self, boost=1):
        fails = self.oracle_legend(self.scale(400, 6000) * boost)
        fails += self.oracle_tags(self.tag_cases(self.scale(600, 9000) * boost))
        return fails

    def replay_case(self, case):
        if case.get("kind") == "legend":
            return []
        return self.oracle_tags([(case["input"], case["kind"], case["names"], case["labels"], case["tag"])])

"""C20 — the HTTP server returns the library's conversion and survives any request."""
import os
import socket
import subprocess
import threading
import time

import backend
import common
import gen
from common import hx, unhx
from runner import PropertyCheck, Failure, Disagreement


def free_port():
    s = socket.socket()
    s.bind(("127.0.0.1", 0))
    p = s.getsockname()[1]
    s.close()
    return p


def http(port, method, path, body=b"", raw=None, timeout=20):
    """minimal HTTP/1.1 client; returns (status, body bytes) or (None, error text)"""
    try:
        s = socket.create_connection(("127.0.0.1", port), timeout=timeout)
        if raw is not None:
            s.sendall(raw)
        else:
            head = "%s %s HTTP/1.1\r\nHost: localhost\r\nContent-Length: %d\r\nConnection: close\r\n\r\n" % (method, path, len(body))
            s.sendall(head.encode("ascii") + body)
        data = b""
        while True:
            chunk = s.recv(65536)
            if not chunk:
                break
            data += chunk
        s.close()
    except OSError as e:
        return None, str(e)
    if not data.startswith(b"HTTP/1."):
        return None, data[:80].decode("latin-1")
    head, _, rest = data.partition(b"\r\n\r\n")
    status = int(head.split(b" ")[1])
    if b"transfer-encoding: chunked" in head.lower():
        out = b""
        while rest:
            line, _, rest = rest.partition(b"\r\n")
            try:
                n = int(line.strip() or b"0", 16)
            except ValueError:
                break
            if n == 0:
                break
            out += rest[:n]
            rest = rest[n + 2:]
        rest = out
    return status, rest


class Check(PropertyCheck):
    id = "C20"
    zoo = False
    lean_modules = ["Svgbob.Properties.C20"]
    assumptions = [
        "axum routing and body limit, connection handling, tokio scheduling and task isolation after a panic are "
        "runtime behaviour outside the model; they are exercised on the built server only",
        "expected bodies are computed by the library called in process",
    ]

    def rule(self):
        return ("random request sequences against one server process: GET, POST of diagrams (empty, up to 20 kB, hostile "
                "markup, bodies related to earlier ones: repeated, same length with a different tail/head, same prefix "
                "but not UTF-8, a prefix), invalid UTF-8 bodies, oversized bodies (413), other methods/paths (405/404), malformed requests; "
                "impatient clients (complete or half requests of four body sizes up to 150 kB, abandoned 40+ times each) followed by "
                "a conversion of every size; sequential and from 16 concurrent clients; liveness probe after every hostile request; non-trivial = POST "
                "of a non-empty diagram answered 200, distinct by body")

    def gen_requests(self, n):
        r = self.rng
        reqs = []
        posted = []
        related = 0
        for _ in range(n):
            k = r.below(15)
            if k >= 12 and posted and related < 120:
                related += 1
                # a body related to an earlier one: answers must not be confused by shared length / prefix / suffix
                b0 = r.choice(posted[-8:])
                if len(b0) < 200 or r.chance(1, 2):
                    b0 = (b0 + b"\n") * (r.range(4100, 9000) // (len(b0) + 1) + 1)
                    reqs.append(("POST", "/", b0, "utf8"))
                    posted.append(b0)
                v = r.below(5)
                if v == 0:
                    reqs.append(("POST", "/", b0, "utf8"))
                elif v == 1:     # same length, last line differs
                    reqs.append(("POST", "/", b0[:-3] + r.choice([b"+-+", b"*->", b"o-o", b"abc"]), "utf8"))
                elif v == 2:     # same length, first bytes differ
                    reqs.append(("POST", "/", r.choice([b"+-+", b"*->", b"abc"]) + b0[3:], "utf8"))
                elif v == 3:     # same length and prefix, not UTF-8
                    reqs.append(("POST", "/", b0[:-2] + b"\xff\xfe", "bad"))
                else:            # a prefix of it
                    reqs.append(("POST", "/", b0[: len(b0) // 2], "utf8"))
                if reqs[-1][3] == "utf8":
                    try:
                        reqs[-1][2].decode("utf-8")
                    except UnicodeDecodeError:
                        reqs.pop()
                continue
            k = k % 12
            if k < 5:
                t = gen.random_diagram(r, 20, 6)
                if r.chance(1, 6):
                    t = t * r.range(2, 40)
                reqs.append(("POST", "/", t.encode("utf-8"), "utf8"))
                posted.append(t.encode("utf-8"))
            elif k == 5 and r.chance(1, 2):
                # long rows of multi-byte characters behind 0..3 one-byte characters: whatever fixed byte offset a server
                # cuts, counts or buffers at (64, 100, 120, 128, 255, 256, 1024, 4096 …) falls inside a character for some of them
                ch = r.choice(["\u2500", "\u00e9", "\U0001f600", "\u4e00", "\u2550"])
                pre = r.choice(["", " ", "  ", "   ", "a", "ab"])
                row = pre + ch * r.choice([45, 70, 130, 300, 1100, 1400])
                body = r.choice([row, "\n\n" + row + "\n" + row, pre + "\u250c" + "\u2500" * r.choice([58, 90, 400]) + "\u2510\n" + pre + "\u2502 x"])
                reqs.append(("POST", "/", body.encode("utf-8"), "utf8"))
            elif k == 5:
                reqs.append(("POST", "/", self.rng.choice([b"", "\ufeff".encode(), "\ufeff+--+\n|  |\n+--+\n".encode(),
                                                         ("\u200b" + gen.zoo(r)).encode(), gen.zoo(r, crlf=True).encode(),
                                                         gen.zoo(r).encode()]), "utf8"))
            elif k == 6:
                # not UTF-8 in several ways: stray bytes, a multi-byte character cut short at the very end of the body (alone
                # or after a valid drawing), a continuation byte without a start, an overlong form, a surrogate
                base = r.choice([b"", b"+--+\n|  |\n+--+\n", "\u250c\u2500\u2510\n".encode(), gen.random_diagram(r, 12, 3).encode()])
                reqs.append(("POST", "/", r.choice([b"+--\xff\xfe--+", base + b"\xc3", base + b"\xe2\x94", base + b"\xf0\x9f\x98",
                                                    base + "\u2500".encode()[:-1], b"\x80" + base, base + b"\xc0\xaf",
                                                    base + b"\xed\xa0\x80", base + b"\xc3" + b" "]), "bad"))
            elif k == 7:
                reqs.append(("GET", "/", b"", "get"))
            elif k == 8:
                reqs.append((r.choice(["PUT", "DELETE", "PATCH"]), "/", b"x", "405"))
            elif k == 9:
                reqs.append((r.choice(["GET", "POST"]), r.choice(["/x", "/api", "/index.html"]), b"+-+", "404"))
            elif k == 10:
                reqs.append(("POST", "/", ("<script>alert(1)</script>\n# Legend:\na = {</style>}\n").encode(), "utf8"))
            else:
                reqs.append(("RAW", "/", r.choice([b"GARBAGE\r\n\r\n", b"POST / HTTP/1.1\r\nContent-Length: 5\r\n\r\nab", b"\x00\x01\x02"]), "raw"))
        return reqs

    def start(self):
        self.bin, out = common.build_workspace_bin("svgbob_server")
        if self.bin is None:
            raise RuntimeError("cannot build svgbob_server: " + out[-1500:])
        self.port = free_port()
        env = dict(os.environ)
        env["PORT"] = str(self.port)
        self.proc = subprocess.Popen([self.bin], env=env, stdout=subprocess.DEVNULL, stderr=subprocess.DEVNULL)
        for _ in range(100):
            st, _ = http(self.port, "GET", "/", timeout=2)
            if st == 200:
                return
            time.sleep(0.1)
        raise RuntimeError("server did not start")

    def stop(self):
        try:
            self.proc.kill()
            self.proc.wait(timeout=10)
        except Exception:
            pass

    def expected(self, reqs):
        lines = ["%d to_svg default %s" % (i, hx(b.decode("utf-8"))) for i, (m, p, b, kind) in enumerate(reqs) if kind == "utf8"]
        lib = common.run_impl("lib", lines)
        return {int(k): unhx(v[3:]).encode("utf-8") for k, v in lib.items() if v.startswith("ok ")}

    def judge_one(self, i, req, ans, exp, name_version):
        m, p, b, kind = req
        st, body = ans
        case = {"method": m, "path": p, "body_hex": b.hex()[:400], "kind": kind}
        if kind == "utf8":
            if st != 200 or body != exp.get(i):
                return Failure("POST did not return 200 with the library's conversion", case, {"status": st, "body_head": (body or b"")[:80].decode("utf-8", "replace") if isinstance(body, bytes) else body})
        elif kind == "bad":
            if st != 400:
                return Failure("an invalid UTF-8 body was not answered 400", case, {"status": st})
        elif kind == "get":
            if st != 200 or body.decode("utf-8", "replace") != name_version:
                return Failure("GET did not return the package name and version", case, {"status": st, "body": body})
        elif kind == "405":
            if st != 405:
                return Failure("another method was not answered 405", case, {"status": st})
        elif kind == "404":
            if st != 404:
                return Failure("another path was not answered 404", case, {"status": st})
        return None

    def run_all(self):
        fails = []
        dis = []
        self.start()
        try:
            name_version = "svgbob_server " + _version()
            reqs = self.gen_requests(self.scale(300, 4000))
            exp = self.expected(reqs)
            # sequential
            for i, rq in enumerate(reqs):
                self.evaluations += 1
                m, p, b, kind = rq
                if m == "RAW":
                    http(self.port, m, p, raw=b, timeout=3)
                    st, _ = http(self.port, "GET", "/")
                    if st != 200:
                        fails.append(Failure("the server stopped answering after a malformed request", {"raw_hex": b.hex()}))
                        break
                    continue
                ans = http(self.port, m, p, b)
                f = self.judge_one(i, rq, ans, exp, name_version)
                if f:
                    fails.append(f)
                if kind == "utf8" and b:
                    self.nontrivial.add(b)
                if i < 3:
                    self.sample({"method": m, "path": p, "kind": kind, "status": ans[0]})
            # bodies just inside the 2 MiB limit are converted like any other
            small = ("+--+\n|ab|\n+--+\n").encode()
            for size in (2 * 1024 * 1024, 2 * 1000 * 1000 + 1, self.rng.range(2000001, 2097151)):
                body = small + b" " * (size - len(small))
                st, ans = http(self.port, "POST", "/", body, timeout=120)
                self.evaluations += 1
                want = self.expected([("POST", "/", body, "utf8")]).get(0)
                if st != 200 or ans != want:
                    fails.append(Failure("a body of %d bytes (within the 2 MiB limit) was not answered 200 with the library's conversion" % size,
                                         {"method": "POST", "path": "/", "size": size, "kind": "near-limit"}, {"status": st}))
            # oversized body
            big = b"-" * (2 * 1024 * 1024 + 10)
            st, _ = http(self.port, "POST", "/", big, timeout=60)
            self.evaluations += 1
            if st != 413:
                fails.append(Failure("an oversized body was not answered 413", {"size": len(big)}, {"status": st}))
            st, _ = http(self.port, "GET", "/")
            if st != 200:
                fails.append(Failure("the server stopped answering after an oversized body", {"size": len(big)}))
            # impatient clients: complete or partial requests whose client goes away without reading the answer, many
            # times over, for bodies of several sizes; afterwards bodies of every size are answered as before
            fails += self.impatient_clients()
            # concurrent clients: answers must be the same as sequentially
            conc = [rq for rq in reqs if rq[0] != "RAW"][: self.scale(160, 1600)]
            idx = [i for i, rq in enumerate(reqs) if rq[0] != "RAW"][: len(conc)]
            answers = [None] * len(conc)

            def worker(k):
                for j in range(k, len(conc), 16):
                    m, p, b, kind = conc[j]
                    answers[j] = http(self.port, m, p, b)
            ths = [threading.Thread(target=worker, args=(k,)) for k in range(16)]
            for t in ths:
                t.start()
            for t in ths:
                t.join()
            for j, rq in enumerate(conc):
                self.evaluations += 1
                f = self.judge_one(idx[j], rq, answers[j], exp, name_version)
                if f:
                    f.what = "under 16 concurrent clients: " + f.what
                    fails.append(f)
            # model: status codes
            mlines = []
            for i, (m, p, b, kind) in enumerate(reqs):
                if m == "RAW":
                    continue
                try:
                    body = hx(b.decode("utf-8"))
                except UnicodeDecodeError:
                    body = "bad"
                mlines.append("%d %s %s %s %d" % (i, m if m in ("GET", "POST") else "PUT", hx(p), body, len(b)))
            mod = common.run_model("http", mlines)
            for i, (m, p, b, kind) in enumerate(reqs):
                if m == "RAW":
                    continue
                want = {"utf8": "200", "bad": "400", "get": "200", "405": "405", "404": "404"}[kind]
                got = dict(kv.split("=", 1) for kv in mod.get(str(i), "").split(" ") if "=" in kv).get("status")
                if got != want:
                    dis.append(Disagreement("HTTP model status", {"method": m, "path": p, "kind": kind}, str(got), want))
        finally:
            self.stop()
        return fails, dis

    def impatient_clients(self):
        r = self.rng
        fails = []
        unit = ("  +---------+      .------.     /\\  \n"
                "  | box %3d |----->| node |<---*  o \n"
                "  +---------+      '------'     \\/  \n"
                "       |               ^            \n"
                "       v               |            \n"
                "   \"label\"     -------+----->      \n\n")
        # the larger bodies are real drawings whose conversion takes a good part of a second: an abandoned request is
        # only dropped by the server while its conversion is still running
        bodies = {
            "small": (unit % 1).encode(),
            "medium": "".join(unit % i for i in range(20)).encode(),
            "large": ("".join(unit % i for i in range(r.range(85, 95))) + (" " * 99 + "\n") * r.range(5, 50)).encode(),
            "huge": ("".join(unit % i for i in range(r.range(140, 160)))).encode(),
        }
        want = self.expected([("POST", "/", b, "utf8") for b in bodies.values()])
        want = {k: want.get(i) for i, k in enumerate(bodies)}

        def verify(when):
            for k, b in bodies.items():
                self.evaluations += 1
                st, ans = http(self.port, "POST", "/", b, timeout=120)
                if st != 200 or ans != want[k]:
                    fails.append(Failure("%s: a %s body (%d bytes) was not answered 200 with the library's conversion" % (when, k, len(b)),
                                         {"method": "POST", "path": "/", "size": len(b), "kind": "after-impatient-clients",
                                          "body_hex": b.hex()[:400]}, {"status": st}))
                    return False
            st, _ = http(self.port, "GET", "/")
            if st != 200:
                fails.append(Failure("%s: GET is no longer answered" % when, {"method": "GET", "path": "/"}, {"status": st}))
                return False
            return True

        if not verify("before any abandoned request"):
            return fails
        rounds = self.scale(48, 144)
        for k, b in bodies.items():
            head = ("POST / HTTP/1.1\r\nHost: localhost\r\nContent-Length: %d\r\n\r\n" % len(b)).encode()
            for j in range(rounds):
                self.evaluations += 1
                try:
                    s = socket.create_connection(("127.0.0.1", self.port), timeout=5)
                    v = j % 8
                    if v == 7:
                        s.sendall(head + b[: len(b) // 2])      # half a body, then gone
                    else:
                        s.sendall(head + b)                      # a complete request, the answer is never read
                        if v == 6:
                            try:
                                s.shutdown(socket.SHUT_WR)         # half-close, then gone
                            except OSError:
                                pass
                            time.sleep(0.01)
                        elif v >= 1:
                            # gone while the conversion is running (the server has read the request by then)
                            time.sleep([0.02, 0.02, 0.05, 0.05, 0.15][v - 1])
                    s.close()
                except OSError:
                    pass
            time.sleep(0.5)
            if not verify("after %d clients that posted a %s body (%d bytes) and went away" % (rounds, k, len(b))):
                break
        return fails

    def correspondence(self):
        self._fails, dis = self.run_all()
        return dis

    def search(self, boost=1):
        if not hasattr(self, "_fails"):
            self._fails, _ = self.run_all()
        return self._fails

    def replay_case(self, case):
        return []


def _version():
    import re
    src = open(os.path.join(common.REPO, "crates", "svgbob_server", "Cargo.toml")).read()
    return re.search(r'^version\s*=\s*"([^"]*)"', src, re.M).group(1)

"""C11 — the scale setting scales every length and nothing else."""
from fractions import Fraction as F

import backend
import common
import gen
import relational
import svgcanon
from common import hx, unhx
from runner import PropertyCheck, Failure, Disagreement

SCALES = [0.5, 1.0, 3.0, 8.0, 10.0, 20.0, 37.5]


class Check(PropertyCheck):
    id = "C11"
    thorough_mult = 3
    lean_modules = ["Svgbob.Properties.C11"]
    assumptions = [
        "whole-pipeline model tied to the implementation end to end (bytes) at the scales of the property",
        "rounding of f32 products (non-dyadic polygon constants) outside the model: compared with tolerance 2^-18",
    ]

    def rule(self):
        return ("inputs (random diagrams, bundled blocks, tags in boxes, boxes nested 2..4 deep with content at every level) x pairs of scales from {0.5,1,3,8,10,20,37.5}; "
                "oracle: element multiset of svg(scale s2) = that of svg(scale s1) with every length multiplied by "
                "s2/s1; non-trivial = non-empty drawing, distinct by input")

    def texts(self, n):
        out = ["+-----+\n| {a} |\n+-----+", "+--+\n|ab|\n+--+ *->", " .-.\n(   )\n `-'", "#\n \\", "a", ""]
        out += [gen.random_diagram(self.rng, 22, 8) for _ in range(n)]
        for _ in range(n // 8):
            w = self.rng.range(3, 12)
            tag = "{" + self.rng.choice(["a", "b1", "a,b"]) + "}"
            out.append(gen.box(w + len(tag), 1, inner=[" " * self.rng.below(w) + tag]))
        out += [gen.zoo(self.rng) for _ in range(n // 4)]
        # labels in scripts with their own layout rules (right-to-left, combining, emoji sequences), plain, quoted, in a box
        for lab in gen.SCRIPT_LABELS:
            k = self.rng.below(3)
            out.append(" " * self.rng.below(6) + lab if k == 0 else '  "' + lab + '" |' if k == 1 else
                       gen.box(len(lab) + 4, 1, inner=[" " + lab]))
        for _ in range(n // 8):
            # shapes inside shapes inside shapes, with labels / tags / small drawings at every level
            depth = self.rng.range(2, 4)
            lv = [[self.rng.choice(["hi", "{a}", "*->", "o-", "ab cd", "", "+-+"])] for _ in range(depth)]
            out.append(gen.place(gen.nested_boxes(lv, corners=self.rng.choice(["++++", "..''"])),
                                 self.rng.below(4), self.rng.below(3)))
        return out

    def correspondence(self):
        dis = []
        cases = []
        for t in self.texts(self.scale(250, 4000)):
            st = backend.Settings(scale=self.rng.choice(SCALES), b=False, s=False, d=False)
            cases.append((t, st, "settings"))
        res = backend.run_full(cases)
        for c, r in zip(cases, res):
            self.evaluations += 1
            cmp = backend.compare_outputs(r["impl"], r["model"])
            if cmp == "float":
                self.count("inexact_float")
            if cmp == "different":
                fd = backend.first_difference(r["impl"], r["model"])
                dis.append(Disagreement("L3 full pipeline bytes", {"input": c[0], "input_hex": hx(c[0]), "settings": c[1].describe()},
                                        str(fd)[:600], ""))
        return dis

    def oracle(self, texts):
        fails = []
        lines = []
        pairs = []
        for i, t in enumerate(texts):
            s1 = self.rng.choice(SCALES)
            s2 = self.rng.choice([s for s in SCALES if s != s1])
            pairs.append((s1, s2))
            # the other settings are the same for both renderings and, two times out of three, not the defaults: the scale
            # has to scale every length whatever the font size and the stroke width are
            other = "" if i % 3 == 0 else ",fs=%d,sw=%s" % (self.rng.choice([7, 9, 12, 20, 30]), backend.f32bits(self.rng.choice([1, 3.5, 6])))
            lines.append("%da settings scale=%s,b=1,s=0,d=0%s %s" % (i, backend.f32bits(s1), other, hx(t)))
            # every third second rendering comes from a CellBuffer that was rendered at other scales before ("reuse")
            lines.append("%db %s scale=%s,b=1,s=0,d=0%s %s" % (i, "reuse" if i % 3 == 1 else "settings", backend.f32bits(s2), other, hx(t)))
        res = common.run_impl("lib", lines)
        for i, t in enumerate(texts):
            self.evaluations += 1
            s1, s2 = pairs[i]
            case = {"input": t, "input_hex": hx(t), "scales": [s1, s2]}
            ra, rb = res["%da" % i], res["%db" % i]
            if not ra.startswith("ok ") or not rb.startswith("ok "):
                fails.append(Failure("conversion did not return", case))
                continue
            try:
                A = svgcanon.parse(unhx(ra[3:]))
                B = svgcanon.parse(unhx(rb[3:]))
            except svgcanon.ParseError:
                continue
            f = F(s2) / F(s1)
            mul = lambda v: v * f
            ident = lambda v: v
            ca = relational.canon_elems(A, mul, mul, mul, with_group=True)
            cb = relational.canon_elems(B, ident, ident, ident, with_group=True)
            if ca:
                self.nontrivial.add(t)
            if i < 3:
                self.sample({"input": t, "scales": [s1, s2]})
            def backdrop(root):
                for e in root.children:
                    if e.tag == "rect" and "backdrop" in e.attrs.get("class", "").split():
                        return e
                return None
            ba, bb = backdrop(A), backdrop(B)
            if not relational.close(F(A.attrs["width"]) * f, F(B.attrs["width"])) or \
               not relational.close(F(A.attrs["height"]) * f, F(B.attrs["height"])):
                fails.append(Failure("canvas does not scale", case))
            elif ba is None or bb is None or \
                    not relational.close(F(ba.attrs["width"]), F(A.attrs["width"])) or \
                    not relational.close(F(bb.attrs["width"]), F(B.attrs["width"])) or \
                    not relational.close(F(ba.attrs["height"]), F(A.attrs["height"])) or \
                    not relational.close(F(bb.attrs["height"]), F(B.attrs["height"])):
                fails.append(Failure("the backdrop does not have the size of the canvas at both scales", case,
                                     {"backdrop": [ba.attrs if ba is not None else None, bb.attrs if bb is not None else None],
                                      "canvas": [[A.attrs["width"], A.attrs["height"]], [B.attrs["width"], B.attrs["height"]]]}))
            elif not relational.same_multiset(ca, cb):
                fails.append(Failure("elements at scale %s are not those at scale %s times %s" % (s2, s1, f), case,
                                     relational.describe_diff(ca, cb)))
        # one cell is 8 x 16 at the default scale
        r = common.run_impl("lib", ["cell settings b=0,s=0,d=0 %s" % hx("a")])["cell"]
        if r.startswith("ok "):
            root = svgcanon.parse(unhx(r[3:]))
            if (root.attrs["width"], root.attrs["height"]) != ("16", "32"):
                fails.append(Failure("a cell is not 8 x 16 at the default scale", {"input": "a"}))
        return fails

    def search(self, boost=1):
        return self.oracle(self.texts(self.scale(1200, 20000) * boost))

    def oracle_on_texts(self, texts):
        return self.oracle(texts)

    def replay_case(self, case):
        return self.oracle([case["input"]])

"""C08 — input text can never inject markup into the output document."""
import backend
import common
import gen
import svgcanon
from common import hx, unhx
from runner import PropertyCheck, Failure, Disagreement

VOCAB = {
    "svg": {"xmlns", "width", "height", "class"},
    "style": set(), "defs": set(), "g": set(),
    "marker": {"id", "viewBox", "refX", "refY", "markerWidth", "markerHeight", "orient"},
    "rect": {"class", "x", "y", "width", "height", "rx"},
    "line": {"x1", "y1", "x2", "y2", "class"},
    "path": {"d", "class"},
    "circle": {"cx", "cy", "r", "class"},
    "polygon": {"points", "class"},
    "text": {"x", "y", "class"},
}

PAYLOADS = [
    "<script>MK()</script>", "</style><script>MK</script>", "<a href='MK'>", "<!--MK-->", "<?MK x?>",
    "]]>MK", "&MK;", "&#x41;MK", "' onload='MK", "<![CDATA[MK]]>", "</text><MK/>", "</svg><MK>",
    "<MK xmlns='u'>", "\" MK=\"1", "MK<", "&lt;MK", "<svg onload=MK>",
]


DROPPED = "\x01\x08\x0b\x1f\ufffe\uffff\0"


def payload(rng, k):
    """a markup payload with a unique marker; one time in three with characters XML cannot represent inserted into
    it (the code drops those: an escape that runs before the drop can be undone by it, e.g. `]]\x01>` or `<\x01script>`)"""
    p = rng.choice(PAYLOADS + ["]]\x01></style><script>MK()</script>", "<\x01script>MK</script>", "&\ufffelt;MK", "&#60;MK&#62;", "&#x3c;MK&#x3e;", "&#0;MK", "&#+60;MK"])
    p = p.replace("MK", "MK%dq" % k)
    if rng.chance(1, 5):
        # look-alikes of the markup characters (fullwidth and small forms): a normalisation that runs after the escape turns
        # them into the real thing
        table = rng.choice([{"<": "＜", ">": "＞", "&": "＆", '"': "＂", "'": "＇", "/": "／", ";": "；"},
                            {"<": "﹤", ">": "﹥", "&": "﹠", ";": "﹔"}])
        p = "".join(table.get(c, c) for c in p)
    if rng.chance(1, 3):
        cs = list(p)
        for _ in range(rng.range(1, 2)):
            cs.insert(rng.below(len(cs) + 1), rng.choice(DROPPED))
        p = "".join(cs)
    return p


def gen_case(rng, k):
    """input with a unique marker MK<k>q in a random channel"""
    ch = rng.below(6)
    base = gen.random_diagram(rng, 18, 5)
    p = payload(rng, k)
    if ch == 0:      # plain cells
        return base + "\n" + p.replace('"', "'")
    if ch == 1:      # quoted string
        return base + '\n  "' + p.replace('"', "'") + '"'
    if ch == 2:      # tag in a box
        inner = "{" + p.replace(" ", "") + "}"
        return gen.box(len(inner) + 2, 1, inner=[" " + inner]) + "\n" + base
    if ch == 3:      # legend declaration
        return base + "\n# Legend:\na = {" + p.replace("{", "").replace("}", "") + "}\n"
    if ch == 4:      # legend name position
        return base + "\n# Legend:\n" + p + " = {fill:red}\n"
    if rng.chance(1, 2):
        # a shape tagged with a legend class whose declaration carries the payload
        decl = p.replace("{", "").replace("}", "")
        return ".----------.\n|{a} hello |\n'----------'\n\n# Legend:\na = {fill: papayawhip%s}\n" % decl
    # tag + legend together, valid identifier with marker
    return "+--------+\n| {MK%dq} |\n+--------+\n# Legend:\nMK%dq = {fill:blue}\n" % (k, k)


def walk(e, fn):
    fn(e)
    for c in e.children:
        walk(c, fn)


class Check(PropertyCheck):
    id = "C08"
    thorough_mult = 3
    lean_modules = ["Svgbob.Properties.C08"]
    assumptions = [
        "closed vocabulary holds in the model by typing; the model's serializer is tied byte-for-byte to the "
        "implementation by the back-end correspondence",
        "element/attribute structure of the implementation's output read with expat",
    ]

    def rule(self):
        return ("random diagrams carrying one of 17 markup payloads with a unique marker in one of six channels "
                "(plain cells, quoted string, {tag}, legend declaration, legend name, tag+legend); non-trivial = "
                "marker present in the output, distinct by input")

    def correspondence(self):
        dis = []
        n = self.scale(300, 4000)
        cases = [(gen_case(self.rng, k), backend.Settings(), self.rng.choice(["pretty", "compressed"])) for k in range(n)]
        res = backend.run(cases)
        for c, r in zip(cases, res):
            self.evaluations += 1
            cmp = backend.compare_outputs(r["impl"], r["model"])
            if cmp == "float":
                self.count("inexact_float")
            if cmp == "different":
                dis.append(Disagreement("back end bytes", {"input": c[0], "input_hex": hx(c[0]), "entry": c[2]},
                                        r["model"][:300], r["impl"][:300]))
        return dis

    def oracle(self, texts):
        # the vocabulary must hold under every combination of the include_* switches
        lines = []
        for i, t in enumerate(texts):
            if i % 2 == 0:
                lines.append("%d to_svg default %s" % (i, hx(t)))
            else:
                lines.append("%d settings b=%d,s=%d,d=%d %s" % (i, (i >> 1) & 1, (i >> 2) & 1, (i >> 3) & 1, hx(t)))
        res = common.run_impl("lib", lines)
        fails = []
        for i, t in enumerate(texts):
            self.evaluations += 1
            r = res[str(i)]
            case = {"input": t, "input_hex": hx(t), "entry": "to_svg"}
            if not r.startswith("ok "):
                fails.append(Failure("conversion did not return", case, {"answer": r[:200]}))
                continue
            svg = unhx(r[3:])
            try:
                root = svgcanon.parse(svg)
            except svgcanon.ParseError as e:
                fails.append(Failure("output not parseable (%s)" % e, case, {"tail": svg[-300:]}))
                continue
            marker = "MK%dq" % i
            if marker in svg:
                self.nontrivial.add(t)
            bad = []

            def visit(e):
                if e.tag not in VOCAB:
                    bad.append("foreign element <%s>" % e.tag)
                    return
                for a, v in e.attrs.items():
                    if a not in VOCAB[e.tag]:
                        bad.append("foreign attribute %s on <%s>" % (a, e.tag))
                    if marker in v and not (a == "class" and marker in v.split(" ")):
                        bad.append("marker inside attribute %s of <%s>" % (a, e.tag))
                if e.tag not in ("text", "style") and marker in e.text:
                    bad.append("marker in character data of <%s>" % e.tag)
            walk(root, visit)
            if root.tag != "svg":
                bad.append("root is <%s>" % root.tag)
            if bad:
                fails.append(Failure(bad[0], case, {"all": bad[:5]}))
            if i < 4:
                self.sample({"input": t})
        return fails

    def search(self, boost=1):
        n = self.scale(1500, 25000) * boost
        texts = [gen_case(self.rng, k) for k in range(n)]
        return self.oracle(texts)

    def oracle_on_texts(self, texts):
        return self.oracle(texts)

    def replay_case(self, case):
        return self.oracle([case["input"]])

"""C05 — rectangles are recognised completely and only where a box is drawn."""
from fractions import Fraction as F

import backend
import common
import gen
import svgcanon
from common import hx, unhx
from runner import PropertyCheck, Failure, Disagreement

# corner styles: (top-left, top-right, bottom-left, bottom-right), rounded?
SHARP = [("+", "+", "+", "+")]
ROUND = [(".", ".", "'", "'"), (",", ".", "`", "'"), (".", ".", "`", "'"), (",", ".", "'", "'")]
GLYPH = [("┌", "┐", "└", "┘")]
GLYPH_ROUND = [("╭", "╮", "╰", "╯")]


def make_box(w, h, corners, hor, ver_rows, inner=None, hor_bottom=None):
    """ver_rows: list of side characters per interior row; hor / hor_bottom: top and bottom edge characters"""
    tl, tr, bl, br = corners
    hor_bottom = hor if hor_bottom is None else hor_bottom
    rows = [tl + hor * w + tr]
    for i in range(h):
        body = " " * w
        if inner and i < len(inner):
            body = (inner[i] + " " * w)[:w]
        rows.append(ver_rows[i] + body + ver_rows[i])
    rows.append(bl + hor_bottom * w + br)
    return "\n".join(rows)


class Check(PropertyCheck):
    id = "C05"
    thorough_mult = 3
    lean_modules = ["Svgbob.Properties.C05"]
    assumptions = [
        "whole-pipeline model tied to the implementation end to end (bytes) and at the endorsement stage",
        "completeness for all sizes is checked by the bounded sweep on the implementation (theorems cover the "
        "endorsement predicate, not yet the whole box family)",
    ]

    def rule(self):
        return ("completeness: boxes of widths 0..W x heights 0..H (quick 20x10, thorough 60x30) x offsets x corner styles "
                "(sharp +, rounded . , ' `, box-drawing) x edge styles (- ~ ; | with : ! stretches) x interior label text; "
                "soundness: every rect in the output of random grids over {- | + . ' ` , ~ : ! space} and of near-boxes (boxes "
                "with legs, arms, heads, rungs, gaps, a missing corner, a shared side) must have all four edges covered by "
                "border characters; non-trivial = every case, distinct by input")

    def boxes(self):
        W, H = self.scale(20, 60), self.scale(10, 30)
        out = []
        sizes = [(w, h) for w in range(0, 7) for h in range(0, 5)]
        sizes += [(self.rng.range(0, W), self.rng.range(0, H)) for _ in range(self.scale(150, 2500))]
        for (w, h) in sizes:
            style = self.rng.below(5)
            if style == 0:
                corners, rounded, hor, ver = SHARP[0], False, "-", "|"
            elif style == 1:
                corners, rounded, hor, ver = self.rng.choice(ROUND), True, "-", "|"
            elif style == 2:
                corners, rounded, hor, ver = SHARP[0], False, "~", "|"
            elif style == 3:
                corners, rounded, hor, ver = GLYPH[0], False, "─", "│"
            else:
                corners, rounded, hor, ver = GLYPH_ROUND[0], True, "─", "│"
            ver_rows = [ver] * h
            hor_bottom = hor
            if hor in "-~" and self.rng.chance(1, 3):
                # only one of the two horizontal edges dashed
                hor, hor_bottom = self.rng.choice([("~", "-"), ("-", "~")])
            dashed = "~" in (hor, hor_bottom) and w > 0
            if ver == "|" and h >= 3 and self.rng.chance(1, 3):
                d = self.rng.choice(":!")
                a = self.rng.range(0, h - 2)
                for i in range(a, min(h, a + 2)):
                    ver_rows[i] = d
                dashed = True
            inner = None
            if w >= 5 and h >= 1 and self.rng.chance(1, 2):
                inner = [" ab" + ("c" * self.rng.below(w - 4))]
                if self.rng.chance(1, 2):
                    # words on any interior rows, centred or flush against the left or the right wall (whatever the wall is
                    # made of): letters only, among them the ones that mean something elsewhere (o O v V x X)
                    inner = []
                    for _ in range(h):
                        if self.rng.chance(1, 2):
                            inner.append("")
                            continue
                        word = self.rng.choice(["Hello", "Video", "Rev", "ab", "Overview", "Halle", "Help", "Total"])[:w]
                        al = self.rng.below(3)
                        pad = 0 if al == 0 else (w - len(word)) if al == 1 else (w - len(word)) // 2
                        inner.append(" " * pad + word)
                    if not any(r.strip() for r in inner):
                        inner[0] = "Video"[:w]
            if w >= 5 and any(v in ":!" for v in ver_rows) and self.rng.chance(2, 3):
                # a word flush against a dashed stretch of a side wall
                rows_d = [i for i, v in enumerate(ver_rows) if v in ":!"]
                inner = list(inner or [])
                while len(inner) < h:
                    inner.append("")
                for i in rows_d[: self.rng.range(1, 2)]:
                    word = self.rng.choice(["Hello", "Video", "Rev", "Overview", "Help", "Total"])[:w]
                    inner[i] = word if self.rng.chance(1, 2) else " " * (w - len(word)) + word
            k, n = self.rng.below(12), self.rng.below(6)
            # the recorded finding, exactly: rounded boxes without interior columns (any corner style), and rounded boxes
            # without interior rows whose left corners are `,` over `'`; every other box has to be one rect
            known = rounded and (w == 0 or (h == 0 and tuple(corners) == (",", ".", "'", "'")))
            out.append((make_box(w, h, corners, hor, ver_rows, inner, hor_bottom), w, h, rounded, dashed, k, n, inner is not None, known))
        return out

    def random_grids(self, n):
        out = []
        alpha = "-|+.'`,~:! "
        for _ in range(n):
            w, h = self.rng.range(2, 14), self.rng.range(2, 8)
            dens = self.rng.choice([50, 75, 95])
            rows = ["".join(self.rng.choice(alpha) if self.rng.below(100) < dens else " " for _ in range(w)) for _ in range(h)]
            out.append("\n".join(rows))
        out += ["|  |\n+--+\n|  |\n+--+\n|  |", "|-|\n|-|", "+--+--\n|  |\n+--+", "+--+\n|  |\n+--+--"]
        return out

    def near_boxes(self, n):
        """boxes with something added or taken away: legs, arms, heads (sides that overhang the corners, on one or on
        both lines of a pair), rungs, gaps, shared sides. Whatever comes out, a rect may only appear where all four
        edges are drawn."""
        out = []
        r = self.rng
        for _ in range(n):
            w, h = r.range(1, 6), r.range(1, 4)
            corners = r.choice(SHARP * 3 + ROUND)
            rows = make_box(w, h, corners, r.choice("--~"), ["|"] * h).split("\n")
            pad = 0
            for _m in range(r.range(1, 2)):
                m = r.below(8)
                k = r.range(1, 3)
                if m == 0:      # legs under both bottom corners (or one)
                    both = r.chance(2, 3)
                    for _i in range(k):
                        rows.append(" " * pad + "|" + " " * w + ("|" if both else ""))
                elif m == 1:    # arms to the right of both right corners (or one)
                    rows[0] += "-" * k
                    if r.chance(2, 3):
                        rows[h + 1] += "-" * k
                elif m == 2:    # heads above the top corners
                    both = r.chance(2, 3)
                    for _i in range(k):
                        rows.insert(0, " " * pad + "|" + " " * w + ("|" if both else ""))
                elif m == 3:    # arms to the left
                    top = next((i for i, x in enumerate(rows) if x.strip() and x.strip()[0] in "+.,"), 0)
                    both = r.chance(2, 3)
                    rows = [(("-" * k) if (i == top or (both and i == top + h + 1)) else " " * k) + x for i, x in enumerate(rows)]
                    pad += k
                elif m == 4 and w >= 2:   # a gap in one side
                    i = r.choice([j for j, x in enumerate(rows) if "-" in x or "~" in x] or [0])
                    x = rows[i]
                    g = x.find("-") if "-" in x else x.find("~")
                    if g >= 0:
                        rows[i] = x[:g] + " " + x[g + 1:]
                elif m == 5 and h >= 2:   # a rung
                    i = r.range(1, h - 1)
                    body = [j for j, x in enumerate(rows) if x.strip().startswith("|")]
                    if body:
                        j = r.choice(body)
                        rows[j] = " " * pad + "+" + "-" * w + "+"
                elif m == 6:    # a second box sharing the right side
                    w2 = r.range(1, 4)
                    rows = [x + (("-" * w2 + "+") if x.strip()[:1] in "+.,'`" and len(x.strip()) > 1 and i in (0, len(rows) - 1)
                                 else (" " * w2 + "|") if x.strip().startswith("|") else "") for i, x in enumerate(rows)]
                else:           # a corner missing
                    i = r.choice([0, len(rows) - 1])
                    x = rows[i] if rows[i].strip() else "+"
                    rows[i] = (x[:-1] + " ") if r.chance(1, 2) else (" " * (len(x) - len(x.lstrip()) + 1) + x.lstrip()[1:])
            art = "\n".join(x.rstrip() for x in rows)
            if r.chance(1, 8) and sum(1 for x in out if len(x) > 30000) < 150:
                # far from the origin: where a narrower integer type wraps and a float tolerance exceeds the grid pitch
                far = r.choice(gen.FAR + [50000, 150000, 250000]) + r.below(3)
                out.append(gen.place(art, far, 0) if r.chance(1, 2) else gen.place(art, r.below(3), far))
            else:
                out.append(gen.place(art, r.below(6), r.below(3)))
        out += ["+--+\n|  |\n+--+\n|  |", "+--+-\n|  |\n+--+-", "|  |\n+--+\n|  |\n+--+", "-+--+\n |  |\n-+--+"]
        return out

    def correspondence(self):
        dis = []
        cases = [(gen.place(b[0], b[5], b[6]), backend.Settings(b=False, s=False, d=False), "settings") for b in self.boxes()[:: self.scale(2, 1)]]
        cases += [(t, backend.Settings(b=False, s=False, d=False), "settings") for t in self.random_grids(self.scale(500, 8000))]
        cases += [(t, backend.Settings(b=False, s=False, d=False), "settings") for t in self.near_boxes(self.scale(300, 5000))]
        res = backend.run_full(cases)
        for c, r in zip(cases, res):
            self.evaluations += 1
            cmp = backend.compare_outputs(r["impl"], r["model"])
            if cmp == "float":
                self.count("inexact_float")
            if cmp == "different":
                dis.append(Disagreement("L3 full pipeline bytes", {"input": c[0], "input_hex": hx(c[0])},
                                        str(backend.first_difference(r["impl"], r["model"]))[:600], ""))
        return dis

    def oracle_complete(self, boxes):
        fails = []
        texts = [gen.place(b[0], b[5], b[6]) for b in boxes]
        # every third box is drawn into a buffer that was rendered before, filled cell by cell, overwritten with placeholder
        # letters and written back between renderings (harness entry "mutate"): the rectangle has to come out all the same
        ent = lambda i, t: "mutate" if (i % 3 == 1 and '"' not in t and "# Legend:" not in t) else "settings"
        res = common.run_impl("lib", ["%d %s b=0,s=0,d=0 %s" % (i, ent(i, t), hx(t)) for i, t in enumerate(texts)])
        for i, (art, w, h, rounded, dashed, k, n, has_text, known) in enumerate(boxes):
            self.evaluations += 1
            t = texts[i]
            self.nontrivial.add(t)
            case = {"input": t, "input_hex": hx(t), "kind": "complete", "w": w, "h": h}
            r = res[str(i)]
            if not r.startswith("ok "):
                fails.append(Failure("conversion did not return", case))
                continue
            try:
                root = svgcanon.parse(unhx(r[3:]))
            except svgcanon.ParseError:
                continue
            els = [e for _, e in svgcanon.flat_geometry(root)]
            rects = [e for e in els if e.tag == "rect"]
            others = [e for e in els if e.tag not in ("rect", "text")]
            if i < 2:
                self.sample({"input": t})
            if len(rects) != 1 or others:
                fails.append(Failure("a %dx%d box is not emitted as exactly one rect" % (w, h), case,
                                     {"elements": [(e.tag, e.attrs) for e in els][:6]},
                                     cls="rounded_box_zero_interior" if known else None))
                continue
            a = rects[0].attrs
            want = (F(8 * k + 4), F(16 * n + 8), F(8 * (w + 1)), F(16 * (h + 1)))
            got = (F(a["x"]), F(a["y"]), F(a["width"]), F(a["height"]))
            cls = a.get("class", "").split()
            if got != want:
                fails.append(Failure("rect position/size do not match the drawing", case, {"got": [str(v) for v in got], "want": [str(v) for v in want]}))
            elif (F(a.get("rx", "0")) > 0) != rounded:
                fails.append(Failure("corner radius does not match the corner style", case, {"rx": a.get("rx")}))
            elif ("broken" in cls) != dashed:
                fails.append(Failure("solid/dashed class does not match the drawing", case, {"class": a.get("class")}))
            elif has_text and not any(e.tag == "text" for e in els):
                fails.append(Failure("interior text is lost", case))
        return fails

    NEAR = ["|  |\n+--+\n|  |\n+--+\n|  |", "|-|\n|-|", "| |\n+-+\n| |\n+-+", "---", "*->", "ab", "|\n|", "+-\n|", "-+--+-\n |  |\n-+--+-"]

    def neighbour_cases(self, n):
        """a proper box with a free-standing figure (a ladder, an H, a line, a label …) diagonally next to one of its corners,
        so that both belong to one group of adjacent cells; the figure comes before or after the box in reading order.
        Returns (text, (col, row, w, h) of the box, rounded)."""
        out = []
        r = self.rng
        for _ in range(n):
            w, h = r.range(1, 5), r.range(1, 3)
            rounded = r.chance(1, 3)
            corners = r.choice(ROUND) if rounded else SHARP[0]
            box = make_box(w, h, corners, "-", ["|"] * h).split("\n")
            fig = r.choice(self.NEAR).split("\n")
            fw, fh = max(len(x) for x in fig), len(fig)
            bw, bh = w + 2, h + 2
            corner = r.below(4)
            # figure's nearest cell is diagonally adjacent to the chosen corner of the box
            if corner == 0:      # figure above-left of the box
                fx, fy, bx, by = 0, 0, fw, fh
            elif corner == 1:    # above-right
                bx, by, fx, fy = 0, fh, bw, 0
            elif corner == 2:    # below-left
                fx, fy, bx, by = 0, bh, fw, 0
            else:                # below-right
                bx, by, fx, fy = 0, 0, bw, bh
            grid = {}
            for j, row in enumerate(fig):
                for i, ch in enumerate(row):
                    if ch != " ":
                        grid[(fx + i, fy + j)] = ch
            # the figure must really touch the corner diagonally: move it so that its cell nearest to the box does
            near = {0: (fx + fw - 1, fy + fh - 1), 1: (fx, fy + fh - 1), 2: (fx + fw - 1, fy), 3: (fx, fy)}[corner]
            if near not in grid:
                continue
            for j, row in enumerate(box):
                for i, ch in enumerate(row):
                    if ch != " ":
                        grid[(bx + i, by + j)] = ch
            k, m = r.below(6), r.below(3)
            H = max(y for (_, y) in grid) + 1
            rows = []
            for y in range(H):
                xs = [x for (x, yy) in grid if yy == y]
                row = [" "] * (max(xs) + 1 if xs else 0)
                for (x, yy), ch in grid.items():
                    if yy == y:
                        row[x] = ch
                rows.append("".join(row))
            out.append((gen.place("\n".join(rows), k, m), (bx + k, by + m, w, h), rounded))
        return out

    def oracle_neighbours(self, cases):
        fails = []
        res = common.run_impl("lib", ["%d settings b=0,s=0,d=0 %s" % (i, hx(c[0])) for i, c in enumerate(cases)])
        for i, (t, (bx, by, w, h), rounded) in enumerate(cases):
            self.evaluations += 1
            case = {"input": t, "input_hex": hx(t), "kind": "neighbour"}
            r = res[str(i)]
            if not r.startswith("ok "):
                fails.append(Failure("conversion did not return", case))
                continue
            try:
                root = svgcanon.parse(unhx(r[3:]))
            except svgcanon.ParseError:
                continue
            rects = [e for _, e in svgcanon.flat_geometry(root) if e.tag == "rect"]
            want = (F(8 * bx + 4), F(16 * by + 8), F(8 * (w + 1)), F(16 * (h + 1)))
            got = [(F(e.attrs["x"]), F(e.attrs["y"]), F(e.attrs["width"]), F(e.attrs["height"])) for e in rects]
            if got != [want]:
                fails.append(Failure("a box with a free-standing figure diagonally next to it is not emitted as exactly its own rect",
                                     case, {"got": [[str(v) for v in g] for g in got], "want": [str(v) for v in want]}))
        return fails

    def oracle_sound(self, grids):
        fails = []
        ent = lambda i, t: "mutate" if (i % 3 == 1 and '"' not in t and "# Legend:" not in t) else "settings"
        res = common.run_impl("lib", ["%d %s b=0,s=0,d=0 %s" % (i, ent(i, t), hx(t)) for i, t in enumerate(grids)])
        border_h = set("-~+.,'`_─┌┐└┘╭╮╰╯")
        border_v = set("|:!+.,'`│┌┐└┘╭╮╰╯")
        for i, t in enumerate(grids):
            self.evaluations += 1
            case = {"input": t, "input_hex": hx(t), "kind": "sound"}
            r = res[str(i)]
            if not r.startswith("ok "):
                fails.append(Failure("conversion did not return", case))
                continue
            try:
                root = svgcanon.parse(unhx(r[3:]))
            except svgcanon.ParseError:
                continue
            rows = t.split("\n")
            cell = lambda x, y: rows[y][x] if 0 <= y < len(rows) and 0 <= x < len(rows[y]) else " "
            for ing, e in svgcanon.flat_geometry(root):
                if e.tag != "rect":
                    continue
                self.nontrivial.add(t)
                a = e.attrs
                x, y, w, h = F(a["x"]), F(a["y"]), F(a["width"]), F(a["height"])
                # the rect runs through cell centres: columns/rows of its edges
                c0, c1 = (x - 4) / 8, (x + w - 4) / 8
                r0, r1 = (y - 8) / 16, (y + h - 8) / 16
                if any(v.denominator != 1 for v in (c0, c1, r0, r1)):
                    fails.append(Failure("a rect does not run through cell centres", case, {"rect": a}))
                    break
                c0, c1, r0, r1 = int(c0), int(c1), int(r0), int(r1)
                ok = all(cell(cx, r0) in border_h and cell(cx, r1) in border_h for cx in range(c0, c1 + 1)) and \
                    all(cell(c0, ry) in border_v and cell(c1, ry) in border_v for ry in range(r0, r1 + 1))
                if not ok:
                    fails.append(Failure("a rect was emitted whose edges are not all covered by border characters", case,
                                         {"rect": a, "cols": [c0, c1], "rows": [r0, r1]}))
                    break
        return fails

    def search(self, boost=1):
        fails = self.oracle_complete(self.boxes())
        fails += self.oracle_sound(self.random_grids(self.scale(3000, 50000) * boost))
        fails += self.oracle_sound(self.near_boxes(self.scale(1500, 25000) * boost))
        fails += self.oracle_neighbours(self.neighbour_cases(self.scale(300, 5000) * boost))
        return fails

    def oracle_on_texts(self, texts):
        ok = set("-|+.,'`~:! \n") | set("abcdefghijklmnopqrstuvwxyzABCDEFGHIJKLMNOPQRSTUVWXYZ0123456789")
        return self.oracle_sound([t for t in texts if set(t) <= ok])

    def replay_case(self, case):
        if case.get("kind") == "complete":
            return []
        return self.oracle_sound([case["input"]])

"""C17 — line endings and invisible trailing whitespace do not change the output."""
import common
import gen
import svgcanon
from common import hx, unhx
from runner import PropertyCheck, Failure, Disagreement

DECL = ["fill:red", "stroke:blue; fill:none", "fill: #fff;\n  stroke-width: 3", "", " x : 'q\"' ", "a:b<c&d"]
NAMES = ["a", "b", "big_1", "_x", "Zz9"]


def gen_legend(rng):
    n = rng.below(5)
    rows = ["# Legend:"]
    for _ in range(n):
        if rng.chance(1, 6):
            rows.append("")          # a blank line inside the legend (ends the entry list)
        pad = " " * rng.below(3)
        rows.append("%s%s%s=%s{%s}" % (pad, rng.choice(NAMES), " " * rng.below(2), " " * rng.below(2), rng.choice(DECL)))
    return "\n".join(rows)


def gen_doc(rng):
    body = gen.random_diagram(rng, 20, 6)
    if rng.chance(1, 3):
        body += '\n  "quoted 一 text" |'
    if rng.chance(1, 4):
        # rows whose quotes do not pair up, or pair up in an unusual way
        body += "\n" + rng.choice(['  note: 3" pipe', '| a |  12"', '"', 'a "b" c "', '\\"x"', '"a\\"', '-- "" --', '"a" "', "+--+ \""])
    body = "\n".join(l.rstrip() for l in body.replace("\r", "").split("\n"))
    if rng.chance(1, 2):
        return body + "\n" + gen_legend(rng) + "\n"
    return body + "\n"


def variants(rng, s):
    """(name, text) variants that must render identically to s"""
    out = [("crlf", s.replace("\n", "\r\n"))]
    rows = s.split("\n")
    tr = []
    for r in rows:
        # never append inside a multi-line declaration: that would change the CSS text itself
        tr.append(r + "".join(rng.choice(" \t") for _ in range(rng.below(4))))
    # only pad rows outside of braces spanning lines
    depth = 0
    tr2 = []
    for r, t in zip(rows, tr):
        inside = depth > 0
        depth += r.count("{") - r.count("}")
        tr2.append(r if (inside or depth > 0) else t)
    out.append(("trailing_ws", "\n".join(tr2)))
    k = rng.range(1, 5)
    out.append(("blank_lines", s + "\n" * k))
    out.append(("crlf+ws+blank", ("\n".join(tr2) + "\n" * k).replace("\n", "\r\n")))
    return out


def canon(svg):
    root = svgcanon.strip_ws_text(svgcanon.parse(svg))
    def walk(e):
        return (e.tag, tuple(sorted(e.attrs.items())), e.text, tuple(walk(c) for c in e.children))
    return walk(root)


class Check(PropertyCheck):
    id = "C17"
    thorough_mult = 3
    lean_modules = ["Svgbob.Properties.C17"]
    assumptions = [
        "model of str::lines / StringBuffer / CellBuffer::from hand-written, tied by correspondence",
        "theorems cover the drawn part under CRLF and trailing blank lines and the legend's line terminator; "
        "trailing blanks inside rows and the rest of the legend grammar are covered by correspondence and oracle only",
    ]

    def rule(self):
        return ("documents = random/mutated-bundled diagram (+quoted text, wide chars) with or without a 0..4-entry "
                "legend; variants CRLF, trailing spaces/tabs per line, 1..5 trailing blank lines, all combined; "
                "non-trivial = document whose base rendering has at least one geometry element, distinct by text")

    def docs(self, n):
        ds = ['a\n# Legend:', '+--+\n|ab|\n+--+\n# Legend:\na = {fill:red}\nb = {stroke:blue}\n', 'a\n# Legend:\n']
        ds += [gen_doc(self.rng) for _ in range(n)]
        ds += [gen.zoo(self.rng).replace("\r", "") + "\n" for _ in range(n // 4)]
        # rows with quoted labels, also the same row several times in a row (tables, lanes): the trailing blanks then make
        # equal rows unequal
        import props.c15 as c15
        ds += [c15.gen_input(self.rng).replace("\r", "") + "\n" for _ in range(n // 4)]
        ds += ['+---------+\n| "yes"   |\n| "yes"   |\n+---------+\n', '"a" |\n"a" |\n"a" |\n']
        for _, t in gen.bundled()[:3]:
            ds.append(t if t.endswith("\n") else t + "\n")
        return ds

    def correspondence(self):
        dis = []
        texts = []
        for d in self.docs(self.scale(300, 4000)):
            texts.append(d)
            texts += [v for _, v in variants(self.rng, d)]
        envs = common.env_tables(texts)
        ri = common.run_impl("front", ["%d %s" % (i, hx(t)) for i, t in enumerate(texts)])
        rm = common.run_model("front", ["%d %s %s" % (i, hx(t), envs[i]) for i, t in enumerate(texts)])
        for i, t in enumerate(texts):
            self.evaluations += 1
            if ri[str(i)] != rm[str(i)]:
                dis.append(Disagreement("L3 front", {"input_hex": hx(t), "input": t}, rm[str(i)][:1500], ri[str(i)][:1500]))
        self.count("front_texts", len(texts))
        return dis

    def oracle(self, docs):
        lines = []
        metas = []
        for i, d in enumerate(docs):
            vs = variants(self.rng, d)
            metas.append(vs)
            lines.append("%d_base settings default %s" % (i, hx(d)))
            for name, v in vs:
                lines.append("%d_%s settings default %s" % (i, name, hx(v)))
        res = common.run_impl("lib", lines)
        fails = []
        for i, d in enumerate(docs):
            self.evaluations += 1
            rb = res["%d_base" % i]
            case0 = {"input": d, "input_hex": hx(d), "entry": "settings", "settings": "default"}
            if not rb.startswith("ok "):
                fails.append(Failure("conversion did not return", case0, {"answer": rb[:200]}))
                continue
            try:
                cb = canon(unhx(rb[3:]))
            except svgcanon.ParseError as e:
                continue  # not this property's concern (C02)
            if len(cb[3]) > 3:
                self.nontrivial.add(d)
            if i < 3:
                self.sample({"base": d, "variants": [n for n, _ in metas[i]]})
            for name, v in metas[i]:
                rv = res["%d_%s" % (i, name)]
                case = dict(case0, variant=name, variant_input=v, variant_hex=hx(v))
                if not rv.startswith("ok "):
                    fails.append(Failure("conversion of variant did not return", case, {"answer": rv[:200]}))
                    continue
                try:
                    cv = canon(unhx(rv[3:]))
                except svgcanon.ParseError:
                    continue
                if cv != cb:
                    fails.append(Failure("variant '%s' renders differently" % name, case,
                                         {"diff": first_diff(cb, cv)}))
                    break
        return fails

    def search(self, boost=1):
        docs = self.docs(self.scale(400, 6000) * boost)
        fails = self.oracle(docs)
        if fails:
            fails = [self.shrink(fails[0])] + fails[1:]
        return fails

    def shrink(self, f):
        d = f.case["input"]
        budget = 80
        changed = True
        while changed and budget > 0:
            changed = False
            rows = d.split("\n")
            cands = ["\n".join(rows[:i] + rows[i + 1:]) for i in range(len(rows))]
            cands += [d[:i] + d[i + 1:] for i in range(len(d)) if d[i] != "\n"][:40]
            for c in cands:
                budget -= 1
                if budget <= 0:
                    break
                if not c.endswith("\n"):
                    continue
                r = self.oracle([c])
                if r:
                    d = c
                    f = r[0]
                    changed = True
                    break
        return f

    def oracle_on_texts(self, texts):
        return self.oracle([t.replace("\r", "") + ("" if t.endswith("\n") else "\n") for t in texts])

    def replay_case(self, case):
        return self.oracle([case["input"]])


def first_diff(a, b, path="svg"):
    if a[0] != b[0]:
        return "%s: tag %s vs %s" % (path, a[0], b[0])
    if a[1] != b[1]:
        return "%s: attrs %s vs %s" % (path, a[1], b[1])
    if a[2] != b[2]:
        return "%s: text %r vs %r" % (path, a[2][-120:], b[2][-120:])
    if len(a[3]) != len(b[3]):
        return "%s: %d vs %d children" % (path, len(a[3]), len(b[3]))
    for i, (x, y) in enumerate(zip(a[3], b[3])):
        d = first_diff(x, y, "%s/%s[%d]" % (path, x[0], i))
        if d:
            return d
    return None

"""C15 — quoted text is shown verbatim, draws nothing, displaces nothing."""
import common
import gen
import svgcanon
from common import hx, unhx
from runner import PropertyCheck, Failure, Disagreement

SEG_CHARS = "-|+/.,'`_~:!=*oO<>^vV()[]#ab xyz" + "<>&'" + "éüжш" + "一二日本" + "─│┌┘●" + \
    "“”‘’«»＂″‟„" + \
    "\t\u00a0\u2003\u3000\u202f\u1680\u2009"      # look-alikes of the quote (only the ASCII quote delimits a string), and
                                                     # blanks other than U+0020: inside quotes they are content, shown verbatim
OUT_CHARS = "-|+/.,'`_~:!=*oO<>^v()[]ab  xyz    " + "é一"


def widths_of(env_tok):
    d = {}
    for e in env_tok[4:].split(","):
        cp, w, ws, sw = e.split(":")
        d[int(cp)] = (int(w), ws == "1")
    return d


def cols(ch, wd):
    w = wd.get(ord(ch), (1, False))[0]
    return max(1, w if w >= 0 else 1)


def blank_text(s, wd):
    """the independent text-level specification: every "…" region of a row (no embedded quote
    or backslash) replaced by as many spaces as it has display columns; returns the blanked
    text and the list of (col, row, content). An escaped quote `\"` does not end the region.
    The property's quantifier excludes embedded quotes/backslashes; they are generated all the same
    (with the code's own reading of `\"`), because "verbatim" in the statement covers them."""
    out_rows = []
    segs = []
    for y, row in enumerate(s.split("\n")):
        res = []
        col = 0
        i = 0
        n = len(row)
        while i < n:
            if row[i] == '"':
                # the closing quote: `\"` inside the region is an escaped quote and stays in the text verbatim
                # (util.rs escape_string: `escape_sequence | none_of("\"")`, greedy, no backtracking)
                j = i + 1
                while j < n and row[j] != '"':
                    j += 2 if (row[j] == "\\" and j + 1 < n and row[j + 1] == '"') else 1
                if j >= n:
                    j = -1
                if j < 0:
                    # unbalanced: everything from here on is ordinary text
                    res.append(row[i:])
                    break
                content = row[i + 1:j]
                width = 2 + sum(cols(c, wd) for c in content)
                segs.append((col, y, content))
                res.append(" " * width)
                col += width
                i = j + 1
            else:
                res.append(row[i])
                col += cols(row[i], wd)
                i += 1
        out_rows.append("".join(res))
    return "\n".join(out_rows), segs


def gen_row(rng, maxsegs=3):
    parts = []
    nseg = rng.below(maxsegs + 1)
    for k in range(nseg + 1):
        parts.append("".join(rng.choice(OUT_CHARS) for _ in range(rng.below(8))))
        if k < nseg:
            seg = [rng.choice(SEG_CHARS) for _ in range(rng.below(7))]
            if rng.chance(1, 6) and seg:
                # an escaped quote or a lone backslash inside the region (shown verbatim, backslash included)
                seg[rng.below(len(seg))] = rng.choice(['\\"', "\\", '\\"x\\"', "\\\\"])
            parts.append('"' + "".join(seg) + '"')
    if rng.chance(1, 12):
        parts.append('"' + "tail")
    return "".join(parts)


def gen_input(rng):
    rows = [gen_row(rng) for _ in range(rng.range(1, 5))]
    if rng.chance(1, 4):
        # the same row several times in a row (table rows, lanes)
        i = rng.below(len(rows))
        rows[i:i + 1] = [rows[i]] * rng.range(2, 3)
    return "\n".join(rows)


def gen_raw_row(rng):
    """rows for the function-level comparison: also backslashes, escaped quotes, NULs, stray quotes"""
    alphabet = SEG_CHARS + '"""\\\\\\' + "\0"
    return "".join(rng.choice(alphabet) for _ in range(rng.below(24)))


class Check(PropertyCheck):
    id = "C15"
    thorough_mult = 3
    lean_modules = ["Svgbob.Properties.C15"]
    assumptions = [
        "model of escape_line/CellBuffer::from hand-written, tied by correspondence on generated rows and texts",
        "unicode-width and char::is_whitespace supplied per case by the real crates",
        "theorem hypothesis ColsOk: no zero-width or NUL character inside a quoted segment",
    ]

    def rule(self):
        return ("rows/texts with 0..3 quoted segments over drawing, markup, multi-byte and double-width "
                "characters; L2 escape_line rows incl. backslashes/NUL; non-trivial = input with at least "
                "one quoted segment, distinct by input text")

    def correspondence(self):
        dis = []
        n = self.scale(1500, 30000)
        rows = [gen_raw_row(self.rng) for _ in range(n)]
        rows += ['The "qu/i/ck" brown "fox\\"s" jumps over the lazy "do|g"', '"一\0二\0" |', '"abc\\"', '""', '"']
        envs = common.env_tables(rows)
        il = ["%d %d %s" % (i, i % 7, hx(r)) for i, r in enumerate(rows)]
        ml = ["%d %d %s %s" % (i, i % 7, hx(r), envs[i]) for i, r in enumerate(rows)]
        ri = common.run_impl("escape_line", il)
        rm = common.run_model("escape_line", ml)
        for i, r in enumerate(rows):
            self.evaluations += 1
            if ri[str(i)] != rm[str(i)]:
                dis.append(Disagreement("L2 escape_line", {"row_hex": hx(r), "row": r}, rm[str(i)], ri[str(i)]))
        self.count("L2_escape_line_rows", len(rows))
        # whole front end
        n = self.scale(800, 12000)
        texts = [gen_input(self.rng) for _ in range(n)] + [t for _, t in gen.bundled()]
        envs = common.env_tables(texts)
        il = ["%d %s" % (i, hx(t)) for i, t in enumerate(texts)]
        ml = ["%d %s %s" % (i, hx(t), envs[i]) for i, t in enumerate(texts)]
        ri = common.run_impl("front", il)
        rm = common.run_model("front", ml)
        for i, t in enumerate(texts):
            self.evaluations += 1
            if ri[str(i)] != rm[str(i)]:
                dis.append(Disagreement("L3 front", {"input_hex": hx(t), "input": t}, rm[str(i)][:2000], ri[str(i)][:2000]))
        self.count("L3_front_texts", len(texts))
        return dis

    def oracle(self, texts):
        """runs the implementation on each text and on its blanked version; returns failures"""
        envs = common.env_tables(texts)
        lines = []
        meta = []
        for i, t in enumerate(texts):
            wd = widths_of(envs[i])
            b, segs = blank_text(t, wd)
            meta.append((b, segs))
            lines.append("%da lib settings b=0,s=0,d=0 %s" % (i, hx(t)))
            lines.append("%db lib settings b=0,s=0,d=0 %s" % (i, hx(b)))
        # the mode is given on the command line; strip it from the lines
        res = common.run_impl("lib", [l.replace(" lib ", " ", 1) for l in lines])
        fails = []
        for i, t in enumerate(texts):
            self.evaluations += 1
            b, segs = meta[i]
            if segs:
                self.nontrivial.add(t)
            case = {"input": t, "input_hex": hx(t), "entry": "settings", "settings": "b=0,s=0,d=0"}
            ra, rb = res[str(i) + "a"], res[str(i) + "b"]
            if not ra.startswith("ok ") or not rb.startswith("ok "):
                fails.append(Failure("conversion did not return", case, {"quoted": ra[:200], "blanked": rb[:200]}))
                continue
            try:
                A = svgcanon.parse(unhx(ra[3:]))
                B = svgcanon.parse(unhx(rb[3:]))
            except svgcanon.ParseError as e:
                fails.append(Failure("output is not well-formed XML: %s" % e, case))
                continue
            ka = svgcanon.geometry_keys(A)
            kb = svgcanon.geometry_keys(B)
            expect = list(kb)
            for (cx, cy, content) in segs:
                expect.append(("text", (("x", fmt(8 * cx + 2)), ("y", fmt(16 * cy + 12))), content))
            expect.sort()
            if (A.attrs.get("width"), A.attrs.get("height")) != (B.attrs.get("width"), B.attrs.get("height")):
                fails.append(Failure("canvas differs from the blanked input", case,
                                     {"quoted": [A.attrs.get("width"), A.attrs.get("height")],
                                      "blanked": [B.attrs.get("width"), B.attrs.get("height")], "blanked_input": b}))
            elif ka != expect:
                only_a = [k for k in ka if k not in expect]
                only_e = [k for k in expect if k not in ka]
                fails.append(Failure("rendering differs from blanked input + quoted texts", case,
                                     {"only_in_output": repr(only_a[:6]), "missing_from_output": repr(only_e[:6]),
                                      "blanked_input": b}))
            if i < 3:
                self.sample({"input": t, "segments": segs})
        return fails

    def search(self, boost=1):
        n = self.scale(1500, 25000) * boost
        texts = ['  "一二" |', '"a-b" -- "|" |\n+-+ "x"', 'é"ü" |']
        texts += [gen_input(self.rng) for _ in range(n)]
        # quoted segments inside bundled diagrams
        for blk in gen.bundled_blocks()[: self.scale(40, 400)]:
            rows = blk.split("\n")
            k = self.rng.below(len(rows))
            if '"' not in blk and "{" not in blk:
                rows[k] = rows[k] + '  "q' + self.rng.choice(SEG_CHARS) + '"  |'
                texts.append("\n".join(rows))
        texts = [t for t in texts if "{" not in t]
        fails = []
        for k in range(0, len(texts), 4000):
            fails += self.oracle(texts[k:k + 4000])
        return shrink_all(self, fails)

    def oracle_on_texts(self, texts):
        return self.oracle([t for t in texts if "{" not in t and "# Legend:" not in t])

    def replay_case(self, case):
        return self.oracle([case["input"]])


def fmt(v):
    return str(v)


def shrink_all(chk, fails):
    """delta-debug the first failure: drop rows, then characters, while the oracle still fails"""
    if not fails:
        return fails
    f = fails[0]
    t = f.case["input"]
    budget = 60
    changed = True
    while changed and budget > 0:
        changed = False
        rows = t.split("\n")
        cands = ["\n".join(rows[:i] + rows[i + 1:]) for i in range(len(rows))] if len(rows) > 1 else []
        cands += [t[:i] + t[i + 1:] for i in range(len(t)) if t[i] != "\n"][:60]
        for c in cands:
            budget -= 1
            if budget <= 0:
                break
            r = chk.oracle([c])
            if r:
                t = c
                f = r[0]
                changed = True
                break
    return [f] + fails[1:]

"""C10 — separated sub-diagrams render independently of each other."""
from fractions import Fraction as F

import backend
import common
import gen
import relational
import svgcanon
from common import hx, unhx
from runner import PropertyCheck, Failure, Disagreement


def clean(t):
    """legend-free, tag-free, quote-free, rectangular block without leading/trailing blank rows"""
    t = t.split("# Legend:")[0].replace("{", "(").replace("}", ")").replace('"', "'")
    rows = [r.rstrip() for r in t.split("\n")]
    while rows and not rows[0].strip():
        rows.pop(0)
    while rows and not rows[-1].strip():
        rows.pop()
    return "\n".join(rows)


def width_cols(t, wd):
    from props.c15 import cols
    return max((sum(cols(c, wd) for c in r) for r in t.split("\n")), default=0)


class Check(PropertyCheck):
    id = "C10"
    thorough_mult = 3
    lean_modules = ["Svgbob.Properties.C10"]
    assumptions = [
        "whole-pipeline model tied to the implementation end to end (bytes)",
        "inputs are legend-free, tag-free and quote-free and consist of single-column-width characters "
        "(side-by-side placement is computed on character columns)",
    ]

    def rule(self):
        return ("pairs of random grids / bundled blocks / shapes with attachments placed side by side, stacked, or stacked so that "
                "the lower part starts one column after the end of the upper part's last row, gaps 1..3; "
                "oracle: elements of svg(A+B) = elements of svg(A) + elements of svg(B) shifted to its place (multiset), "
                "canvas covers both; non-trivial = both parts non-empty, distinct by combined input")

    def parts(self, n):
        out = []
        blocks = [clean(b) for b in gen.bundled_blocks()]
        blocks = [b for b in blocks if b]
        self._blocks = blocks
        for _ in range(n):
            if self.rng.chance(1, 12):
                out.append(self.rng.choice(["ab\tcd", "+--+\t+--+\n|  |\t|  |\n+--+\t+--+", "-\t-\n \t|"]))
                continue
            if self.rng.chance(1, 14):
                # a part at the end of a size axis: hundreds of separate groups on a row, a staircase, a long run or box
                k = self.rng.below(3)
                z = gen.many_groups(self.rng) if k == 0 else gen.staircase(self.rng, self.rng.choice([17, 33, 65, 70])) if k == 1 else \
                    gen.long_things(self.rng)
                z = clean(z.replace('"', "'").replace("{", "(").replace("}", ")").split("# Legend:")[0])
                if z and all(ord(c) < 128 for c in z):
                    out.append(z)
                    continue
            if self.rng.chance(1, 5):
                z = clean(gen.zoo_piece(self.rng, quotes=False, tags=False, special=False))
                if z:
                    out.append(z)
                    continue
            if self.rng.chance(1, 4) and blocks:
                out.append(self.rng.choice(blocks))
            else:
                g = gen.random_grid(self.rng, self.rng.range(1, 14), self.rng.range(1, 7),
                                    gen.DRAW_ASCII + gen.LABEL[:20] + (gen.GLYPHS if self.rng.chance(1, 3) else "")
                                    + (gen.CJK if self.rng.chance(1, 3) else "")
                                    + ("\u0301\u200b\ufe0f" if self.rng.chance(1, 4) else ""),
                                    self.rng.choice([20, 45, 70, 95]))
                g = clean(g)
                if g:
                    out.append(g)
        return out

    def combos(self, n):
        ps = self.parts(2 * n + 2)
        out = []
        for i in range(0, len(ps) - 1, 2):
            a, b = ps[i], ps[i + 1]
            gap = self.rng.range(1, 3)
            mode = self.rng.choice(["side", "stack", "stack", "aligned"])
            if mode == "aligned":
                # the lower part starts one column after the column where the upper part's last row ends (reading
                # order continues across the gap); the lower part is a drawing with arcs more often than not
                if self.rng.chance(2, 3):
                    b = clean(self.rng.choice(self._blocks)) if (self._blocks and self.rng.chance(2, 3)) else clean(gen.attached_shape(self.rng))
                if self.rng.chance(1, 2):
                    a = self.rng.choice(["a", "+", "ab", "+--+\n|  |\n+--+", "-", "*"])
                if not b:
                    mode = "stack"
            if mode == "side" and self.rng.chance(1, 5):
                # a free-standing short stroke in the last column of the left part and one in the first column of the
                # right part, on the same row
                la, lb = a.split("\n"), b.split("\n")
                wa = max(gen.dispw(l) for l in la)
                row = self.rng.below(min(len(la), len(lb)))
                dash = self.rng.choice(["-", "_", "~~", "-"])
                la = [l + " " * (wa - gen.dispw(l)) + ("  " + dash if i == row else "") for i, l in enumerate(la)]
                lb = [(dash + "  " if i == row else " " * (len(dash) + 2)) + l if (l or i == row) else l for i, l in enumerate(lb)]
                a, b = clean("\n".join(la)), "\n".join(x.rstrip() for x in lb)
            out.append((a, b, gap, mode))
        return out

    @staticmethod
    def combine(a, b, gap, mode):
        """returns (combined text, (ax, dx, dy)): column offset of a, offset of b in cells"""
        la = a.split("\n")
        if mode == "side":
            wa = max(gen.dispw(l) for l in la)
            return gen.side_by_side(a, b, gap), (0, wa + gap, 0)
        if mode == "aligned":
            x = gen.dispw(la[-1]) - 1
            first = b.split("\n")[0]
            c = len(first) - len(first.lstrip(" "))
            d = x + 1 - c
            ax, bx = (0, d) if d >= 0 else (-d, 0)
            return gen.place(a, ax, 0) + "\n" * (gap + 1) + gen.place(b, bx, 0), (ax, bx, len(la) + gap)
        return a + "\n" * (gap + 1) + b, (0, 0, len(la) + gap)

    def correspondence(self):
        dis = []
        cases = []
        for (a, b, gap, mode) in self.combos(self.scale(150, 2500)):
            t, _ = self.combine(a, b, gap, mode)
            cases.append((t, backend.Settings(b=False, s=False, d=False), "settings"))
        res = backend.run_full(cases)
        for c, r in zip(cases, res):
            self.evaluations += 1
            cmp = backend.compare_outputs(r["impl"], r["model"])
            if cmp == "float":
                self.count("inexact_float")
            if cmp == "different":
                dis.append(Disagreement("L3 full pipeline bytes", {"input": c[0], "input_hex": hx(c[0])},
                                        str(backend.first_difference(r["impl"], r["model"]))[:600], ""))
        return dis

    def oracle(self, combos):
        fails = []
        lines = []
        meta = []
        for i, (a, b, gap, mode) in enumerate(combos):
            t, off = self.combine(a, b, gap, mode)
            meta.append((t, off))
            lines.append("%da settings b=0,s=0,d=0 %s" % (i, hx(a)))
            lines.append("%db settings b=0,s=0,d=0 %s" % (i, hx(b)))
            lines.append("%dc settings b=0,s=0,d=0 %s" % (i, hx(t)))
        res = common.run_impl("lib", lines)
        for i, (a, b, gap, mode) in enumerate(combos):
            self.evaluations += 1
            t, (ax, dx, dy) = meta[i]
            case = {"input": t, "input_hex": hx(t), "a": a, "b": b, "gap": gap, "mode": mode}
            rs = [res["%d%s" % (i, s)] for s in "abc"]
            if not all(r.startswith("ok ") for r in rs):
                fails.append(Failure("conversion did not return", case))
                continue
            try:
                A, B, C = [svgcanon.parse(unhx(r[3:])) for r in rs]
            except svgcanon.ParseError:
                continue
            ident = lambda v: v
            ca = relational.canon_elems(A, lambda v: v + 8 * ax, ident, ident, with_group=True)
            cb = relational.canon_elems(B, lambda v: v + 8 * dx, lambda v: v + 16 * dy, ident, with_group=True)
            cc = relational.canon_elems(C, ident, ident, ident, with_group=True)
            if ca and cb:
                self.nontrivial.add(t)
            if i < 3:
                self.sample({"a": a, "b": b, "gap": gap, "mode": mode})
            both = sorted(ca + cb, key=lambda kn: (kn[0], [float(v) for v in kn[1]]))
            if not relational.same_multiset(both, cc):
                fails.append(Failure("rendering of the juxtaposition is not the union of the parts", case,
                                     relational.describe_diff(both, cc)))
                continue
            w = max(F(A.attrs["width"]) + 8 * ax, F(B.attrs["width"]) + 8 * dx) if cb else F(A.attrs["width"]) + 8 * ax
            h = max(F(A.attrs["height"]), F(B.attrs["height"]) + 16 * dy) if cb else F(A.attrs["height"])
            if ca and cb and (F(C.attrs["width"]), F(C.attrs["height"])) != (w, h):
                fails.append(Failure("canvas does not cover both parts exactly", case,
                                     {"got": [C.attrs["width"], C.attrs["height"]], "want": [str(w), str(h)]}))
        return fails

    @staticmethod
    def page(n):
        """a page of two-letter words with exactly `n` non-blank cells (40 per row)"""
        rows, left = [], n
        while left > 0:
            k = min(40, left)
            words = ["ab"] * (k // 2) + (["a"] if k % 2 else [])
            rows.append(" ".join(words))
            left -= k
        return "\n".join(rows)

    def page_sweeps(self):
        """a drawing below a page whose number of non-blank cells sweeps a window around a power of two (block sizes, run
        lengths, look-back windows and pool sizes of a grouping stage sit there): the page must not change the drawing"""
        shapes = ["|   |\n|   |\n+---+\n  |\n  |\n  |",                 # tuning fork: two prongs, a stem
                  "|\n|\n+---+\n|   |\n|   |",                          # h
                  "| | | |\n| | | |\n+-+-+-+\n|\n|",                     # comb on a stem
                  "+--+  +--+\n|  |  |  |\n|  +--+  |\n|        |\n+--------+",  # a box with a notch
                  "  ^\n  |\n--+--\n  |\n  v",                           # cross with arrow heads
                  "\\   /\n \\ /\n  +\n  |\n  |"]                     # Y
        out = []
        powers = [1024, 2048, 4096] if self.tier == "quick" else [512, 1024, 2048, 4096, 8192]
        forks = ["|   |\n|   |\n+---+\n|\n|\n|", "|   |\n|   |\n+---+\n    |\n    |\n    |",
                 "|\n|\n+---+\n|   |\n|   |", "    |\n    |\n+---+\n|   |\n|   |"]
        for p2 in powers:
            for d in range(-14, 2):
                out.append((self.page(p2 + d), forks[(d + 14) % len(forks)], 2, "stack"))
                out.append((self.page(p2 + d), self.rng.choice(shapes + forks), self.rng.range(1, 2), "stack"))
                # a dense random grid of strokes: one connected piece whose cells are gathered in an order of its own
                w, h = self.rng.range(4, 7), self.rng.range(4, 7)
                grid = ["".join(self.rng.choice("-|+") if self.rng.below(100) < 75 else " " for _ in range(w)).rstrip()
                        for _ in range(h)]
                if grid[0].strip():
                    out.append((self.page(p2 + d), "\n".join(grid), self.rng.range(1, 2), "stack"))
        self.count("page_sweep_cases", len(out))
        return out

    def arc_neighbours(self, n):
        """a half or a quarter of a catalogue circle (the art cut at its centre column / row) next to a part that holds a
        `{tag}` text, a label or a tagged box close to the cut: an open arc has a bounding box, a chord and a centre that
        reach beyond its own cells, so whatever is decided from them may take hold of the neighbour"""
        import props.c13 as c13
        cat = [a for a, _ in c13.catalogue()]
        out = []
        for _ in range(n):
            art = self.rng.choice(cat[4:]).split("\n")
            w = max(len(r) for r in art)
            art = [r.ljust(w) for r in art]
            h = len(art)
            cut = self.rng.below(4)
            inc = self.rng.below(2)
            if cut == 0:      # left half (open to the right)
                piece = [r[: w // 2 + inc] for r in art]
            elif cut == 1:    # right half (open to the left)
                piece = [r[w // 2 + 1 - inc:] for r in art]
            elif cut == 2:    # top half (open below)
                piece = art[: h // 2 + inc]
            else:             # bottom half
                piece = art[h // 2 + 1 - inc:]
            a = clean("\n".join(piece))
            if not a:
                continue
            tag = self.rng.choice(["{a}", "{a,b}", "{w}", "note", "{a} x", "+-----+\n| {a} |\n+-----+", "{n0}"])
            ph = len(a.split("\n"))
            pw = max(len(r) for r in a.split("\n"))
            gap = self.rng.range(1, 2)
            if cut < 2:
                # beside the cut, on a row near the diameter
                b = "\n" * max(0, ph // 2 + self.rng.range(-2, 2)) + tag
                pair = (a, b, gap, "side") if cut == 0 else (b, a, gap, "side")
            else:
                b = " " * max(0, pw // 2 + self.rng.range(-4, 2)) + tag.replace("\n", "\n" + " " * max(0, pw // 2 - 3))
                pair = (a, b, gap, "stack") if cut == 2 else (b, a, gap, "stack")
            out.append(pair)
        self.count("arc_neighbour_cases", len(out))
        return out

    def search(self, boost=1):
        return self.oracle(self.combos(self.scale(600, 10000) * boost) + self.page_sweeps() +
                           self.arc_neighbours(self.scale(200, 3000) * boost))

    def replay_case(self, case):
        return self.oracle([(case["a"], case["b"], case["gap"], case["mode"])])

"""C01 — conversion is total: any text yields an SVG, never a panic or a hang."""
import math
import time

import backend
import common
import gen
from common import hx, unhx
from runner import PropertyCheck, Failure, Disagreement

HOSTILE = ['"', '""', '"\\', '\\"', '{', '}', '{a', 'a}', '{,}', '{a,}', '# Legend:', '# Legend:\n', '# Legend:\na', '# Legend:\na=',
           '# Legend:\na={', '# Legend:\na={}', '# Legend:\n=', '#  Legend:', '\0', '\0\0"', '一"二', '"一', '́', '​',
           '\U0001F600', '﻿', '\t', '\r', '\r\n', '\n\n\n', ' ', '', '\x7f', '\x1b[0m']
ENTRIES = ["to_svg", "pretty", "compressed", "settings", ("override", 100.0, 50.0)]


def gen_nested(rng):
    """deep nesting and long repetition of one opener/closer: grammars that back-track, recursions that follow the
    nesting depth and quadratic scans show only from a certain depth or length on"""
    depth = rng.choice([8, 12, 16, 20, 24, 32, 48, 64, 128, 400, 3000])
    opener = rng.choice(["{", "}", "{a=", "{a,", '"', '\\"', "(", "[", "<", "{{}", "a={", "# Legend:\n", "{\n", "'", "`"])
    closer = {"{": "}", "(": ")", "[": "]", "<": ">", "{a=": "}", "{a,": "}", "a={": "}", "{\n": "}\n"}.get(opener, "")
    body = opener * depth + rng.choice(["", "x", "fill:red"]) + closer * rng.choice([0, depth, depth // 2, depth + 1])
    k = rng.below(5)
    if k == 0:
        return body
    if k == 1:      # inside a legend declaration
        return rng.choice(["", "+--+\n|{a}|\n+--+\n"]) + "# Legend:\na = {" + body + "}\n" + rng.choice(["", "b = {x:y}\n"])
    if k == 2:      # as a legend of its own
        return "+-+\n# Legend:\n" + body + "\n"
    if k == 3:      # inside a shape
        one = body.replace("\n", " ")[:200]
        return gen.box(len(one) + 2, 1, inner=[" " + one])
    return "-" * rng.below(4) + body + "-" * rng.below(4) + "\n" + body[: 40]


def gen_hostile(rng):
    r = rng.below(12)
    if r >= 10:
        return gen_nested(rng)
    if r >= 8:
        # a hostile token enclosed by a shape (the nesting stage looks at texts inside shapes)
        tok = rng.choice(HOSTILE + ['{}', '{ }', '"" ""', '"{"', '{""}']).replace("\n", " ").replace("\r", " ")
        if rng.chance(1, 2):
            pad = " " * rng.below(3)
            return gen.place(gen.box(len(tok) + 2 * len(pad) + rng.below(3), rng.range(1, 3),
                                     corners=rng.choice(["++++", "..''", "┌┐└┘"]), inner=[pad + tok]), rng.below(4), rng.below(3))
        return gen.place("( " + tok + " )", rng.below(4), rng.below(2)) if rng.chance(1, 2) else \
            gen.place(" .---.\n( " + tok[:3].ljust(3) + " )\n `---'", rng.below(4), rng.below(2))
    if r == 0:
        return "".join(rng.choice(HOSTILE + list(gen.DRAW_ASCII)) for _ in range(rng.range(1, 30)))
    if r == 1:
        return gen.random_grid(rng, rng.range(1, 40), rng.range(1, 20), gen.DRAW_ASCII + gen.GLYPHS + gen.CJK + '"{}#\\', rng.choice([20, 50, 80, 100]))
    if r == 2:
        blocks = gen.bundled_blocks()
        s = list(rng.choice(blocks)) if blocks else list("+-+")
        for _ in range(rng.range(1, 8)):
            i = rng.below(len(s))
            s[i] = rng.choice(HOSTILE + list(gen.DRAW_ASCII))
        return "".join(s)
    if r == 3:
        return "".join(chr(rng.choice([rng.range(1, 0x7f), rng.range(0x80, 0x2fff), rng.range(0x3000, 0xd7ff), rng.range(0xe000, 0xffff), rng.range(0x10000, 0x10ffff)]))
                       for _ in range(rng.range(1, 40)))
    if r == 4:
        return gen.random_diagram(rng, 30, 12) + "\n# Legend:\n" + "".join(rng.choice("ab={}\n \t_1;:") for _ in range(rng.range(0, 40)))
    if r == 5:
        return "".join(rng.choice(['"', '\\', 'a', ' ', '-', '|', '一', '\0']) for _ in range(rng.range(1, 40)))
    if r == 6:
        return gen.random_grid(rng, rng.range(1, 12), rng.range(1, 12), "()[]{}<>^vV*oO#.,'`+-|/\\_~:!=", 100)
    return gen.random_diagram(rng, 40, 20)


def crlf_legend_doc(rng):
    """a CRLF (or mixed) document with a legend below rows of multi-byte characters: byte offsets, character offsets and
    line counts all differ here"""
    rows = []
    for _ in range(rng.range(1, 6)):
        rows.append(rng.choice(["┌──────┐", "│ {a}  │", "└──────┘", "é--", "一二三", "+--+", "| {a}|", "", "ж ш", "😀 x"]))
    doc = "\n".join(rows) + "\n" + rng.choice(["", "\n"]) + "# Legend:\n" + rng.choice(["a = {fill:papayawhip;}", "a = {fill:red}\nb = {x:y}", ""]) + "\n"
    nl = rng.choice(["\r\n", "\r\n", "\r", "\n\r"])
    return doc.replace("\n", nl)


class Check(PropertyCheck):
    id = "C01"
    lean_modules = ["Svgbob.Properties.C01"]
    assumptions = [
        "wall-clock time, native stack depth, allocator aborts, Rust's sort-consistency panic and f32 NaN are runtime "
        "behaviour outside the model; they are exercised by the harness (catch_unwind, per-batch time budget, size sweep)",
        "whole-pipeline model tied to the implementation end to end (bytes), also on hostile inputs",
    ]

    def rule(self):
        return ("hostile generator families (quote/brace/backslash/legend fragments, openers nested or repeated 8 to 3000 deep "
                "in a row, a legend declaration, a legend or a shape, single connected groups of 10 000 to 60 000 cells, dense random grids over the full "
                "alphabet, mutated bundled diagrams, arbitrary Unicode scalars incl. NUL, controls, astral, zero-width) x "
                "five entry points x scales {tiny, 0.5, 8, 1e6}; size sweep with timing; non-trivial = input of at least two "
                "non-blank characters, distinct by input")

    def giant_groups(self):
        """one connected group of tens of thousands of cells: recursion per cell or per group shows here"""
        return ["-" * 60000, "|\n" * 20000, gen.box(3000, 2), "\n".join("+" * 110 for _ in range(100)),
                "\n".join(" " * i + "\\" for i in range(3000))]

    def inputs(self, n):
        return list(HOSTILE) + gen.arc_rails() + [gen_hostile(self.rng) for _ in range(n)] + [gen.zoo(self.rng, crlf=self.rng.chance(1, 2)) for _ in range(n // 4)] + \
            [crlf_legend_doc(self.rng) for _ in range(n // 10)]

    def correspondence(self):
        dis = []
        cases = []
        for t in self.inputs(self.scale(500, 8000)):
            if len(t) > 2500:
                continue        # very long single tokens: implementation only (oracle), the model driver is slow on them
            e = self.rng.choice(ENTRIES)
            st = backend.Settings() if e in ("to_svg", "pretty", "compressed") else \
                backend.Settings(scale=self.rng.choice([8, 1, 0.5, 20]), b=self.rng.chance(1, 2), s=self.rng.chance(1, 2), d=self.rng.chance(1, 2))
            cases.append((t, st, e))
        res = backend.run_full(cases)
        for c, r in zip(cases, res):
            self.evaluations += 1
            cmp = backend.compare_outputs(r["impl"], r["model"])
            if cmp == "float":
                self.count("inexact_float")
            if cmp == "different":
                dis.append(Disagreement("L3 full pipeline bytes", {"input": c[0], "input_hex": hx(c[0]), "entry": str(c[2])},
                                        str(backend.first_difference(r["impl"], r["model"]))[:600], ""))
        return dis

    def oracle(self, texts):
        fails = []
        lines = []
        meta = []
        for i, t in enumerate(texts):
            e = ENTRIES[i % len(ENTRIES)]
            sc = self.rng.choice([8.0, 8.0, 0.5, 1e-3, 1e6, 37.5])
            tok = "default" if e in ("to_svg", "pretty", "compressed") else "scale=%s,b=%d,s=%d,d=%d" % (backend.f32bits(sc), i & 1, (i >> 1) & 1, (i >> 2) & 1)
            en = e if not isinstance(e, tuple) else "override:%s:%s" % (backend.f32bits(e[1]), backend.f32bits(e[2]))
            lines.append("%d %s %s %s" % (i, en, tok, hx(t)))
            meta.append((en, tok))
        t0 = time.time()
        res = common.run_impl("lib", lines, timeout=self.scale(300, 1800))
        self.stats["batch_seconds"] = round(time.time() - t0, 1)
        for i, t in enumerate(texts):
            self.evaluations += 1
            if len(t.strip()) >= 2:
                self.nontrivial.add(t)
            r = res[str(i)]
            case = {"input": t, "input_hex": hx(t), "entry": meta[i][0], "settings": meta[i][1]}
            if i < 3:
                self.sample({"input": t, "entry": meta[i][0]})
            if r.startswith("panic"):
                fails.append(Failure("the conversion panicked: %s" % unhx(r.split(" ", 1)[1])[:120] if " " in r else "panic", case))
            elif r == "noanswer":
                fails.append(Failure("the conversion did not return within the time budget (hang or abort)", case))
            elif not r.startswith("ok "):
                fails.append(Failure("unexpected answer", case, {"answer": r[:100]}))
        return fails

    def size_sweep(self):
        """time against input size; reports the fitted growth exponent"""
        fails = []
        pts = []
        base = "+--+ *--> .-.  /\\ a\n|ab|  |  (   ) \\/ b\n+--+  v   `-'  {x} \"q\"\n"
        for kb in ([1, 2, 4, 8] if self.tier == "quick" else [1, 2, 4, 8, 12, 16, 20]):
            t = (base * (kb * 1024 // len(base) + 1))[: kb * 1024]
            t0 = time.time()
            res = common.run_impl("lib", ["s to_svg default %s" % hx(t)], timeout=600, nproc=1, stall=600)
            dt = time.time() - t0
            self.evaluations += 1
            pts.append((kb, dt))
            if not res["s"].startswith("ok "):
                fails.append(Failure("a %d kB input did not convert within 600 s" % kb, {"input": t[:200] + "...", "size_kb": kb},
                                     {"answer": res["s"][:80]}))
                break
        if len(pts) >= 3:
            xs = [math.log(p[0]) for p in pts]
            ys = [math.log(max(p[1], 1e-3)) for p in pts]
            n = len(xs)
            mx, my = sum(xs) / n, sum(ys) / n
            slope = sum((x - mx) * (y - my) for x, y in zip(xs, ys)) / max(1e-9, sum((x - mx) ** 2 for x in xs))
            self.stats["size_sweep_seconds"] = [(k, round(d, 2)) for k, d in pts]
            self.stats["fitted_growth_exponent"] = round(slope, 2)
            if slope > 4.0:
                fails.append(Failure("conversion time grows faster than a small polynomial (fitted exponent %.2f)" % slope,
                                     {"input": base, "sizes": pts}))
        return fails

    def search(self, boost=1):
        # in slices: a hanging conversion costs the silence limit of the runner, so the search stops at the first slice
        # that has failures instead of paying for every hanging input of a tree that hangs often
        fails = []
        todo = self.inputs(self.scale(3000, 50000) * boost)
        for i in range(0, len(todo), 1500):
            fails += self.oracle(todo[i:i + 1500])
            if fails:
                break
        if not fails:
            fails += self.oracle(self.giant_groups())
        if not any("time budget" in f.what for f in fails):
            fails += self.size_sweep()
        return fails

    def oracle_on_texts(self, texts):
        return self.oracle(texts)

    def replay_case(self, case):
        return self.oracle([case["input"]])

"""C02 — output is one well-formed SVG/XML document that round-trips the text."""
import re

import backend
import common
import gen
import svgcanon
from common import hx, unhx
from runner import PropertyCheck, Failure, Disagreement

SVG_NS = "http://www.w3.org/2000/svg"
SAFE_LABEL = "abcdefghijklmnpqrstuwyzABCDEFGHIJKLMNPQRSTUWYZ0123456789&@$%;?"
NUM = re.compile(r"^-?[0-9]+(\.[0-9]+)?$")


def xml_ok(c):
    n = ord(c)
    return n in (9, 10, 13) or 0x20 <= n <= 0xD7FF or 0xE000 <= n <= 0xFFFD or 0x10000 <= n <= 0x10FFFF


def hostile_char(rng):
    r = rng.below(13)
    if r == 12:
        # blanks other than U+0020 (typed inside a quoted string they are content): whatever stands for them in the output
        # has to be something an XML parser without a DTD knows
        return rng.choice(gen.UNI_SPACES + "\t\u00a0\u00a0\u2009\u00ad")
    if r == 0:
        return chr(rng.range(1, 31))
    if r == 1:
        return rng.choice("<>&'")
    if r == 2:
        return rng.choice("￾￿\x7f\x85 ")
    if r == 3:
        return chr(rng.range(0x10000, 0x10FFFF))
    if r == 4:
        return rng.choice(gen.CJK + gen.LATIN1 + gen.CYR)
    if r == 5:
        return rng.choice("]]>-!?")
    if r == 6:
        c = rng.range(0x80, 0xFFFF)
        return chr(c) if not (0xD800 <= c <= 0xDFFF) else "x"
    if r == 7:
        # whole XML tokens typed as text: they must come back as the characters typed, not as what they would denote
        return rng.choice(["&#60;", "&#x3c;", "&#0;", "&#7;", "&#xFFFE;", "&#+65;", "&lt;", "&amp;", "&quot;", "&#38;#60;", "&#x0;",
                           "&#1114112;", "<![CDATA[", "]]>", "<!--", "-->", "<?x?>", "&#", "&#;", "&#x;", "&#65", "&#x41;", "&apos;",
                           "&#9;", "&#10;", "&#13;", "&#32;"])
    return rng.choice(SAFE_LABEL)


def quoted_payload(rng):
    s = "".join(hostile_char(rng) for _ in range(rng.range(1, 10)))
    return s.replace('"', "").replace("\\", "").replace("\n", "").replace("\r", "")


def gen_case(rng):
    """returns (input, expectations) — expectations: list of ('quoted', content) / ('rule', name, decl) / ('label', run)"""
    exp = []
    rows = []
    for _ in range(rng.range(1, 3)):
        kind = rng.below(3)
        if kind == 0:
            q = quoted_payload(rng)
            rows.append("  " * rng.below(3) + '"' + q + '"')
            exp.append(("quoted", q))
        elif kind == 1:
            run = "".join(rng.choice(SAFE_LABEL + "\x01\x1f￾") for _ in range(rng.range(1, 8)))
            rows.append(" " + run)
            exp.append(("label", run))
        else:
            rows.append(gen.random_grid(rng, rng.range(1, 16), 1, gen.mixed_alphabet(rng) + "<>&'", 50))
    if rng.chance(1, 5):
        # a {tag} inside a shape goes into a class attribute: every character of it has to be attribute-safe
        tag = "{" + rng.choice(["a", "b1", "w"]) + "".join(hostile_char(rng) for _ in range(rng.range(1, 3))).replace("\n", "").replace("\r", "").replace('"', "") + "}"
        rows = gen.box(len(tag) + 4, 1, corners=rng.choice(["++++", "..''"]), inner=[" " + tag]).split("\n") + rows
    text = "\n".join(rows)
    if rng.chance(1, 8):
        # a tagged shape whose legend declaration holds quotes and markup, with no expectation on the style sheet: the
        # oracle then also renders it with the style sheet switched off (whatever is done with the declaration then —
        # dropped, inlined as an attribute — the document has to stay well-formed)
        name = rng.choice(["a", "b_1", "Zq"])
        decl = rng.choice(['font-family: "Fira Code"; fill: #eee', "x:\" onload=\"alert(1)", "fill:'red'", 'a:"<&>"',
                           "".join(hostile_char(rng) for _ in range(rng.range(1, 10))).replace("{", "").replace("}", "") + '"'])
        shape = gen.box(len(name) + 6, 1, corners=rng.choice(["++++", "..''"]), inner=[" {" + name + "}"])
        return shape + "\n" + text + "\n# Legend:\n%s = {%s}\n" % (name, decl), exp
    if rng.chance(1, 3):
        name = rng.choice(["a", "b_1", "Zq"])
        decl = "".join(hostile_char(rng) for _ in range(rng.range(0, 12))).replace("{", "").replace("}", "")
        text += "\n# Legend:\n%s = {%s}\n" % (name, decl)
        exp.append(("rule", name, decl))
    return text, exp


def all_texts(root):
    out = []

    def walk(e):
        if e.tag == "text":
            out.append(e)
        for c in e.children:
            walk(c)
    walk(root)
    return out


class Check(PropertyCheck):
    id = "C02"
    thorough_mult = 3
    lean_modules = ["Svgbob.Properties.C02"]
    assumptions = [
        "model of text escaping, node building and sauron's serializer hand-written; tied byte-for-byte to the "
        "implementation by the back-end correspondence (implementation's fragments -> model's string)",
        "XML well-formedness on the implementation side judged by expat and by the model's recognizer (a subset of "
        "XML 1.0; proved to accept every document the model writes; compared with expat on damaged documents)",
    ]

    def rule(self):
        return ("inputs with hostile characters (C0/C1 controls, U+FFFE/FFFF, markup, astral, CJK) in the quoted, "
                "plain, legend and settings-string channels, all include_* switches, pretty and compressed; non-trivial = input "
                "carrying at least one character needing escaping or dropping, distinct by input")

    def cases(self, n):
        out = [('"<&>\'" a&b', [("quoted", "<&>'")]), ("a\x01b", [("label", "a\x01b")]),
               ("x\n# Legend:\na = {fill:red;</style><script>alert(1)</script>}\n",
                [("rule", "a", "fill:red;</style><script>alert(1)</script>")])]
        out += [gen_case(self.rng) for _ in range(n)]
        out += [(gen.zoo(self.rng), []) for _ in range(n // 4)]
        return out

    def correspondence(self):
        dis = []
        cs = self.cases(self.scale(400, 6000))
        cases = []
        for i, (t, _) in enumerate(cs):
            st = backend.Settings(b=self.rng.chance(1, 2), s=self.rng.chance(1, 2), d=self.rng.chance(1, 2),
                                  scale=self.rng.choice([8, 8, 1, 0.5, 10]))
            cases.append((t, st, self.rng.choice(["settings", "settings", ("override", 40.0, 20.5)])))
        for _, t in gen.bundled()[:2]:
            cases.append((t, backend.Settings(), "pretty"))
            cases.append((t, backend.Settings(), "compressed"))
        res = backend.run(cases)
        for c, r in zip(cases, res):
            self.evaluations += 1
            cmp = backend.compare_outputs(r["impl"], r["model"])
            if cmp == "float":
                self.count("inexact_float")
            if cmp == "different":
                dis.append(Disagreement("back end bytes", {"input": c[0], "input_hex": hx(c[0]), "settings": c[1].describe(),
                                                          "entry": str(c[2])}, r["model"][:400], r["impl"][:400]))
        self.count("backend_cases", len(cases))
        return dis

    def oracle(self, cs, forced=None):
        lines = []
        setvals = {}
        for i, (t, _) in enumerate(cs):
            sw = i % 8
            styles = 1 if (sw & 2 or any(e[0] == "rule" for e in cs[i][1])) else 0
            tok = "b=%d,s=%d,d=%d" % (sw & 1, styles, (sw >> 2) & 1)
            if forced and i in forced:
                styles = 1
                tok = "b=1,s=1,d=1,%s=%s" % (forced[i][0], hx(forced[i][1]))
                setvals[i] = forced[i]
            elif i % 3 == 0:
                # the settings strings are input too: they are written into the style sheet
                key = self.rng.choice(["ff", "fill", "bg", "sc"])
                val = "".join(hostile_char(self.rng) for _ in range(self.rng.range(1, 8))).replace("\n", " ").replace("\r", " ")
                if self.rng.chance(1, 4):
                    val = self.rng.choice(["Fira & Code", "a<b", "white}</style><g><style>a{", "x]]>y", "'q'", '"dq"'])
                tok += ",%s=%s" % (key, hx(val))
                if styles:
                    setvals[i] = (key, val)
            lines.append("%dp settings %s %s" % (i, tok, hx(t)))
            lines.append("%dc compressed default %s" % (i, hx(t)))
        res = common.run_impl("lib", lines)
        fails = []
        # the verified recognizer (Spec/Xml.lean, theorem document_is_well_formed) on the implementation's bytes, and
        # on damaged copies of them next to expat (validates the recognizer: accepted => expat accepts)
        wf_lines, damaged = [], {}
        for k, r in res.items():
            if r.startswith("ok "):
                wf_lines.append("%s %s" % (k, r[3:]))
                if self.rng.chance(1, 4):
                    svg = unhx(r[3:])
                    if len(svg) > 10:
                        j = self.rng.below(len(svg))
                        m = self.rng.below(4)
                        d = svg[:j] + svg[j + 1:] if m == 0 else svg[:j] + self.rng.choice("<>&\"'/ =") + svg[j:] if m == 1 \
                            else svg[:j] + svg[j + 1:j + 2] + svg[j:j + 1] + svg[j + 2:] if m == 2 else svg[:j] + self.rng.choice("<>&\"x") + svg[j + 1:]
                        damaged["d" + k] = d
                        wf_lines.append("d%s %s" % (k, hx(d)))
        wf = common.run_model("xmlwf", wf_lines)
        for k, d in damaged.items():
            self.evaluations += 1
            try:
                svgcanon.parse(d)
                ok = True
            except svgcanon.ParseError:
                ok = False
            self.count("damaged_documents")
            if wf.get(k) == "1":
                self.count("damaged_still_wellformed")
                if not ok:
                    fails.append(Failure("the XML recognizer of the model accepts a document that expat rejects (machinery defect)",
                                         {"document_hex": hx(d)[:2000]}, cls="recognizer-unsound"))
        for i, (t, exp) in enumerate(cs):
            self.evaluations += 1
            if any(not xml_ok(ch) or ch in "<>&'" for ch in t):
                self.nontrivial.add(t)
            if i < 4:
                self.sample({"input": t, "expect": [list(e) for e in exp]})
            for suffix, entry in (("p", "settings"), ("c", "compressed")):
                r = res["%d%s" % (i, suffix)]
                case = {"input": t, "input_hex": hx(t), "entry": entry}
                if not r.startswith("ok "):
                    fails.append(Failure("conversion did not return", case, {"answer": r[:200]}))
                    break
                svg = unhx(r[3:])
                try:
                    root = svgcanon.parse(svg)
                except svgcanon.ParseError as e:
                    fails.append(Failure("output rejected by a conforming XML parser: %s" % e, case,
                                         {"output_tail": svg[-300:]}, cls="xml-not-wellformed"))
                    break
                if wf.get("%d%s" % (i, suffix)) != "1":
                    # expat accepts it, the model's recognizer (a subset of XML, proved to accept everything the model
                    # writes) does not: the implementation writes something the model cannot write. The property
                    # holds on this input; what broke is the tie between model and code.
                    if not hasattr(self, "late_disagreements"):
                        self.late_disagreements = []
                    if len(self.late_disagreements) < 20:
                        self.late_disagreements.append(Disagreement(
                            "output outside the XML subset of the verified recognizer (Spec/Xml.lean)", case,
                            "accepted by the recognizer", svg[-300:]))
                if root.tag != "svg" or root.attrs.get("xmlns") != SVG_NS:
                    fails.append(Failure("root is not svg in the SVG namespace", case))
                    break
                if not NUM.match(root.attrs.get("width", "")) or not NUM.match(root.attrs.get("height", "")):
                    fails.append(Failure("width/height are not decimal numbers", case, {"attrs": root.attrs}))
                    break
                texts = [e.text for e in all_texts(root)]
                bad = None
                if suffix == "p" and i in setvals:
                    st = [c for c in root.children if c.tag == "style"]
                    want = "".join(c for c in setvals[i][1] if xml_ok(c))
                    if len([c for c in root.children if c.tag == "style"]) != 1 or want not in st[0].text:
                        bad = ("a settings string (%s) is not read back from the style sheet" % setvals[i][0], want)
                    case = dict(case, settings_key=setvals[i][0], settings_val=setvals[i][1])
                for e in exp:
                    if e[0] == "quoted":
                        want = "".join(c for c in e[1] if xml_ok(c) and c != "\0")
                        if want not in texts and want != "":
                            bad = ("quoted text not read back", want)
                    elif e[0] == "label":
                        want = "".join(c for c in e[1] if xml_ok(c))
                        got = "".join(texts)
                        if not all(ch in got for ch in want):
                            bad = ("label characters not read back", want)
                    elif e[0] == "rule" and suffix == "p":
                        st = [c for c in root.children if c.tag == "style"]
                        want = ".svgbob .%s{ %s }" % (e[1], "".join(c for c in e[2] if xml_ok(c)))
                        # the property asks for literal read-back of *text elements*; in the style sheet
                        # an XML parser normalises line ends (CR, CRLF -> LF), which C17 relies on
                        want = want.replace("\r\n", "\n").replace("\r", "\n")
                        if not st or want not in st[0].text:
                            bad = ("legend rule not read back", want)
                if bad:
                    fails.append(Failure(bad[0], case, {"want": bad[1], "texts": texts[:8]}))
                    break
        return fails

    def search(self, boost=1):
        cs = self.cases(self.scale(1200, 20000) * boost)
        fails = self.oracle(cs)
        return fails

    def oracle_on_texts(self, texts):
        return self.oracle([(t, []) for t in texts])

    def replay_case(self, case):
        forced = {0: (case["settings_key"], case["settings_val"])} if "settings_key" in case else None
        return self.oracle([(case["input"], [])], forced=forced)

"""C14 — arrowheads, bullets and rounded corners sit and point where the text says."""
import math
import re
from fractions import Fraction as F

import backend
import common
import gen
import svgcanon
from common import hx, unhx
from runner import PropertyCheck, Failure, Disagreement

# direction of travel from the line towards its head/bullet: (dx, dy) in cells, line char
DIRS = {
    "right": (1, 0, "-"), "left": (-1, 0, "-"), "down": (0, 1, "|"), "up": (0, -1, "|"),
    "downright": (1, 1, "\\"), "upleft": (-1, -1, "\\"), "downleft": (-1, 1, "/"), "upright": (1, -1, "/"),
}
HEADS = {"right": ">", "left": "<", "down": "vV", "up": "^", "downright": "vV", "upleft": "^", "downleft": "vV", "upright": "^"}
GLYPH_HEADS = {"right": "▶►", "left": "◀◄", "down": "▼▾", "up": "▲▴"}


def draw_run(direction, length, end_char, k, n):
    """a line of `length` cells in `direction` ending in `end_char`; returns (text, cells of the line
    in travel order, cell of the end character)"""
    dx, dy, ch = DIRS[direction]
    # start so that everything has non-negative coordinates
    total = length + 1
    x0 = k + (0 if dx >= 0 else total - 1)
    y0 = n + (0 if dy >= 0 else total - 1)
    grid = {}
    cells = []
    for i in range(length):
        c = (x0 + dx * i, y0 + dy * i)
        grid[c] = ch
        cells.append(c)
    endc = (x0 + dx * length, y0 + dy * length)
    grid[endc] = end_char
    h = max(c[1] for c in grid) + 1
    rows = []
    for y in range(h):
        xs = [c[0] for c in grid if c[1] == y]
        row = [" "] * (max(xs) + 1 if xs else 0)
        for c, v in grid.items():
            if c[1] == y:
                row[c[0]] = v
        rows.append("".join(row))
    return "\n".join(rows), cells, endc


def cell_anchor(c, name):
    """svg coordinates (scale 8) of a named point of a cell"""
    px = {"centre": (4, 8)}
    return (8 * c[0] + px[name][0], 16 * c[1] + px[name][1])


def seg_cover(lines, a, b):
    """do the line elements (as (x1,y1,x2,y2)) cover the segment a-b? (all on one straight line)"""
    ax, ay = a
    bx, by = b
    L2 = (bx - ax) ** 2 + (by - ay) ** 2
    ivs = []
    for (x1, y1, x2, y2) in lines:
        # collinear with a-b ?
        if (bx - ax) * (y1 - ay) - (by - ay) * (x1 - ax) != 0 or (bx - ax) * (y2 - ay) - (by - ay) * (x2 - ax) != 0:
            continue
        t1 = F((x1 - ax) * (bx - ax) + (y1 - ay) * (by - ay), L2)
        t2 = F((x2 - ax) * (bx - ax) + (y2 - ay) * (by - ay), L2)
        ivs.append((min(t1, t2), max(t1, t2)))
    ivs.sort()
    reach = F(0)
    for lo, hi in ivs:
        if lo > reach:
            break
        reach = max(reach, hi)
    return reach >= 1


def arc_centre(x1, y1, x2, y2, r, large, sweep):
    x1, y1, x2, y2, r = map(float, (x1, y1, x2, y2, r))
    dx, dy = (x1 - x2) / 2, (y1 - y2) / 2
    d2 = dx * dx + dy * dy
    if d2 == 0 or r * r < d2 - 1e-9:
        return None
    co = math.sqrt(max(0.0, (r * r - d2) / d2))
    if large == sweep:
        co = -co
    cxp, cyp = co * dy, -co * dx
    return (cxp + (x1 + x2) / 2, cyp + (y1 + y2) / 2)


class Check(PropertyCheck):
    id = "C14"
    thorough_mult = 3
    lean_modules = ["Svgbob.Properties.C14"]
    assumptions = [
        "whole-pipeline model tied to the implementation end to end (bytes)",
        "arc centres on the implementation side computed in floating point by the oracle (tolerance 1e-6)",
    ]

    def rule(self):
        return ("lines of length 1..40 in 8 directions x arrow characters (> < ^ v V and triangle glyphs) x bullets (* o O at "
                "an end, at both ends, `*` in the middle of a horizontal line) x offsets; rounded outlines with a stub attached, sizes 1..30 x 1..15, corner styles . , ' `; "
                "non-trivial = every case, distinct by (kind, direction, length, char, offset)")

    def run_cases(self):
        L = self.scale(12, 40)
        out = []
        for d in DIRS:
            lens = list(range(1, 6)) + [self.rng.range(6, L) for _ in range(self.scale(2, 10))]
            for ln in lens:
                k, n = self.rng.below(self.scale(8, 60)), self.rng.below(self.scale(5, 30))
                for h in HEADS[d] + GLYPH_HEADS.get(d, ""):
                    out.append(("arrow", d, ln, h, k, n))
                for b in "*oO":
                    out.append(("bullet", d, ln, b, k, n))
        return out

    def corner_cases(self):
        out = []
        for _ in range(self.scale(40, 600)):
            w, h = self.rng.range(1, self.scale(12, 30)), self.rng.range(1, self.scale(6, 15))
            top = self.rng.choice([".", ","])
            bot = self.rng.choice(["'", "`"])
            out.append((w, h, top, bot, self.rng.below(20), self.rng.below(10)))
        return out

    @staticmethod
    def corner_text(w, h, top, bot, k, n):
        tl = top
        tr = "."
        bl = bot
        br = "'"
        rows = [tl + "-" * w + tr]
        for i in range(h):
            rows.append("|" + " " * w + "|" + ("--" if i == 0 else ""))
        rows.append(bl + "-" * w + br)
        return gen.place("\n".join(rows), k, n)

    def correspondence(self):
        dis = []
        texts = [draw_run(d, ln, ch, k, n)[0] for (_, d, ln, ch, k, n) in self.run_cases()[:: self.scale(3, 1)]]
        texts += [self.corner_text(*c) for c in self.corner_cases()[:: self.scale(2, 1)]]
        texts += [self.multi_bullet_text(*c)[0] for c in self.multi_bullet_cases()]
        cases = [(t, backend.Settings(b=False, s=False, d=False), "settings") for t in texts]
        res = backend.run_full(cases)
        for c, r in zip(cases, res):
            self.evaluations += 1
            cmp = backend.compare_outputs(r["impl"], r["model"])
            if cmp == "float":
                self.count("inexact_float")
            if cmp == "different":
                dis.append(Disagreement("L3 full pipeline bytes", {"input": c[0], "input_hex": hx(c[0])},
                                        str(backend.first_difference(r["impl"], r["model"]))[:600], ""))
        return dis

    def multi_bullet_cases(self):
        """lines with a bullet at each end (any direction) and horizontal lines through a `*`"""
        out = []
        for d in DIRS:
            for ln in [3, 4, self.rng.range(5, 12)]:
                for b1 in "*oO":
                    b2 = self.rng.choice("*oO")
                    out.append(("two", d, ln, b1, b2, self.rng.below(10), self.rng.below(5)))
        for ln in [2, 3, 5, 9]:
            for k in (0, self.rng.below(12)):
                out.append(("mid", "right", ln, "*", "*", k, self.rng.below(4)))
        # an arrow head at the far end of a line that ends in a bullet (both orders of appearance in the text)
        for d in DIRS:
            for ln in [2, 4, self.rng.range(5, 10)]:
                back = {"right": "<", "left": ">", "down": "^", "up": "v", "downright": "^", "upleft": "v",
                        "downleft": "^", "upright": "v"}[d]
                out.append(("arrowbullet", d, ln, self.rng.choice("*oO"), back, self.rng.below(10), self.rng.below(5)))
        # a sloped bullet line whose bounding box holds a `{tag}` (the line takes the tag as a class and keeps its marker)
        for d in ("downright", "upleft", "downleft", "upright"):
            for ln in [6, 7, self.rng.range(8, 12)]:
                out.append(("tagged", d, ln, self.rng.choice("*oO"), self.rng.choice(["{a}", "{b1}", "{a,w}"]),
                            self.rng.below(10), self.rng.below(5)))
        return out

    @staticmethod
    def multi_bullet_text(kind, d, ln, b1, b2, k, n):
        """returns (text, [(cell, bullet char)])"""
        if kind == "tagged":
            t, cells, endc = draw_run(d, ln + 1, b1, k, n)
            rows = t.split("\n")
            allc = cells + [endc]
            xs = [c[0] for c in allc]
            # a row strictly inside the run; the tag goes on the side where the box of the line has free cells
            c = cells[len(cells) // 2 + 1] if len(cells) > 3 else cells[1]
            row = rows[c[1]]
            left_room = c[0] - min(xs)
            right_room = max(xs) - c[0]
            tag = b2
            if right_room >= len(tag) + 2:
                row = row.ljust(c[0] + 2) + tag
            elif left_room >= len(tag) + 2:
                row = row[: c[0] - 1 - len(tag)].ljust(c[0] - 1 - len(tag)) + tag + row[c[0] - 1:]
            rows[c[1]] = row
            return "\n".join(rows) + "\n\n# Legend:\na = {stroke:red}\n", [(endc, b1)]
        if kind in ("two", "arrowbullet"):
            t, cells, endc = draw_run(d, ln + 1, b1, k, n)
            rows = [list(r) for r in t.split("\n")]
            rows[cells[0][1]][cells[0][0]] = b2
            return "\n".join("".join(r) for r in rows), ([(endc, b1), (cells[0], b2)] if kind == "two" else [(endc, b1)])
        row = " " * k + "-" * ln + "*" + "-" * ln
        return "\n" * n + row, [((k + ln, n), "*")]

    def oracle_multi_bullets(self, cases):
        """every bullet on a line carries its marker on a line ending in the centre of its cell; no bullet is left as
        a bare circle or as text"""
        fails = []
        built = [self.multi_bullet_text(*c) for c in cases]
        res = common.run_impl("lib", ["%d settings b=0,s=0,d=0 %s" % (i, hx(b[0])) for i, b in enumerate(built)])
        for i, c in enumerate(cases):
            self.evaluations += 1
            t, bullets = built[i]
            self.nontrivial.add(("multi",) + tuple(c))
            case = {"input": t, "input_hex": hx(t), "kind": "multi", "case": list(c)}
            r = res[str(i)]
            if not r.startswith("ok "):
                fails.append(Failure("conversion did not return", case))
                continue
            try:
                root = svgcanon.parse(unhx(r[3:]))
            except svgcanon.ParseError:
                continue
            els = [e for _, e in svgcanon.flat_geometry(root)]
            if c[0] == "arrowbullet":
                polys = [e for e in els if e.tag == "polygon"]
                if len(polys) != 1 or "filled" not in polys[0].attrs.get("class", "").split() or len(polys[0].attrs.get("points", "").split()) != 3:
                    fails.append(Failure("the arrow head at the other end of a bullet line is not one filled triangle", case,
                                         {"elements": [(e.tag, e.attrs, e.text) for e in els][:6]}))
                    continue
            if any(e.tag == "text" for e in els) or any(e.tag == "circle" for e in els):
                fails.append(Failure("a bullet on a line is left as a bare circle or as text", case,
                                     {"elements": [(e.tag, e.attrs, e.text) for e in els][:6]}))
                continue
            for (cell, ch) in bullets:
                want = {"*": "circle", "o": "open_circle", "O": "big_open_circle"}[ch]
                centre = cell_anchor(cell, "centre")
                hit = 0
                for e in els:
                    if e.tag != "line":
                        continue
                    cl = e.attrs.get("class", "").split()
                    if ("end_marked_" + want) in cl and (F(e.attrs["x2"]), F(e.attrs["y2"])) == centre:
                        hit += 1
                    if ("start_marked_" + want) in cl and (F(e.attrs["x1"]), F(e.attrs["y1"])) == centre:
                        hit += 1
                if hit < 1:
                    fails.append(Failure("bullet %r has no %s marker on a line ending in the centre of its cell" % (ch, want), case,
                                         {"centre": centre, "lines": [(e.attrs.get("class"), e.attrs.get("x1"), e.attrs.get("y1"), e.attrs.get("x2"), e.attrs.get("y2")) for e in els if e.tag == "line"][:6]}))
                    break
        return fails

    def oracle_trees(self, n):
        """trunks with branches: every arrow head that ends a line is one polygon, none is left as text or drawn twice"""
        fails = []
        trees = [gen.tree(self.rng) for _ in range(n)]
        trees = [(gen.place(t, self.rng.below(6), self.rng.below(3)), a) for t, a in trees]
        res = common.run_impl("lib", ["%d settings b=0,s=0,d=0 %s" % (i, hx(t)) for i, (t, a) in enumerate(trees)])
        for i, (t, arrows) in enumerate(trees):
            self.evaluations += 1
            self.nontrivial.add(("tree", t))
            case = {"input": t, "input_hex": hx(t), "kind": "tree", "arrows": arrows}
            r = res[str(i)]
            if not r.startswith("ok "):
                fails.append(Failure("conversion did not return", case))
                continue
            try:
                root = svgcanon.parse(unhx(r[3:]))
            except svgcanon.ParseError:
                continue
            els = [e for _, e in svgcanon.flat_geometry(root)]
            polys = [e for e in els if e.tag == "polygon"]
            stray = [e.text for e in els if e.tag == "text" and e.text.strip() in (">", "<", "v", "V", "^")]
            if len(polys) != arrows or stray:
                fails.append(Failure("a drawing with %d arrow heads has %d polygons and %d arrow characters left as text" % (arrows, len(polys), len(stray)),
                                     case, {"polygons": [p.attrs.get("points") for p in polys][:6]}))
        return fails

    def oracle_runs(self, cases):
        fails = []
        built = [draw_run(d, ln, ch, k, n) for (_, d, ln, ch, k, n) in cases]
        res = common.run_impl("lib", ["%d settings b=0,s=0,d=0 %s" % (i, hx(b[0])) for i, b in enumerate(built)])
        for i, (kind, d, ln, ch, k, n) in enumerate(cases):
            self.evaluations += 1
            t, cells, endc = built[i]
            self.nontrivial.add((kind, d, ln, ch, k, n))
            case = {"input": t, "input_hex": hx(t), "kind": kind, "dir": d, "len": ln, "char": ch, "k": k, "n": n}
            r = res[str(i)]
            if not r.startswith("ok "):
                fails.append(Failure("conversion did not return", case))
                continue
            try:
                root = svgcanon.parse(unhx(r[3:]))
            except svgcanon.ParseError:
                continue
            els = [e for _, e in svgcanon.flat_geometry(root)]
            lines = [(F(e.attrs["x1"]), F(e.attrs["y1"]), F(e.attrs["x2"]), F(e.attrs["y2"])) for e in els if e.tag == "line"]
            dx, dy, _ = DIRS[d]
            ux, uy = 8 * dx, 16 * dy                       # direction of travel in svg units
            far = cell_anchor(cells[0], "centre")
            far = (far[0] - ux // 2, far[1] - uy // 2)       # the far end of the first line cell
            if i < 2:
                self.sample({"input": t, "kind": kind})
            if kind == "arrow":
                polys = [e for e in els if e.tag == "polygon"]
                texts = [e for e in els if e.tag == "text"]
                if len(polys) != 1 or texts:
                    fails.append(Failure("arrowhead %r (%s) is not one polygon" % (ch, d), case,
                                         {"elements": [(e.tag, e.attrs, e.text) for e in els][:6]}))
                    continue
                p = polys[0]
                pts = [tuple(F(v) for v in q.split(",")) for q in p.attrs["points"].split()]
                if "filled" not in p.attrs.get("class", "").split() or len(pts) != 3:
                    fails.append(Failure("arrowhead is not a filled triangle", case, {"attrs": p.attrs}))
                    continue
                # tip = the vertex farthest along the direction of travel
                proj = [q[0] * ux + q[1] * uy for q in pts]
                tip = pts[proj.index(max(proj))]
                base = [q for q in pts if q != tip]
                # the axis of the line: through `far` with direction (ux, uy)
                side = lambda q: (q[0] - far[0]) * uy - (q[1] - far[1]) * ux
                line_end = max((q for l in lines for q in ((l[0], l[1]), (l[2], l[3]))),
                               key=lambda q: q[0] * ux + q[1] * uy, default=None)
                if side(tip) != 0:
                    fails.append(Failure("the tip of the arrowhead is not on the line's axis", case,
                                         {"points": p.attrs["points"], "axis_through": [str(v) for v in far]}))
                elif len(base) != 2 or side(base[0]) * side(base[1]) >= 0:
                    fails.append(Failure("the base of the arrowhead does not straddle the axis", case,
                                         {"points": p.attrs["points"]}))
                elif line_end is None or tip[0] * ux + tip[1] * uy < line_end[0] * ux + line_end[1] * uy:
                    fails.append(Failure("the tip does not lie beyond the end of the line", case,
                                         {"points": p.attrs["points"], "line_end": [str(v) for v in (line_end or ())]}))
                elif not seg_cover(lines, far, line_end):
                    fails.append(Failure("the line towards the arrowhead has a gap", case))
            else:
                want = {"*": "circle", "o": "open_circle", "O": "big_open_circle"}[ch]
                marked = [e for e in els if e.tag == "line" and any(c.endswith("_marked_" + want) for c in e.attrs.get("class", "").split())]
                texts = [e for e in els if e.tag == "text"]
                centre = cell_anchor(endc, "centre")
                if texts or len(marked) != 1:
                    fails.append(Failure("bullet %r (%s) is not one %s marker on a line" % (ch, d, want), case,
                                         {"elements": [(e.tag, e.attrs, e.text) for e in els][:6]}))
                    continue
                m = marked[0]
                cl = m.attrs["class"].split()
                mend = (F(m.attrs["x2"]), F(m.attrs["y2"])) if ("end_marked_" + want) in cl else (F(m.attrs["x1"]), F(m.attrs["y1"]))
                if mend != centre:
                    fails.append(Failure("the marked end is not the centre of the bullet's cell", case,
                                         {"marked_end": [str(v) for v in mend], "centre": centre}))
                elif not seg_cover(lines, far, centre):
                    fails.append(Failure("the line does not reach the bullet: a piece between the line and the bullet's centre is missing",
                                         case, {"lines": [[str(v) for v in l] for l in lines]}))
        return fails

    def oracle_corners(self, cases):
        fails = []
        texts = [self.corner_text(*c) for c in cases]
        res = common.run_impl("lib", ["%d settings b=0,s=0,d=0 %s" % (i, hx(t)) for i, t in enumerate(texts)])
        for i, c in enumerate(cases):
            self.evaluations += 1
            t = texts[i]
            self.nontrivial.add(("corner",) + tuple(c))
            case = {"input": t, "input_hex": hx(t), "kind": "corner", "params": list(c)}
            r = res[str(i)]
            if not r.startswith("ok "):
                fails.append(Failure("conversion did not return", case))
                continue
            try:
                root = svgcanon.parse(unhx(r[3:]))
            except svgcanon.ParseError:
                continue
            els = [e for _, e in svgcanon.flat_geometry(root)]
            arcs = [e for e in els if e.tag == "path"]
            ends = set()
            for e in els:
                if e.tag == "line":
                    ends.add((F(e.attrs["x1"]), F(e.attrs["y1"])))
                    ends.add((F(e.attrs["x2"]), F(e.attrs["y2"])))
            w, h, top, bot, k, n = c
            x0, x1, y0, y1 = 8 * k, 8 * (k + w + 2), 16 * n, 16 * (n + h + 2)
            if len(arcs) != 4:
                fails.append(Failure("rounded outline does not have four corner arcs", case, {"paths": [e.attrs for e in arcs]}))
                continue
            for e in arcs:
                nums = re.findall(r"-?[0-9]+(?:\.[0-9]+)?", e.attrs["d"])
                sx, sy, rr, _, _, large, sweep, ex, ey = nums
                if (F(sx), F(sy)) not in ends or (F(ex), F(ey)) not in ends:
                    fails.append(Failure("an arc endpoint does not coincide with the end of an adjoining line", case,
                                         {"d": e.attrs["d"]}))
                    break
                ctr = arc_centre(sx, sy, ex, ey, rr, int(large), int(sweep))
                if ctr is None or not (x0 + 1e-6 < ctr[0] < x1 - 1e-6 and y0 + 1e-6 < ctr[1] < y1 - 1e-6):
                    fails.append(Failure("the centre of a corner arc is not on the inner side", case,
                                         {"d": e.attrs["d"], "centre": ctr, "box": [x0, y0, x1, y1]}))
                    break
        return fails

    def oracle_hooks(self):
        """open outlines with two rounded corners (a long rule, a trunk down from its left end, an arm at the bottom), from a
        few cells to more than 512 cells in one connected group, with and without ticks at the far end of the rule: no
        corner character may come out as text, there are exactly two corner arcs, and both ends of each arc are ends of lines"""
        fails = []
        texts = []
        for L in (8, 40, 200, 515, 530, 700):
            for ticks in (False, True):
                for left_arm in (True, False):
                    texts.append(gen.wide_frame(self.rng, L, ticks, left_arm))
        res = common.run_impl("lib", ["%d settings b=0,s=0,d=0 %s" % (i, hx(t)) for i, t in enumerate(texts)])
        for i, t in enumerate(texts):
            self.evaluations += 1
            self.nontrivial.add(("hook", i))
            case = {"input": t, "input_hex": hx(t), "kind": "hook"}
            r = res[str(i)]
            if not r.startswith("ok "):
                fails.append(Failure("conversion did not return", case))
                continue
            try:
                root = svgcanon.parse(unhx(r[3:]))
            except svgcanon.ParseError:
                continue
            els = [e for _, e in svgcanon.flat_geometry(root)]
            shown = [e.text for e in els if e.tag == "text"]
            if any(set(x) <= set(".,'`") for x in shown):
                fails.append(Failure("a corner character of an outline is shown as text", case, {"texts": shown[:5]}))
                continue
            arcs = [e for e in els if e.tag == "path"]
            if len(arcs) != 2:
                fails.append(Failure("an outline with two rounded corners does not have two corner arcs", case,
                                     {"paths": [e.attrs for e in arcs][:4]}))
                continue
            ends = set()
            for e in els:
                if e.tag == "line":
                    ends.add((F(e.attrs["x1"]), F(e.attrs["y1"])))
                    ends.add((F(e.attrs["x2"]), F(e.attrs["y2"])))
            for e in arcs:
                nums = re.findall(r"-?[0-9]+(?:\.[0-9]+)?", e.attrs["d"])
                sx, sy, rr, _, _, large, sweep, ex, ey = nums
                if (F(sx), F(sy)) not in ends or (F(ex), F(ey)) not in ends:
                    fails.append(Failure("an arc endpoint does not coincide with the end of an adjoining line", case,
                                         {"d": e.attrs["d"]}))
                    break
        return fails

    def search(self, boost=1):
        fails = self.oracle_runs(self.run_cases())
        fails += self.oracle_hooks()
        fails += self.oracle_corners(self.corner_cases())
        fails += self.oracle_multi_bullets(self.multi_bullet_cases())
        fails += self.oracle_trees(self.scale(150, 2500))
        return fails

    def replay_case(self, case):
        if case.get("kind") in ("tree", "hook"):
            return []
        if case.get("kind") == "multi":
            return self.oracle_multi_bullets([tuple(case["case"])])
        if case.get("kind") == "corner":
            return self.oracle_corners([tuple(case["params"])])
        return self.oracle_runs([(case["kind"], case["dir"], case["len"], case["char"], case["k"], case["n"])])

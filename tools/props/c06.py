"""C06 — moving a drawing on the page only translates its rendering."""
from fractions import Fraction as F

import backend
import common
import gen
import relational
import svgcanon
from common import hx, unhx
from runner import PropertyCheck, Failure, Disagreement


class Check(PropertyCheck):
    id = "C06"
    lean_modules = ["Svgbob.Properties.C06"]
    assumptions = [
        "whole-pipeline model tied to the implementation end to end (bytes), also at large offsets",
        "f32 absolute-coordinate effects of the implementation (parry point-on-segment tolerance, arc centre "
        "compared with ==) are outside the exact model; they would show up as model/implementation disagreements "
        "at large offsets",
    ]

    def rule(self):
        return ("legend-free inputs (random grids over the full alphabet incl. glyphs, bundled blocks, boxes, rounded "
                "boxes, circles, diagonals) x offsets k in 0..400, n in 0..200; oracle: svg(shifted) = svg(original) "
                "translated by (k, n) cells as element lists in document order, canvas grown by (k, n); non-trivial = "
                "non-empty drawing and (k, n) != (0, 0), distinct by (input, k, n)")

    def texts(self, n):
        out = ["+--+\n|ab|\n+--+", ".--.\n|  |\n'--'", " .-.\n(   )\n `-'", "\\\n \\\n  \\", "*-->", "/\n", "a一b -"]
        out += [gen.random_diagram(self.rng, 22, 8).split("# Legend:")[0] for _ in range(n)]
        out += gen.bundled_blocks()[: max(10, n // 10)]
        # a hard tab is one blank column wherever it stands
        out += ["\t+--+\n\t|  |\n\t+--+", "+--+\t+--+\n|  |\t|  |\n+--+\t+--+", "a\tb -\t-"]
        for _ in range(max(3, n // 15)):
            t = gen.random_diagram(self.rng, 18, 5).split("# Legend:")[0]
            cs = list(t)
            for _j in range(self.rng.range(1, 3)):
                pos = [i for i, c in enumerate(cs) if c == " "]
                if pos:
                    cs[self.rng.choice(pos)] = "\t"
            out.append("".join(cs))
        out += [gen.zoo(self.rng, legend=False, quotes=False) for _ in range(max(5, n // 3))]   # quoted texts are outside the canvas computation (known finding of C12)
        # quoted labels (also opening in the first column); a drawing made of quoted texts only keeps the minimal
        # canvas wherever it is (known finding of C12), so only drawings with at least one drawn cell are moved
        import props.c15 as c15
        q = ['"a|b-+"\n------', '"x" |\n"-" +--', '+--+\n|"q"|\n+--+', '"一" -']
        q += [gen.zoo(self.rng, legend=False) for _ in range(max(5, n // 4))]
        for t in q:
            if '"' in t and c15.blank_text(t, {})[0].strip():
                out.append(t)
        # texts whose only line ends are bare carriage returns (classic Mac files): `str::lines` does not split there, so
        # the text is one row wherever it is put
        for t in list(out[:8]) + [gen.zoo(self.rng, legend=False, quotes=False) for _ in range(max(3, n // 20))]:
            if "\n" in t and "\r" not in t:
                out.append(t.replace("\n", "\r"))
        return [t for t in out if "# Legend:" not in t]

    def offsets(self):
        r = self.rng.below(4)
        if r == 0:
            return self.rng.below(5), self.rng.below(5)
        if r == 1:
            return self.rng.below(60), self.rng.below(40)
        return self.rng.below(401), self.rng.below(201)

    def correspondence(self):
        dis = []
        cases = []
        for t in self.texts(self.scale(150, 2500)):
            k, n = self.offsets()
            cases.append((gen.place(t, k, n), backend.Settings(b=False, s=False, d=False), "settings"))
        res = backend.run_full(cases)
        for c, r in zip(cases, res):
            self.evaluations += 1
            cmp = backend.compare_outputs(r["impl"], r["model"])
            if cmp == "float":
                self.count("inexact_float")
            if cmp == "different":
                dis.append(Disagreement("L3 full pipeline bytes", {"input": c[0], "input_hex": hx(c[0])},
                                        str(backend.first_difference(r["impl"], r["model"]))[:600], ""))
        return dis

    def oracle(self, items):
        """items: list of (text, k, n)"""
        fails = []
        lines = []
        for i, (t, k, n) in enumerate(items):
            lines.append("%da settings b=0,s=0,d=0 %s" % (i, hx(t)))
            lines.append("%db settings b=0,s=0,d=0 %s" % (i, hx(gen.place(t, k, n))))
        res = common.run_impl("lib", lines)
        for i, (t, k, n) in enumerate(items):
            self.evaluations += 1
            case = {"input": t, "input_hex": hx(t), "k": k, "n": n}
            ra, rb = res["%da" % i], res["%db" % i]
            if not ra.startswith("ok ") or not rb.startswith("ok "):
                fails.append(Failure("conversion did not return", case))
                continue
            try:
                A = svgcanon.parse(unhx(ra[3:]))
                B = svgcanon.parse(unhx(rb[3:]))
            except svgcanon.ParseError:
                continue
            fx = lambda v: v + 8 * k
            fy = lambda v: v + 16 * n
            ident = lambda v: v
            ca = relational.canon_elems(A, fx, fy, ident, with_group=True)
            cb = relational.canon_elems(B, ident, ident, ident, with_group=True)
            empty = len(ca) == 0
            if not empty and (k, n) != (0, 0):
                self.nontrivial.add((t, k, n))
            if i < 3:
                self.sample({"input": t, "k": k, "n": n})
            if not empty and (F(A.attrs["width"]) + 8 * k != F(B.attrs["width"]) or F(A.attrs["height"]) + 16 * n != F(B.attrs["height"])):
                fails.append(Failure("canvas does not grow by the offset", case,
                                     {"a": [A.attrs["width"], A.attrs["height"]], "b": [B.attrs["width"], B.attrs["height"]]}))
            elif not relational.same_multiset(ca, cb):
                fails.append(Failure("shifted rendering is not the translated rendering", case, relational.describe_diff(ca, cb)))
        return fails

    def search(self, boost=1):
        items = []
        for t in self.texts(self.scale(700, 12000) * boost):
            k, n = self.offsets()
            items.append((t, k, n))
        fails = self.oracle(items)
        return fails

    def oracle_on_texts(self, texts):
        import props.c15 as c15
        ts = [t for t in texts if "# Legend:" not in t and c15.blank_text(t, {})[0].strip()]
        return self.oracle([(t, 1, 0) for t in ts] + [(t, 3, 2) for t in ts])

    def replay_case(self, case):
        return self.oracle([(case["input"], case["k"], case["n"])])

"""C04 — every non-drawing character appears exactly once, as text, in its own cell."""
import os
import re
from fractions import Fraction as F

import backend
import common
import gen
import svgcanon
from common import hx, unhx
from props.c15 import cols, blank_text, gen_row
from runner import PropertyCheck, Failure, Disagreement


def xml_ok(c):
    n = ord(c)
    return n in (9, 10, 13) or 0x20 <= n <= 0xD7FF or 0xE000 <= n <= 0xFFFD or 0x10000 <= n <= 0x10FFFF


def drawing_chars():
    """characters that have a property (ASCII table or glyph table), read from the generated tables"""
    out = set()
    gdir = os.path.join(common.LEAN, "Svgbob", "Gen")
    for fn, pat in (("AsciiTable.lean", r"ch := '((?:\\.|[^'\\]))'"), ("UnicodeTable.lean", r"^\s*\('((?:\\.|[^'\\]))',")):
        src = open(os.path.join(gdir, fn), encoding="utf-8").read()
        for m in re.finditer(pat, src, re.M):
            c = m.group(1)
            out.add({"\\'": "'", "\\\\": "\\"}.get(c, c))
    return out


LABELS = "abcdefghijklmnpqrstuwyzABCDEFGHIJKLMNPQRSTUWYZ0123456789?@$%;&"


def overlap_text(rng):
    """a label that lies inside the bounding boxes of two shapes that do not contain one another: between two long
    diagonals, or in the corner of a box passed by a diagonal"""
    lab = rng.choice(["a", "ab", "xy z"])
    if rng.chance(1, 2):
        h = rng.range(4, 7)
        gap = len(lab) + rng.range(0, 2)
        rows = [" " * (h - 1 - i) + "/" + " " * gap + "/" for i in range(h)]
        i = rng.range(1, h - 2)
        rows[i] = " " * (h - 1 - i) + "/" + (lab + " " * gap)[:gap] + "/"
        return "\n".join(rows)
    w = len(lab) + rng.range(2, 4)
    h = rng.range(2, 3)
    b = gen.box(w, h, inner=[""] * (h - 1) + [" " * (w - len(lab)) + lab]).split("\n")
    n = len(b) + rng.range(2, 4)
    out = []
    for i in range(n):
        base = b[i] if i < len(b) else ""
        col = w + 2 + (n - i)
        out.append(base.ljust(col) + ("/" if i >= 1 else ""))
    return "\n".join(x.rstrip() for x in out)


def gen_text(rng, draw):
    if rng.chance(1, 12):
        return overlap_text(rng)
    rows = []
    for _ in range(rng.range(1, 4)):
        kind = rng.below(4)
        n = rng.range(1, 14)
        if kind == 0:
            alphabet = LABELS + "   "
        elif kind == 1:
            alphabet = "aé一 -b́" + "  "
        elif kind == 2:
            alphabet = LABELS + gen.LATIN1 + gen.CYR + gen.CJK + "    -|+"
        else:
            alphabet = "ab -|+/\\.'" + "  "
        rows.append("".join(rng.choice(alphabet) for _ in range(n)).rstrip())
    if rng.chance(1, 3):
        rows.append("-" * rng.range(1, 14))
    if rng.chance(1, 5):
        # a row with quoted regions (their content is text whatever it is made of; `\"` stays verbatim)
        rows.insert(rng.below(len(rows) + 1), gen_row(rng, 2).replace("{", "(").replace("}", ")"))
    return "\n".join(rows)


class Check(PropertyCheck):
    id = "C04"
    thorough_mult = 3
    lean_modules = ["Svgbob.Properties.C04"]
    assumptions = [
        "whole-pipeline model tied to the implementation end to end (bytes)",
        "display widths (unicode-width) supplied by the real crate per case",
        "inputs of the oracle carry no braces or legend (those channels are C16); quoted regions are read the way "
        "escape_line reads them (C15)",
    ]

    def rule(self):
        return ("rows mixing label characters (ASCII, Latin-1, Cyrillic, double-width CJK, combining) with spaces and "
                "drawing characters, stacked so that separate runs share a span; exhaustive rows up to length 5 (quick: 4) "
                "over {a, é, 一, U+0301, space, -}; non-trivial = at least one non-drawing character, distinct by input")

    def texts(self, n, draw):
        out = ["é b\n---", "一b", "a一 b", "ab cd", "é\n-"]
        alpha = ["a", "é", "一", "́", " ", "-"]
        L = self.scale(4, 5)
        import itertools
        for k in range(1, L + 1):
            for tup in itertools.product(alpha, repeat=k):
                s = "".join(tup)
                if s.strip():
                    out.append(s + "\n" + "-" * k)
        out += [gen_text(self.rng, draw) for _ in range(n)]
        # Unicode blanks and separators between label characters: they are blanks of one column, not line breaks
        for _ in range(max(20, n // 10)):
            k = self.rng.range(2, 8)
            row = "".join(self.rng.choice("ab" + gen.UNI_SPACES + " ") for _ in range(k)).strip()
            if row:
                out.append(row + "\n" + self.rng.choice(["", "cd", "---", " x"]))
        out += [gen.zoo(self.rng, legend=False, tags=False) for _ in range(n // 5)]
        return out

    def correspondence(self):
        dis = []
        draw = drawing_chars()
        ts = self.texts(self.scale(300, 5000), draw)
        if self.tier == "quick":
            ts = ts[:5] + ts[5::7]
        cases = [(t, backend.Settings(b=False, s=False, d=False), "settings") for t in ts]
        res = backend.run_full(cases)
        for c, r in zip(cases, res):
            self.evaluations += 1
            cmp = backend.compare_outputs(r["impl"], r["model"])
            if cmp == "float":
                self.count("inexact_float")
            if cmp == "different":
                dis.append(Disagreement("L3 full pipeline bytes", {"input": c[0], "input_hex": hx(c[0])},
                                        str(backend.first_difference(r["impl"], r["model"]))[:600], ""))
        return dis

    def oracle(self, texts, draw=None):
        draw = draw or drawing_chars()
        fails = []
        envs = common.env_tables(texts)
        # at several scales: the anchor of a text is a point of its cell at every scale
        scales = [self.rng.choice([8.0, 8.0, 1.0, 0.25, 2.5, 10.0, 0.5, 3.0]) for _ in texts]
        res = common.run_impl("lib", ["%d settings scale=%s,b=0,s=0,d=0 %s" % (i, backend.f32bits(scales[i]), hx(t))
                                      for i, t in enumerate(texts)])
        for i, t in enumerate(texts):
            self.evaluations += 1
            case = {"input": t, "input_hex": hx(t), "scale": scales[i]}
            sc = F(scales[i])
            r = res[str(i)]
            if not r.startswith("ok "):
                fails.append(Failure("conversion did not return", case))
                continue
            try:
                root = svgcanon.parse(unhx(r[3:]))
            except svgcanon.ParseError:
                continue
            wd = {}
            ws = {}
            for e in envs[i][4:].split(","):
                cp, w, isws, _ = e.split(":")
                wd[int(cp)] = (int(w), isws == "1")
                ws[int(cp)] = isws == "1"
            # column map of the input
            grid = {}
            for y, row in enumerate(t.split("\n")):
                col = 0
                for ch in row:
                    grid[(col, y)] = ch
                    col += cols(ch, wd)
            # quoted regions: one text element anchored at the opening quote, showing the characters after it
            openq = {}
            inside = set()
            quotes = set()
            for (qc, qy, content) in blank_text(t, wd)[1]:
                openq[(qc, qy)] = content
                quotes.add((qc, qy))
                c2 = qc + 1
                for ch in content:
                    inside.add((c2, qy))
                    c2 += cols(ch, wd)
                quotes.add((c2, qy))
            # characters XML cannot represent are dropped from text (C02): they cannot be "shown"
            must = set(k for k, ch in grid.items() if k not in quotes and ch != "\0" and not ws.get(ord(ch), False)
                       and xml_ok(ch) and (k in inside or ch not in draw))
            if must:
                self.nontrivial.add(t)
            if i < 3:
                self.sample({"input": t})
            cover = {}
            bad = None
            for ing, e in svgcanon.flat_geometry(root):
                if e.tag != "text":
                    continue
                x, y = F(e.attrs["x"]), F(e.attrs["y"])
                cx, cy = x / sc - F(1, 4), (y / sc - F(3, 2)) / 2
                if cx.denominator != 1 or cy.denominator != 1:
                    # far from the origin an f32 no longer holds the anchor exactly (column 300 001 at scale 0.25 is
                    # 75000.3125, printed 75000.31): accept the cell whose anchor is within two units in the last place
                    rx, ry = round(cx), round(cy)
                    tol_x = (abs(x) / (1 << 22)) / sc
                    tol_y = (abs(y) / (1 << 22)) / sc / 2
                    if abs(cx - rx) <= tol_x and abs(cy - ry) <= tol_y and tol_x < F(1, 8) and tol_y < F(1, 8):
                        self.count("anchor_rounded_in_f32")
                        cx, cy = F(rx), F(ry)
                    else:
                        bad = ("text is not anchored at the anchor point of a cell", e)
                        break
                col = int(cx)
                if (col, int(cy)) in openq:
                    if e.text != openq[(col, int(cy))]:
                        bad = ("quoted text shows %r where the input has %r" % (e.text, openq[(col, int(cy))]), e)
                        break
                    col += 1
                for ch in e.text:
                    while (col, int(cy)) in grid and not xml_ok(grid[(col, int(cy))]) and grid[(col, int(cy))] != ch:
                        col += cols(grid[(col, int(cy))], wd)      # a dropped character inside the label
                    if grid.get((col, int(cy))) != ch:
                        bad = ("text shows %r where the input has %r at column %d" % (ch, grid.get((col, int(cy))), col), e)
                        break
                    cover[(col, int(cy))] = cover.get((col, int(cy)), 0) + 1
                    col += cols(ch, wd)
                if bad:
                    break
            if not bad:
                twice = [k for k, v in cover.items() if v > 1]
                missing = [k for k in must if cover.get(k, 0) == 0]
                if twice:
                    bad = ("a character is shown by more than one text element", None)
                elif missing:
                    bad = ("non-drawing character %r at %s is not shown" % (grid[missing[0]], missing[0]), None)
            if bad:
                fails.append(Failure(bad[0], case, {"element": (bad[1].attrs if bad[1] is not None else None),
                                                    "text": (bad[1].text if bad[1] is not None else None)}))
        return fails

    def search(self, boost=1):
        draw = drawing_chars()
        fails = self.oracle(self.texts(self.scale(1500, 25000) * boost, draw), draw)
        return fails

    def oracle_on_texts(self, texts):
        return self.oracle([t for t in texts if "{" not in t and "# Legend:" not in t])

    def replay_case(self, case):
        return self.oracle([case["input"]])
